#!/usr/bin/env python3
"""Regenerates the generated part of DESIGN.md (between the GENERATED markers) from evidence/*.json,
selftest_results.json, known_findings.json and seeded/*/meta.json."""
import glob
import json
import os
import re

VERIF = os.path.dirname(os.path.dirname(os.path.abspath(__file__)))


def load(p, d=None):
    try:
        return json.load(open(p))
    except Exception:
        return d


def main():
    props = [json.loads(l) for l in open(os.path.join(VERIF, "properties.jsonl")) if l.strip()]
    known = load(os.path.join(VERIF, "known_findings.json"), {"findings": [], "fixed": []})
    st = load(os.path.join(VERIF, "selftest_results.json"), [])
    # drop results of patches that no longer exist (moved to equivalent/ or seeded_rejected/)
    st = [r for r in st if os.path.exists(os.path.join(VERIF, r["patch"])) or os.path.exists(os.path.join(VERIF, r["patch"], "patch.diff"))]
    json.dump(st, open(os.path.join(VERIF, "selftest_results.json"), "w"), indent=1)
    out = []
    out.append("### 10.1 Per-property summary (last run of each check on /repo; mutants and seeded changes from `bin/selftest`)\n")
    out.append("| prop | tier | cases | class keys | comparisons | wall s | repaired defects (`fix:` commits) | known findings | own mutants killed | seeded changes killed |")
    out.append("|---|---|---|---|---|---|---|---|---|---|")
    for p in props:
        pid = p["id"]
        ev = load(os.path.join(VERIF, "evidence", pid + ".json"))
        nfix = sum(1 for f in known.get("fixed", []) if f["property"] == pid)
        nk = sum(1 for f in known.get("findings", []) if f["property"] == pid)
        mut = [r for r in st if r["property"] == pid and r["patch"].startswith("mutants/")]
        sed = [r for r in st if r["property"] == pid and r["patch"].startswith("seeded/")]
        mk = "%d/%d" % (sum(1 for r in mut if r["result"] == "KILLED"), len(mut)) if mut else "-"
        sk = "%d/%d" % (sum(1 for r in sed if r["result"] == "KILLED"), len(sed)) if sed else "-"
        if ev:
            c = ev["coverage"]
            out.append("| %s | %s | %d | %d | %d | %.0f | %d | %d | %s | %s |" % (
                pid, ev["tier"], c.get("evaluations", 0), c.get("distinct_nontrivial", 0),
                sum(c.get("comparisons_per_clause", {}).values()), ev.get("wall_s", 0), nfix, nk, mk, sk))
        else:
            out.append("| %s | - | - | - | - | - | %d | %d | %s | %s |" % (pid, nfix, nk, mk, sk))
    out.append("")
    out.append("### 10.2 Independently written breaking changes (`seeded/`) and the clause that caught them\n")
    out.append("Each change was written by a fresh sub-agent that saw only the property text; it compiles, passes the 20 repository tests, and its own demonstration fails with it and passes without it (`bin/seedconfirm`).  `bin/selftest --seeded-only` applies it to a scratch worktree and runs the property's quick check.\n")
    out.append("| id | what the change needs in order to manifest (from its README) | result | first signature reported |")
    out.append("|---|---|---|---|")
    for d in sorted(glob.glob(os.path.join(VERIF, "seeded", "*"))):
        sid = os.path.basename(d)
        meta = load(os.path.join(d, "meta.json"), {})
        readme = open(os.path.join(d, "README.md")).read() if os.path.exists(os.path.join(d, "README.md")) else ""
        # first heading line + first paragraph as a summary
        title = ""
        for line in readme.split("\n"):
            if line.strip().startswith("#"):
                title = line.strip("# ").strip()
                break
        r = [x for x in st if x["patch"] == "seeded/" + sid]
        res = r[-1]["result"] if r else "not run"
        sig = (r[-1].get("signatures") or [""])[0] if r else ""
        sig = re.sub(r"\s*\(\d+ occurrences\)", "", sig)
        out.append("| %s | %s | %s | `%s` |" % (sid, title.replace("|", "/")[:160], res, sig.replace("|", " / ")[:110]))
    out.append("")
    out.append("### 10.3 Known findings (genuine defects recorded, not repaired)\n")
    for k in known.get("findings", []):
        out.append("* **%s** (%s): %s  Witness: %s" % (k["id"], k["property"], k["what"], str(k.get("witness", ""))[:400]))
    out.append("")
    out.append("### 10.4 Repaired defects\n")
    out.append("%d `fix:` commits in /repo, one per defect, listed with commit ids in `known_findings.json` (`fixed` list) and discussed per property in `notes/Cxx.md`.  Count per property: %s.\n" % (
        len(known.get("fixed", [])), ", ".join("%s %d" % (p["id"], sum(1 for f in known.get("fixed", []) if f["property"] == p["id"])) for p in props)))
    text = "\n".join(out) + "\n"
    p = os.path.join(VERIF, "DESIGN.md")
    s = open(p).read()
    b, e = "<!-- BEGIN GENERATED RESULTS -->", "<!-- END GENERATED RESULTS -->"
    if b in s:
        s = s[:s.index(b) + len(b)] + "\n" + text + s[s.index(e):]
    else:
        s += "\n" + b + "\n" + text + e + "\n"
    open(p, "w").write(s)
    print("DESIGN.md generated section updated")


if __name__ == "__main__":
    main()
