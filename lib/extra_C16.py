"""C16 second engine: coverage-guided fuzzing (libFuzzer, clang ASan+UBSan) of the entry-point groups of
fuzz/targets.h.  Called by lib/driver.py after the deterministic harness run.  Budgets are execution
counts (-runs), never seconds.  The corpus persists in $VERIF_CACHE/fuzz-corpus/<target> (it only ever
makes later runs deeper; a fresh restore starts from the committed seeds fuzz/seeds/*.hex)."""
import hashlib
import os
import re
import shutil
import subprocess
from concurrent.futures import ThreadPoolExecutor

TARGETS = ["text", "tokenizer", "keyval", "options", "path", "table", "dist", "interval", "formula", "numcalc"]
RUNS = {"quick": 60000, "thorough": 1500000}
ROUNDS = {"quick": 1, "thorough": 2}
# the formula target runs at 60-200 executions/s once its corpus holds deeply nested 4 KiB inputs (every level of
# ComputationTree::readFormula_ copies its sub-formula; ASan on a 1 GiB stack), against 1500-40000/s for the others:
# its thorough budget is scaled down so that a round stays well inside the 2 h watchdog (a count, not a time limit);
# the table target (edit sequences with invariant checks and assignments after every step) runs at about 450/s
RUNS_SCALE = {"thorough": {"formula": 0.25, "table": 0.5}}
MAX_LEN = {"formula": 1024}   # default 4096; the deterministic harness drives the 3000-level nestings


def expand_seeds(verif, dest, target):
    os.makedirs(dest, exist_ok=True)
    p = os.path.join(verif, "fuzz", "seeds", target + ".hex")
    n = 0
    if os.path.exists(p):
        for line in open(p):
            line = line.strip()
            b = bytes.fromhex(line)
            with open(os.path.join(dest, "s" + hashlib.sha1(b).hexdigest()[:16]), "wb") as f:
                f.write(b)
            n += 1
    return n


def fuzz_one(ctx, exe, target, runs, seed, workdir, corpus_root):
    corpus = os.path.join(corpus_root, target)
    os.makedirs(corpus, exist_ok=True)
    seeds = os.path.join(workdir, "fzseeds", target)
    expand_seeds(ctx["verif"], seeds, target)
    art = os.path.join(workdir, "art", target) + "/"
    os.makedirs(art, exist_ok=True)
    env = dict(os.environ)
    env.update(ctx["asan_env"])
    env["ASAN_OPTIONS"] = "abort_on_error=1:detect_leaks=0:handle_abort=1:symbolize=1:allocator_may_return_null=1"
    env["FUZZ_TARGET"] = target
    cmd = [exe, "-runs=%d" % runs, "-max_len=%d" % MAX_LEN.get(target, 4096), "-timeout=60", "-rss_limit_mb=2560", "-malloc_limit_mb=1024",
           "-dict=" + os.path.join(ctx["verif"], "fuzz", "dict.txt"), "-seed=%d" % seed, "-artifact_prefix=" + art,
           "-print_final_stats=1", "-verbosity=1", "-reload=0", "-report_slow_units=100000", corpus, seeds]
    log = os.path.join(workdir, "fuzz-%s.log" % target)
    with open(log, "wb") as lf:
        import driver
        p = subprocess.Popen(cmd, stdout=lf, stderr=lf, env=env, start_new_session=True, preexec_fn=driver.big_stack)
        try:
            rc = p.wait(timeout=7200)
        except subprocess.TimeoutExpired:
            p.kill()
            p.wait()
            rc = None
    text = open(log, "r", errors="replace").read()
    st = {}
    m = re.search(r"stat::number_of_executed_units:\s*(\d+)", text)
    st["executions"] = int(m.group(1)) if m else 0
    cov = re.findall(r"cov: (\d+) ft: (\d+) corp: (\d+)", text)
    if cov:
        st["coverage_edges"], st["features"], st["corpus_units"] = map(int, cov[-1])
    st["rc"] = rc
    arts = sorted(os.listdir(art))
    return target, st, text[-30000:], [os.path.join(art, a) for a in arts]


def run(ctx):
    tier, seed, acc = ctx["tier"], ctx["seed"], ctx["acc"]
    d = ctx["build"]("fuzz", ["fz/fuzz_all"])
    if d is None:
        acc.inconclusive.append("libFuzzer build failed")
        return {}
    exe = os.path.join(d, "fz", "fuzz_all")
    corpus_root = os.path.join(os.environ.get("VERIF_CACHE_DIR", os.path.join(ctx["verif"], ".cache")), "fuzz-corpus")
    if ctx["repo"] != "/repo":  # a foreign tree (mutant) gets its own corpus so that its crashes never pollute the real one
        corpus_root = os.path.join(ctx["workdir"], "fuzz-corpus")
    stats = {}
    total_exec = 0
    evid_replay = os.path.join(os.environ.get("VERIF_EVIDENCE", os.path.join(ctx["verif"], "evidence")), "replay")
    os.makedirs(evid_replay, exist_ok=True)
    for rnd in range(ROUNDS[tier]):
        with ThreadPoolExecutor(max_workers=max(1, min(len(TARGETS), ctx["jobs"]))) as ex:
            futs = [ex.submit(fuzz_one, ctx, exe, t, int(RUNS[tier] * RUNS_SCALE.get(tier, {}).get(t, 1)), seed * 1000 + rnd * 17 + i + 1, ctx["workdir"], corpus_root)
                    for i, t in enumerate(TARGETS)]
            for f in futs:
                target, st, text, arts = f.result()
                prev = stats.get(target, {})
                st["executions"] += prev.get("executions", 0)
                stats[target] = st
                total_exec += st["executions"] - prev.get("executions", 0)
                for a in arts:
                    base = os.path.basename(a)
                    if not (base.startswith("crash-") or base.startswith("timeout-") or base.startswith("oom-") or base.startswith("leak-")):
                        continue   # e.g. slow-unit-*: a report, not a failure
                    data = open(a, "rb").read()
                    keep = os.path.join(evid_replay, "C16-%s-%s" % (target, base))
                    shutil.copyfile(a, keep)
                    if base.startswith("timeout"):
                        clause, cls = "fuzz-%s.hang" % target, "case=target=%s" % target
                    elif base.startswith("oom"):
                        clause, cls = "fuzz-%s.oom" % target, "case=target=%s" % target
                    else:
                        kind, frame = ctx["classify_abort"](text, st["rc"])
                        m = re.search(r"FOREIGN-EXCEPTION type=(\S+)", text)
                        if m:
                            op = data[0] if data else 0
                            clause, cls = "%s.foreign-exception" % target, "type=%s,libfuzzer" % m.group(1)
                        else:
                            clause, cls = "fuzz-%s.abort" % target, "kind=%s,frame=%s" % (kind, frame)
                    acc.viol.append(dict(group="hexinput", idx=0, clause=clause, cls=cls,
                                         witness="libFuzzer artifact %s (copy: %s) input hex=%s\n%s" % (base, keep, data[:2000].hex(), text[-2500:]),
                                         desc="%s libfuzzer len=%d hex=%s" % (target, len(data), data[:300].hex()), steps=[],
                                         env={"VERIF_HEX_INPUT": target + ":" + data.hex()}))
                if st["rc"] is None:
                    acc.inconclusive.append("libFuzzer %s exceeded the 2h watchdog" % target)
                elif st["rc"] != 0 and not arts:
                    acc.inconclusive.append("libFuzzer %s exited with %s without artifact: %s" % (target, st["rc"], text[-400:]))
    with acc.lock:
        acc.evaluations += total_exec
        acc.clause["libfuzzer.executions"] = total_exec
    return {"libfuzzer": {"runs_per_target_per_round": RUNS[tier], "runs_scale": RUNS_SCALE.get(tier, {}), "rounds": ROUNDS[tier], "per_target": stats,
                          "options": "-max_len=4096 (formula: 1024) -timeout=60 -rss_limit_mb=2560 -malloc_limit_mb=1024 -dict=fuzz/dict.txt",
                          "build": "clang++-14 -fsanitize=fuzzer,address,undefined -fno-sanitize-recover=all"}}


def setup(ctx):
    return ctx["build"]("fuzz", ["fz/fuzz_all"]) is not None
