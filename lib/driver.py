#!/usr/bin/env python3
"""Driver for the /verif runtime-monitoring checks (see DESIGN.md section 2 and 5).

bin/check <Cxx> [quick|thorough]      run the check of one property
bin/check <Cxx> --replay <file>       re-run one recorded case verbosely
bin/check --setup                     build every variant and harness once
"""
import fnmatch
import hashlib
import json
import os
import re
import shutil
import signal
import subprocess
import sys
import threading
import time
from concurrent.futures import ThreadPoolExecutor

VERIF = os.path.dirname(os.path.dirname(os.path.abspath(__file__)))
REPO = os.path.abspath(os.environ.get("VERIF_REPO", "/repo"))
CACHE = os.path.abspath(os.environ.get("VERIF_CACHE", os.path.join(VERIF, ".cache")))
JOBS = int(os.environ.get("VERIF_JOBS", str(os.cpu_count() or 8)))
EVID = os.path.abspath(os.environ.get("VERIF_EVIDENCE", os.path.join(VERIF, "evidence")))
KNOWN_FILE = os.path.join(VERIF, "known_findings.json")
ABORT_CAP = int(os.environ.get("VERIF_ABORT_CAP", "40"))   # identical abort signatures per group before its remaining cases are skipped

ASAN_ENV = {
    "ASAN_OPTIONS": "abort_on_error=1:detect_leaks=0:handle_abort=1:allocator_may_return_null=1:"
                    "max_allocation_size_mb=2048:hard_rss_limit_mb=%s:detect_stack_use_after_return=0:symbolize=1" % os.environ.get("VERIF_RSS_MB", "3072"),
    "UBSAN_OPTIONS": "print_stacktrace=1:halt_on_error=1",
    "MALLOC_ARENA_MAX": "2",
    "VERIF_DIR": VERIF,
    "VERIF_CACHE_DIR": CACHE,
}

VARIANTS = {
    # one sanitizer family per build
    "asan": dict(cxx="g++", flags="-std=c++14 -O1 -g1 -fno-omit-frame-pointer -fsanitize=address,undefined "
                 "-fno-sanitize-recover=all -D_GLIBCXX_ASSERTIONS -DBPP_CORE_VERIF", ld="-fsanitize=address,undefined"),
    "plain": dict(cxx="g++", flags="-std=c++14 -O2 -g1 -DBPP_CORE_VERIF", ld=""),
    "dbgstl": dict(cxx="g++", flags="-std=c++14 -O1 -g1 -D_GLIBCXX_DEBUG -DBPP_CORE_VERIF", ld=""),
    "fuzz": dict(cxx="clang++-14", flags="-std=gnu++14 -O1 -g1 -fno-omit-frame-pointer "
                 "-fsanitize=fuzzer-no-link,address,undefined -fno-sanitize=object-size,vptr,function "
                 "-fno-sanitize-recover=all -DBPP_CORE_VERIF",
                 ld="-fsanitize=fuzzer,address,undefined"),
}

# property -> configuration.  "variant": build used by the harness.
PROPS = {}
for _i in range(1, 21):
    PROPS["C%02d" % _i] = dict(variant="asan")


def log(*a):
    print(*a, file=sys.stderr, flush=True)


def repo_key():
    if REPO == "/repo":
        return "repo"
    return "x" + hashlib.sha1(REPO.encode()).hexdigest()[:10]


def variant_dir(variant):
    return os.path.join(CACHE, "%s-%s" % (variant, repo_key()))


def harness_sources():
    hd = os.path.join(VERIF, "harness")
    out = {}
    if os.path.isdir(hd):
        for f in sorted(os.listdir(hd)):
            m = re.match(r"^(C\d\d)\.cpp$", f)
            if m:
                out[m.group(1)] = os.path.join(hd, f)
    return out


def lib_sources():
    src = os.path.join(REPO, "src")
    out = []
    for root, _dirs, files in os.walk(src):
        if "/Graphics" in root[len(src):]:
            continue
        for f in files:
            if f.endswith(".cpp"):
                out.append(os.path.join(root, f))
    return sorted(out)


def nesc(p):
    return p.replace("$", "$$").replace(" ", "$ ").replace(":", "$:")


def write_ninja(variant):
    v = VARIANTS[variant]
    d = variant_dir(variant)
    os.makedirs(d, exist_ok=True)
    inc = "-I%s -I%s" % (os.path.join(REPO, "src"), os.path.join(VERIF, "rt"))
    lines = [
        "ninja_required_version = 1.5",
        "cxx = %s" % v["cxx"],
        "cflags = %s %s" % (v["flags"], inc),
        "ldflags = %s" % v["ld"],
        "rule cc",
        "  command = $cxx $cflags $extra -MMD -MF $out.d -c $in -o $out",
        "  depfile = $out.d",
        "  deps = gcc",
        "  description = CXX $out",
        "rule ar",
        "  command = rm -f $out && ar crs $out $in",
        "  description = AR $out",
        "rule link",
        "  command = $cxx $cflags -o $out $in $ldflags $libs",
        "  description = LINK $out",
    ]
    objs = []
    srcroot = os.path.join(REPO, "src")
    for s in lib_sources():
        rel = os.path.relpath(s, srcroot)
        o = "obj/" + rel[:-4].replace("/", "_") + ".o"
        objs.append(o)
        lines.append("build %s: cc %s" % (nesc(o), nesc(s)))
        lines.append("  extra = -w")
    lines.append("build libbpp.a: ar %s" % " ".join(nesc(o) for o in objs))
    if variant != "fuzz":
        lines.append("build rt/vrt.o: cc %s" % nesc(os.path.join(VERIF, "rt", "vrt.cpp")))
        lines.append("  extra = -Wall")
        for pid, src in harness_sources().items():
            if PROPS.get(pid, {}).get("variant", "asan") != variant and variant == "dbgstl":
                continue
            lines.append("build hx/%s.o: cc %s" % (pid, nesc(src)))
            lines.append("  extra = -Wall -Wno-unused-function")
            lines.append("build hx/%s: link hx/%s.o rt/vrt.o libbpp.a" % (pid, pid))
    else:
        fd = os.path.join(VERIF, "fuzz")
        if os.path.isdir(fd):
            for f in sorted(os.listdir(fd)):
                if f.endswith(".cpp"):
                    n = f[:-4]
                    lines.append("build fz/%s.o: cc %s" % (n, nesc(os.path.join(fd, f))))
                    lines.append("  extra = -Wall -Wno-unused-function")
                    lines.append("build fz/%s: link fz/%s.o libbpp.a" % (n, n))
    text = "\n".join(lines) + "\n"
    p = os.path.join(d, "build.ninja")
    old = open(p).read() if os.path.exists(p) else None
    if old != text:
        with open(p, "w") as f:
            f.write(text)
    return d


def build(variant, targets):
    # several checks may be started at once on the same tree: one ninja at a time per build directory
    import fcntl
    d0 = variant_dir(variant)
    os.makedirs(d0, exist_ok=True)
    t0 = time.time()
    with open(os.path.join(d0, ".verif-build.lock"), "w") as lk:
        fcntl.flock(lk, fcntl.LOCK_EX)
        d = write_ninja(variant)
        cmd = ["ninja", "-C", d, "-j", str(JOBS)] + targets
        r = subprocess.run(cmd, stdout=subprocess.PIPE, stderr=subprocess.STDOUT, text=True)
    if r.returncode != 0:
        log(r.stdout[-6000:])
        log("BUILD FAILED (%s %s)" % (variant, " ".join(targets)))
        return None
    log("build %s %s: %.1fs" % (variant, " ".join(targets), time.time() - t0))
    return d


# ---------------------------------------------------------------- journal parsing

def unesc(s):
    def rep(m):
        c = m.group(1)
        if c == "t":
            return "\t"
        if c == "n":
            return "\n"
        if c == "r":
            return "\r"
        if c == "\\":
            return "\\"
        if c.startswith("x"):
            return chr(int(c[1:], 16))
        return c
    return re.sub(r"\\(x[0-9a-f]{2}|.)", rep, s)


class CaseRec:
    __slots__ = ("idx", "cls", "desc", "steps", "viols", "ended")

    def __init__(self, idx):
        self.idx = idx
        self.cls = ""
        self.desc = ""
        self.steps = []
        self.viols = []
        self.ended = False


class Acc:
    """Accumulates what all children of one check reported."""

    def __init__(self):
        self.lock = threading.Lock()
        self.evaluations = 0
        self.clause = {}
        self.tally = {}
        self.keys = set()
        self.viol = []      # dict(group, idx, clause, cls, witness, desc, steps)
        self.samples = {}   # group -> list of descriptors
        self.children = 0
        self.restarts = 0
        self.inconclusive = []
        self.per_group = {}
        self.durations = {}   # group -> wall seconds of completed chunks (adaptive watchdog)
        self.hangs = {}       # group -> confirmed hangs (watchdog expired twice)
        self.aborts = {}      # (group, kind, frame) -> aborts recorded with that signature
        self.slow = {}        # group -> watchdog expiries whose case finished when re-run alone
        self.slow_msgs = []
        self.adaptive = True  # tighten watchdogs from observed chunk durations (quick tier only)


def parse_journal(path):
    """returns (cases(list of CaseRec), clause counts, tallies, keys, finished)"""
    cases = []
    clause, tally, keys = {}, {}, set()
    finished = False
    cur = None
    try:
        with open(path, "r", errors="replace") as f:
            data = f.read()
    except FileNotFoundError:
        return cases, clause, tally, keys, finished
    for line in data.split("\n"):
        if not line:
            continue
        p = line.split("\t")
        t = p[0]
        if t == "B" and len(p) >= 2:
            cur = CaseRec(int(p[1]))
            cases.append(cur)
        elif t == "D" and cur is not None and len(p) >= 3:
            cur.cls, cur.desc = unesc(p[1]), unesc(p[2])
        elif t == "S" and cur is not None and len(p) >= 2:
            cur.steps.append(unesc(p[1]))
        elif t == "V" and cur is not None and len(p) >= 4:
            cur.viols.append((unesc(p[1]), unesc(p[2]), unesc(p[3])))
        elif t == "E" and cur is not None:
            cur.ended = True
        elif t == "C" and len(p) >= 3:
            clause[unesc(p[1])] = clause.get(unesc(p[1]), 0) + int(p[2])
        elif t == "N" and len(p) >= 3:
            tally[unesc(p[1])] = tally.get(unesc(p[1]), 0) + int(p[2])
        elif t == "K" and len(p) >= 2:
            keys.add(unesc(p[1]))
        elif t == "X":
            finished = True
    return cases, clause, tally, keys, finished


FRAME_RE = re.compile(r"^\s*#\d+\s+0x[0-9a-f]+\s+in\s+(.+?)\s+(/\S+?):\d+", re.M)


def classify_abort(stderr_text, returncode):
    """structural (kind, frame) of a sanitizer / assertion / signal death"""
    kind = None
    m = re.search(r"Assertion '([^']*)' failed", stderr_text)
    if m:
        kind = "stl-assert"
    if kind is None:
        m = re.search(r"runtime error: ([^\n]*)", stderr_text)
        if m:
            msg = re.sub(r"0x[0-9a-f]+|-?\d+(\.\d+)?(e[+-]?\d+)?", "N", m.group(1))
            msg = re.sub(r"'[^']*'", "T", msg)
            kind = "ubsan:" + msg.strip()[:60]
    if kind is None:
        m = re.search(r"ERROR: AddressSanitizer: (\S+)", stderr_text)
        if m:
            kind = "asan:" + m.group(1)
            if m.group(1) == "ABRT":
                m2 = re.search(r"terminate called after throwing an instance of '([^']*)'", stderr_text)
                if m2:
                    kind = "terminate:" + m2.group(1)
                elif "terminate called" in stderr_text:
                    kind = "terminate"
    if kind is None:
        m = re.search(r"terminate called after throwing an instance of '([^']*)'", stderr_text)
        if m:
            kind = "terminate:" + m.group(1)
    if kind is None:
        if returncode is not None and returncode < 0:
            try:
                kind = "signal:" + signal.Signals(-returncode).name
            except Exception:
                kind = "signal:%d" % (-returncode)
        else:
            kind = "exit:%s" % returncode
    frame = "?"
    for fm in FRAME_RE.finditer(stderr_text):
        fn, path = fm.group(1), fm.group(2)
        if "/src/Bpp/" in path:
            fn = re.sub(r"\(.*$", "", fn)
            fn = re.sub(r"<.*$", "", fn)
            fn = re.sub(r"^.*\s", "", fn.strip())
            frame = fn
            break
    return kind, frame


def big_stack():
    """Sanitizer instrumentation inflates stack frames several-fold: recursion that is bounded by the input length
    (a 4 KiB formula nests 4096 deep) fits the default 8 MiB stack in a normal build but not in an ASan build.  Children
    therefore get a 1 GiB stack; unbounded recursion still ends in a stack overflow report."""
    try:
        import resource
        soft, hard = resource.getrlimit(resource.RLIMIT_STACK)
        want = 1 << 30
        if hard != resource.RLIM_INFINITY:
            want = min(want, hard)
        resource.setrlimit(resource.RLIMIT_STACK, (want, hard))
    except Exception:
        pass


def run_child(exe, args, journal, timeout):
    """returns (returncode or None on timeout, stderr text)"""
    env = dict(os.environ)
    env.update(ASAN_ENV)
    errp = journal + ".err"
    with open(errp, "wb") as ef:
        p = subprocess.Popen([exe] + args + ["--journal", journal], stdout=ef, stderr=ef, env=env,
                             start_new_session=True, preexec_fn=big_stack)
        try:
            rc = p.wait(timeout=timeout)
        except subprocess.TimeoutExpired:
            try:
                os.killpg(p.pid, signal.SIGKILL)
            except Exception:
                p.kill()
            p.wait()
            rc = None
    with open(errp, "r", errors="replace") as ef:
        err = ef.read()
    return rc, err[-20000:]


def effective_timeout(acc, group, timeout):
    """The group's declared chunk watchdog, tightened (quick tier) once the group has shown how long its chunks take:
    40x the longest completed chunk (at least 120 s).  Budgets stay case counts; this only bounds
    how long a non-terminating case can hold a run up."""
    if not acc.adaptive:
        return timeout
    with acc.lock:
        d = sorted(acc.durations.get(group, []))
    if len(d) >= 3:
        # 40x the LONGEST chunk seen so far (chunks of one group can differ a lot in weight), at least 120 s
        return int(min(timeout, max(120.0, 40.0 * d[-1])))
    return timeout


def run_chunk(exe, base_args, group, lo, hi, timeout, workdir, acc, tag):
    """run cases [lo,hi) of one group, restarting after aborts; fill acc"""
    start = lo
    attempt = 0
    hangs = 0
    declared = timeout
    while start < hi:
        with acc.lock:
            if acc.hangs.get(group, 0) < 2 and acc.slow.get(group, 0) >= 4:
                # the watchdog fired four times in this group although every case finished when re-run alone:
                # the group is far slower than its budget assumes (loaded machine, or a change that makes cases
                # explode); stop it - without any violation the run is then reported inconclusive, never held
                n = hi - start
                acc.tally["cases-not-run-after-four-watchdog-expiries-in-group"] = acc.tally.get("cases-not-run-after-four-watchdog-expiries-in-group", 0) + n
                msg = "group %s stopped after four watchdog expiries whose cases all finished when re-run alone" % group
                if msg not in acc.slow_msgs:
                    acc.slow_msgs.append(msg)
                return
            if acc.hangs.get(group, 0) >= 2:
                # two confirmed hangs already establish the violation: do not spend hours re-finding it
                acc.tally["cases-not-run-after-two-confirmed-hangs-in-group"] = acc.tally.get("cases-not-run-after-two-confirmed-hangs-in-group", 0) + (hi - start)
                return
        timeout = effective_timeout(acc, group, declared)
        t_start = time.time()
        attempt += 1
        journal = os.path.join(workdir, "%s.%s.%d.%d.j" % (tag, group, start, attempt))
        for f in (journal, journal + ".err"):
            if os.path.exists(f):
                os.remove(f)
        args = base_args + ["--group", group, "--from", str(start), "--to", str(hi)]
        rc, err = run_child(exe, args, journal, timeout)
        cases, clause, tally, keys, finished = parse_journal(journal)
        with acc.lock:
            acc.children += 1
            for k, v in clause.items():
                acc.clause[k] = acc.clause.get(k, 0) + v
            for k, v in tally.items():
                acc.tally[k] = acc.tally.get(k, 0) + v
            acc.keys |= keys
        died_in = None
        for c in cases:
            if c.ended:
                continue
            died_in = c
        with acc.lock:
            for c in cases:
                if c is died_in:
                    continue
                acc.evaluations += 1
                acc.per_group[group] = acc.per_group.get(group, 0) + 1
                sm = acc.samples.setdefault(group, [])
                if len(sm) < 3 and (c.desc or c.steps):
                    sm.append({"group": group, "index": c.idx, "class": c.cls, "case": c.desc[:400],
                               "steps": c.steps[:12]})
                for (cl, cls, wit) in c.viols:
                    acc.viol.append(dict(group=group, idx=c.idx, clause=cl, cls=cls, witness=wit,
                                         desc=c.desc, steps=c.steps))
        if finished and rc == 0:
            with acc.lock:
                acc.durations.setdefault(group, []).append(time.time() - t_start)
            os.remove(journal)
            os.remove(journal + ".err")
            return
        if died_in is None:
            # died outside a case: harness failure
            with acc.lock:
                acc.inconclusive.append("child of group %s died outside a case (rc=%s): %s" % (group, rc, err[-800:]))
            return
        c = died_in
        if rc is None:
            # watchdog: run the case alone once more
            j2 = journal + ".alone"
            for f in (j2, j2 + ".err"):
                if os.path.exists(f):
                    os.remove(f)
            rc2, err2 = run_child(exe, base_args + ["--group", group, "--from", str(c.idx), "--to", str(c.idx + 1)],
                                  j2, timeout)
            cases2, clause2, tally2, keys2, fin2 = parse_journal(j2)
            if rc2 is None:
                hangs += 1
                with acc.lock:
                    acc.hangs[group] = acc.hangs.get(group, 0) + 1
                    acc.evaluations += 1
                    for (cl, cls, wit) in c.viols:
                        acc.viol.append(dict(group=group, idx=c.idx, clause=cl, cls=cls, witness=wit, desc=c.desc, steps=c.steps))
                    acc.viol.append(dict(group=group, idx=c.idx, clause=group + ".hang", cls="case=" + c.cls,
                                         witness="no return within the %ds watchdog, twice (alone the second time)" % timeout,
                                         desc=c.desc, steps=c.steps))
            else:
                # completed (or died) alone: take what the lone run says
                with acc.lock:
                    acc.slow[group] = acc.slow.get(group, 0) + 1
                    acc.restarts += 1
                    for k, v in clause2.items():
                        acc.clause[k] = acc.clause.get(k, 0) + v
                    acc.keys |= keys2
                    acc.evaluations += 1
                    for c2 in cases2:
                        for (cl, cls, wit) in c2.viols:
                            acc.viol.append(dict(group=group, idx=c2.idx, clause=cl, cls=cls, witness=wit, desc=c2.desc, steps=c2.steps))
                        if not c2.ended:
                            kind, frame = classify_abort(err2, rc2)
                            acc.viol.append(dict(group=group, idx=c2.idx, clause=group + ".abort",
                                                 cls="kind=%s,frame=%s" % (kind, frame),
                                                 witness=err2[-3000:], desc=c2.desc, steps=c2.steps))
        else:
            kind, frame = classify_abort(err, rc)
            with acc.lock:
                acc.aborts[(group, kind, frame)] = acc.aborts.get((group, kind, frame), 0) + 1
                acc.evaluations += 1
                acc.per_group[group] = acc.per_group.get(group, 0) + 1
                for (cl, cls, wit) in c.viols:
                    acc.viol.append(dict(group=group, idx=c.idx, clause=cl, cls=cls, witness=wit, desc=c.desc, steps=c.steps))
                acc.viol.append(dict(group=group, idx=c.idx, clause=group + ".abort",
                                     cls="kind=%s,frame=%s" % (kind, frame),
                                     witness=err[-3000:], desc=c.desc, steps=c.steps))
        with acc.lock:
            acc.restarts += 1
        start = c.idx + 1
        if hangs >= 2 and start < hi:
            with acc.lock:
                acc.tally["cases-abandoned-after-two-hangs-in-chunk"] = acc.tally.get("cases-abandoned-after-two-hangs-in-chunk", 0) + (hi - start)
            return
        with acc.lock:
            worst = max([v for (g, _k, _f), v in acc.aborts.items() if g == group] or [0])
            if worst >= ABORT_CAP and start < hi:
                # the same abort signature was recorded ABORT_CAP times in this group: the violation is established;
                # every further abort costs a process restart (seconds each for a stack overflow on the 1 GiB stack)
                acc.tally["cases-not-run-after-%d-identical-aborts-in-group" % ABORT_CAP] = acc.tally.get("cases-not-run-after-%d-identical-aborts-in-group" % ABORT_CAP, 0) + (hi - start)
                return


def load_known():
    out = []
    files = [KNOWN_FILE]
    kd = os.path.join(VERIF, "known")   # per-property fragments during development; merged by lib/mkknown.py
    if os.path.isdir(kd):
        files += [os.path.join(kd, f) for f in sorted(os.listdir(kd)) if f.endswith(".json")]
    seen = set()
    for p in files:
        if not os.path.exists(p):
            continue
        with open(p) as f:
            d = json.load(f)
        for k in d.get("findings", []):
            if k.get("id") in seen:
                continue
            seen.add(k.get("id"))
            out.append(k)
    return out


def harness_list(exe, tier):
    env = dict(os.environ)
    env.update(ASAN_ENV)
    r = subprocess.run([exe, "--list", "--tier", tier], stdout=subprocess.PIPE, stderr=subprocess.PIPE, text=True, env=env)
    if r.returncode != 0:
        log(r.stderr[-3000:])
        return None
    groups, clauses, rule, assume = [], [], "", []
    for line in r.stdout.split("\n"):
        p = line.split("\t")
        if p[0] == "group":
            groups.append(dict(name=p[1], count=int(p[2]), timeout=int(p[3]), exhaustive=(p[4] == "1")))
        elif p[0] == "clause":
            clauses.append(p[1])
        elif p[0] == "rule":
            rule = unesc(p[1]) if len(p) > 1 else ""
        elif p[0] == "assume":
            assume.append(unesc(p[1]))
    return dict(groups=groups, clauses=clauses, rule=rule, assume=assume)


def signature(v):
    return "%s|%s" % (v["clause"], v["cls"])


def write_evidence(pid, tier, seed, coverage, assumptions, wall, nviol, extra=None):
    os.makedirs(EVID, exist_ok=True)
    ev = {
        "property_id": pid,
        "tier": tier,
        "seed": seed,
        "level": "exploration",
        "coverage": coverage,
        "assumptions": assumptions,
        "wall_s": round(wall, 2),
        "violations": nviol,
    }
    if extra:
        ev.update(extra)
    tmp = os.path.join(EVID, pid + ".json.tmp")
    with open(tmp, "w") as f:
        json.dump(ev, f, indent=1, sort_keys=False)
        f.write("\n")
    os.replace(tmp, os.path.join(EVID, pid + ".json"))


def post_hooks(pid):
    """optional per-property extra engines: module lib/extra_<pid>.py with run(ctx) -> dict"""
    p = os.path.join(VERIF, "lib", "extra_%s.py" % pid)
    if not os.path.exists(p):
        return None
    import importlib.util
    spec = importlib.util.spec_from_file_location("extra_" + pid, p)
    m = importlib.util.module_from_spec(spec)
    spec.loader.exec_module(m)
    return m


def check(pid, tier, seed, only_group=None):
    t0 = time.time()
    cfg = PROPS[pid]
    variant = cfg["variant"]
    srcs = harness_sources()
    if pid not in srcs:
        log("no harness for " + pid)
        return 2
    d = build(variant, ["hx/" + pid])
    if d is None:
        print("INCONCLUSIVE property=%s build failed" % pid)
        return 2
    exe = os.path.join(d, "hx", pid)
    info = harness_list(exe, tier)
    if info is None:
        print("INCONCLUSIVE property=%s harness --list failed" % pid)
        return 2
    known = [k for k in load_known() if k.get("property") == pid]
    known_active = [k for k in known if k.get("status") == "known"]
    base_args = ["--run", "--tier", tier, "--seed", str(seed)]
    if known_active:
        base_args += ["--known", ",".join(k["id"] for k in known_active)]
    workdir = os.path.join(d, "run", "%s-%d" % (pid, os.getpid()))
    shutil.rmtree(workdir, ignore_errors=True)
    os.makedirs(workdir)
    acc = Acc()
    acc.adaptive = (tier == "quick")   # the thorough tier keeps the declared watchdogs: its chunks are long and uneven
    tasks = []
    for g in info["groups"]:
        if only_group and g["name"] != only_group:
            continue
        n = g["count"]
        if n == 0:
            continue
        nchunks = min(n, JOBS * 4)
        size = (n + nchunks - 1) // nchunks
        lo = 0
        while lo < n:
            hi = min(n, lo + size)
            tasks.append((g, lo, hi))
            lo = hi
    # longest-timeout groups first, interleave otherwise
    tasks.sort(key=lambda t: (-t[0]["timeout"], t[1]))
    extra_mod = post_hooks(pid)
    with ThreadPoolExecutor(max_workers=JOBS) as ex:
        futs = []
        # quick-tier chunks are seconds of work: cap their watchdog so that a non-terminating change is reported in
        # tens of minutes, not hours (the declared timeouts are sized for the thorough tier on a loaded machine)
        cap = int(os.environ.get("VERIF_QUICK_WATCHDOG_CAP", "600")) if tier == "quick" else 10 ** 9
        for i, (g, lo, hi) in enumerate(tasks):
            futs.append(ex.submit(run_chunk, exe, base_args, g["name"], lo, hi, min(g["timeout"], cap), workdir, acc, "t%d" % i))
        for f in futs:
            f.result()
    acc.inconclusive += acc.slow_msgs
    extra_cov = {}
    if extra_mod is not None:
        ctx = dict(pid=pid, tier=tier, seed=seed, variant_dir=d, workdir=workdir, acc=acc, repo=REPO, verif=VERIF,
                   jobs=JOBS, build=build, variant_dir_fn=variant_dir, asan_env=ASAN_ENV, classify_abort=classify_abort,
                   known_active=known_active)
        extra_cov = extra_mod.run(ctx) or {}
    # ---- verdict
    os.makedirs(os.path.join(EVID, "replay"), exist_ok=True)
    new_sigs, known_hit = {}, {}
    for v in acc.viol:
        sig = signature(v)
        hit = None
        for k in known_active:
            if fnmatch.fnmatchcase(sig, k["signature"]):
                hit = k
                break
        if hit is not None:
            known_hit.setdefault(hit["id"], []).append(v)
        else:
            new_sigs.setdefault(sig, []).append(v)
    for k in known_active:
        if k["id"] in known_hit:
            print("KNOWN-FINDING: property=%s id=%s %s (observed %d times this run)" % (pid, k["id"], k["what"], len(known_hit[k["id"]])))
    stale = [k["id"] for k in known_active if k["id"] not in known_hit]
    replays = []
    for sig, vs in sorted(new_sigs.items()):
        v = vs[0]
        h = hashlib.sha1(sig.encode()).hexdigest()[:12]
        rp = os.path.join(EVID, "replay", "%s-%s.json" % (pid, h))
        with open(rp, "w") as f:
            json.dump(dict(property=pid, seed=seed, tier=tier, group=v["group"], index=v["idx"], signature=sig,
                           clause=v["clause"], witness_class=v["cls"], witness=v["witness"], case=v["desc"],
                           steps=v["steps"], occurrences=len(vs), repo=REPO, env=v.get("env")), f, indent=1)
        replays.append(rp)
        print("VIOLATION property=%s replay=%s" % (pid, rp))
        print("  signature: %s (%d occurrences)" % (sig, len(vs)))
        print("  case: %s" % (v["desc"][:300]))
        if v["steps"]:
            print("  steps: %s" % " ; ".join(v["steps"][-8:])[:600])
        print("  witness: %s" % v["witness"][:600].replace("\n", "\n    "))
    missing = [c for c in info["clauses"] if acc.clause.get(c, 0) == 0] if not only_group else []
    samples = []
    for g in info["groups"]:
        samples += acc.samples.get(g["name"], [])[:2]
    coverage = {
        "evaluations": acc.evaluations,
        "distinct_nontrivial": len(acc.keys),
        "rule": info["rule"],
        "samples": samples[:24],
        "exhaustive": False,
        "exhaustive_groups": [g["name"] for g in info["groups"] if g["exhaustive"]],
        "cases_per_group": acc.per_group,
        "comparisons_per_clause": dict(sorted(acc.clause.items())),
        "counters": dict(sorted(acc.tally.items())),
        "class_keys_sample": sorted(acc.keys)[:40],
        "children": acc.children,
        "restarts_after_abort": acc.restarts,
        "build_variant": variant + ": " + VARIANTS[variant]["cxx"] + " " + VARIANTS[variant]["flags"],
        "known_findings_observed": {k: len(v) for k, v in known_hit.items()},
        "known_findings_not_observed": stale,
        "new_signatures": sorted(new_sigs.keys()),
        "inconclusive": acc.inconclusive + (["no comparison made for clause(s): " + ",".join(missing)] if missing else []),
    }
    coverage.update(extra_cov)
    wall = time.time() - t0
    write_evidence(pid, tier, seed, coverage, info["assume"], wall, len(new_sigs))
    shutil.rmtree(workdir, ignore_errors=True)
    log("%s %s seed=%d: %d cases, %d class keys, %d comparisons, %d children, %d restarts, %.1fs" % (
        pid, tier, seed, acc.evaluations, len(acc.keys), sum(acc.clause.values()), acc.children, acc.restarts, wall))
    if new_sigs:
        return 1
    if acc.inconclusive or missing or acc.evaluations == 0 or len(acc.keys) < 2:
        for m in coverage["inconclusive"]:
            print("INCONCLUSIVE property=%s %s" % (pid, m[:500]))
        if acc.evaluations == 0 or len(acc.keys) < 2:
            print("INCONCLUSIVE property=%s nothing observed" % pid)
        return 2
    print("HELD property=%s on %d cases (%d distinct class keys, %d comparisons)" % (
        pid, acc.evaluations, len(acc.keys), sum(acc.clause.values())))
    return 0


def replay(pid, path):
    with open(path) as f:
        r = json.load(f)
    variant = PROPS[pid]["variant"]
    d = build(variant, ["hx/" + pid])
    if d is None:
        return 2
    exe = os.path.join(d, "hx", pid)
    env = dict(os.environ)
    env.update(ASAN_ENV)
    if r.get("env"):
        env.update(r["env"])
    known_active = [k for k in load_known() if k.get("property") == pid and k.get("status") == "known"]
    args = [exe, "--run", "--tier", r["tier"], "--seed", str(r["seed"]), "--group", r["group"],
            "--from", str(r["index"]), "--to", str(r["index"] + 1), "--replay"]
    if known_active:
        args += ["--known", ",".join(k["id"] for k in known_active)]
    print("replaying %s case %s/%d (seed %s): expected signature %s" % (pid, r["group"], r["index"], r["seed"], r.get("signature")))
    p = subprocess.run(args, env=env)
    return 0 if p.returncode == 0 else 1


def setup():
    ok = True
    srcs = harness_sources()
    by_variant = {}
    for pid in srcs:
        by_variant.setdefault(PROPS[pid]["variant"], []).append("hx/" + pid)
    for variant, targets in by_variant.items():
        if build(variant, targets) is None:
            ok = False
    for pid in srcs:
        m = post_hooks(pid)
        if m is not None and hasattr(m, "setup"):
            if not m.setup(dict(build=build, verif=VERIF, repo=REPO, jobs=JOBS)):
                ok = False
    return 0 if ok else 2


def main(argv):
    if len(argv) >= 2 and argv[1] == "--setup":
        return setup()
    if len(argv) < 2 or argv[1] not in PROPS:
        log(__doc__)
        return 2
    pid = argv[1]
    if len(argv) >= 4 and argv[2] == "--replay":
        return replay(pid, argv[3])
    tier = os.environ.get("VERIF_TIER", "quick")
    only = None
    i = 2
    while i < len(argv):
        if argv[i] in ("quick", "thorough"):
            tier = argv[i]
        elif argv[i] == "--group":
            only = argv[i + 1]
            i += 1
        i += 1
    if tier not in ("quick", "thorough"):
        tier = "quick"
    try:
        seed = int(os.environ.get("VERIF_SEED", "1"))
    except ValueError:
        seed = 1
    return check(pid, tier, seed, only)


if __name__ == "__main__":
    sys.exit(main(sys.argv))
