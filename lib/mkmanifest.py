#!/usr/bin/env python3
"""Regenerates /verif/MANIFEST.json from the table below (kept valid at all times)."""
import json, os, subprocess
VERIF = os.path.dirname(os.path.dirname(os.path.abspath(__file__)))

# property -> (technique, level text, level note, design ref)
SAN = "gcc AddressSanitizer+UBSan+_GLIBCXX_ASSERTIONS build of the real library (hooks on); many short child processes; every abort/foreign exception/hang attributed to its journalled case"
TRUST = "Trusted: the harness's reference model/oracle code (harness/%s.cpp), gcc sanitizers and libstdc++ assertions, the seeded generator. Nothing is claimed beyond the generated input/history space stated in the evidence 'rule' and 'assumptions'."
CHECKS = {
 "C02": ("shadow-model monitor of ParameterList / AbstractParametrizable histories (state compared after every call), atomicity probes at every reject position; " + SAN,
         "Random histories over up to 3 live lists/owners (add/include/share/set*/match*/delete/sub-list/copy/namespace) are replayed on a shadow model of (name,value,constraint,object identity); after every call the complete state and every lookup of every live list is compared, bulk value updates that raise must leave all lists bit-identical, shared vs cloned identity is probed by write-through. Held = no divergence / sanitizer report on the executions counted in the evidence.",
         "6/C02"),
 "C09": ("invariant monitor after every step of construction/update/restriction histories of every distribution family, against a freshly built parent and closed forms; " + SAN,
         "All families x class counts 1..32 x 3 schemes x median on/off x parameters over 3 decades, with histories of setParameterValue/setNumberOfCategories/setMedian/restrictToConstraint/clone/assign, and random compound trees (simple, constant, invariant-mixed, mixture). After every step every clause of the statement is audited (count, normalisation, ordering, interval membership, class mass vs parent cdf, mean preservation, cdf/quantile/expectation consistency, lookups, cumulative queries). Two recorded findings are replayed separately.",
         "6/C09"),
 "C13": ("differential monitor of the three HMM algorithms against long-double path enumeration / scaled forward-backward references, history-independence probes; " + SAN,
         "Harness-supplied alphabet, emissions (with parameters) and transition doubles with exactly stationary start; 1..5 states, lengths up to 12 (enumeration) and 5000 (scaled long-double reference), sparse/zero transitions, emissions down to 1e-200, every break-point subset and chunk size; log-likelihood, posteriors, per-site likelihoods, first/second derivatives (vs jets checked against finite differences) compared for the three algorithms; the same queries are re-issued in every order interleaved with parameter updates; built-in transition matrices checked for row sums and stationarity in every query order.",
         "6/C13"),
 "C08": ("in-process monitor of range/monotonicity/identities/inverse consistency/error signals on dense grids and random points + offline oracle over the recorded event log (scipy bulk, disagreements confirmed by mpmath at 50 digits; python3-vt); " + SAN,
         "pNorm/qNorm/pGamma/qGamma/pChisq/qChisq/pBeta/qBeta/incompleteGamma/incompleteBeta/lnBeta/lnGamma over the documented working ranges: every call must return (CPU watchdog), stay in [0,1], be monotone along grid lines, reach the end values, satisfy reflection/recurrence/special-case identities, quantile(cdf) inverse to the documented accuracy, give the documented error signal on invalid arguments; a sampled event log is compared offline with independent high-precision values at the documented accuracies (1e-12 normal/beta, 2e-8 gamma-type).",
         "6/C08"),
 "C11": ("differential monitor of the transforms against finite differences of the map itself and of a polynomial test double with analytic derivatives (chain rule), feasibility and pass-through probes; " + SAN,
         "Eight bound configurations x hyperbolic/tangent interval transforms x scales 0.1..10 (unit scale for half-line transforms), originals down to 1e-9 from a bound: round trip, strict monotonicity, first/second derivatives vs Richardson finite differences; wrapper value at the back-transformed point for coordinates in [-30,30], feasibility, chain rule for first/second/cross derivatives, function untouched right after wrapping, unconstrained parameters passed through.",
         "6/C11"),
 "C12": ("evaluation-logging polynomial test double; transparency (bitwise parameter equality) and derivative-accuracy oracles from the schemes' Taylor remainders over all entry points; " + SAN,
         "2/3/5-point schemes, polynomials of degree 0..5 in 1..4 variables with optional boxes, steps 1e-6..1e-2, any subset/order of selected variables, cross derivatives on/off, six update entry points, interior/on-bound/next-to-bound points: after each call the wrapped function sits exactly at the requested point and reports the polynomial's value; derivative error <= 2 x Taylor remainder + rounding (zero remainder where the scheme is exact); ratio test for the convergence order; one-sided fallback finite; unselected variables delegate.",
         "6/C12"),
 "C14": ("reference-multigraph + association-map model executed after every public-API call, breadth-first exhaustive exploration of call sequences with memoisation on canonical state, random long histories with a second live observer; " + SAN,
         "12 configurations (directed/undirected x with/without edge objects x no/explicit/allocated indices), <= 4 nodes, all call sequences to depth 6 (thorough; 4-5 in quick) plus random sequences of 40 calls over <= 8 nodes incl. calls on absent items; after every call every query and iterator of the graph and of the observer is compared with the model and the expected outcome (returns / raises) is checked.",
         "6/C14"),
 "C15": ("reference parent-array tree / edge-set DAG model; exhaustive shapes, every re-rooting, every node pair and subset, edit histories with validity queries at random moments (stale caches observable); " + SAN,
         "All 874 rooted shapes on 1..7 nodes and random trees to 12 nodes x every new root; all digraphs on <= 4 nodes, every DAG shape on 5-6 nodes (all 2^20 digraphs on 5 nodes in thorough); histories mixing addSon/setFather/removeSon/deleteNode/rootAt/unRoot with isValid/isRooted; father/sons/branches/leaves-under/subtree/paths/MRCA against the reference, edge ids and attached objects preserved by re-rooting and by setFather/addSon with an edge object; plain and observer layers.",
         "6/C15"),
 "C16": ("coverage-guided fuzzing (libFuzzer, clang ASan+UBSan) plus deterministic replay of seeds, seeded structural mutants and the accumulated corpus through the gcc ASan+UBSan+hardened-STL build, outcome classifier (returned / bpp::Exception / foreign exception / abort / hang / allocation ceiling)",
         "Ten entry-point groups (text utilities, tokenisers, keyval, options+variables+typed getters+wildcards, path helpers, table read/edit/write, distribution / interval / formula / vector descriptions); the first input bytes select the entry point and every option. Quick: all committed seeds, 37k seeded mutant cases (8 inputs each), the stored corpus, and 60k libFuzzer executions per group; thorough: 0.75M mutant cases and 3M executions per group. Any outcome other than return or bpp::Exception is a violation; time-outs and RSS/allocation ceilings stand for non-termination/unbounded allocation.",
         "6/C16"),
 "C01": ("shadow-model monitor of Parameter/ParameterList/owner histories + enumerated interval algebra + guarded audit hook inside Parameter (every state change of every parameter, also library-internal ones); " + SAN,
         "Interval algebra enumerated over a bound grid (finite, equal, infinite bounds x 4 open/closed combinations x test values of every order type incl. nextafter neighbours): isCorrect/includes/intersection/isEmpty/limits/readDescription against a 4-line model; random histories of construct/copy/assign/setValue/setConstraint/removeConstraint/list-level/owner-level updates with raise-leaves-state-unchanged; AutoParameter never raises and lands on the nearest accepted value; an 'internal' group drives distributions, simplexes, HMM matrices, reparametrisation wrappers and optimisers with the audit hook installed.",
         "6/C01"),
 "C03": ("shadow-model monitor (alias forest, independent set, constraint predicates) of alias/unalias/bulk-alias/update/copy/assign/rename histories, exhaustive short alias sequences, watchdog for bulk aliasing; " + SAN,
         "Test double over AbstractParameterAliasable with 2..6 parameters; after every call all values, the independent list (names and object identity, write-through probe), getAliases/getAlias/getFrom, the intersected constraints of both ends of each link, refusal of double aliasing and cycles of any length (state unchanged), and the mutual independence of original and copy are compared with the model; bulk aliasing from a map in every key order must return or raise within the chunk watchdog.",
         "6/C03"),
 "C04": ("differential monitor against exact int64 triple-loop references (integer entries) and long-double references with rounding bounds (real entries) for every routine x every combination of the three storage classes, brute force over all permutations for the assignment solver; " + SAN,
         "Every MatrixTools routine of the statement (products incl. diagonal/tridiagonal/complex, add, scaled add, scale, transpose, copy, pow, Taylor, Kronecker x3, Hadamard x3, direct sums, covariance, extrema, sums, fills/diagonals, shifts) for shapes 0x0..7x7 incl. 1xn/nx1/non-square, results unsized and wrongly pre-sized, all RowMatrix/ColMatrix/LinearMatrix combinations; non-conformable operands must raise DimensionException and never abort; lap(): exhaustive for n<=3 over {0,1,2} and random to 7x7 with ties/negative costs: permutation, inverse, optimal cost vs all n! permutations, dual feasibility and complementary slackness, termination.",
         "6/C04"),
 "C05": ("a-posteriori backward-error monitors computed from the returned factors (they cannot alarm on correct code), exact Bareiss __int128 determinants, designed pivots for the singularity decision; " + SAN,
         "n = 1..10: integer matrices in [-9,9], matrices with prescribed singular values (condition 1..1e6), permuted triangular, rank-deficient and scaled matrices, right-hand sides with 1..4 columns in every storage class: L unit lower / U upper / pivot a permutation exactly, |PA-LU| <= 8n eps |L||U| and |B-AX| <= 24n eps P^T|L||U||X| entrywise, det = sign x prod U_ii vs the exact determinant with a Hadamard-based tolerance, det(A)=det(A^T), det(AB)=det A det B, returned indicator = smallest pivot, ZeroDivisionException iff the smallest pivot is below the threshold (pivots designed a factor >= 4 away or on powers of two), wrong right-hand-side height refused.",
         "6/C05"),
 "C06": ("residual monitors ||AV-VD|| per block with constants from backward-error theory, spectrum reconstruction against prescribed spectra (Bauer-Fike radius), long-double Jacobi / power-series references, watchdog for the QR iteration; " + SAN,
         "n = 1..12 in every storage class: random dense, symmetric, triangular, companion with prescribed real/complex spectra, rotation blocks, repeated eigenvalues, graded, zero/identity matrices: ||Av-vB||_F <= C n eps ||A||_F ||v||_F per block (C = 1e4 / 1e3 symmetric), (d,e) consistent with D, trace and determinant reproduced, symmetric input: e = 0, ascending d, V orthonormal, eigenvalues vs long-double Jacobi; exp and pow(A,p) vs long-double references with bounds using cond(V); DualityDiagram eigenvalues and duality relations; 13 stored witnesses (incl. the two repaired hqr2 non-terminations).",
         "6/C06"),
 "C07": ("differential monitor against exact integer (__int128) and long-double references, identity checks for the log-domain family, exhaustive edge table for empty/length-one/mismatched operands; " + SAN,
         "Every function family named in the statement on vectors of length 0..64 (small integers: exact; reals: rounding bound n*eps*sum|terms|), pairs of equal and unequal length with the documented exception or at least no abort, log-domain identities (shift equivariance, max <= lse <= max+log n, finiteness, logsum of two log-zeros), FDR against the Benjamini-Hochberg formula.",
         "6/C07"),
 "C10": ("recording test-double objective + oracles derived from the statement (descent, value/point consistency, budget, convergence on quadratics, feasibility of every evaluation under AUTO, bracketing) over all optimisers x dimensions x policies x tolerances; " + SAN,
         "Random SPD quadratics (condition <= 1e3) and smooth convex non-quadratic objectives record every evaluation point; all optimisers of the statement, dims 1..6, random starts, interval constraints containing start and minimiser, three constraint policies, tolerances 1e-4..1e-10, small evaluation budgets. Two recorded findings (downhill-simplex stop rule; meta-optimiser with a 'step' simplex) are replayed separately and their class skipped in the bulk workload.",
         "6/C10"),
 "C17": ("generative round-trip monitor with reference recognisers (strict decimal grammar, 5-line glob matcher, reference tokeniser), exhaustive wildcard space; " + SAN,
         "Numbers -> toString(17) -> parse; exhaustive/random strings near the decimal grammar against a reference recogniser + strtod; tokenise -> unparse over small-alphabet strings with all option combinations; nested tokenising vs bracket depth; procedure render -> parse -> changeKeyvals; ALL patterns and names over {a,b,*} up to length 8 through the three matching APIs against a glob matcher; variable resolution fixed point; tables <= 6x6 write -> read; every distribution family and nested compounds write -> read. Three recorded findings (writer cannot express median flag / fixed gamma offset / invariant value).",
         "6/C17"),
 "C18": ("statistical monitors with fixed, derived thresholds (DKW bound on the KS distance against the library's own cdf, Bernstein bounds on category frequencies, delta=1e-13 per comparison), exact structural clauses on every draw, exhaustive small margins for rcont2; " + SAN,
         "Seed reproducibility (run seed + 15 derived seeds, bitwise); continuous samplers and every distribution's randC (N=20000 per parameter point on a grid avoiding the neutral value 1) against the library's cdf with the same parameters; weighted/unweighted picks, cumulative-sum picks, multinomial and each distribution's discrete rand against the given weights; sampling with/without replacement (distinctness, permutation, refusal, subset, emptiness raises) on every draw; rcont2 row and column sums for all 12.7 M margin pairs with totals <= 12 and random margins up to 200; independence-test p-value in [0,1]. Per-run false-alarm probability < 4e-8.",
         "6/C18"),
 "C19": ("differential monitor against a long-double implementation of the three codings, round-trip/injectivity/copy/history probes, audit hook on the simplex parameters; " + SAN,
         "Methods 1-3, dimensions 1..33, with/without the zero-allowing constraint; parameter vectors in (0,1)^(n-1) incl. within 1e-9 of the ends -> non-negative probabilities summing to one; probability vectors with entries >= 1e-9 through constructor and setFrequencies -> returned within a conditioning-derived tolerance; injectivity by perturbation and parameter recovery; update routes and history independence; copy independence; OrderedSimplex order/sum/round trip.",
         "6/C19"),
 "C20": ("reference-model monitor (bitset over the integer universe) executed after every operation of exhaustive and random histories; " + SAN,
         "Every operation sequence up to length 3 over the 0..6 universe (thorough; length 2 + sampled third operation in quick) and 30k..1.5M random histories of length <=12 over 0..24, for int/unsigned/double coordinates, are executed on the real MultiRange/RangeSet next to a bitset model; after each operation disjointness, order, union, total length, deep-copy independence and all Range predicates are compared. Held = no divergence and no sanitizer report on those executions.",
         "6/C20"),
}
NOT_YET = "check not built yet in this snapshot of /verif (work in progress; see DESIGN.md section 6)"

def main():
    hooks_commits = subprocess.run(["git", "-C", "/repo", "log", "--format=%H", "--grep=^verif hook"], stdout=subprocess.PIPE, text=True).stdout.split()
    props = [json.loads(l)["id"] for l in open(os.path.join(VERIF, "properties.jsonl")) if l.strip()]
    checks, na = [], []
    for pid in props:
        if pid in CHECKS and os.path.exists(os.path.join(VERIF, "harness", pid + ".cpp")):
            tech, text, ref = CHECKS[pid]
            note = TRUST % pid
            checks.append({
                "property_id": pid,
                "quick_cmd": "bin/check %s quick" % pid,
                "thorough_cmd": "bin/check %s thorough" % pid,
                "evidence_file": "evidence/%s.json" % pid,
                "replay_cmd_template": "bin/check %s --replay {path}" % pid,
                "engine": "vrt",
                "level_claimed": {"category": "exploration", "text": text, "design_ref": "DESIGN.md section " + ref},
                "level_note": note,
                "technique": tech,
            })
        else:
            na.append({"property_id": pid, "reason": NOT_YET})
    m = {
        "version": 1,
        "setup_cmd": "bin/check --setup",
        "hooks": {
            "guard": "BPP_CORE_VERIF",
            "enable": "bin/check compiles every /repo/src/**/*.cpp (Graphics excluded) itself with -DBPP_CORE_VERIF plus the sanitizer flags of the build variant (ninja files generated under /verif/.cache)",
            "baseline_off_cmd": "bin/baseline_off",
            "source_commits": hooks_commits,
            "add_only": True,
        },
        "engines": [
            {"name": "vrt", "path": "lib/driver.py + rt/vrt.{h,cpp} + harness/Cxx.cpp",
             "serves_properties": [c["property_id"] for c in checks],
             "kind_free_text": "runtime monitoring: the real library rebuilt from /repo with gcc AddressSanitizer+UBSan+_GLIBCXX_ASSERTIONS and hooks on, driven by seeded generated workloads in many short child processes; reference-model monitors compare every observable view after every operation; sanitizer reports, STL assertions, foreign exceptions and watchdog expiries are attributed to the journalled case"},
        ],
        "checks": checks,
        "not_applicable": na,
        "notes": "Exit codes of every command: 0 held on everything explored, 1 new violation (VIOLATION line), 2 inconclusive/harness failure (never a VIOLATION line). VERIF_SEED selects the PRNG seed, VERIF_TIER the tier when no tier argument is given, VERIF_REPO the tree to build (default /repo). Known findings: known_findings.json.",
    }
    with open(os.path.join(VERIF, "MANIFEST.json"), "w") as f:
        json.dump(m, f, indent=1)
        f.write("\n")

if __name__ == "__main__":
    main()
