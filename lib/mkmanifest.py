#!/usr/bin/env python3
"""Regenerates /verif/MANIFEST.json from the table below (kept valid at all times)."""
import json, os, subprocess
VERIF = os.path.dirname(os.path.dirname(os.path.abspath(__file__)))

# property -> (technique, level text, level note, design ref)
CHECKS = {
 "C20": ("reference-model monitor (bitset over the integer universe) executed after every operation of exhaustive and random histories, under ASan+UBSan+hardened STL",
         "Every operation sequence up to length 3 over the 0..6 universe (thorough; length 2 + sampled third operation in quick) and 30k..1.5M random histories of length <=12 over 0..24, for int/unsigned/double coordinates, are executed on the real MultiRange/RangeSet next to a bitset model; after each operation disjointness, order, union, total length, deep-copy independence and all Range predicates are compared. Held = no divergence and no sanitizer report on those executions.",
         "Trusted: the 30-line bitset/interval model in harness/C20.cpp, gcc ASan/UBSan. Integral end points only; nothing is claimed beyond the enumerated universe.",
         "6/C20"),
}
NOT_YET = "check not built yet in this snapshot of /verif (work in progress; see DESIGN.md section 6)"

def main():
    hooks_commits = subprocess.run(["git", "-C", "/repo", "log", "--format=%H", "--grep=^verif hook"], stdout=subprocess.PIPE, text=True).stdout.split()
    props = [json.loads(l)["id"] for l in open(os.path.join(VERIF, "properties.jsonl")) if l.strip()]
    checks, na = [], []
    for pid in props:
        if pid in CHECKS and os.path.exists(os.path.join(VERIF, "harness", pid + ".cpp")):
            tech, text, note, ref = CHECKS[pid]
            checks.append({
                "property_id": pid,
                "quick_cmd": "bin/check %s quick" % pid,
                "thorough_cmd": "bin/check %s thorough" % pid,
                "evidence_file": "evidence/%s.json" % pid,
                "replay_cmd_template": "bin/check %s --replay {path}" % pid,
                "engine": "vrt",
                "level_claimed": {"category": "exploration", "text": text, "design_ref": "DESIGN.md section " + ref},
                "level_note": note,
                "technique": tech,
            })
        else:
            na.append({"property_id": pid, "reason": NOT_YET})
    m = {
        "version": 1,
        "setup_cmd": "bin/check --setup",
        "hooks": {
            "guard": "BPP_CORE_VERIF",
            "enable": "bin/check compiles every /repo/src/**/*.cpp (Graphics excluded) itself with -DBPP_CORE_VERIF plus the sanitizer flags of the build variant (ninja files generated under /verif/.cache)",
            "baseline_off_cmd": "bin/baseline_off",
            "source_commits": hooks_commits,
            "add_only": True,
        },
        "engines": [
            {"name": "vrt", "path": "lib/driver.py + rt/vrt.{h,cpp} + harness/Cxx.cpp",
             "serves_properties": [c["property_id"] for c in checks],
             "kind_free_text": "runtime monitoring: the real library rebuilt from /repo with gcc AddressSanitizer+UBSan+_GLIBCXX_ASSERTIONS and hooks on, driven by seeded generated workloads in many short child processes; reference-model monitors compare every observable view after every operation; sanitizer reports, STL assertions, foreign exceptions and watchdog expiries are attributed to the journalled case"},
        ],
        "checks": checks,
        "not_applicable": na,
        "notes": "Exit codes of every command: 0 held on everything explored, 1 new violation (VIOLATION line), 2 inconclusive/harness failure (never a VIOLATION line). VERIF_SEED selects the PRNG seed, VERIF_TIER the tier when no tier argument is given, VERIF_REPO the tree to build (default /repo). Known findings: known_findings.json.",
    }
    with open(os.path.join(VERIF, "MANIFEST.json"), "w") as f:
        json.dump(m, f, indent=1)
        f.write("\n")

if __name__ == "__main__":
    main()
