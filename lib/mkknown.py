#!/usr/bin/env python3
"""Rebuilds known_findings.json: (1) merges the per-property fragments known/*.json (status "known": genuine
defects recorded rather than repaired, matched at run time by signature), (2) lists every repaired defect
(status "fixed": one unguarded `fix:` commit in /repo each; a fixed entry suppresses nothing)."""
import json, os, glob, re, subprocess
VERIF = os.path.dirname(os.path.dirname(os.path.abspath(__file__)))
out = os.path.join(VERIF, "known_findings.json")
known = {}
for f in sorted(glob.glob(os.path.join(VERIF, "known", "*.json"))):
    for k in json.load(open(f)).get("findings", []):
        if k.get("status", "known") == "known":
            known[k["id"]] = k
fixed = []
log = subprocess.run(["git", "-C", "/repo", "log", "--reverse", "--format=%H%x09%s"], stdout=subprocess.PIPE, text=True).stdout
for line in log.split("\n"):
    if "\t" not in line:
        continue
    sha, subj = line.split("\t", 1)
    if not subj.startswith("fix:"):
        continue
    m = re.search(r"\((C\d\d)\)\s*$", subj)
    prop = m.group(1) if m else "C??"
    what = re.sub(r"\s*\(C\d\d\)\s*$", "", subj[4:].strip())
    fixed.append({"status": "fixed", "property": prop, "commit": sha[:12], "what": what,
                  "line": "fixed: property=%s %s %s" % (prop, sha[:12], what)})
doc = {
 "about": "Known findings of the /verif checks. 'known' entries are genuine defects of BioPP/bpp-core that are recorded instead of repaired: a violation whose signature (clause|class, fnmatch glob) matches is printed as KNOWN-FINDING and does not fail the check; any other violation of the same property still does. 'fixed' entries document repaired defects (fix: commits in /repo) and suppress nothing. The file is read-only at run time.",
 "findings": sorted(known.values(), key=lambda k: (k.get("property", ""), k.get("id", ""))),
 "fixed": fixed,
}
json.dump(doc, open(out, "w"), indent=1)
print(len(doc["findings"]), "known,", len(fixed), "fixed")
