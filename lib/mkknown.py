#!/usr/bin/env python3
"""Merges known/*.json fragments into known_findings.json (single committed file; the driver reads both)."""
import json, os, glob
VERIF = os.path.dirname(os.path.dirname(os.path.abspath(__file__)))
out = os.path.join(VERIF, "known_findings.json")
cur = json.load(open(out)) if os.path.exists(out) else {"findings": []}
byid = {k["id"]: k for k in cur.get("findings", [])}
for f in sorted(glob.glob(os.path.join(VERIF, "known", "*.json"))):
    for k in json.load(open(f)).get("findings", []):
        byid[k["id"]] = k
cur["findings"] = sorted(byid.values(), key=lambda k: (k.get("property", ""), k.get("id", "")))
json.dump(cur, open(out, "w"), indent=1)
print(len(cur["findings"]), "entries")
