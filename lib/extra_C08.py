"""C08 second engine: offline oracle over the event log `fn,args,result` the harness children wrote next to their
journals (<journal>.c08log in the driver's workdir).  The driver runs under the system python3 (no scipy): the
oracle proper is oracle/C08_oracle.py, run with the tooling venv interpreter python3-vt (scipy.special for the bulk,
mpmath at 50 digits for a sample and for every scipy/library disagreement).  Violations come back as JSON and are
appended to acc.viol with clause oracle.accuracy / oracle.inverse and class fn=<function>,region=<branch>."""
import json
import os
import shutil
import subprocess


def run(ctx):
    acc = ctx["acc"]
    workdir = ctx["workdir"]
    script = os.path.join(ctx["verif"], "oracle", "C08_oracle.py")
    out = os.path.join(workdir, "c08_oracle.json")
    logs = [f for f in os.listdir(workdir) if f.endswith(".c08log")]
    nbytes = sum(os.path.getsize(os.path.join(workdir, f)) for f in logs)
    interp = shutil.which("python3-vt") or "/usr/local/bin/python3-vt"
    cmd = [interp, script, workdir, out, "--jobs", str(max(1, ctx["jobs"])), "--tier", ctx["tier"]]
    env = dict(os.environ)
    env["OMP_NUM_THREADS"] = "1"
    env["OPENBLAS_NUM_THREADS"] = "1"
    try:
        r = subprocess.run(cmd, stdout=subprocess.PIPE, stderr=subprocess.STDOUT, text=True, timeout=4 * 3600, env=env)
    except (OSError, subprocess.TimeoutExpired) as e:
        acc.inconclusive.append("C08 offline oracle could not be run: %r" % (e,))
        return {"offline_oracle": {"error": repr(e)}}
    if r.returncode != 0 or not os.path.exists(out):
        acc.inconclusive.append("C08 offline oracle failed (rc=%s): %s" % (r.returncode, r.stdout[-1500:]))
        return {"offline_oracle": {"error": r.stdout[-1500:]}}
    with open(out) as f:
        res = json.load(f)
    with acc.lock:
        for k, n in res["counts"].items():
            acc.clause[k] = acc.clause.get(k, 0) + n
        for v in res["violations"]:
            acc.viol.append(dict(group=v["group"], idx=v["idx"], clause=v["clause"], cls=v["cls"], witness=v["witness"],
                                 desc=v["desc"], steps=v.get("steps", [])))
    st = res["stats"]
    if st.get("unconfirmed"):
        acc.inconclusive.append("C08 offline oracle: %d scipy/library disagreements could not be evaluated by mpmath, e.g. %s" % (
            len(st["unconfirmed"]), st["unconfirmed"][0][:300]))
    st["log_files"] = len(logs)
    st["log_bytes"] = nbytes
    st["interpreter"] = interp
    return {"offline_oracle": st}
