// C17 - Writing then reading (formatting then parsing) gives back the same data.
// Every group runs the real library on generated inputs and compares the result with a small reference
// (a recogniser for the strict decimal grammar + strtod, a partition check of tokens and separators,
// a bracket matcher, a glob matcher, a variable expander, plain equality of what was written and read back).
#include "vrt.h"

#include <Bpp/App/ApplicationTools.h>
#include <Bpp/Io/BppODiscreteDistributionFormat.h>
#include <Bpp/Io/BppOParametrizableFormat.h>
#include <Bpp/Io/OutputStream.h>
#include <Bpp/Numeric/DataTable.h>
#include <Bpp/Numeric/Parameter.h>
#include <Bpp/Numeric/ParameterList.h>
#include <Bpp/Numeric/Prob/BetaDiscreteDistribution.h>
#include <Bpp/Numeric/Prob/ConstantDistribution.h>
#include <Bpp/Numeric/Prob/ExponentialDiscreteDistribution.h>
#include <Bpp/Numeric/Prob/GammaDiscreteDistribution.h>
#include <Bpp/Numeric/Prob/GaussianDiscreteDistribution.h>
#include <Bpp/Numeric/Prob/InvariantMixedDiscreteDistribution.h>
#include <Bpp/Numeric/Prob/MixtureOfDiscreteDistributions.h>
#include <Bpp/Numeric/Prob/SimpleDiscreteDistribution.h>
#include <Bpp/Numeric/Prob/TruncatedExponentialDiscreteDistribution.h>
#include <Bpp/Numeric/Prob/UniformDiscreteDistribution.h>
#include <Bpp/Text/KeyvalTools.h>
#include <Bpp/Text/NestedStringTokenizer.h>
#include <Bpp/Text/StringTokenizer.h>
#include <Bpp/Text/TextTools.h>
#include <Bpp/Utils/AttributesTools.h>

#include <algorithm>
#include <cerrno>
#include <cfloat>
#include <climits>
#include <cstdio>
#include <cstdlib>
#include <cstring>
#include <map>
#include <memory>
#include <set>
#include <sstream>

using namespace bpp;
using namespace std;
using vrt::str;
using vrt::u64;

namespace
{
// ------------------------------------------------------------------ small helpers
string q(const string& s)
{
  string r = "\"";
  for (char ch : s)
  {
    if (ch == '\t') r += "\\t";
    else if (ch == '\n') r += "\\n";
    else if (ch == '"') r += "\\\"";
    else r += ch;
  }
  return r + "\"";
}

// strings over alphabet A in length-then-lexicographic order: index 0 = "", 1..|A| = length 1, ...
string nthString(const string& A, u64 idx)
{
  size_t k = A.size(), len = 0;
  u64 block = 1;
  while (idx >= block) { idx -= block; block *= k; ++len; }
  string s(len, A[0]);
  for (size_t i = len; i-- > 0;) { s[i] = A[idx % k]; idx /= k; }
  return s;
}
u64 countStrings(size_t k, size_t maxLen)
{
  u64 tot = 0, b = 1;
  for (size_t l = 0; l <= maxLen; ++l) { tot += b; b *= k; }
  return tot;
}

string showList(const deque<string>& v)
{
  string s = "[";
  for (size_t i = 0; i < v.size(); ++i) s += (i ? "," : "") + q(v[i]);
  return s + "]";
}
string showList(const vector<string>& v)
{
  string s = "[";
  for (size_t i = 0; i < v.size() && i < 24; ++i) s += (i ? "," : "") + q(v[i]);
  if (v.size() > 24) s += ",...(" + str(v.size()) + ")";
  return s + "]";
}
string showMap(const map<string, string>& m)
{
  string s = "{";
  bool first = true;
  for (auto& kv : m) { s += (first ? "" : ", ") + q(kv.first) + ":" + q(kv.second); first = false; }
  return s + "}";
}

// ================================================================== 1. numbers
// non-default format characters: only the decimal separator, only the exponent character, both (two spellings each)
struct NumChars { char dec, sci; };
const NumChars kAltChars[] = { { ',', 'e' }, { '.', 'E' }, { ',', 'E' }, { ';', 'e' }, { '.', 'd' }, { ';', 'd' } };
const size_t kNAltChars = sizeof(kAltChars) / sizeof(kAltChars[0]);
// the same spelling with other format characters ('.' -> dec, 'e' -> sci)
string translit(const string& s, char dec, char sci)
{
  string t = s;
  for (char& ch : t) { if (ch == '.') ch = dec; else if (ch == 'e') ch = sci; }
  return t;
}

// ---- x -> toString(x,17) -> toDouble / toInt
double genDouble(vrt::Rng& r, int kind)
{
  static const double special[] = { 0.0, -0.0, DBL_MIN, -DBL_MIN, 4.9406564584124654e-324, -4.9406564584124654e-324, DBL_MAX, -DBL_MAX, DBL_EPSILON,
                                    1.0 / 3, 0.1, 0.2, 0.3, 1e22, 1e23, 9007199254740992.0, 9007199254740993.0, 1e-5, 1e-4, 123456.0, 1234567.0,
                                    1e16, 1e17, 99999999999999984.0, 0.5, 2.2250738585072011e-308, 1.7976931348623157e308, 1e-323, 1e300, -1e-300, 1e15, 1e-7 };
  switch (kind)
  {
  case 0:
    for (;;)
    {
      u64 b = r.next();
      double x;
      memcpy(&x, &b, sizeof x);
      if (std::isfinite(x)) return x;
    }
  case 1: return r.real(-1000, 1000);
  case 2: return static_cast<double>(r.range(-1000000, 1000000));
  case 3: return static_cast<double>(r.range(-999999, 999999)) / std::pow(10.0, static_cast<double>(r.range(0, 9)));
  case 4: return (r.chance(0.5) ? 1 : -1) * std::pow(10.0, static_cast<double>(r.range(-320, 308)));
  case 5: return special[r.below(sizeof(special) / sizeof(special[0]))];
  case 6: return (r.chance(0.5) ? 1 : -1) * r.logReal(1e-320, 1e308);
  default: return std::ldexp(static_cast<double>(r.range(1, 9007199254740991LL)), static_cast<int>(r.range(-1074, 971)));
  }
}

string doubleClass(double x, const string& s)
{
  double a = std::fabs(x);
  string mag = a == 0 ? "zero" : a < DBL_MIN ? "denormal" : a < 1e-5 ? "tiny" : a < 1 ? "fraction" : a < 1e16 ? "moderate" : "huge";
  return string("double:") + (s.find('e') != string::npos ? "scientific" : "fixed") + ":" + mag + (std::signbit(x) ? ":neg" : ":pos");
}

void caseNumberRoundTrip(vrt::Case& c)
{
  vrt::describe("number-roundtrip", "80 doubles and 40 ints -> toString(x,17) -> toDouble/toInt/to<T>/fromString<T>");
  for (int j = 0; j < 80; ++j)
  {
    double x = genDouble(c.rng, static_cast<int>((c.index + static_cast<u64>(j)) % 8));
    string s = TextTools::toString(x, 17);
    string cls = doubleClass(x, s);
    vrt::cover(cls);
    double y = 0;
    vrt::Outcome o = vrt::capture([&] { y = TextTools::toDouble(s); });
    if (vrt::expect(o.returned(), "format.double-parses", cls, [&] { return "toString(" + vrt::hexd(x) + ",17)=" + q(s) + " then toDouble " + o.text(); }))
      vrt::expect(y == x, "format.double-roundtrip", cls + ":toDouble", [&] { return "toString(" + vrt::hexd(x) + ",17)=" + q(s) + " parsed back as " + vrt::hexd(y); });
    vrt::expect(TextTools::isDecimalNumber(s), "format.double-parses", cls + ":isDecimalNumber", [&] { return "isDecimalNumber(" + q(s) + ") is false for a formatted double"; });
    double z = TextTools::to<double>(s), w = TextTools::fromString<double>(s);
    vrt::expect(z == x && w == x, "format.double-roundtrip", cls + ":to<double>", [&] { return "toString(" + vrt::hexd(x) + ",17)=" + q(s) + " to<double>=" + vrt::hexd(z) + " fromString<double>=" + vrt::hexd(w); });
    // the same 17-digit spelling written with other format characters denotes the same number in the grammar with those characters
    for (size_t a = 0; a < 3; ++a)
    {
      const NumChars& nc = kAltChars[(static_cast<size_t>(j) + a * 2 + (a == 2 ? c.index : 0)) % kNAltChars];
      string sa = translit(s, nc.dec, nc.sci);
      string tag = string(":dec=") + nc.dec + ":sci=" + nc.sci;
      double ya = 0;
      vrt::Outcome oa = vrt::capture([&] { ya = TextTools::toDouble(sa, nc.dec, nc.sci); });
      if (vrt::expect(oa.returned(), "format.double-parses", cls + tag, [&] { return "toString(" + vrt::hexd(x) + ",17)=" + q(s) + " spelled " + q(sa) + " then toDouble(.,'" + nc.dec + "','" + nc.sci + "') " + oa.text(); }))
        vrt::expect(ya == x, "format.double-roundtrip", cls + ":toDouble" + tag, [&] { return "toString(" + vrt::hexd(x) + ",17)=" + q(s) + " spelled " + q(sa) + " parsed back by toDouble(.,'" + nc.dec + "','" + nc.sci + "') as " + vrt::hexd(ya); });
      vrt::expect(TextTools::isDecimalNumber(sa, nc.dec, nc.sci), "format.double-parses", cls + ":isDecimalNumber" + tag, [&] { return "isDecimalNumber(" + q(sa) + ",'" + nc.dec + "','" + nc.sci + "') is false for a formatted double"; });
    }
  }
  for (int j = 0; j < 40; ++j)
  {
    int i;
    switch (j % 5)
    {
    case 0: i = static_cast<int>(c.rng.range(INT_MIN, INT_MAX)); break;
    case 1: i = static_cast<int>(c.rng.range(-1000, 1000)); break;
    case 2: { static const int b[] = { INT_MIN, INT_MAX, INT_MIN + 1, INT_MAX - 1, 0, -1, 1, 10, -10, 1000000000, -1000000000, 99999, 100000 }; i = b[c.rng.below(13)]; break; }
    case 3: i = static_cast<int>(std::pow(10.0, static_cast<double>(c.rng.range(0, 9)))) * (c.rng.chance(0.5) ? 1 : -1) + static_cast<int>(c.rng.range(-1, 1)); break;
    default: i = static_cast<int>(c.rng.range(-99999999, 99999999));
    }
    string s = c.rng.chance(0.5) ? TextTools::toString(i) : TextTools::toString(i, 17);
    string cls = string("int:") + (i < 0 ? "neg" : i == 0 ? "zero" : "pos") + ":digits" + str(min<size_t>(s.size() - (i < 0 ? 1 : 0), 10));
    vrt::cover(cls);
    int y = 0;
    vrt::Outcome o = vrt::capture([&] { y = TextTools::toInt(s); });
    if (vrt::expect(o.returned(), "format.int-parses", cls, [&] { return "toString(" + str(i) + ")=" + q(s) + " then toInt " + o.text(); }))
      vrt::expect(y == i, "format.int-roundtrip", cls + ":toInt", [&] { return "toString(" + str(i) + ")=" + q(s) + " parsed back as " + str(y); });
    int z = TextTools::to<int>(s), w = TextTools::fromString<int>(s);
    vrt::expect(z == i && w == i && TextTools::isDecimalInteger(s), "format.int-roundtrip", cls + ":to<int>", [&] { return "toString(" + str(i) + ")=" + q(s) + " to<int>=" + str(z) + " fromString<int>=" + str(w) + " isDecimalInteger=" + str(TextTools::isDecimalInteger(s)); });
    {
      // an exponent-free spelling is the same integer whatever the exponent character is
      char sci = kAltChars[1 + static_cast<size_t>(j) % (kNAltChars - 1)].sci;
      int ya = 0;
      vrt::Outcome oa = vrt::capture([&] { ya = TextTools::toInt(s, sci); });
      if (vrt::expect(oa.returned(), "format.int-parses", cls + ":sci=" + sci, [&] { return "toString(" + str(i) + ")=" + q(s) + " then toInt(.,'" + sci + "') " + oa.text(); }))
        vrt::expect(ya == i && TextTools::isDecimalInteger(s, sci), "format.int-roundtrip", cls + ":toInt:sci=" + sci, [&] { return "toString(" + str(i) + ")=" + q(s) + " parsed back by toInt(.,'" + sci + "') as " + str(ya) + " isDecimalInteger=" + str(TextTools::isDecimalInteger(s, sci)); });
    }
  }
}

// ---- reference recogniser:  -?(d+(.d*)?|.d+)(e[+-]?d+)?   and the integer analogue  -?d+(e+?d+)?
struct NumRef
{
  bool accept = false;
  bool unjudged = false; // integer with a negative exponent: the statement does not say whether "1e-0" is an integer
  string reason;         // why the grammar rejects
  bool hasDot = false, hasExp = false;
  char expSign = 0;
  string features() const { return string(hasDot ? "dot" : "nodot") + (hasExp ? string(":exp") + (expSign ? string(1, expSign) : string("")) : string(":noexp")); }
};

NumRef refDecimal(const string& s, char dec, char sci, bool integer)
{
  NumRef r;
  auto cc = [&](char ch) -> string {
      if (isdigit(static_cast<unsigned char>(ch))) return "digit";
      if (ch == dec) return "dot";
      if (ch == sci) return "exp";
      if (ch == '-') return "minus";
      if (ch == '+') return "plus";
      if (isspace(static_cast<unsigned char>(ch))) return "space";
      return "other";
    };
  size_t i = 0, n = s.size();
  if (n == 0) { r.reason = "empty"; return r; }
  if (s[i] == '-') ++i;
  size_t d1 = 0, d2 = 0;
  while (i < n && isdigit(static_cast<unsigned char>(s[i]))) { ++i; ++d1; }
  if (!integer && i < n && s[i] == dec)
  {
    r.hasDot = true;
    ++i;
    while (i < n && isdigit(static_cast<unsigned char>(s[i]))) { ++i; ++d2; }
  }
  if (d1 + d2 == 0)
  {
    if (!r.hasDot && i < n && s[i] != sci) r.reason = "junk-at-start:" + cc(s[i]);
    else r.reason = "no-mantissa-digit";
    return r;
  }
  if (i < n && s[i] == sci)
  {
    r.hasExp = true;
    ++i;
    if (i < n && (s[i] == '+' || s[i] == '-')) { r.expSign = s[i]; ++i; }
    size_t d3 = 0;
    while (i < n && isdigit(static_cast<unsigned char>(s[i]))) { ++i; ++d3; }
    if (d3 == 0) { r.reason = "no-exponent-digit"; return r; }
  }
  if (i < n) { r.reason = "junk-after-number:" + cc(s[i]); return r; }
  if (integer && r.expSign == '-') { r.unjudged = true; r.reason = "negative-exponent"; return r; }
  r.accept = true;
  return r;
}

// value the grammar assigns (strtod on the canonical spelling); false when out of the double range
bool refValue(const string& s, char dec, char sci, double& v)
{
  string c = s;
  for (char& ch : c) { if (ch == dec) ch = '.'; else if (ch == sci) ch = 'e'; }
  errno = 0;
  char* end = nullptr;
  v = strtod(c.c_str(), &end);
  return errno != ERANGE && end && *end == 0;
}

void checkNumberString(const string& s, char dec, char sci)
{
  const string tag = (dec == '.' && sci == 'e') ? string("") : string("dec=") + dec + ":sci=" + sci + ":";
  auto call = [&](const string& f) { return f + "(" + q(s) + (tag.empty() ? string("") : string(",'") + dec + "','" + sci + "'") + ")"; };
  // ---- doubles
  NumRef rd = refDecimal(s, dec, sci, false);
  vrt::cover("grammar:double:" + tag + (rd.accept ? "valid:" + rd.features() : "invalid:" + rd.reason));
  bool a = TextTools::isDecimalNumber(s, dec, sci);
  vrt::expect(a == rd.accept, "grammar.isDecimalNumber", tag + (rd.accept ? "rejects-valid:" + rd.features() : "accepts-invalid:" + rd.reason),
      [&] { return call("isDecimalNumber") + " = " + str(a) + " but the grammar " + (rd.accept ? "accepts it" : "rejects it (" + rd.reason + ")"); });
  double v = 0;
  vrt::Outcome o = vrt::capture([&] { v = TextTools::toDouble(s, dec, sci); });
  if (rd.accept)
  {
    double e = 0;
    if (!refValue(s, dec, sci, e))
      vrt::counted("grammar.toDouble-out-of-range-unjudged"); // value outside the range of double: returning anything or raising are both accepted
    else if (vrt::expect(o.returned(), "grammar.toDouble-accepts", tag + "valid:" + rd.features(), [&] { return call("toDouble") + " " + o.text() + " but the grammar accepts it"; }))
      vrt::expect(vrt::sameDouble(v, e), "grammar.toDouble-value", tag + rd.features(), [&] { return call("toDouble") + " = " + str(v) + " (" + vrt::hexd(v) + ") but the grammar assigns " + str(e) + " (" + vrt::hexd(e) + ")"; });
  }
  else
    vrt::expect(o.raisedBpp(), "grammar.toDouble-raises", tag + "invalid:" + rd.reason + (o.returned() ? ":returned" : ":foreign-exception"),
        [&] { return call("toDouble") + " " + (o.returned() ? "returned " + str(v) : o.text()) + " but the grammar rejects it (" + rd.reason + "): a bpp::Exception is required"; });
  // ---- integers
  NumRef ri = refDecimal(s, dec, sci, true);
  vrt::cover("grammar:int:" + tag + (ri.accept ? "valid:" + ri.features() : "invalid:" + ri.reason));
  int iv = 0;
  bool ai = TextTools::isDecimalInteger(s, sci);
  vrt::Outcome oi = vrt::capture([&] { iv = TextTools::toInt(s, sci); });
  if (ri.unjudged)
  {
    vrt::counted("grammar.int-negative-exponent-unjudged");
    return;
  }
  vrt::expect(ai == ri.accept, "grammar.isDecimalInteger", tag + (ri.accept ? "rejects-valid:" + ri.features() : "accepts-invalid:" + ri.reason),
      [&] { return call("isDecimalInteger") + " = " + str(ai) + " but the integer grammar " + (ri.accept ? "accepts it" : "rejects it (" + ri.reason + ")"); });
  if (ri.accept)
  {
    double e = 0;
    if (!(refValue(s, '.', sci, e) && e >= -2147483648.0 && e <= 2147483647.0))
      vrt::counted("grammar.toInt-out-of-range-unjudged"); // value outside the range of int: returning anything or raising are both accepted
    else if (vrt::expect(oi.returned(), "grammar.toInt-accepts", tag + "valid:" + ri.features(), [&] { return call("toInt") + " " + oi.text() + " but the integer grammar accepts it"; }))
      vrt::expect(iv == static_cast<int>(e), "grammar.toInt-value", tag + ri.features(), [&] { return call("toInt") + " = " + str(iv) + " but the grammar assigns " + str(static_cast<int>(e)); });
  }
  else
    vrt::expect(oi.raisedBpp(), "grammar.toInt-raises", tag + "invalid:" + ri.reason + (oi.returned() ? ":returned" : ":foreign-exception"),
        [&] { return call("toInt") + " " + (oi.returned() ? "returned " + str(iv) : oi.text()) + " but the integer grammar rejects it (" + ri.reason + "): a bpp::Exception is required"; });
}

const char* grammarAlphabet(int tier) { return tier == 0 ? "019-+.e" : "01259-+.e"; }
const size_t kGrammarPrefix = 3, kGrammarMaxLen = 6;
const u64 kAltStride = 3; // every third string of the exhaustive sweep is also checked in a non-default spelling
u64 grammarCases(int tier)
{
  size_t k = strlen(grammarAlphabet(tier));
  u64 p = 1;
  for (size_t i = 0; i < kGrammarPrefix; ++i) p *= k;
  return p + 1;
}

void caseGrammarExhaustive(vrt::Case& c)
{
  const string A = grammarAlphabet(c.tier);
  const size_t k = A.size();
  u64 nPrefix = grammarCases(c.tier) - 1;
  if (c.index == nPrefix)
  {
    vrt::describe("grammar-exhaustive", "all strings over {" + A + "} of length 0.." + str(kGrammarPrefix - 1));
    for (u64 i = 0; i < countStrings(k, kGrammarPrefix - 1); ++i)
    {
      string s = nthString(A, i);
      if (vrt::replaying()) vrt::note(q(s));
      checkNumberString(s, '.', 'e');
      for (size_t a = 0; a < kNAltChars; ++a) checkNumberString(translit(s, kAltChars[a].dec, kAltChars[a].sci), kAltChars[a].dec, kAltChars[a].sci);
    }
    return;
  }
  string prefix(kGrammarPrefix, A[0]);
  {
    u64 x = c.index;
    for (size_t i = kGrammarPrefix; i-- > 0;) { prefix[i] = A[x % k]; x /= k; }
  }
  vrt::describe("grammar-exhaustive", "all strings over {" + A + "} of length " + str(kGrammarPrefix) + ".." + str(kGrammarMaxLen) + " starting with " + q(prefix));
  for (u64 i = 0; i < countStrings(k, kGrammarMaxLen - kGrammarPrefix); ++i)
  {
    string s = prefix + nthString(A, i);
    if (vrt::replaying()) vrt::note(q(s));
    checkNumberString(s, '.', 'e');
    // the same spelling with non-default format characters (rotating: separator only, exponent character only, both)
    if (i % kAltStride == c.index % kAltStride)
    {
      const NumChars& nc = kAltChars[(i / kAltStride + c.index) % kNAltChars];
      checkNumberString(translit(s, nc.dec, nc.sci), nc.dec, nc.sci);
    }
    if (vrt::violationsInCase() > 40) return;
  }
}

// random strings near the grammar: a grammatical number, then 0..3 edits with characters of a wider alphabet
string genNumberLike(vrt::Rng& r, char dec, char sci)
{
  auto digits = [&](size_t lo, size_t hi) { string d; size_t n = static_cast<size_t>(r.range(static_cast<long long>(lo), static_cast<long long>(hi))); for (size_t i = 0; i < n; ++i) d += static_cast<char>('0' + r.below(10)); return d; };
  string s;
  if (r.chance(0.4)) s += '-';
  int form = static_cast<int>(r.below(4));
  if (form == 0) s += digits(1, 12);
  else if (form == 1) s += digits(1, 9) + dec + digits(0, 9);
  else if (form == 2) s += string(1, dec) + digits(1, 9);
  else s += digits(1, 3);
  if (r.chance(0.5))
  {
    s += sci;
    if (r.chance(0.6)) s += r.chance(0.5) ? '+' : '-';
    s += digits(1, 3);
  }
  const string wide = string("0123456789") + dec + sci + "-+ \teEx.,";
  size_t edits = r.chance(0.45) ? 0 : static_cast<size_t>(r.range(1, 3));
  for (size_t e = 0; e < edits; ++e)
  {
    size_t pos = r.below(s.size() + 1);
    int kind = static_cast<int>(r.below(3));
    if (kind == 0 || s.empty()) s.insert(pos, 1, wide[r.below(wide.size())]);
    else if (kind == 1) s.erase(min(pos, s.size() - 1), 1);
    else s[min(pos, s.size() - 1)] = wide[r.below(wide.size())];
  }
  return s;
}

void caseGrammarRandom(vrt::Case& c)
{
  vrt::describe("grammar-random", "32 generated number-like strings (grammatical numbers with 0..3 random edits), default and non-default decimal/exponent characters in all four combinations");
  for (int j = 0; j < 20; ++j)
  {
    bool alt = j % 4 == 3;
    char dec = alt ? ',' : '.', sci = alt ? 'E' : 'e';
    string s = genNumberLike(c.rng, dec, sci);
    if (vrt::replaying()) vrt::note(q(s));
    checkNumberString(s, dec, sci);
  }
  // all combinations default / non-default of the two format characters; every fourth string is written for
  // other characters than the ones it is checked with (the default ones or another configuration)
  for (size_t j = 0; j < 12; ++j)
  {
    const NumChars& nc = kAltChars[(j + c.index) % kNAltChars];
    NumChars gen = nc;
    if (j % 4 == 3) gen = c.rng.chance(0.5) ? NumChars{ '.', 'e' } : kAltChars[c.rng.below(kNAltChars)];
    string s = genNumberLike(c.rng, gen.dec, gen.sci);
    if (vrt::replaying()) vrt::note(q(s) + " with '" + nc.dec + "','" + nc.sci + "'");
    checkNumberString(s, nc.dec, nc.sci);
  }
}

// ================================================================== 2. tokenisers
bool isSepOnly(const string& x, const string& d, bool solid)
{
  if (d.empty()) return x.empty();
  if (!solid) return x.find_first_not_of(d) == string::npos;
  if (x.size() % d.size() != 0) return false;
  for (size_t i = 0; i < x.size(); i += d.size())
    if (x.compare(i, d.size(), d) != 0) return false;
  return true;
}
bool hasDelimiter(const string& t, const string& d, bool solid)
{
  if (d.empty()) return false;
  return solid ? t.find(d) != string::npos : t.find_first_of(d) != string::npos;
}
// R = L + t + S with L, S made of separators only; returns false when impossible; sepLen = |S|
bool splitRegion(const string& R, const string& t, const string& d, bool solid, bool allowLead, size_t& sepLen)
{
  size_t a = 0;
  if (allowLead && !t.empty() && !d.empty())
  {
    if (!solid) { a = R.find_first_not_of(d); if (a == string::npos) return false; }
    else
      while (R.compare(a, t.size(), t) != 0 || !isSepOnly(R.substr(a + t.size()), d, solid))
      {
        if (R.compare(a, d.size(), d) != 0) return false;
        a += d.size();
        if (a > R.size()) return false;
      }
  }
  if (a > R.size() || R.compare(a, t.size(), t) != 0) return false;
  string S = R.substr(a + t.size());
  if (!isSepOnly(S, d, solid)) return false;
  sepLen = S.size();
  return true;
}

void checkTokenizer(const string& s, const string& d, bool solid, bool allowEmpty)
{
  const string mode = string(solid ? "solid" : "charset") + (allowEmpty ? ":empty-kept" : ":empty-dropped") + ":dlen" + str(min<size_t>(d.size(), 2));
  const string call = "StringTokenizer(" + q(s) + "," + q(d) + "," + (solid ? "solid" : "charset") + "," + (allowEmpty ? "allowEmpty" : "noEmpty") + ")";
  unique_ptr<StringTokenizer> st;
  vrt::Outcome o = vrt::capture([&] { st.reset(new StringTokenizer(s, d, solid, allowEmpty)); });
  if (!vrt::expect(o.returned(), "tokenizer.constructs", mode, [&] { return call + " " + o.text(); })) return;
  const deque<string> toks = st->getTokens();
  const size_t n = toks.size();
  // structural features of the input
  bool lead = false, trail = false, onlySep = !s.empty() && isSepOnly(s, d, solid) && !d.empty();
  if (!d.empty() && !s.empty())
  {
    lead = solid ? s.compare(0, d.size(), d) == 0 : d.find(s[0]) != string::npos;
    trail = solid ? (s.size() >= d.size() && s.compare(s.size() - d.size(), d.size(), d) == 0) : d.find(s[s.size() - 1]) != string::npos;
  }
  const string feat = s.empty() ? "empty-input" : onlySep ? "only-delimiters" : string(lead ? "leading-delimiter" : "") + (lead && trail ? "+" : "") + (trail ? "trailing-delimiter" : "") + (!lead && !trail ? "inner-only" : "");
  vrt::cover("tokenizer:" + mode + ":" + feat + ":n" + str(min<size_t>(n, 3)));
  string u0;
  vrt::Outcome ou = vrt::capture([&] { u0 = st->unparseRemainingTokens(); });
  if (!vrt::expect(ou.returned(), "tokenizer.unparse-returns", mode, [&] { return call + ".unparseRemainingTokens() " + ou.text(); })) return;
  vrt::expect(u0 == s, "tokenizer.unparse-reproduces-input", mode + ":" + feat, [&] { return call + " tokens " + showList(toks) + " unparse to " + q(u0); });
  vrt::expect(st->numberOfRemainingTokens() == n && st->hasMoreToken() == (n > 0), "tokenizer.counts", mode, [&] { return call + " numberOfRemainingTokens=" + str(st->numberOfRemainingTokens()) + " tokens=" + str(n); });
  // tokens are delimiter-free
  for (size_t k = 0; k < n; ++k)
    vrt::expect(!hasDelimiter(toks[k], d, solid), "tokenizer.token-has-no-delimiter", mode, [&] { return call + " token " + str(k) + " = " + q(toks[k]) + " of " + showList(toks); });
  if (n == 0)
  {
    vrt::expect(isSepOnly(s, d, solid), "tokenizer.partition", mode + ":no-token", [&] { return call + " gives no token although the input is not made of delimiters only"; });
    return;
  }
  // positions of the remaining text after consuming k tokens
  vector<size_t> p(n, 0);
  bool chain = true;
  for (size_t k = 1; k < n && chain; ++k)
  {
    string t;
    vrt::Outcome on = vrt::capture([&] { t = st->nextToken(); });
    chain = vrt::expect(on.returned() && t == toks[k - 1], "tokenizer.nextToken-order", mode, [&] { return call + " nextToken #" + str(k - 1) + " " + (on.returned() ? "= " + q(t) : on.text()) + " but getTokens " + showList(toks); });
    if (!chain) break;
    string u = st->unparseRemainingTokens();
    bool suffix = u.size() <= s.size() && s.compare(s.size() - u.size(), u.size(), u) == 0 && u.compare(0, toks[k].size(), toks[k]) == 0;
    chain = vrt::expect(suffix, "tokenizer.unparse-remaining-is-suffix", mode + ":" + feat, [&] { return call + " after " + str(k) + " nextToken(): unparseRemainingTokens()=" + q(u) + " is not the rest of the input starting at token " + q(toks[k]) + "; tokens " + showList(toks); });
    p[k] = s.size() - u.size();
    if (chain && p[k] < p[k - 1]) chain = vrt::expect(false, "tokenizer.unparse-remaining-is-suffix", mode + ":not-shrinking", [&] { return call + " remaining text grows after nextToken #" + str(k); });
  }
  if (!chain) return;
  // partition: input = [lead] t0 sep0 t1 sep1 ... t(n-1) [trail]
  for (size_t k = 0; k < n; ++k)
  {
    size_t from = k == 0 ? 0 : p[k], to = k + 1 < n ? p[k + 1] : s.size();
    string R = s.substr(from, to - from);
    size_t sepLen = 0;
    bool okp = splitRegion(R, toks[k], d, solid, k == 0, sepLen) && (k + 1 == n || sepLen > 0);
    if (!vrt::expect(okp, "tokenizer.partition", mode, [&] { return call + " tokens " + showList(toks) + ": the text " + q(R) + " between the starts of tokens " + str(k) + " and " + str(k + 1) + " is not token " + q(toks[k]) + " followed by separators only"; })) return;
    if (k + 1 < n)
    {
      if (allowEmpty)
        vrt::expect(sepLen == (solid ? d.size() : 1), "tokenizer.empty-tokens-kept", mode, [&] { return call + " tokens " + showList(toks) + ": a run of " + str(sepLen) + " separator characters after token " + str(k) + " produced no empty token"; });
    }
    if (!allowEmpty && (!solid || (k > 0 && k + 1 < n)))
      vrt::expect(!toks[k].empty(), "tokenizer.empty-tokens-dropped", mode, [&] { return call + " tokens " + showList(toks) + ": empty token " + str(k) + " although empty tokens are to be ignored"; });
  }
}

const vector<string>& tokenizerDelims()
{
  static const vector<string> D = { ",", " ", ", ", ",,", "=,", "" };
  return D;
}
const char* kTokAlphabet = "a=(, ";
size_t tokMaxLen(int tier) { return tier == 0 ? 6 : 8; }
const u64 kTokBlock = 64;

void caseTokenizerExhaustive(vrt::Case& c)
{
  const string A = kTokAlphabet;
  u64 total = countStrings(A.size(), tokMaxLen(c.tier));
  u64 lo = c.index * kTokBlock, hi = min(total, lo + kTokBlock);
  vrt::describe("tokenizer-exhaustive", "strings #" + str(lo) + ".." + str(hi - 1) + " over {a,=,(,comma,space} (" + q(nthString(A, lo)) + " ...), 6 delimiter strings x solid x allowEmptyTokens");
  for (u64 i = lo; i < hi; ++i)
  {
    string s = nthString(A, i);
    for (const string& d : tokenizerDelims())
      for (int m = 0; m < 4; ++m)
      {
        if (vrt::replaying()) vrt::note(q(s) + " delims " + q(d) + " mode " + str(m));
        checkTokenizer(s, d, (m & 1) != 0, (m & 2) != 0);
      }
    if (vrt::violationsInCase() > 60) return;
  }
}

string genTokString(vrt::Rng& r, size_t minLen, size_t maxLen)
{
  static const string A = "ab=(), ";
  size_t n = static_cast<size_t>(r.range(static_cast<long long>(minLen), static_cast<long long>(maxLen)));
  string s;
  double pd = r.real(0.1, 0.6);
  for (size_t i = 0; i < n; ++i)
    s += r.chance(pd) ? (r.chance(0.5) ? ',' : ' ') : A[r.below(A.size())];
  return s;
}

void caseTokenizerRandom(vrt::Case& c)
{
  vrt::describe("tokenizer-random", "8 random strings of length 7..24 over {a,b,=,(,),comma,space}, 6 delimiter strings x solid x allowEmptyTokens");
  for (int j = 0; j < 8; ++j)
  {
    string s = genTokString(c.rng, 7, 24);
    for (const string& d : tokenizerDelims())
      for (int m = 0; m < 4; ++m)
      {
        if (vrt::replaying()) vrt::note(q(s) + " delims " + q(d) + " mode " + str(m));
        checkTokenizer(s, d, (m & 1) != 0, (m & 2) != 0);
      }
  }
}

// ---- nested tokeniser
struct Brackets
{
  bool wellFormed = true;
  vector<int> inside; // number of matched pairs strictly enclosing position i
};
Brackets matchBrackets(const string& s)
{
  Brackets b;
  vector<int> diff(s.size() + 1, 0);
  vector<size_t> stack;
  for (size_t i = 0; i < s.size(); ++i)
  {
    if (s[i] == '(') stack.push_back(i);
    else if (s[i] == ')')
    {
      if (stack.empty()) b.wellFormed = false;
      else
      {
        size_t oidx = stack.back();
        stack.pop_back();
        diff[oidx + 1] += 1;
        diff[i] -= 1;
      }
    }
  }
  if (!stack.empty()) b.wellFormed = false;
  b.inside.resize(s.size());
  int cur = 0;
  for (size_t i = 0; i < s.size(); ++i) { cur += diff[i]; b.inside[i] = cur; }
  return b;
}

void checkNested(const string& s, const string& d, bool solid)
{
  const string mode = string(solid ? "solid" : "charset") + ":dlen" + str(min<size_t>(d.size(), 2));
  const string call = "NestedStringTokenizer(" + q(s) + ",\"(\",\")\"," + q(d) + "," + (solid ? "solid" : "charset") + ")";
  Brackets br = matchBrackets(s);
  unique_ptr<NestedStringTokenizer> st;
  vrt::Outcome o = vrt::capture([&] { st.reset(new NestedStringTokenizer(s, "(", ")", d, solid)); });
  int maxDepth = 0;
  bool sepInside = false;
  for (size_t i = 0; i < s.size(); ++i)
  {
    maxDepth = max(maxDepth, br.inside[i] + (s[i] == '(' ? 0 : 0));
    if (br.inside[i] > 0 && d.find(s[i]) != string::npos) sepInside = true;
  }
  vrt::cover("nested:" + mode + (br.wellFormed ? ":well-formed" : ":ill-formed") + ":depth" + str(min(maxDepth, 3)) + (sepInside ? ":delimiter-inside-brackets" : "") + (o.returned() ? ":returned" : ":raised"));
  if (!o.returned())
  {
    vrt::expect(!br.wellFormed, "nested.wellformed-input-tokenises", mode, [&] { return call + " " + o.text() + " although the brackets are balanced"; });
    return;
  }
  vrt::counted("nested.wellformed-input-tokenises");
  const deque<string> toks = st->getTokens();
  // locate the tokens in the input
  size_t cursor = 0;
  vector<pair<size_t, size_t>> gaps; // [from,to) separator regions
  bool located = true;
  for (size_t k = 0; k < toks.size() && located; ++k)
  {
    size_t pk = string::npos;
    if (!solid)
    {
      pk = d.empty() ? cursor : s.find_first_not_of(d, cursor);
      if (pk == string::npos) pk = s.size();
      if (k > 0 && pk == cursor && !d.empty()) located = false; // no separator between two tokens
    }
    else
    {
      size_t j = k == 0 ? 0 : 1;
      if (d.empty()) pk = cursor;
      else
        for (size_t cand = cursor;; ++j)
        {
          // cand = cursor + (number of delimiter copies skipped)*|d|
          cand = cursor + j * d.size();
          bool sepOk = isSepOnly(s.substr(cursor, min(cand, s.size()) - cursor), d, true) && cand <= s.size();
          if (!sepOk) { located = false; break; }
          if (s.compare(cand, toks[k].size(), toks[k]) == 0) { pk = cand; break; }
        }
    }
    if (located && (pk > s.size() || s.compare(pk, toks[k].size(), toks[k]) != 0)) located = false;
    if (located)
    {
      if (pk > cursor) gaps.push_back(make_pair(cursor, pk));
      cursor = pk + toks[k].size();
    }
  }
  if (located && !isSepOnly(s.substr(cursor), d, solid)) located = false;
  if (located && cursor < s.size()) gaps.push_back(make_pair(cursor, s.size()));
  if (!vrt::expect(located, "nested.partition", mode, [&] { return call + " tokens " + showList(toks) + " are not the input cut at delimiters"; })) return;
  for (auto& g : gaps)
    for (size_t i = g.first; i < g.second; ++i)
      if (!vrt::expect(br.inside[i] == 0, "nested.no-split-inside-brackets", mode + (br.wellFormed ? ":well-formed" : ":ill-formed"), [&] { return call + " tokens " + showList(toks) + ": split at position " + str(i) + " which lies inside a matched bracket pair"; })) return;
  if (!br.wellFormed) return;
  // balanced input: the split points are exactly the delimiters outside every bracket
  for (size_t k = 0; k < toks.size(); ++k)
  {
    int depth = 0;
    const string& t = toks[k];
    for (size_t i = 0; i < t.size(); ++i)
    {
      bool isDelim = !d.empty() && (solid ? t.compare(i, d.size(), d) == 0 : d.find(t[i]) != string::npos);
      if (depth == 0 && isDelim)
      {
        vrt::expect(false, "nested.splits-outside-brackets", mode, [&] { return call + " token " + q(t) + " of " + showList(toks) + " contains a delimiter outside every bracket"; });
        return;
      }
      if (t[i] == '(') ++depth;
      else if (t[i] == ')') --depth;
    }
  }
  vrt::counted("nested.splits-outside-brackets");
  if (!solid)
  {
    deque<string> ref;
    string cur;
    int depth = 0;
    for (char ch : s)
    {
      if (depth == 0 && d.find(ch) != string::npos) { if (!cur.empty()) ref.push_back(cur); cur.clear(); continue; }
      if (ch == '(') ++depth;
      else if (ch == ')') --depth;
      cur += ch;
    }
    if (!cur.empty()) ref.push_back(cur);
    vrt::expect(ref == toks, "nested.tokens-match-reference", mode, [&] { return call + " tokens " + showList(toks) + " expected " + showList(ref); });
  }
}

const vector<string>& nestedDelims()
{
  static const vector<string> D = { ",", " ", ", " };
  return D;
}
const char* kNestAlphabet = "a(), ";

void caseNestedExhaustive(vrt::Case& c)
{
  const string A = kNestAlphabet;
  u64 total = countStrings(A.size(), tokMaxLen(c.tier));
  u64 lo = c.index * kTokBlock, hi = min(total, lo + kTokBlock);
  vrt::describe("nested-exhaustive", "strings #" + str(lo) + ".." + str(hi - 1) + " over {a,(,),comma,space} (" + q(nthString(A, lo)) + " ...), 3 delimiter strings x solid");
  for (u64 i = lo; i < hi; ++i)
  {
    string s = nthString(A, i);
    for (const string& d : nestedDelims())
      for (int m = 0; m < 2; ++m)
      {
        if (vrt::replaying()) vrt::note(q(s) + " delims " + q(d) + " solid " + str(m));
        checkNested(s, d, m != 0);
      }
    if (vrt::violationsInCase() > 60) return;
  }
}

string genBalanced(vrt::Rng& r, size_t budget, int depth)
{
  static const string plain = "ab=";
  string s;
  while (s.size() < budget)
  {
    int k = static_cast<int>(r.below(10));
    if (k < 4) s += plain[r.below(plain.size())];
    else if (k < 7) s += r.chance(0.6) ? ',' : ' ';
    else if (depth < 3 && budget - s.size() >= 2)
    {
      size_t inner = static_cast<size_t>(r.range(0, static_cast<long long>(min<size_t>(budget - s.size() - 2, 10))));
      s += "(" + genBalanced(r, inner, depth + 1) + ")";
    }
    else s += 'a';
  }
  return s;
}

void caseNestedRandom(vrt::Case& c)
{
  vrt::describe("nested-random", "10 random strings of length <= 24 (7 with balanced brackets, 3 arbitrary), 3 delimiter strings x solid");
  for (int j = 0; j < 10; ++j)
  {
    string s = j < 7 ? genBalanced(c.rng, static_cast<size_t>(c.rng.range(5, 24)), 0) : genTokString(c.rng, 7, 24);
    if (s.size() > 24) s = s.substr(0, 24);
    for (const string& d : nestedDelims())
      for (int m = 0; m < 2; ++m)
      {
        if (vrt::replaying()) vrt::note(q(s) + " delims " + q(d) + " solid " + str(m));
        checkNested(s, d, m != 0);
      }
  }
}

// ================================================================== 3. key-value procedures
string genIdent(vrt::Rng& r, size_t maxLen)
{
  static const string first = "abcdefghijklmnopqrstuvwxyzABCDEFGHIJKLMNOPQRSTUVWXYZ";
  static const string rest = first + "0123456789_.";
  size_t n = static_cast<size_t>(r.range(1, static_cast<long long>(maxLen)));
  string s(1, first[r.below(first.size())]);
  for (size_t i = 1; i < n; ++i) s += rest[r.below(rest.size())];
  return s;
}
string genSimpleValue(vrt::Rng& r, bool allowSpace)
{
  switch (r.below(8))
  {
  case 0: return TextTools::toString(r.real(-100, 100));
  case 1: return TextTools::toString(static_cast<int>(r.range(-1000, 1000)));
  case 2: return TextTools::toString(r.logReal(1e-9, 1e9), 12);
  case 3: return genIdent(r, 8);
  case 4:
  {
    string s = "(";
    size_t n = static_cast<size_t>(r.range(1, 4));
    for (size_t i = 0; i < n; ++i) s += (i ? "," : "") + TextTools::toString(r.real(0, 1));
    return s + ")";
  }
  case 5: return allowSpace ? genIdent(r, 4) + " " + genIdent(r, 4) : genIdent(r, 6);
  case 6: return r.chance(0.3) ? string("") : "[" + genIdent(r, 3) + ";" + genIdent(r, 3) + "]";
  default: return genIdent(r, 3) + "=" + genIdent(r, 3);
  }
}
struct ProcSpec
{
  string name;
  map<string, string> args;
  vector<string> order;   // keys in rendering order
  set<string> innerKeys;  // keys used inside nested values
  bool hasNested = false;
};
string renderArgs(const vector<pair<string, string>>& kv, const string& split, int style)
{
  string s;
  for (size_t i = 0; i < kv.size(); ++i)
  {
    if (i) s += split;
    if (style == 0) s += kv[i].first + "=" + kv[i].second;
    else s += " " + kv[i].first + " = " + kv[i].second + " ";
  }
  return s;
}
ProcSpec genProc(vrt::Rng& r, size_t nArgs, bool allowSpace)
{
  ProcSpec p;
  p.name = genIdent(r, 8);
  while (p.args.size() < nArgs)
  {
    string k = genIdent(r, 6);
    if (p.args.count(k)) continue;
    string v;
    if (r.chance(0.3))
    {
      // nested one level: Name(k1=v1,k2=v2); inner keys may repeat outer keys
      p.hasNested = true;
      size_t m = static_cast<size_t>(r.range(0, 3));
      vector<pair<string, string>> inner;
      set<string> used;
      while (inner.size() < m)
      {
        string ik = (!p.order.empty() && r.chance(0.4)) ? p.order[r.below(p.order.size())] : genIdent(r, 4);
        if (used.count(ik)) continue;
        used.insert(ik);
        p.innerKeys.insert(ik);
        string iv = genSimpleValue(r, allowSpace);
        if (iv.empty()) iv = "0";
        inner.push_back(make_pair(ik, iv));
      }
      v = genIdent(r, 6) + "(" + renderArgs(inner, ",", 0) + ")";
    }
    else
      v = genSimpleValue(r, allowSpace);
    p.args[k] = v;
    p.order.push_back(k);
  }
  return p;
}
string renderProc(const ProcSpec& p, int style, bool bare)
{
  if (bare) return p.name;
  vector<pair<string, string>> kv;
  for (auto& k : p.order) kv.push_back(make_pair(k, p.args.at(k)));
  string s = p.name + "(" + renderArgs(kv, ",", style == 1 ? 1 : 0) + ")";
  if (style == 2) s = "  " + s + " \t";
  return s;
}

void caseKeyval(vrt::Case& c)
{
  size_t nArgs = static_cast<size_t>(c.index % 7);
  int style = static_cast<int>((c.index / 7) % 3);
  ProcSpec p = genProc(c.rng, nArgs, true);
  bool bare = nArgs == 0 && c.rng.chance(0.5);
  string desc = renderProc(p, style, bare);
  const string cls = "args" + str(nArgs) + (p.hasNested ? ":nested" : ":flat") + (style == 0 ? ":compact" : style == 1 ? ":spaced" : ":padded") + (bare ? ":bare-name" : "");
  vrt::describe("keyval:" + cls, desc);
  vrt::cover("keyval:" + cls);
  // ---- render -> parseProcedure
  string name;
  map<string, string> args;
  vrt::Outcome o = vrt::capture([&] { KeyvalTools::parseProcedure(desc, name, args); });
  if (!vrt::expect(o.returned(), "keyval.parse-returns", cls, [&] { return "parseProcedure(" + q(desc) + ") " + o.text(); })) return;
  vrt::expect(name == p.name, "keyval.parse-name", cls, [&] { return "parseProcedure(" + q(desc) + ") name " + q(name) + " expected " + q(p.name); });
  vrt::expect(args == p.args, "keyval.parse-map", cls, [&] { return "parseProcedure(" + q(desc) + ") args " + showMap(args) + " expected " + showMap(p.args); });
  // ---- changeKeyvals changes exactly the named keys
  map<string, string> repl, expected = p.args;
  for (auto& k : p.order)
    if (c.rng.chance(0.4))
    {
      string nv = c.rng.chance(0.25) ? genIdent(c.rng, 4) + "(" + genIdent(c.rng, 3) + "=" + genSimpleValue(c.rng, false) + "x)" : genSimpleValue(c.rng, true);
      repl[k] = nv;
      expected[k] = nv;
    }
  size_t absent = 0, innerOnly = 0;
  for (int t = 0; t < 2; ++t)
    if (c.rng.chance(0.5))
    {
      string k = genIdent(c.rng, 7);
      if (!p.args.count(k)) { repl[k] = "absent"; ++absent; }
    }
  for (auto& ik : p.innerKeys)
    if (!p.args.count(ik) && c.rng.chance(0.7)) { repl[ik] = "inner"; ++innerOnly; }
  const string ccls = cls + ":replaced" + str(min<size_t>(repl.size() - absent - innerOnly, 3)) + (absent ? ":absent-key" : "") + (innerOnly ? ":inner-key" : "");
  vrt::cover("changeKeyvals:" + ccls);
  string changed;
  vrt::Outcome oc = vrt::capture([&] { changed = KeyvalTools::changeKeyvals(desc, repl); });
  if (vrt::expect(oc.returned(), "keyval.change-returns", ccls, [&] { return "changeKeyvals(" + q(desc) + "," + showMap(repl) + ") " + oc.text(); }))
  {
    string name2;
    map<string, string> args2;
    vrt::Outcome o2 = vrt::capture([&] { KeyvalTools::parseProcedure(changed, name2, args2); });
    if (vrt::expect(o2.returned(), "keyval.change-exactly-named", ccls + ":unparsable", [&] { return "changeKeyvals(" + q(desc) + "," + showMap(repl) + ") = " + q(changed) + " which parseProcedure rejects: " + o2.text(); }))
      vrt::expect(name2 == p.name && args2 == expected, "keyval.change-exactly-named", ccls,
          [&] { return "changeKeyvals(" + q(desc) + "," + showMap(repl) + ") = " + q(changed) + " parsed as " + q(name2) + showMap(args2) + " expected " + q(p.name) + showMap(expected); });
  }
  // ---- multipleKeyvals on the bare argument list with other separators
  if (nArgs > 0)
  {
    static const char* splits[] = { ",", ";", " ", "|" };
    string split = splits[c.rng.below(4)];
    ProcSpec p2 = genProc(c.rng, nArgs, false);
    // values must not contain the separator outside brackets
    bool usable = true;
    for (auto& kv : p2.args)
    {
      int depth = 0;
      for (char ch : kv.second) { if (ch == '(') ++depth; else if (ch == ')') --depth; else if (depth == 0 && split.find(ch) != string::npos) usable = false; }
      if (split == " " && kv.second.empty()) usable = false; // "k= " cannot be told from "k=" + separator
    }
    if (usable)
    {
      vector<pair<string, string>> kv;
      for (auto& k : p2.order) kv.push_back(make_pair(k, p2.args.at(k)));
      int st2 = (split == " ") ? static_cast<int>(c.rng.below(2)) : static_cast<int>(c.rng.below(2));
      string text;
      for (size_t i = 0; i < kv.size(); ++i)
      {
        if (i) text += split;
        if (st2 == 0) text += kv[i].first + "=" + kv[i].second;
        else if (split == " ") text += kv[i].first + " = " + kv[i].second;   // the '=' is a token of its own
        else text += " " + kv[i].first + " = " + kv[i].second + " ";
      }
      const string mcls = string("split=") + (split == " " ? "space" : split) + (st2 ? ":spaced" : ":compact") + (p2.hasNested ? ":nested" : ":flat");
      vrt::cover("multipleKeyvals:" + mcls);
      map<string, string> got;
      vrt::Outcome om = vrt::capture([&] { KeyvalTools::multipleKeyvals(text, got, split, true); });
      if (vrt::expect(om.returned(), "keyval.multiple-returns", mcls, [&] { return "multipleKeyvals(" + q(text) + ",split=" + q(split) + ") " + om.text(); }))
        vrt::expect(got == p2.args, "keyval.multiple-map", mcls, [&] { return "multipleKeyvals(" + q(text) + ",split=" + q(split) + ") = " + showMap(got) + " expected " + showMap(p2.args); });
    }
  }
}

// ================================================================== 4. wildcard matching
bool globIter(const string& p, const string& n)
{
  size_t i = 0, j = 0, star = string::npos, mark = 0;
  while (j < n.size())
  {
    if (i < p.size() && p[i] != '*' && p[i] == n[j]) { ++i; ++j; }
    else if (i < p.size() && p[i] == '*') { star = i++; mark = j; }
    else if (star != string::npos) { i = star + 1; j = ++mark; }
    else return false;
  }
  while (i < p.size() && p[i] == '*') ++i;
  return i == p.size();
}
// the specification: '*' matches any (possibly empty) run of characters, every other character matches itself
bool globSpec(const string& p, size_t i, const string& n, size_t j)
{
  if (i == p.size()) return j == n.size();
  if (p[i] == '*') return globSpec(p, i + 1, n, j) || (j < n.size() && globSpec(p, i, n, j + 1));
  return j < n.size() && p[i] == n[j] && globSpec(p, i + 1, n, j + 1);
}

const char* kGlobAlphabet = "ab*";
const size_t kGlobMaxLen = 8;
size_t globNameLen(int tier) { return tier == 0 ? 6 : 8; }
size_t globPlLen(int tier) { return tier == 0 ? 5 : 8; }

struct GlobNames
{
  vector<string> all;              // enumeration order
  map<string, string> asMap;
  ParameterList pl;
  vector<string> plNames;
};
const GlobNames& globNames(int tier)
{
  static GlobNames g;
  static bool built = false;
  if (!built)
  {
    u64 n = countStrings(3, globNameLen(tier));
    for (u64 i = 0; i < n; ++i) g.all.push_back(nthString(kGlobAlphabet, i));
    for (auto& s : g.all) g.asMap[s] = "v";
    u64 m = countStrings(3, globPlLen(tier));
    for (u64 i = 0; i < m; ++i)
    {
      g.plNames.push_back(g.all[i]);
      g.pl.addParameter(new Parameter(g.all[i], 0.5));
    }
    built = true;
  }
  return g;
}

string globClass(const string& p)
{
  size_t stars = static_cast<size_t>(count(p.begin(), p.end(), '*'));
  bool runs = p.find("**") != string::npos;
  return string(p.empty() ? "empty-pattern" : stars == 0 ? "no-star" : stars == p.size() ? "only-stars" : string(p[0] == '*' ? "leading-star" : "literal-start") + (p[p.size() - 1] == '*' ? ":trailing-star" : ":literal-end") + ":stars" + str(min<size_t>(stars, 3))) + (runs ? ":star-run" : "");
}

void compareMatches(const string& api, const string& pattern, const vector<string>& got, const vector<string>& names, bool sorted)
{
  vector<string> expected;
  for (auto& n : names) if (globIter(pattern, n)) expected.push_back(n);
  if (sorted) sort(expected.begin(), expected.end());
  const string pc = globClass(pattern);
  if (got == expected) { vrt::expect(true, "wildcard.matches-glob", api, string()); return; }
  set<string> gs(got.begin(), got.end()), es(expected.begin(), expected.end());
  string fp, fn;
  for (auto& x : got) if (!es.count(x)) { fp = x; break; }
  for (auto& x : expected) if (!gs.count(x)) { fn = x; break; }
  bool haveFp = gs.size() && !includes(es.begin(), es.end(), gs.begin(), gs.end());
  bool haveFn = es.size() && !includes(gs.begin(), gs.end(), es.begin(), es.end());
  string kind = haveFp ? "matches-too-much" : haveFn ? "misses-a-match" : "order-or-duplicates";
  vrt::expect(false, "wildcard.matches-glob", api + ":" + pc + ":" + kind,
      [&] { return api + "(" + q(pattern) + ") over " + str(names.size()) + " names returned " + str(got.size()) + " names, glob semantics gives " + str(expected.size()) + (haveFp ? "; wrongly matched " + q(fp) : "") + (haveFn ? "; missed " + q(fn) : ""); });
}

void caseWildcard(vrt::Case& c)
{
  const string pattern = nthString(kGlobAlphabet, c.index);
  const GlobNames& g = globNames(c.tier);
  vrt::describe("wildcard:" + globClass(pattern), "pattern " + q(pattern) + " against all " + str(g.all.size()) + " names over {a,b,*} up to length " + str(globNameLen(c.tier)) + " (+ sampled longer names in the quick tier)");
  vector<string> names = g.all;
  if (globNameLen(c.tier) < kGlobMaxLen)
  {
    // quick tier: names of length 7..8 are sampled, 400 per pattern, half of them derived from the pattern
    u64 base = countStrings(3, globNameLen(c.tier)), total = countStrings(3, kGlobMaxLen);
    for (int j = 0; j < 400; ++j)
    {
      if (j % 2 == 0 || pattern.empty()) names.push_back(nthString(kGlobAlphabet, base + c.rng.below(total - base)));
      else
      {
        string n;
        for (char ch : pattern)
        {
          if (ch != '*') n += ch;
          else { size_t k = c.rng.below(4); for (size_t t = 0; t < k; ++t) n += kGlobAlphabet[c.rng.below(3)]; }
        }
        if (c.rng.chance(0.3)) n += kGlobAlphabet[c.rng.below(3)];
        if (c.rng.chance(0.2) && !n.empty()) n = n.substr(1);
        if (n.size() > kGlobMaxLen) n = n.substr(0, kGlobMaxLen);
        names.push_back(n);
      }
    }
  }
  // the fast matcher used as oracle agrees with the 5-line specification (sampled)
  for (int j = 0; j < 200; ++j)
  {
    const string& n = names[c.rng.below(names.size())];
    vrt::expect(globIter(pattern, n) == globSpec(pattern, 0, n, 0), "wildcard.oracle-selfcheck", "oracle", [&] { return "harness matcher disagrees with the specification for pattern " + q(pattern) + " name " + q(n); });
  }
  size_t nMatch = 0;
  for (auto& n : names) if (globIter(pattern, n)) ++nMatch;
  vrt::cover("wildcard:" + globClass(pattern) + (nMatch == 0 ? ":no-match" : nMatch == names.size() ? ":all-match" : ":some-match"));
  vrt::tally("wildcard-pairs", names.size() + g.asMap.size() + g.plNames.size());
  {
    vector<string> got;
    vector<string> in = names;
    vrt::Outcome o = vrt::capture([&] { got = ApplicationTools::matchingParameters(pattern, in); });
    if (vrt::expect(o.returned(), "wildcard.returns", "matchingParameters(vector)", [&] { return "matchingParameters(" + q(pattern) + ", vector) " + o.text(); }))
      compareMatches("matchingParameters(vector)", pattern, got, names, false);
  }
  {
    vector<string> got;
    vrt::Outcome o = vrt::capture([&] { got = ApplicationTools::matchingParameters(pattern, g.asMap); });
    if (vrt::expect(o.returned(), "wildcard.returns", "matchingParameters(map)", [&] { return "matchingParameters(" + q(pattern) + ", map) " + o.text(); }))
    {
      vector<string> keys;
      for (auto& kv : g.asMap) keys.push_back(kv.first);
      compareMatches("matchingParameters(map)", pattern, got, keys, false);
    }
  }
  {
    vector<string> got;
    vrt::Outcome o = vrt::capture([&] { got = g.pl.getMatchingParameterNames(pattern); });
    if (vrt::expect(o.returned(), "wildcard.returns", "getMatchingParameterNames", [&] { return "ParameterList::getMatchingParameterNames(" + q(pattern) + ") " + o.text(); }))
      compareMatches("getMatchingParameterNames", pattern, got, g.plNames, false);
  }
}

// ================================================================== 5. variable resolution
struct VarRefs
{
  vector<string> names;
};
VarRefs refsOf(const string& value, const string& tag, char end)
{
  VarRefs r;
  size_t i = value.find(tag);
  while (i != string::npos)
  {
    size_t j = value.find(end, i);
    if (j == string::npos) break;
    r.names.push_back(value.substr(i + tag.size(), j - i - tag.size()));
    i = value.find(tag, j + 1);
  }
  return r;
}
// 0 = clean (everything reachable is defined and acyclic), bit 1 = reaches an undefined name, bit 2 = reaches a cycle
int varStatus(const map<string, string>& am, const string& name, const string& tag, char end, vector<string>& stack)
{
  auto it = am.find(name);
  if (it == am.end()) return 1;
  if (find(stack.begin(), stack.end(), name) != stack.end()) return 2;
  stack.push_back(name);
  int s = 0;
  for (auto& n : refsOf(it->second, tag, end).names) s |= varStatus(am, n, tag, end, stack);
  stack.pop_back();
  return s;
}
string expandClean(const map<string, string>& am, const string& value, const string& tag, char end, bool keepUndefined)
{
  string out;
  size_t pos = 0, i = value.find(tag);
  while (i != string::npos)
  {
    size_t j = value.find(end, i);
    if (j == string::npos) break;
    out += value.substr(pos, i - pos);
    string n = value.substr(i + tag.size(), j - i - tag.size());
    auto it = am.find(n);
    if (it != am.end()) out += expandClean(am, it->second, tag, end, keepUndefined);
    else if (keepUndefined) out += value.substr(i, j + 1 - i);
    pos = j + 1;
    i = value.find(tag, pos);
  }
  return out + value.substr(pos);
}

void caseVariables(vrt::Case& c)
{
  static const vector<string> pool = { "a", "b", "c", "d", "e", "f", "g1", "xy", "long.name" };
  const bool alt = c.index % 4 == 3;
  const char code = alt ? '%' : '$', beg = alt ? '{' : '(', end = alt ? '}' : ')';
  const string tag = string(1, code) + beg;
  size_t nDef = static_cast<size_t>(c.rng.range(1, 7));
  vector<string> names = pool;
  c.rng.shuffle(names);
  vector<string> defined(names.begin(), names.begin() + static_cast<ptrdiff_t>(nDef));
  double pRef = c.rng.real(0.2, 0.8), pUndef = c.rng.chance(0.5) ? 0.0 : 0.15;
  bool acyclicOnly = c.rng.chance(0.5); // half of the cases: references only to names defined earlier in the list
  map<string, string> am;
  static const string lit = "abcxyz0123456789/_.-=,";
  for (size_t k = 0; k < defined.size(); ++k)
  {
    string v;
    size_t chunks = static_cast<size_t>(c.rng.range(0, 4));
    for (size_t t = 0; t < chunks; ++t)
    {
      if (c.rng.chance(pRef))
      {
        string n;
        if (c.rng.chance(pUndef)) n = c.rng.chance(0.5) ? "undefined" : names[nDef + c.rng.below(names.size() - nDef)];
        else if (acyclicOnly) { if (k == 0) continue; n = defined[c.rng.below(k)]; }
        else n = defined[c.rng.below(defined.size())];
        v += tag + n + end;
      }
      else
      {
        size_t len = static_cast<size_t>(c.rng.range(1, 5));
        for (size_t x = 0; x < len; ++x) v += lit[c.rng.below(lit.size())];
      }
    }
    am[defined[k]] = v;
  }
  int worst = 0;
  size_t depthMax = 0;
  map<string, int> status;
  for (auto& kv : am)
  {
    vector<string> st;
    status[kv.first] = varStatus(am, kv.first, tag, end, st);
    worst |= status[kv.first];
    // reference chain depth (bounded walk)
    size_t dpt = 0;
    string cur = kv.second;
    for (; dpt < 8; ++dpt)
    {
      VarRefs rf = refsOf(cur, tag, end);
      string next;
      for (auto& n : rf.names) if (am.count(n)) { next = am[n]; break; }
      if (rf.names.empty() || next.empty()) break;
      cur = next;
    }
    depthMax = max(depthMax, dpt);
  }
  const string cls = string(alt ? "tag=%{}" : "tag=$()") + ":defs" + str(min<size_t>(nDef, 4)) + ":chain" + str(min<size_t>(depthMax, 3)) + ((worst & 2) ? ":cyclic" : ":acyclic") + ((worst & 1) ? ":undefined-ref" : "");
  vrt::describe("variables:" + cls, showMap(am));
  vrt::cover("variables:" + cls);
  map<string, string> res = am;
  vrt::Outcome o = vrt::capture([&] { alt ? AttributesTools::resolveVariables(res, code, beg, end) : AttributesTools::resolveVariables(res); });
  if (!vrt::expect(o.returned(), "variables.returns", cls, [&] { return "resolveVariables(" + showMap(am) + ") " + o.text(); })) return;
  vrt::expect(res.size() == am.size(), "variables.keys-kept", cls, [&] { return "resolveVariables(" + showMap(am) + ") = " + showMap(res); });
  for (auto& kv : am)
  {
    auto it = res.find(kv.first);
    if (it == res.end()) continue;
    int st = status[kv.first];
    if (st == 0)
    {
      string e = expandClean(am, kv.second, tag, end, false);
      vrt::expect(it->second == e, "variables.value", cls, [&] { return "resolveVariables(" + showMap(am) + "): " + q(kv.first) + " = " + q(it->second) + " expected " + q(e); });
    }
    else if (st == 1)
    {
      string e1 = expandClean(am, kv.second, tag, end, false), e2 = expandClean(am, kv.second, tag, end, true);
      vrt::expect(it->second == e1 || it->second == e2, "variables.value", cls + ":undefined-ignored-or-kept", [&] { return "resolveVariables(" + showMap(am) + "): " + q(kv.first) + " = " + q(it->second) + " expected " + q(e1) + " or " + q(e2); });
    }
    else
      vrt::counted("variables.value-cyclic-unjudged");
    // no resolvable reference remains
    for (auto& n : refsOf(it->second, tag, end).names)
    {
      bool resolvable = am.count(n) && status[n] == 0;
      vrt::expect(!resolvable, "variables.no-resolvable-reference-left", cls, [&] { return "resolveVariables(" + showMap(am) + "): " + q(kv.first) + " = " + q(it->second) + " still refers to the defined, acyclic variable " + q(n); });
    }
    vrt::counted("variables.no-resolvable-reference-left");
  }
  // fixed point
  map<string, string> again = res;
  vrt::Outcome o2 = vrt::capture([&] { alt ? AttributesTools::resolveVariables(again, code, beg, end) : AttributesTools::resolveVariables(again); });
  vrt::expect(o2.returned() && again == res, "variables.fixed-point", cls, [&] { return "resolveVariables applied twice to " + showMap(am) + ": first " + showMap(res) + " then " + (o2.returned() ? showMap(again) : o2.text()); });
}

// ================================================================== 6. tables
string genCell(vrt::Rng& r, const string& sep, bool allowBlankInside)
{
  static const string chars = "abcdefghijklmnopqrstuvwxyzABCXYZ0123456789._-+#:/";
  for (;;)
  {
    string s;
    int kind = static_cast<int>(r.below(6));
    if (kind == 0) s = TextTools::toString(r.real(-100, 100));
    else if (kind == 1) s = TextTools::toString(static_cast<int>(r.range(-999, 999)));
    else
    {
      size_t n = static_cast<size_t>(r.range(1, 8));
      for (size_t i = 0; i < n; ++i) s += chars[r.below(chars.size())];
      if (allowBlankInside && kind == 5 && n > 2) s[1 + r.below(n - 2)] = ' ';
      if (allowBlankInside && r.chance(0.05)) s = " " + s;
      if (allowBlankInside && r.chance(0.05)) s += " ";
    }
    if (s.find_first_of(sep) != string::npos) continue;
    if (TextTools::isEmpty(s)) continue;
    return s;
  }
}
vector<string> genUniqueNames(vrt::Rng& r, size_t n, const string& sep, bool allowBlankInside)
{
  vector<string> v;
  while (v.size() < n)
  {
    string s = genCell(r, sep, allowBlankInside);
    if (find(v.begin(), v.end(), s) == v.end()) v.push_back(s);
  }
  return v;
}
string dumpTable(const DataTable& t)
{
  string s = str(t.getNumberOfRows()) + "x" + str(t.getNumberOfColumns());
  if (t.hasColumnNames()) s += " cols" + showList(t.getColumnNames());
  if (t.hasRowNames()) s += " rows" + showList(t.getRowNames());
  s += " cells[";
  for (size_t i = 0; i < t.getNumberOfRows(); ++i)
  {
    s += i ? " | " : "";
    for (size_t j = 0; j < t.getNumberOfColumns(); ++j) s += (j ? "," : "") + q(t(i, j));
  }
  return s + "]";
}
bool sameTable(const DataTable& a, const DataTable& b, string& what)
{
  if (a.getNumberOfRows() != b.getNumberOfRows() || a.getNumberOfColumns() != b.getNumberOfColumns()) { what = "shape"; return false; }
  if (a.hasColumnNames() != b.hasColumnNames() || a.hasRowNames() != b.hasRowNames()) { what = "names-presence"; return false; }
  if (a.hasColumnNames() && a.getColumnNames() != b.getColumnNames()) { what = "column-names"; return false; }
  if (a.hasRowNames() && a.getRowNames() != b.getRowNames()) { what = "row-names"; return false; }
  for (size_t i = 0; i < a.getNumberOfRows(); ++i)
    for (size_t j = 0; j < a.getNumberOfColumns(); ++j)
      if (a(i, j) != b(i, j)) { what = "cells"; return false; }
  return true;
}

void caseTable(vrt::Case& c)
{
  static const char* seps[] = { "\t", ",", ";", " ", "|" };
  static const char* sepNames[] = { "tab", "comma", "semicolon", "space", "bar" };
  size_t si = static_cast<size_t>(c.index % 5);
  const string sep = seps[si];
  const bool blankInside = sep != " " && sep != "\t" ? true : (sep == "\t");
  bool hasCol = c.rng.chance(0.65), hasRow = hasCol && c.rng.chance(0.5);
  size_t nc = static_cast<size_t>(c.rng.range(1, 6));
  size_t nr = static_cast<size_t>(c.rng.range(hasCol ? 1 : 2, 6)); // at least two text lines
  bool align = c.rng.chance(0.5), viaOutputStream = c.rng.chance(0.5);
  const string cls = string(hasCol ? "named-columns" : "unnamed-columns") + (hasRow ? ":named-rows" : ":unnamed-rows") + (nc == 1 ? ":one-column" : "") + (nr == 1 ? ":one-row" : "") + (align && hasRow ? ":aligned-header" : "");
  vrt::describe("table:" + cls, str(nr) + "x" + str(nc) + " table, separator " + sepNames[si]);
  vrt::cover("table:" + cls + ":sep=" + sepNames[si]);
  DataTable t(nr, nc);
  for (size_t i = 0; i < nr; ++i)
    for (size_t j = 0; j < nc; ++j) t(i, j) = genCell(c.rng, sep, blankInside);
  if (hasCol) t.setColumnNames(genUniqueNames(c.rng, nc, sep, blankInside));
  if (hasRow) t.setRowNames(genUniqueNames(c.rng, nr, sep, blankInside));
  string text;
  {
    ostringstream os;
    vrt::Outcome ow = vrt::capture([&] {
          if (viaOutputStream) { StlOutputStreamWrapper w(&os); DataTable::write(t, w, sep, align); }
          else DataTable::write(t, os, sep, align);
        });
    if (!vrt::expect(ow.returned(), "table.write-returns", cls, [&] { return "write(" + dumpTable(t) + ") " + ow.text(); })) return;
    text = os.str();
  }
  vrt::step("written text: " + q(text));
  unique_ptr<DataTable> back;
  istringstream is(text);
  vrt::Outcome orr = vrt::capture([&] { back = DataTable::read(is, sep, hasCol, -1); });
  if (!vrt::expect(orr.returned() && back, "table.read-returns", cls, [&] { return "write(" + dumpTable(t) + ") gave " + q(text) + "; read " + orr.text(); })) return;
  string what;
  bool same = sameTable(t, *back, what);
  vrt::expect(same, "table.roundtrip-identical", cls + ":" + what, [&] { return "wrote " + dumpTable(t) + " as " + q(text) + " read back " + dumpTable(*back); });
  // a column declared as row names: T' = T with its row names as an extra named column k, read with rowNames=k
  if (hasCol && hasRow)
  {
    size_t k = c.rng.below(nc + 1);
    vector<string> cn = t.getColumnNames(), rn = t.getRowNames();
    string extra = "rowname.column";
    if (find(cn.begin(), cn.end(), extra) != cn.end()) return;
    DataTable t2(nr, nc + 1);
    vector<string> cn2 = cn;
    cn2.insert(cn2.begin() + static_cast<ptrdiff_t>(k), extra);
    for (size_t i = 0; i < nr; ++i)
      for (size_t j = 0; j <= nc; ++j) t2(i, j) = j == k ? rn[i] : t(i, j < k ? j : j - 1);
    t2.setColumnNames(cn2);
    ostringstream os;
    DataTable::write(t2, os, sep, align);
    istringstream is2(os.str());
    unique_ptr<DataTable> b2;
    vrt::Outcome o2 = vrt::capture([&] { b2 = DataTable::read(is2, sep, true, static_cast<int>(k)); });
    if (vrt::expect(o2.returned() && b2, "table.rownames-column", cls + ":read", [&] { return "read(rowNames=" + str(k) + ") of " + q(os.str()) + " " + o2.text(); }))
    {
      string w2;
      vrt::expect(sameTable(t, *b2, w2), "table.rownames-column", cls + ":" + w2, [&] { return "read(rowNames=" + str(k) + ") of " + q(os.str()) + " gave " + dumpTable(*b2) + " expected " + dumpTable(t); });
    }
  }
}

// ================================================================== 7. discrete distributions
typedef unique_ptr<DiscreteDistributionInterface> DistPtr;
// recorded findings (known/C17.json): the bulk workload generates these classes only while the finding is not recorded
const char* const kKnownMedian = "C17-median-flag-not-written";
const char* const kKnownFixedOffset = "C17-gamma-fixed-offset-not-written";
const char* const kKnownInvariantValue = "C17-invariant-value-not-written";
struct Built
{
  DistPtr d;
  string desc;  // how it was built
  string fam;   // structural family key
};
// the nearest double to a short decimal, so that the 12-decimal fixed notation of the parameter writer is exact
double shortDec(vrt::Rng& r, double lo, double hi, int decimals)
{
  char buf[64];
  snprintf(buf, sizeof buf, "%.*f", decimals, r.real(lo, hi));
  return strtod(buf, nullptr);
}

Built genBase(vrt::Rng& r, int fam, bool viaParameters)
{
  Built b;
  size_t n = static_cast<size_t>(r.range(1, 8));
  string via = viaParameters ? " then set through parameters" : "";
  switch (fam)
  {
  case 0:
  {
    double v = shortDec(r, -50, 50, static_cast<int>(r.range(1, 11)));
    b.d.reset(new ConstantDistribution(viaParameters ? 1.0 : v));
    if (viaParameters) b.d->setParameterValue("value", v);
    b.desc = "Constant(" + str(v) + ")" + via;
    b.fam = "Constant";
    break;
  }
  case 1:
  case 2:
  {
    vector<double> values, probas;
    double sum = 0;
    while (values.size() < n)
    {
      double v = r.chance(0.3) ? shortDec(r, 0.001, 100, static_cast<int>(r.range(1, 11))) : r.real(0.001, 100);
      if (find(values.begin(), values.end(), v) == values.end()) values.push_back(v);
    }
    if (r.chance(0.5)) sort(values.begin(), values.end());
    for (size_t i = 0; i < n; ++i) { probas.push_back(r.real(0.05, 1)); sum += probas[i]; }
    for (auto& p : probas) p /= sum;
    b.desc = "Simple(values=" + vrt::vecStr(values) + ",probas=" + vrt::vecStr(probas);
    if (fam == 2)
    {
      map<size_t, vector<double>> ranges;
      for (size_t i = 0; i < n; ++i)
        if (r.chance(0.5)) ranges[i + 1] = { std::floor(values[i]) - static_cast<double>(r.range(0, 3)), std::ceil(values[i]) + static_cast<double>(r.range(0, 3)) };
      if (ranges.empty()) ranges[1] = { std::floor(values[0]) - 1, std::ceil(values[0]) + 1 };
      b.desc += ",ranges on";
      for (auto& kv : ranges) b.desc += " V" + str(kv.first) + "[" + str(kv.second[0]) + ";" + str(kv.second[1]) + "]";
      b.d.reset(new SimpleDiscreteDistribution(values, ranges, probas));
      b.fam = "Simple+ranges";
    }
    else
    {
      b.d.reset(new SimpleDiscreteDistribution(values, probas));
      b.fam = "Simple";
    }
    b.desc += ")";
    break;
  }
  case 3:
  case 4:
  {
    double a = shortDec(r, 0.06, 10, static_cast<int>(r.range(1, 11))), be = shortDec(r, 0.06, 10, static_cast<int>(r.range(1, 11)));
    if (fam == 4)
    {
      double off = shortDec(r, -3, 3, static_cast<int>(r.range(1, 11)));
      b.d.reset(new GammaDiscreteDistribution(n, a, be, 0.05, 0.05, true, off));
      b.desc = "Gamma(n=" + str(n) + ",alpha=" + str(a) + ",beta=" + str(be) + ",offset parameter=" + str(off) + ")";
      b.fam = "Gamma+offset-parameter";
    }
    else if (!vrt::known(kKnownFixedOffset) && r.chance(0.3))
    {
      double off = shortDec(r, -3, 3, static_cast<int>(r.range(1, 11)));
      b.d.reset(new GammaDiscreteDistribution(n, a, be, 0.05, 0.05, false, off));
      b.desc = "Gamma(n=" + str(n) + ",alpha=" + str(a) + ",beta=" + str(be) + ",fixed offset=" + str(off) + ")";
      b.fam = "Gamma+fixed-offset";
    }
    else
    {
      b.d.reset(viaParameters ? new GammaDiscreteDistribution(n, 1., 1.) : new GammaDiscreteDistribution(n, a, be));
      if (viaParameters) { b.d->setParameterValue("alpha", a); b.d->setParameterValue("beta", be); }
      b.desc = "Gamma(n=" + str(n) + ",alpha=" + str(a) + ",beta=" + str(be) + ")" + via;
      b.fam = "Gamma";
    }
    break;
  }
  case 5:
  {
    double mu = shortDec(r, -10, 10, static_cast<int>(r.range(1, 11))), sigma = shortDec(r, 0.1, 10, static_cast<int>(r.range(1, 11)));
    b.d.reset(viaParameters ? new GaussianDiscreteDistribution(n, 0., 1.) : new GaussianDiscreteDistribution(n, mu, sigma));
    if (viaParameters) { b.d->setParameterValue("mu", mu); b.d->setParameterValue("sigma", sigma); }
    b.desc = "Gaussian(n=" + str(n) + ",mu=" + str(mu) + ",sigma=" + str(sigma) + ")" + via;
    b.fam = "Gaussian";
    break;
  }
  case 6:
  {
    // Beta's constructor and its parameter listener use different domains when alpha<=1 or beta<=1 (a matter of the
    // distribution class, not of the reader/writer): directly built Beta only with alpha,beta > 1; any value from Beta(n,1,1) + parameters
    double a, be;
    if (viaParameters) { a = shortDec(r, 0.05, 10, static_cast<int>(r.range(1, 11))); be = shortDec(r, 0.05, 10, static_cast<int>(r.range(1, 11))); }
    else { a = shortDec(r, 1.06, 10, static_cast<int>(r.range(1, 11))); be = shortDec(r, 1.06, 10, static_cast<int>(r.range(1, 11))); }
    b.d.reset(viaParameters ? new BetaDiscreteDistribution(n, 1., 1.) : new BetaDiscreteDistribution(n, a, be));
    if (viaParameters) { ParameterList pl; pl.addParameter(Parameter("Beta.alpha", a)); pl.addParameter(Parameter("Beta.beta", be)); b.d->matchParametersValues(pl); }
    b.desc = "Beta(n=" + str(n) + ",alpha=" + str(a) + ",beta=" + str(be) + ")" + via;
    b.fam = "Beta";
    break;
  }
  case 7:
  {
    double l = shortDec(r, 0.05, 10, static_cast<int>(r.range(1, 11)));
    b.d.reset(viaParameters ? new ExponentialDiscreteDistribution(n, 1.) : new ExponentialDiscreteDistribution(n, l));
    if (viaParameters) b.d->setParameterValue("lambda", l);
    b.desc = "Exponential(n=" + str(n) + ",lambda=" + str(l) + ")" + via;
    b.fam = "Exponential";
    break;
  }
  case 8:
  {
    double l = shortDec(r, 0.05, 5, static_cast<int>(r.range(1, 11))), tp = shortDec(r, 0.5, 20, static_cast<int>(r.range(1, 11)));
    b.d.reset(new TruncatedExponentialDiscreteDistribution(n, l, tp));
    b.desc = "TruncExponential(n=" + str(n) + ",lambda=" + str(l) + ",tp=" + str(tp) + ")";
    b.fam = "TruncExponential";
    break;
  }
  default:
  {
    double lo = shortDec(r, -10, 10, static_cast<int>(r.range(1, 11))), w = shortDec(r, 0.5, 20, static_cast<int>(r.range(1, 11)));
    b.d.reset(new UniformDiscreteDistribution(static_cast<unsigned int>(n), lo, lo + w));
    b.desc = "Uniform(n=" + str(n) + "," + str(lo) + "," + str(lo + w) + ")";
    b.fam = "Uniform";
    break;
  }
  }
  if (fam >= 3 && !vrt::known(kKnownMedian) && r.chance(0.2))
  {
    b.d->setMedian(true);
    b.desc += " with setMedian(true)";
    b.fam += "+median";
  }
  return b;
}
const int kBaseFamilies = 10;
double pickInvariant(vrt::Rng& r)
{
  if (vrt::known(kKnownInvariantValue) || r.chance(0.5)) return 0.000001; // the value the reader assumes
  return r.chance(0.5) ? 0. : shortDec(r, 0, 2, static_cast<int>(r.range(1, 11)));
}

Built genMixture(vrt::Rng& r, bool allowInvariant);
Built genInvariant(vrt::Rng& r, bool allowMixture, double invariant)
{
  Built in = allowMixture && r.chance(0.3) ? genMixture(r, false) : genBase(r, static_cast<int>(r.below(kBaseFamilies)), false);
  double p = shortDec(r, 0.06, 0.94, static_cast<int>(r.range(1, 11)));
  Built b;
  b.desc = "Invariant(" + in.desc + ",p=" + str(p) + ",invariant=" + str(invariant) + ")";
  b.fam = string("Invariant") + (invariant == 0.000001 ? "" : "+invariant-value") + "[" + in.fam + "]";
  b.d.reset(new InvariantMixedDiscreteDistribution(std::move(in.d), p, invariant));
  return b;
}
Built genMixture(vrt::Rng& r, bool allowInvariant)
{
  size_t k = static_cast<size_t>(r.range(1, 3));
  vector<DistPtr> comps;
  vector<double> probas;
  set<string> fams;
  string desc = "Mixture(";
  double sum = 0;
  for (size_t i = 0; i < k; ++i)
  {
    Built in = allowInvariant && r.chance(0.25) ? genInvariant(r, false, pickInvariant(r)) : genBase(r, static_cast<int>(r.below(kBaseFamilies)), false);
    // keep the total number of classes small (class counts 1..8 per component)
    fams.insert(in.fam);
    desc += (i ? "; " : "") + in.desc;
    comps.push_back(std::move(in.d));
    probas.push_back(r.real(0.05, 1));
    sum += probas.back();
  }
  for (auto& p : probas) p /= sum;
  Built b;
  b.desc = desc + "; probas=" + vrt::vecStr(probas) + ")";
  b.fam = "Mixture[";
  for (auto& f : fams) b.fam += (b.fam.size() > 8 ? "," : "") + f;
  b.fam += "]";
  b.d.reset(new MixtureOfDiscreteDistributions(comps, probas));
  return b;
}

string writeDist(const DiscreteDistributionInterface& d)
{
  ostringstream os;
  StlOutputStreamWrapper out(&os);
  out.setPrecision(20);
  BppODiscreteDistributionFormat fmt(false);
  map<string, string> aliases;
  vector<string> written;
  fmt.writeDiscreteDistribution(d, out, aliases, written);
  return os.str();
}
string dumpDist(const DiscreteDistributionInterface& d)
{
  string s = d.getName() + "{";
  for (size_t i = 0; i < d.getNumberOfCategories(); ++i) s += (i ? " " : "") + str(d.getCategory(i)) + ":" + str(d.getProbability(i));
  return s + "}";
}

// write -> read -> same family, class values and probabilities (1e-12 relative)
void roundTripDist(const Built& b, const string& clausePrefix)
{
  const string cWrite = clausePrefix + ".write-returns", cRead = clausePrefix + ".read-returns", cFam = clausePrefix + ".same-family", cVal = clausePrefix + ".same-classes";
  const DiscreteDistributionInterface& d = *b.d;
  vrt::step("built " + b.desc + " = " + dumpDist(d));
  string text;
  vrt::Outcome ow = vrt::capture([&] { text = writeDist(d); });
  if (!vrt::expect(ow.returned(), cWrite.c_str(), b.fam, [&] { return "writeDiscreteDistribution(" + b.desc + ") " + ow.text(); })) return;
  vrt::step("written " + text);
  DistPtr back;
  BppODiscreteDistributionFormat reader(false);
  vrt::Outcome orr = vrt::capture([&] { back = reader.readDiscreteDistribution(text, true); });
  if (!vrt::expect(orr.returned() && back, cRead.c_str(), b.fam, [&] { return b.desc + " written as " + q(text) + "; readDiscreteDistribution " + orr.text(); })) return;
  if (!vrt::expect(back->getName() == d.getName(), cFam.c_str(), b.fam, [&] { return b.desc + " written as " + q(text) + " read back as family " + back->getName(); })) return;
  bool same = back->getNumberOfCategories() == d.getNumberOfCategories();
  double scale = 0;
  for (size_t i = 0; i < d.getNumberOfCategories(); ++i) scale = max(scale, std::fabs(d.getCategory(i)));
  if (same)
    for (size_t i = 0; i < d.getNumberOfCategories(); ++i)
    {
      if (!vrt::close(back->getCategory(i), d.getCategory(i), 1e-12, 1e-12 * scale)) same = false;
      if (!vrt::close(back->getProbability(i), d.getProbability(i), 1e-12, 1e-15)) same = false;
    }
  vrt::expect(same, cVal.c_str(), b.fam, [&] { return b.desc + " = " + dumpDist(d) + " written as " + q(text) + " read back as " + dumpDist(*back); });
}

void caseDistribution(vrt::Case& c)
{
  int route = static_cast<int>(c.index % 16);
  Built b;
  if (route < kBaseFamilies) b = genBase(c.rng, route, c.rng.chance(0.3));
  else if (route < 13) b = genMixture(c.rng, true);
  else b = genInvariant(c.rng, true, pickInvariant(c.rng));
  vrt::describe("distribution:" + b.fam, b.desc);
  vrt::cover("distribution:" + b.fam + ":n" + str(min<size_t>(b.d->getNumberOfCategories(), 9)));
  roundTripDist(b, "distribution");
  // the plain parameter writer: name=value list parses back to the parameter values
  if (b.d->getNumberOfParameters() > 0 && route >= 3 && route < kBaseFamilies)
  {
    ostringstream os;
    StlOutputStreamWrapper out(&os);
    BppOParametrizableFormat pf;
    vector<string> written;
    vrt::Outcome ow = vrt::capture([&] { pf.write(*b.d, out, written, false); });
    if (vrt::expect(ow.returned(), "parameters.write-returns", b.fam, [&] { return "BppOParametrizableFormat::write(" + b.desc + ") " + ow.text(); }))
    {
      map<string, string> kv;
      vrt::Outcome op = vrt::capture([&] { KeyvalTools::multipleKeyvals(os.str(), kv, ",", false); });
      bool ok = op.returned() && kv.size() == b.d->getNumberOfParameters();
      if (ok)
        for (auto& name : b.d->getParameters().getParameterNames())
        {
          string shortName = b.d->getParameterNameWithoutNamespace(name);
          auto it = kv.find(shortName);
          double v = 0;
          if (it == kv.end() || !vrt::capture([&] { v = TextTools::toDouble(it->second); }).returned() || !vrt::close(v, b.d->getParameterValue(shortName), 1e-12)) ok = false;
        }
      vrt::expect(ok, "parameters.roundtrip", b.fam, [&] { return "BppOParametrizableFormat::write(" + b.desc + ") = " + q(os.str()) + " does not parse back to the parameter values"; });
    }
  }
}

// ================================================================== 8. stored witnesses of recorded findings
void caseKnown(vrt::Case& c)
{
  vrt::Rng& r = c.rng;
  (void)r;
  switch (c.index)
  {
  case 0:
  {
    // C17-median-flag-not-written
    Built b;
    auto e = new ExponentialDiscreteDistribution(4, 2.5);
    e->setMedian(true);
    b.d.reset(e);
    b.desc = "Exponential(n=4,lambda=2.5) with setMedian(true)";
    b.fam = "Exponential+median";
    vrt::describe("known:" + b.fam, b.desc);
    vrt::cover("known:" + b.fam);
    roundTripDist(b, "distribution");
    break;
  }
  case 1:
  {
    // C17-gamma-fixed-offset-not-written
    Built b;
    b.d.reset(new GammaDiscreteDistribution(4, 0.5, 0.7, 0.05, 0.05, false, 1.5));
    b.desc = "Gamma(n=4,alpha=0.5,beta=0.7,fixed offset=1.5)";
    b.fam = "Gamma+fixed-offset";
    vrt::describe("known:" + b.fam, b.desc);
    vrt::cover("known:" + b.fam);
    roundTripDist(b, "distribution");
    break;
  }
  default:
  {
    // C17-invariant-value-not-written
    Built b;
    b.d.reset(new InvariantMixedDiscreteDistribution(DistPtr(new GammaDiscreteDistribution(3, 0.5, 0.5)), 0.25, 0.));
    b.desc = "Invariant(Gamma(n=3,alpha=0.5,beta=0.5),p=0.25,invariant=0)";
    b.fam = "Invariant+invariant-value[Gamma]";
    vrt::describe("known:" + b.fam, b.desc);
    vrt::cover("known:" + b.fam);
    roundTripDist(b, "distribution");
    break;
  }
  }
}
} // namespace

int main(int argc, char** argv)
{
  const u64 tokQ = (countStrings(5, tokMaxLen(0)) + kTokBlock - 1) / kTokBlock, tokT = (countStrings(5, tokMaxLen(1)) + kTokBlock - 1) / kTokBlock;
  const u64 nPatterns = countStrings(3, kGlobMaxLen);
  vector<vrt::Group> groups = {
    { "number-roundtrip", 400, 20000, caseNumberRoundTrip, 1200, false },
    { "grammar-exhaustive", grammarCases(0), grammarCases(1), caseGrammarExhaustive, 3600, true },
    { "grammar-random", 2000, 100000, caseGrammarRandom, 1800, false },
    { "tokenizer-exhaustive", tokQ, tokT, caseTokenizerExhaustive, 3600, true },
    { "tokenizer-random", 1500, 60000, caseTokenizerRandom, 1800, false },
    { "nested-exhaustive", tokQ, tokT, caseNestedExhaustive, 3600, true },
    { "nested-random", 1500, 60000, caseNestedRandom, 1800, false },
    { "keyval", 4200, 210000, caseKeyval, 1800, false },
    { "wildcard", nPatterns, nPatterns, caseWildcard, 7200, true },
    { "variables", 3000, 120000, caseVariables, 1800, false },
    { "table", 3000, 100000, caseTable, 1800, false },
    { "distribution", 1600, 48000, caseDistribution, 3600, false },
    { "known-witness", 3, 3, caseKnown, 600, false },
  };
  vrt::Meta meta;
  meta.rule = "number-roundtrip: doubles (random bit patterns, decimals, powers of ten, denormals, extremes) and ints -> toString(x,17) -> toDouble/toInt/to<T>/fromString<T>; "
      "grammar-exhaustive: every string over {0,1,9,-,+,.,e} (thorough: {0,1,2,5,9,-,+,.,e}) up to length 6 against a recogniser of -?(d+(.d*)?|.d+)(e[+-]?d+)? / -?d+(e+?d+)? with strtod as value; "
      "grammar-random: grammatical numbers with 0..3 random edits, also with non-default decimal/exponent characters (',' ';' / 'E' 'd') in all four combinations default/non-default, incl. strings written for other characters than the ones passed; every third string of grammar-exhaustive and every formatted number of number-roundtrip is also checked in a non-default spelling; tokenizer-exhaustive: every string over {a,=,(,comma,space} up to length 6 "
      "(thorough 8) x 6 delimiter strings x solid x allowEmptyTokens, tokenizer-random: strings of length 7..24; nested-*: the same over {a,(,),comma,space} x 3 delimiter strings x solid; "
      "keyval: procedures with 0..6 arguments (values: numbers, names, lists, nested procedures one level deep) in three layouts; wildcard: every pattern over {a,b,*} up to length 8, one case per pattern, "
      "against every name up to length 6 (thorough: 8; quick adds 400 sampled names of length 7..8 per pattern), three APIs; variables: maps of 1..7 variables with chains, cycles and undefined references; "
      "table: random tables up to 6x6 in scope of the quantifier, 5 separators, both write overloads; distribution: all 8 families + Simple with ranges + Gamma with offset parameter, mixtures of 1..3 "
      "components, invariant-mixed, nested one inside the other, 1..8 classes. A class key = group + the structural features that select a code path (number magnitude/notation; grammar verdict and reason; "
      "tokeniser mode, delimiter length, leading/trailing delimiter, token count; bracket depth and well-formedness; argument count/nesting/layout; pattern shape; reference graph shape; table naming/shape; "
      "distribution family tree and class count).";
  meta.assumptions = {
    "toDouble/toInt are judged (acceptance and value) only when the decimal value is inside the range of double/int (strtod without ERANGE); outside it any value or exception is accepted; an integer spelled with a negative exponent (1e-0) is not judged",
    "the exponent and decimal characters of the grammar are the ones passed to the call ('e' and '.' by default); \"1E5\" with the default arguments is outside the generated alphabet",
    "nested tokenising: exact token lists are required only for inputs whose brackets are balanced; for other inputs any exception is accepted, and a returned token list must still not cut inside a matched pair",
    "variable resolution: values of variables on or behind a reference cycle are not judged (only: returns, fixed point, no resolvable reference left); an undefined reference may be dropped or kept",
    "tables: single-character separators; cells and names non-blank and free of the separator, newline-free; header argument of read() = table has column names",
    "distributions: parameter values are short decimals (the parameter writer prints 12 decimals in fixed notation), stream precision raised to 20 decimals; Beta built directly only with alpha,beta>1 "
    "(constructor and parameter listener of the class use different domains otherwise); invariant-mixed distributions use the invariant value 1e-6 the reader assumes; range bounds of Simple are integers",
  };
  meta.requiredClauses = { "format.double-roundtrip", "format.int-roundtrip", "grammar.isDecimalNumber", "grammar.toDouble-value", "grammar.toDouble-raises", "grammar.isDecimalInteger", "grammar.toInt-value",
                           "grammar.toInt-raises", "tokenizer.unparse-reproduces-input", "tokenizer.partition", "nested.no-split-inside-brackets", "nested.tokens-match-reference", "keyval.parse-map",
                           "keyval.change-exactly-named", "keyval.multiple-map", "wildcard.matches-glob", "variables.value", "variables.fixed-point", "variables.no-resolvable-reference-left",
                           "table.roundtrip-identical", "distribution.same-family", "distribution.same-classes" };
  return vrt::run(argc, argv, "C17", groups, meta);
}
