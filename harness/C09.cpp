// C09 - A discretised distribution is always a valid partition of its continuous parent.
// Monitor: after construction and after every step of a generated history (parameter update,
// class-count change, median toggle, restriction, copy) every clause of the statement is
// re-evaluated on the live object, using as "parent" (a) a freshly constructed distribution of the
// same family holding the parameter values the live object reports, (b) closed forms where simple.
#include "vrt.h"

#include <Bpp/Numeric/Prob/GammaDiscreteDistribution.h>
#include <Bpp/Numeric/Prob/BetaDiscreteDistribution.h>
#include <Bpp/Numeric/Prob/GaussianDiscreteDistribution.h>
#include <Bpp/Numeric/Prob/ExponentialDiscreteDistribution.h>
#include <Bpp/Numeric/Prob/TruncatedExponentialDiscreteDistribution.h>
#include <Bpp/Numeric/Prob/UniformDiscreteDistribution.h>
#include <Bpp/Numeric/Prob/SimpleDiscreteDistribution.h>
#include <Bpp/Numeric/Prob/ConstantDistribution.h>
#include <Bpp/Numeric/Prob/InvariantMixedDiscreteDistribution.h>
#include <Bpp/Numeric/Prob/MixtureOfDiscreteDistributions.h>
#include <Bpp/Numeric/Constraints.h>

#include <algorithm>
#include <cmath>
#include <functional>
#include <memory>

using namespace bpp;
using namespace std;
using vrt::str;

namespace
{
typedef DiscreteDistributionInterface DD;
const double VB = 1.7E+23;   // NumConstants::VERY_BIG(): the library's "infinite" domain end
inline bool isInf(double x) { return std::fabs(x) >= 1e22; }

enum Kind { GAMMA = 0, GAMMAOFF, BETA, GAUSS, EXPO, TEXP, UNIF, NLEAF, SIMPLE = NLEAF, CONSTANT, INVMIX, MIXTURE };
const char* kindName(int k)
{
  static const char* n[] = { "gamma", "gammaoff", "beta", "gauss", "expo", "texp", "unif", "simple", "constant", "invmixed", "mixture" };
  return n[k];
}
const char* schemeName(short s) { return s == 1 ? "eqprob" : s == 2 ? "eqint" : s == 3 ? "whenpossible" : "na"; }

// Subclass giving access to the (protected) discretisation policy for the families whose
// constructor does not take it.  Everything else is the library's code.
template<class D> struct Sch : public D
{
  using D::D;
  void setScheme(short s) { this->discretizationScheme_ = s; this->discretize(); }
  Sch* clone() const override { return new Sch(*this); }
};

// ------------------------------------------------------------------ model of a distribution tree
struct Node
{
  int kind = GAMMA;
  // leaf description (what the harness asked for / reads back from the live object's parameters)
  short scheme = 1;
  bool median = false;
  size_t n = 1;
  double a = 1, b = 1, off = 0; // gamma: alpha,beta,offset; beta: alpha,beta; gauss: mu,sigma; expo: lambda; texp: lambda,tp; unif: min,max; constant: value
  bool restricted = false;
  // simple
  bool fixed = false;
  int ctor = 0;                 // simple: 0 (values, probabilities), 1 map, 2 (values, ranges, probabilities)
  Vdouble sv, sp;               // values / probabilities as given to the constructor (fixed simple only)
  // compound
  vector<Node> kids;
  double inv = 0;               // invariant-mixed: the invariant value

  bool leaf() const { return kind < NLEAF; }
  string ns() const
  {
    switch (kind)
    {
    case GAMMA: case GAMMAOFF: return "Gamma.";
    case BETA: return "Beta.";
    case GAUSS: return "Gaussian.";
    case EXPO: return "Exponential.";
    case TEXP: return "TruncExponential.";
    case UNIF: return "Uniform.";
    case SIMPLE: return "Simple.";
    case CONSTANT: return "Constant.";
    case INVMIX: return "Invariant.";
    default: return "Mixture.";
    }
  }
  string cls() const
  {
    string s = kindName(kind);
    if (leaf()) s += string(":") + schemeName(scheme) + (median ? ":median" : ":mean");
    if (kind == INVMIX) s += "(" + kids[0].cls() + ")";
    if (kind == MIXTURE) { s += "("; for (size_t i = 0; i < kids.size(); ++i) s += (i ? "+" : "") + string(kindName(kids[i].kind)); s += ")"; }
    return s;
  }
  string text() const
  {
    string s = kindName(kind);
    if (leaf())
      s += "(n=" + str(n) + "," + schemeName(scheme) + (median ? ",median" : ",mean") + ",a=" + str(a) + ",b=" + str(b) + (kind == GAMMAOFF ? ",offset=" + str(off) : "") + ")";
    else if (kind == SIMPLE) s += string(fixed ? "(fixed," : "(") + (ctor == 1 ? "map-ctor," : ctor == 2 ? "ranges-ctor," : "") + "v=" + vrt::vecStr(sv) + ",p=" + vrt::vecStr(sp) + ")";
    else if (kind == CONSTANT) s += "(" + str(a) + ")";
    else if (kind == INVMIX) s += "(p=" + str(a) + ",inv=" + str(inv) + "," + kids[0].text() + ")";
    else
    {
      s += "(w=" + vrt::vecStr(sp) + ":";
      for (auto& k : kids) s += " " + k.text();
      s += ")";
    }
    return s;
  }
};

// ------------------------------------------------------------------ construction of the real objects
unique_ptr<DD> buildLeaf(const Node& m)
{
  unique_ptr<DD> r;
  switch (m.kind)
  {
  case GAMMA:
  {
    auto d = make_unique<Sch<GammaDiscreteDistribution>>(m.n, m.a, m.b);
    if (m.scheme != 1) d->setScheme(m.scheme);
    r = move(d);
    break;
  }
  case GAMMAOFF:
  {
    auto d = make_unique<Sch<GammaDiscreteDistribution>>(m.n, m.a, m.b, 0.05, 0.05, true, m.off);
    if (m.scheme != 1) d->setScheme(m.scheme);
    r = move(d);
    break;
  }
  case BETA:
    r = make_unique<BetaDiscreteDistribution>(m.n, m.a, m.b, m.scheme); // public route to the scheme
    break;
  case GAUSS:
  {
    auto d = make_unique<Sch<GaussianDiscreteDistribution>>(m.n, m.a, m.b);
    if (m.scheme != 1) d->setScheme(m.scheme);
    r = move(d);
    break;
  }
  case EXPO:
  {
    auto d = make_unique<Sch<ExponentialDiscreteDistribution>>(m.n, m.a);
    if (m.scheme != 1) d->setScheme(m.scheme);
    r = move(d);
    break;
  }
  case TEXP:
  {
    auto d = make_unique<Sch<TruncatedExponentialDiscreteDistribution>>(m.n, m.a, m.b);
    if (m.scheme != 1) d->setScheme(m.scheme);
    r = move(d);
    break;
  }
  default:
  {
    auto d = make_unique<Sch<UniformDiscreteDistribution>>(static_cast<unsigned int>(m.n), m.a, m.b);
    if (m.scheme != 1) d->setScheme(m.scheme);
    r = move(d);
    break;
  }
  }
  if (m.median) r->setMedian(true);
  return r;
}

unique_ptr<DD> build(const Node& m)
{
  if (m.leaf()) return buildLeaf(m);
  if (m.kind == CONSTANT) return make_unique<ConstantDistribution>(m.a);
  if (m.kind == SIMPLE)
  {
    if (m.ctor == 1)
    {
      map<double, double> mp;
      for (size_t i = 0; i < m.sv.size(); ++i) mp[m.sv[i]] = m.sp[i]; // sv is sorted for this constructor
      return make_unique<SimpleDiscreteDistribution>(mp, NumConstants::TINY(), m.fixed);
    }
    if (m.ctor == 2)
    {
      map<size_t, vector<double>> ranges;
      for (size_t i = 0; i < m.sv.size(); i += 2) ranges[i + 1] = { -1000., 1000. }; // wide: every regular value is acceptable
      return make_unique<SimpleDiscreteDistribution>(m.sv, ranges, m.sp, NumConstants::TINY(), m.fixed);
    }
    return make_unique<SimpleDiscreteDistribution>(m.sv, m.sp, NumConstants::TINY(), m.fixed);
  }
  if (m.kind == INVMIX) return make_unique<InvariantMixedDiscreteDistribution>(build(m.kids[0]), m.a, m.inv);
  vector<unique_ptr<DD>> v;
  for (auto& k : m.kids) v.push_back(build(k));
  return make_unique<MixtureOfDiscreteDistributions>(v, m.sp);
}

// child i of a compound live object
const DD* childOf(const DD& d, const Node& m, size_t i)
{
  if (m.kind == INVMIX)
  {
    auto p = dynamic_cast<const InvariantMixedDiscreteDistribution*>(&d);
    return p ? &p->variableSubDistribution() : nullptr;
  }
  auto p = dynamic_cast<const MixtureOfDiscreteDistributions*>(&d);
  return (p && i < p->getNumberOfDistributions()) ? &p->nDistribution(i) : nullptr;
}

// ------------------------------------------------------------------ parent reference
struct Parent
{
  function<double(double)> P, E, Q;       // fresh instance of the same family (current parameter values)
  bool hasQ = true;
  bool closed = false;
  function<double(double)> cP, cE, cQ;    // closed forms (exponential, truncated exponential, uniform, gaussian)
  double fullMean = NAN;                  // mean over the natural (unrestricted) domain, closed form
  double pTol = 1e-12;                    // absolute accuracy of P
  double qMass = 1e-11;                   // |P(Q(u))-u| allowed (from the quantile routine's stopping rule)
  double eTol = 1e-12;                    // absolute accuracy of E
  shared_ptr<DD> keep;
};

double Phi(double z) { return 0.5 * std::erfc(-z / std::sqrt(2.0)); }

// read the live leaf's parameters into the model (the partition must match what the parameters hold)
void readLeafParams(const DD& d, Node& m)
{
  switch (m.kind)
  {
  case GAMMA: m.a = d.getParameterValue("alpha"); m.b = d.getParameterValue("beta"); break;
  case GAMMAOFF: m.a = d.getParameterValue("alpha"); m.b = d.getParameterValue("beta"); m.off = d.getParameterValue("offset"); break;
  case BETA: m.a = d.getParameterValue("alpha"); m.b = d.getParameterValue("beta"); break;
  case GAUSS: m.a = d.getParameterValue("mu"); m.b = d.getParameterValue("sigma"); break;
  case EXPO: m.a = d.getParameterValue("lambda"); break;
  case TEXP: m.a = d.getParameterValue("lambda"); m.b = d.getParameterValue("tp"); break;
  default: break;
  }
}

Parent parentOf(const Node& m)
{
  Parent p;
  Node f = m;
  f.n = 1; f.scheme = 1; f.median = false;
  shared_ptr<DD> fresh(buildLeaf(f).release());
  p.keep = fresh;
  p.P = [fresh](double x) { return fresh->pProb(x); };
  p.E = [fresh](double x) { return fresh->Expectation(x); };
  p.Q = [fresh](double u) { return fresh->qProb(u); };
  const double a = m.a, b = m.b;
  switch (m.kind)
  {
  case GAMMA: case GAMMAOFF:
  {
    double off = m.kind == GAMMAOFF ? m.off : 0;
    p.fullMean = a / b + off;
    p.pTol = 4e-8;                                            // incompleteGamma: "accurate = 1e-8"
    p.qMass = 2e-5 * std::max(1.0, std::sqrt(a)) + 2 * p.pTol; // qChisq stops at a relative step of 5e-7; max x f(x) ~ sqrt(alpha/2pi)
    p.eTol = 4e-8 * (a / b + std::fabs(off));
    break;
  }
  case BETA:
    p.fullMean = a / (a + b);
    p.pTol = 1e-10;
    p.qMass = 1e-7;
    p.eTol = 1e-10;
    break;
  case GAUSS:
    p.closed = true;
    p.cP = [a, b](double x) { return Phi((x - a) / b); };
    p.cE = [a, b](double x) { double z = (x - a) / b; return a * Phi(z) - b * std::exp(-z * z / 2) / std::sqrt(2 * M_PI); };
    p.fullMean = a;
    p.pTol = 1e-11;
    p.qMass = 1e-7;                                           // qNorm is AS70 (Odeh & Evans): about 1.5e-8 in z, times the density
    p.eTol = 1e-11 * (std::fabs(a) + b);
    break;
  case EXPO:
    p.closed = true;
    p.cP = [a](double x) { return x <= 0 ? 0. : -std::expm1(-a * x); };
    p.cE = [a](double x) { return x <= 0 ? 0. : 1 / a - std::exp(-a * x) * (x + 1 / a); };
    p.cQ = [a](double u) { return -std::log1p(-u) / a; };
    p.fullMean = 1 / a;
    p.pTol = 1e-13;
    p.qMass = 1e-11;
    p.eTol = 1e-13 / a;
    break;
  case TEXP:
  {
    double cond = -std::expm1(-a * b);
    p.closed = true;
    p.cP = [a, b, cond](double x) { return x <= 0 ? 0. : x >= b ? 1. : -std::expm1(-a * x) / cond; };
    p.cE = [a, b, cond](double x) { double y = std::min(x, b); return y <= 0 ? 0. : (1 / a - std::exp(-a * y) * (y + 1 / a)) / cond; };
    p.cQ = [a, cond](double u) { return -std::log1p(-cond * u) / a; };
    p.fullMean = (1 / a - std::exp(-a * b) * (b + 1 / a)) / cond;
    // 1-exp(-x) in the library loses absolute 1e-16, relative to cond when divided by it
    p.pTol = 1e-13 / std::min(1.0, cond);
    p.qMass = 1e-11 / std::min(1.0, cond);
    p.eTol = 1e-13 / a / std::min(1.0, cond) + 1e-13 * b;
    break;
  }
  default: // UNIF
  {
    double lo = std::min(a, b), hi = std::max(a, b);
    p.closed = true;
    p.cP = [lo, hi](double x) { return x <= lo ? 0. : x >= hi ? 1. : (x - lo) / (hi - lo); };
    p.cE = [lo, hi](double x) { double y = std::min(std::max(x, lo), hi); return (y * y - lo * lo) / (hi - lo) / 2; };
    p.cQ = [lo, hi](double u) { return lo + u * (hi - lo); };
    p.fullMean = (lo + hi) / 2;
    p.pTol = 1e-13;
    p.qMass = 1e-11;
    p.eTol = 1e-13 * (std::fabs(lo) + std::fabs(hi)) + 1e-13 * (lo * lo + hi * hi) / (hi - lo);
    break;
  }
  }
  return p;
}

bool g_forceAll = false; // witness groups: do not skip the classes of recorded findings

// ------------------------------------------------------------------ observable view of a distribution
struct View
{
  size_t n = 0;
  Vdouble cats, probs, B; // B = getBounds(): n+1 entries
  double lo = 0, hi = 0;
  bool slo = false, shi = false;
  double prec = 1e-12;
  bool ok = false;
};

struct Ctx
{
  string cls;   // structural class (family, scheme, median ...)
  string fam;   // family only (coarser class for the lookup / cumulative clauses)
  string hist;  // human readable history
  string W(const string& s) const { return hist + " => " + s; }
};

string viewStr(const View& v)
{
  return "n=" + str(v.n) + " domain " + (v.slo ? "]" : "[") + str(v.lo) + ";" + str(v.hi) + (v.shi ? "[" : "]") + " values=" + vrt::vecStr(v.cats, 40) + " probs=" + vrt::vecStr(v.probs, 40) + " bounds=" + vrt::vecStr(v.B, 40);
}

// clause "count" + reading of every accessor of observe_at
View observe(const DD& d, const Ctx& c, long expectedN)
{
  View v;
  v.n = d.getNumberOfCategories();
  v.cats = d.getCategories();
  v.probs = d.getProbabilities();
  v.lo = d.getLowerBound();
  v.hi = d.getUpperBound();
  v.slo = d.strictLowerBound();
  v.shi = d.strictUpperBound();
  auto ad = dynamic_cast<const AbstractDiscreteDistribution*>(&d);
  if (ad) v.prec = ad->precision();
  bool ok = true;
  if (expectedN >= 0)
    ok &= vrt::expect(v.n == static_cast<size_t>(expectedN), "count.requested", c.cls, [&] { return c.W("getNumberOfCategories()=" + str(v.n) + " but " + str(expectedN) + " classes were requested"); });
  ok &= vrt::expect(v.n >= 1 && v.cats.size() == v.n && v.probs.size() == v.n, "count.consistent", c.cls,
      [&] { return c.W("getNumberOfCategories()=" + str(v.n) + " getCategories().size()=" + str(v.cats.size()) + " getProbabilities().size()=" + str(v.probs.size()) + " values=" + vrt::vecStr(v.cats, 40)); });
  if (!ok) return v;
  vrt::Outcome o = vrt::capture([&] { v.B = d.getBounds(); });
  if (!vrt::expect(o.returned() && v.B.size() == v.n + 1, "count.bounds", c.cls, [&] { return c.W("getBounds() " + o.text() + " size " + str(v.B.size()) + " for n=" + str(v.n)); })) return v;
  // accessor agreement
  bool acc = true;
  string bad;
  for (size_t i = 0; i < v.n && acc; ++i)
  {
    if (!(vrt::sameDouble(d.getCategory(i), v.cats[i]) && vrt::sameDouble(d.getProbability(i), v.probs[i]))) { acc = false; bad = "getCategory/getProbability(" + str(i) + ")"; }
    if (i + 1 < v.n)
    {
      double bi = NAN;
      vrt::Outcome ob = vrt::capture([&] { bi = d.getBound(i); });
      if (!ob.returned() || !vrt::sameDouble(bi, v.B[i + 1])) { acc = false; bad = "getBound(" + str(i) + ") " + ob.text() + " " + str(bi); }
    }
  }
  if (!(vrt::sameDouble(v.B[0], v.lo) && vrt::sameDouble(v.B[v.n], v.hi))) { acc = false; bad = "getBounds() ends vs getLowerBound/getUpperBound"; }
  vrt::expect(acc, "accessors.agree", c.cls, [&] { return c.W(bad + " disagrees with the vector accessors; " + viewStr(v)); });
  v.ok = acc;
  return v;
}

// clauses: probabilities, values, bounds (structure of the partition)
bool auditStructure(const View& v, const Ctx& c, bool medianScaled, bool boundsFromValues = false)
{
  // recorded finding: rescaled medians can leave their class interval (by design of the median option)
  bool skipInterval = medianScaled && !g_forceAll && vrt::known("C09-median-rescaled-outside-interval");
  bool ok = true;
  double sum = 0;
  bool nonneg = true, fin = true;
  for (double p : v.probs) { sum += p; if (!(p >= 0)) nonneg = false; if (!std::isfinite(p)) fin = false; }
  ok &= vrt::expect(nonneg && fin, "prob.nonnegative", c.cls, [&] { return c.W("negative or non-finite class probability; " + viewStr(v)); });
  ok &= vrt::expect(std::fabs(sum - 1) <= 1e-9, "prob.sum", c.cls, [&] { return c.W("probabilities sum to " + str(sum) + "; " + viewStr(v)); });
  bool inc = true, vfin = true;
  for (size_t i = 0; i < v.n; ++i)
  {
    if (!std::isfinite(v.cats[i])) vfin = false;
    if (i + 1 < v.n && !(v.cats[i] < v.cats[i + 1])) inc = false;
  }
  ok &= vrt::expect(inc && vfin, "values.increasing", c.cls, [&] { return c.W("class values not finite and strictly increasing; " + viewStr(v)); });
  bool ord = true, bfin = true;
  for (size_t i = 0; i <= v.n; ++i)
  {
    if (std::isnan(v.B[i])) bfin = false;
    if (i < v.n && !(v.B[i] <= v.B[i + 1])) ord = false;
  }
  // (invariant-mixed places bounds half-way between the invariant and the neighbouring nested values: with rescaled
  //  medians outside their nested intervals the order of those bounds is a consequence of the recorded finding)
  if (!(skipInterval && boundsFromValues))
    ok &= vrt::expect(ord && bfin, "bounds.ordered", c.cls + (v.n == 1 ? ":n1" : ""), [&] { return c.W("bounds (domain ends included) are not non-decreasing; " + viewStr(v)); });
  if (!(ord && bfin && vfin)) return false;
  // every value inside its own interval; resolution = the tolerance comparator's precision times the
  // number of classes (duplicate separation moves a value by j*precision, j<=n)
  double tolv = (static_cast<double>(v.n) + 1) * v.prec;
  size_t badi = v.n;
  if (skipInterval) vrt::counted("unjudged.median-in-interval");
  for (size_t i = 0; i < v.n && !skipInterval; ++i)
  {
    double t = tolv + 1e-13 * std::fabs(v.cats[i]);
    if (!(v.cats[i] >= v.B[i] - t && v.cats[i] <= v.B[i + 1] + t)) { badi = i; break; }
  }
  string pos = badi == v.n ? "" : v.n == 1 ? "only" : badi == 0 ? "first" : badi + 1 == v.n ? "last" : "interior";
  if (!skipInterval)
    ok &= vrt::expect(badi == v.n, "values.in-interval", c.cls + ":" + pos, [&] { return c.W("value of class " + str(badi) + " = " + str(v.cats[badi]) + " outside its interval [" + str(v.B[badi]) + "," + str(v.B[badi + 1]) + "]; " + viewStr(v)); });
  return ok;
}

// the five class queries with argument x, which designates class k (prefix sum of the classes below = pre).
// tag "": x is the stored class value; otherwise x is another representation of that class value (see below)
void cumulativeProbe(const DD& d, const View& v, const Ctx& c, double x, size_t k, double pre, const string& tag)
{
  double inf = d.getInfCumulativeProbability(x), iinf = d.getIInfCumulativeProbability(x);
  double sup = d.getSupCumulativeProbability(x), ssup = d.getSSupCumulativeProbability(x);
  double post = pre + v.probs[k];
  string pos = v.n == 1 ? "only" : k == 0 ? "first" : k + 1 == v.n ? "last" : "interior";
  string cl = c.fam + ":" + pos + (tag.empty() ? "" : ":" + tag);
  string as = tag.empty() ? "" : " [argument " + vrt::hexd(x) + " designates class " + str(k) + " = " + vrt::hexd(v.cats[k]) + " (" + tag + ", precision " + str(v.prec) + ")]";
  vrt::expect(std::fabs(inf - pre) <= 1e-9, "cumulative.inf", cl, [&] { return c.W("Pr(x<" + str(x) + ")=" + str(inf) + " expected prefix sum " + str(pre) + as + "; " + viewStr(v)); });
  vrt::expect(std::fabs(iinf - post) <= 1e-9, "cumulative.iinf", cl, [&] { return c.W("Pr(x<=" + str(x) + ")=" + str(iinf) + " expected " + str(post) + as + "; " + viewStr(v)); });
  vrt::expect(std::fabs(sup - (1 - post)) <= 1e-9, "cumulative.sup", cl, [&] { return c.W("Pr(x>" + str(x) + ")=" + str(sup) + " expected " + str(1 - post) + as + "; " + viewStr(v)); });
  vrt::expect(std::fabs(ssup - (1 - pre)) <= 1e-9, "cumulative.ssup", cl, [&] { return c.W("Pr(x>=" + str(x) + ")=" + str(ssup) + " expected " + str(1 - pre) + as + "; " + viewStr(v)); });
  double pk = d.getProbability(x);
  vrt::expect(vrt::sameDouble(pk, v.probs[k]), "cumulative.point", cl, [&] { return c.W("getProbability(value " + str(x) + ")=" + str(pk) + " expected " + str(v.probs[k]) + as); });
}

// Class values are matched with the tolerance of the distribution ("category values that differ less than
// [precision()] will be considered identical", AbstractDiscreteDistribution): an argument y that is not the
// stored representation of a class value but lies within that tolerance of it designates the same class.
// True only when this is beyond doubt: y is closer to the stored value than 0.95*precision minus the rounding of
// the comparator's own arithmetic (y - precision), i.e. safely inside the documented tolerance.
bool designates(double y, double key, double prec)
{
  if (!std::isfinite(y) || !std::isfinite(key)) return false;
  double m = std::max(std::max(std::fabs(y), std::fabs(key)), prec);
  double u = std::nextafter(m, INFINITY) - m;
  return std::fabs(y - key) + 2 * u <= 0.95 * prec;
}
// ... and no other class is anywhere near y (within 4 x precision): the designated class is unambiguous
bool isolatedClass(const View& v, size_t k, double y)
{
  if (k > 0 && !(y - v.cats[k - 1] > 4 * v.prec)) return false;
  if (k + 1 < v.n && !(v.cats[k + 1] - y > 4 * v.prec)) return false;
  return true;
}

// clause: cumulative class queries = prefix sums; queried with the stored class values and with arguments that
// designate the same class without being bit-identical to the stored value (one unit in the last place above /
// below, as produced by arithmetic on class values, and about half the tolerance above / below)
void auditCumulative(const DD& d, const View& v, const Ctx& c)
{
  double pre = 0;
  for (size_t k = 0; k < v.n; ++k)
  {
    double x = v.cats[k];
    cumulativeProbe(d, v, c, x, k, pre, "");
    if (std::isfinite(x))
    {
      const double cand[4] = { std::nextafter(x, INFINITY), std::nextafter(x, -INFINITY), x + 0.45 * v.prec, x - 0.45 * v.prec };
      bool any = false;
      for (int j = 0; j < 4; ++j)
      {
        double y = cand[j];
        if (y == x || (j >= 2 && y == cand[j - 2])) continue;
        if (!designates(y, x, v.prec) || !isolatedClass(v, k, y)) continue;
        cumulativeProbe(d, v, c, y, k, pre, j % 2 == 0 ? "within-tolerance-above" : "within-tolerance-below");
        any = true;
      }
      if (any) vrt::cover(c.fam + ":cumulative:argument-within-tolerance");
      else vrt::counted("unjudged.cumulative-tolerance-below-resolution"); // one ulp of the value exceeds the tolerance, or classes closer than 4 x tolerance
    }
    pre += v.probs[k];
  }
}

// compounds: the class values of the nested distributions / components are the natural arguments of the
// compound's class queries; a nested value can be merged into a compound class stored under a slightly
// different key (another component's value, the invariant).  ys: nested class values.
void auditCumulativeNested(const DD& d, const View& v, const Ctx& c, const Vdouble& ys)
{
  for (double y : ys)
  {
    double pre = 0;
    for (size_t k = 0; k < v.n; ++k)
    {
      if (y != v.cats[k] && designates(y, v.cats[k], v.prec) && isolatedClass(v, k, y))
      {
        cumulativeProbe(d, v, c, y, k, pre, y > v.cats[k] ? "nested-value-above" : "nested-value-below");
        vrt::cover(c.fam + ":cumulative:nested-value-merged");
        break;
      }
      pre += v.probs[k];
    }
  }
}

// The classes are a partition: a value of the domain lies in exactly one class, and the two lookups of the
// interface ("the value of the category the value is in" / "the index of the category the value is in") are two
// views of that one class.  Whatever convention decides a value sitting exactly on an interior bound (the statement
// leaves it open: either neighbour is accepted by lookup.value / lookup.index), both lookups must name the same
// class: getCategory(getCategoryIndex(x)) == getValueCategory(x).  An index outside [0,n) is lookup.index's business.
void lookupAgree(const View& v, const Ctx& c, double x, const vrt::Outcome& ov, double gotValue, const vrt::Outcome& oi, size_t gotIndex, const string& cl)
{
  if (!ov.returned() || !oi.returned() || gotIndex >= v.n) return;
  vrt::expect(vrt::sameDouble(v.cats[gotIndex], gotValue), "lookup.agree", cl,
      [&] { return c.W("getCategoryIndex(" + vrt::hexd(x) + " = " + str(x) + ")=" + str(gotIndex) + " is the class of value " + str(v.cats[gotIndex]) + " but getValueCategory of the same argument returns " + str(gotValue) + ": the two lookups put one value into two different classes; " + viewStr(v)); });
}

// clause: value -> class lookup
void lookupProbe(const DD& d, const View& v, const Ctx& c, double x, size_t k, long altK, const string& where)
{
  string pos = v.n == 1 ? "only" : k == 0 ? "first" : k + 1 == v.n ? "last" : "interior";
  double got = NAN;
  vrt::Outcome o = vrt::capture([&] { got = d.getValueCategory(x); });
  bool okv = o.returned() && (vrt::sameDouble(got, v.cats[k]) || (altK >= 0 && vrt::sameDouble(got, v.cats[static_cast<size_t>(altK)])));
  vrt::expect(okv, "lookup.value", c.fam + ":" + pos + ":" + where, [&] { return c.W("getValueCategory(" + str(x) + ") " + o.text() + " " + str(got) + " expected the value of class " + str(k) + " = " + str(v.cats[k]) + "; " + viewStr(v)); });
  size_t gi = static_cast<size_t>(-1);
  vrt::Outcome oi = vrt::capture([&] { gi = d.getCategoryIndex(x); });
  bool oki = oi.returned() && (gi == k || (altK >= 0 && gi == static_cast<size_t>(altK)));
  vrt::expect(oki, "lookup.index", c.fam + ":" + pos + ":" + where + (oi.returned() ? "" : ":" + string(oi.kind == vrt::Outcome::BppException ? "bpp-exception" : "foreign-exception")),
      [&] { return c.W("getCategoryIndex(" + str(x) + ") " + oi.text() + " " + str(gi) + " expected " + str(k) + "; " + viewStr(v)); });
  lookupAgree(v, c, x, o, got, oi, gi, c.fam + ":" + pos + ":" + where);
}

void auditLookup(const DD& d, const View& v, const Ctx& c, vrt::Rng& rng)
{
  for (size_t k = 0; k < v.n; ++k)
  {
    double L = v.B[k], U = v.B[k + 1];
    if (!(L < U)) continue;
    double w = U - L;
    double mid;
    if (!isInf(L) && !isInf(U)) mid = L + w / 2;
    else if (isInf(L) && isInf(U)) mid = 0;
    else if (isInf(U)) mid = L + std::max(1.0, std::fabs(L));
    else mid = U - std::max(1.0, std::fabs(U));
    if (mid > L && mid < U) lookupProbe(d, v, c, mid, k, -1, "mid");
    double eL = std::max(std::fabs(L) * 1e-9, isInf(U) ? 1e-9 : w * 1e-6);
    double eU = std::max(std::fabs(U) * 1e-9, isInf(L) ? 1e-9 : w * 1e-6);
    if (eL < 1e-300) eL = 1e-300;
    if (eU < 1e-300) eU = 1e-300;
    double xl = L + eL, xu = U - eU;
    if (xl > L && xl < U) lookupProbe(d, v, c, xl, k, -1, "just-above-lower");
    if (xu > L && xu < U) lookupProbe(d, v, c, xu, k, -1, "just-below-upper");
    if (v.cats[k] > L && v.cats[k] < U) lookupProbe(d, v, c, v.cats[k], k, -1, "class-value");
    if (!isInf(L) && !isInf(U) && rng.chance(0.5))
    {
      double x = L + w * rng.real(0.01, 0.99);
      if (x > L && x < U) lookupProbe(d, v, c, x, k, -1, "random");
    }
    if (k > 0 && v.B[k - 1] < L)
    {
      // exactly on the bound (what getBound(i) / getBounds() hand to the client): either neighbour accepted, but the
      // value lookup and the index lookup must agree on which one (lookup.agree, judged inside lookupProbe)
      lookupProbe(d, v, c, L, k, static_cast<long>(k) - 1, "on-interior-bound");
      vrt::cover(c.fam + ":lookup:on-interior-bound");
      // the neighbouring representable numbers are strictly inside one class: no ambiguity there
      if (!isInf(L))
      {
        double xb = std::nextafter(L, -INFINITY), xa = std::nextafter(L, INFINITY);
        if (xb > v.B[k - 1] && xb < L) lookupProbe(d, v, c, xb, k - 1, -1, "one-ulp-below-interior-bound");
        if (xa > L && xa < U) lookupProbe(d, v, c, xa, k, -1, "one-ulp-above-interior-bound");
      }
    }
  }
  // closed domain ends belong to the first / last class
  if (!v.slo && v.B[0] < v.B[1]) lookupProbe(d, v, c, v.lo, 0, -1, "on-closed-lower-end");
  if (!v.shi && v.B[v.n - 1] < v.B[v.n]) lookupProbe(d, v, c, v.hi, v.n - 1, -1, "on-closed-upper-end");
  // outside the domain: the statement is silent; any value or exception, never an abort
  if (!isInf(v.lo)) { vrt::capture([&] { (void)d.getValueCategory(v.lo - 1 - std::fabs(v.lo)); }); vrt::capture([&] { (void)d.getCategoryIndex(v.lo - 1 - std::fabs(v.lo)); }); vrt::counted("lookup.outside-unjudged"); }
  if (!isInf(v.hi)) { vrt::capture([&] { (void)d.getValueCategory(v.hi + 1 + std::fabs(v.hi)); }); vrt::capture([&] { (void)d.getCategoryIndex(v.hi + 1 + std::fabs(v.hi)); }); vrt::counted("lookup.outside-unjudged"); }
}

// what a few units in the last place of an abscissa are worth in probability (the cumulative can be
// arbitrarily steep next to a domain end, e.g. beta with a shape < 1 close to 1): added to tolerances
double ulpSlack(const function<double(double)>& P, double x, double lo, double hi)
{
  if (isInf(x)) return 0;
  double ax = std::fabs(x);
  double dx = 16 * (std::nextafter(ax, INFINITY) - ax);
  double a = std::max(lo, x - dx), b = std::min(hi, x + dx);
  return std::fabs(P(b) - P(a));
}

// probe abscissae inside the domain: finite bounds, class values, points beyond the outer finite bounds
Vdouble probePoints(const View& v)
{
  Vdouble xs;
  for (double b : v.B) if (!isInf(b)) xs.push_back(b);
  for (double x : v.cats) if (!isInf(x)) xs.push_back(x);
  if (isInf(v.hi) && !xs.empty()) { double m = *max_element(xs.begin(), xs.end()); xs.push_back(m + std::max(1.0, std::fabs(m))); }
  if (isInf(v.lo) && !xs.empty()) { double m = *min_element(xs.begin(), xs.end()); xs.push_back(m - std::max(1.0, std::fabs(m))); }
  sort(xs.begin(), xs.end());
  xs.erase(unique(xs.begin(), xs.end()), xs.end());
  Vdouble in;
  for (double x : xs) if (x >= v.lo && x <= v.hi) in.push_back(x);
  return in;
}

// cumulative / partial expectation of the live object: range, monotone, derivative relation
// dE = x dP  =>  a*(P(b)-P(a)) <= E(b)-E(a) <= b*(P(b)-P(a)) for a<b
void auditPE(const DD& d, const Ctx& c, const Vdouble& xs, double pTol, double eTol)
{
  double pp = NAN, pe = NAN, px = NAN;
  bool first = true;
  for (double x : xs)
  {
    double P = NAN, E = NAN;
    vrt::Outcome o = vrt::capture([&] { P = d.pProb(x); E = d.Expectation(x); });
    if (!vrt::expect(o.returned() && std::isfinite(P) && std::isfinite(E), "parent.defined", c.cls, [&] { return c.W("pProb/Expectation(" + str(x) + ") inside the domain " + o.text() + ": " + str(P) + " / " + str(E)); })) return;
    vrt::expect(P >= -pTol && P <= 1 + pTol, "parent.range", c.cls, [&] { return c.W("pProb(" + str(x) + ")=" + str(P) + " outside [0,1]"); });
    if (!first)
    {
      vrt::expect(P >= pp - 2 * pTol, "parent.monotone", c.cls, [&] { return c.W("pProb(" + str(px) + ")=" + str(pp) + " > pProb(" + str(x) + ")=" + str(P)); });
      double dP = P - pp, dE = E - pe;
      double tol = 2 * eTol + 2 * pTol * std::max(std::fabs(px), std::fabs(x)) + 1e-13 * (std::fabs(E) + std::fabs(pe));
      double loB = px * dP, hiB = x * dP;
      vrt::expect(dE >= std::min(loB, hiB) - tol && dE <= std::max(loB, hiB) + tol, "parent.derivative", c.cls,
          [&] { return c.W("Expectation(" + str(x) + ")-Expectation(" + str(px) + ")=" + str(dE) + " is not between a*dP=" + str(loB) + " and b*dP=" + str(hiB) + " (dP=" + str(dP) + ", tol " + str(tol) + ")"); });
    }
    pp = P; pe = E; px = x; first = false;
  }
}

struct LeafResult { bool judged = false; double M = 0; };

bool auditLeaf(const DD& d, Node& m, Ctx c, vrt::Rng& rng)
{
  readLeafParams(d, m);
  c.cls = m.cls() + (m.restricted ? ":restricted" : "");
  Parent par = parentOf(m);
  View v = observe(d, c, static_cast<long>(m.n));
  if (!v.ok) return true;
  double Plo = par.P(v.lo), Phi_ = par.P(v.hi);
  double M = Phi_ - Plo;
  string nb = m.n == 1 ? "n1" : m.n == 2 ? "n2" : m.n <= 8 ? "n3-8" : "n9-32";
  if (!(M > 0))
  {
    // the parent has no (representable) mass on the domain: only the structural clauses are defined
    vrt::cover(c.cls + ":" + nb + ":zero-mass-domain");
    if (M == 0) { auditStructure(v, c, false); auditCumulative(d, v, c); auditLookup(d, v, c, rng); }
    return M == 0;
  }
  if (M < 0.02 || (m.kind == TEXP && m.a * m.b < 1e-6))
  {
    // cdf differences on the domain are at the resolution limit of the parent's own functions: unjudged
    vrt::cover(c.cls + ":thin-domain");
    vrt::counted("unjudged.thin-domain");
    return false;
  }
  vrt::cover(c.cls + ":" + nb);
  bool structOk = auditStructure(v, c, m.median);
  auditCumulative(d, v, c);
  auditLookup(d, v, c, rng);
  if (!structOk) return true;

  // ---- which scheme is in force
  const size_t n = v.n;
  short eff = m.scheme;
  if (m.scheme == 3)
  {
    bool collide = false, near = false;
    double prev = v.lo;
    for (size_t i = 1; i <= n; ++i)
    {
      double b = i == n ? v.hi : par.Q(Plo + static_cast<double>(i) * (M / static_cast<double>(n)));
      if (b == prev) collide = true;
      else if (std::fabs(b - prev) <= 1e-14 * (std::fabs(b) + std::fabs(prev))) near = true;
      prev = b;
    }
    bool looksEqProb = true;
    for (double p : v.probs) if (std::fabs(p - 1.0 / static_cast<double>(n)) > 1e-12) looksEqProb = false;
    if (near) eff = looksEqProb ? 1 : 2;
    else eff = collide ? 2 : 1;
    vrt::cover(c.cls + (eff == 2 ? ":fallback" : ":nofallback"));
  }
  // ---- class mass = parent's mass over the class interval, normalised on the domain
  Vdouble PB(n + 1), SB(n + 1);
  for (size_t i = 0; i <= n; ++i) { PB[i] = par.P(v.B[i]); SB[i] = (i == 0 || i == n) ? 0 : ulpSlack(par.P, v.B[i], v.lo, v.hi); }
  if (eff == 1)
  {
    for (size_t i = 0; i < n; ++i)
    {
      if (!vrt::expect(std::fabs(v.probs[i] - 1.0 / static_cast<double>(n)) <= 1e-12, "mass.equal", c.cls, [&] { return c.W("class " + str(i) + " probability " + str(v.probs[i]) + " != 1/" + str(n) + "; " + viewStr(v)); })) break;
    }
    double tol = (par.qMass + 2 * par.pTol) / M;
    for (size_t i = 0; i < n; ++i)
    {
      double mass = (PB[i + 1] - PB[i]) / M;
      double ti = tol + (SB[i] + SB[i + 1]) / M;
      if (!vrt::expect(std::fabs(mass - v.probs[i]) <= ti, "mass.parent", c.cls, [&] { return c.W("class " + str(i) + " [" + str(v.B[i]) + "," + str(v.B[i + 1]) + "] has probability " + str(v.probs[i]) + " but the parent's mass on it is " + str(mass) + " (domain mass " + str(M) + ", tol " + str(ti) + "); " + viewStr(v)); })) break;
    }
  }
  else
  {
    double W = v.hi - v.lo;
    for (size_t i = 0; i < n; ++i)
    {
      double w = v.B[i + 1] - v.B[i];
      if (!vrt::expect(std::fabs(w - W / static_cast<double>(n)) <= 1e-9 * W, "scheme.equal-interval", c.cls, [&] { return c.W("class " + str(i) + " width " + str(w) + " != (hi-lo)/n=" + str(W / static_cast<double>(n)) + "; " + viewStr(v)); })) break;
    }
    double tol = 4 * par.pTol / M + 1e-12;
    for (size_t i = 0; i < n; ++i)
    {
      double mass = (PB[i + 1] - PB[i]) / M;
      double ti = tol + (SB[i] + SB[i + 1]) / M;
      if (!vrt::expect(std::fabs(mass - v.probs[i]) <= ti, "mass.parent", c.cls, [&] { return c.W("class " + str(i) + " [" + str(v.B[i]) + "," + str(v.B[i + 1]) + "] has probability " + str(v.probs[i]) + " but the parent's mass on it is " + str(mass) + " (domain mass " + str(M) + "); " + viewStr(v)); })) break;
    }
  }
  // ---- median-valued classes as documented (setMedian): class medians times a common factor chosen so that
  //      the discrete mean is the parent's mean (no rescaling when that factor is not a positive number)
  if (eff == 1 && m.median)
  {
    Vdouble med(n);
    double t = 0;
    for (size_t i = 0; i < n; ++i) { med[i] = par.Q(Plo + (static_cast<double>(i) + 0.5) * (M / static_cast<double>(n))); t += med[i]; }
    double pm = (par.E(v.hi) - par.E(v.lo)) / M;
    double factor = pm / (t / static_cast<double>(n));
    if (!(t != 0 && factor > 0 && std::isfinite(factor))) factor = 1;
    double guard = 100 * static_cast<double>(n) * v.prec;
    for (size_t i = 0; i < n; ++i)
    {
      double e = med[i] * factor;
      // classes touched by the boundary adjustment / duplicate separation are not comparable
      if (std::fabs(e - v.lo) < guard || std::fabs(e - v.hi) < guard || e < v.lo || e > v.hi) continue;
      if (i > 0 && std::fabs(e - med[i - 1] * factor) < guard) continue;
      if (i + 1 < n && std::fabs(e - med[i + 1] * factor) < guard) continue;
      if (!vrt::expect(vrt::close(v.cats[i], e, 1e-6, guard), "median.documented-value", c.cls, [&] { return c.W("class " + str(i) + " value " + str(v.cats[i]) + " expected class median " + str(med[i]) + " x factor " + str(factor) + " = " + str(e) + "; " + viewStr(v)); })) break;
    }
  }
  // ---- mean preservation with mean-valued classes (equal-probability scheme, median off)
  if (eff == 1 && !m.median)
  {
    double dm = 0, scale = 0;
    for (size_t i = 0; i < n; ++i) { dm += v.probs[i] * v.cats[i]; scale = std::max(scale, std::fabs(v.cats[i])); }
    double pm = (par.E(v.hi) - par.E(v.lo)) / M;
    scale = std::max(scale, std::fabs(pm));
    double tol = 10 * static_cast<double>(n) * par.eTol / M + 1e-9 * scale + 2 * static_cast<double>(n) * v.prec;
    vrt::expect(std::fabs(dm - pm) <= tol, "mean.preserved", c.cls, [&] { return c.W("discrete mean " + str(dm) + " but the parent's mean over the domain is " + str(pm) + " (tol " + str(tol) + "); " + viewStr(v)); });
    if (!m.restricted && !std::isnan(par.fullMean) && M > 1 - 1e-6)
      vrt::expect(std::fabs(dm - par.fullMean) <= tol + 1e-5 * scale, "mean.closed-form", c.cls, [&] { return c.W("discrete mean " + str(dm) + " but the family's mean is " + str(par.fullMean) + "; " + viewStr(v)); });
  }
  // ---- the parent's functions: live object == fresh instance with the same parameter values == closed form
  Vdouble xs = probePoints(v);
  for (double x : xs)
  {
    double P = d.pProb(x), E = d.Expectation(x), fP = par.P(x), fE = par.E(x);
    bool okA = vrt::close(P, fP, 1e-12, 1e-13) && vrt::close(E, fE, 1e-12, 1e-13);
    if (!vrt::expect(okA, "parent.current-parameters", c.cls, [&] { return c.W("pProb/Expectation(" + str(x) + ")=" + str(P) + "/" + str(E) + " but a fresh " + m.text() + " gives " + str(fP) + "/" + str(fE)); })) break;
    if (par.closed)
    {
      double cP = par.cP(x), cE = par.cE(x);
      if (!vrt::expect(std::fabs(fP - cP) <= par.pTol, "parent.closed-form", c.cls + ":P", [&] { return c.W("pProb(" + str(x) + ")=" + str(fP) + " closed form " + str(cP)); })) break;
      if (!vrt::expect(std::fabs(fE - cE) <= par.eTol + 1e-12 * std::fabs(cE), "parent.closed-form", c.cls + ":E", [&] { return c.W("Expectation(" + str(x) + ")=" + str(fE) + " closed form " + str(cE)); })) break;
    }
  }
  auditPE(d, c, xs, par.pTol, par.eTol);
  // ---- quantile is the inverse of the cumulative
  for (size_t i = 1; i < 2 * n; ++i)
  {
    double u = Plo + static_cast<double>(i) * (M / static_cast<double>(2 * n));
    if (u < 1e-4 || u > 1 - 1e-4) continue;
    double q = NAN, fq = NAN;
    vrt::Outcome o = vrt::capture([&] { q = d.qProb(u); fq = par.Q(u); });
    if (!vrt::expect(o.returned() && vrt::close(q, fq, 1e-12, 1e-13), "parent.current-parameters", c.cls + ":Q", [&] { return c.W("qProb(" + str(u) + ") " + o.text() + " " + str(q) + " but a fresh " + m.text() + " gives " + str(fq)); })) break;
    double back = par.P(q);
    if (!vrt::expect(std::fabs(back - u) <= par.qMass + par.pTol + ulpSlack(par.P, q, -VB, VB), "parent.inverse", c.cls, [&] { return c.W("pProb(qProb(" + str(u) + ")=" + str(q) + ")=" + str(back)); })) break;
    if (par.closed && par.cQ)
    {
      double cq = par.cQ(u);
      if (!vrt::expect(vrt::close(q, cq, 1e-9, 1e-12), "parent.closed-form", c.cls + ":Q", [&] { return c.W("qProb(" + str(u) + ")=" + str(q) + " closed form " + str(cq)); })) break;
    }
  }
  return true;
}

bool auditNode(const DD& d, Node& m, Ctx c, vrt::Rng& rng); // false: unjudged (thin domain somewhere in the tree)

// discrete atoms reference: P(x)=sum_{c<x} p (x never probed on an atom), E(x)=sum_{c<x} c p
void auditAtomsParent(const DD& d, const Ctx& c, const Vdouble& vals, const Vdouble& pr, const string& what)
{
  size_t n = vals.size();
  Vdouble xs;
  double span = std::max(1.0, std::fabs(vals[0]) + std::fabs(vals[n - 1]));
  xs.push_back(vals[0] - 0.5 * span);
  for (size_t i = 0; i + 1 < n; ++i) xs.push_back(vals[i] + (vals[i + 1] - vals[i]) / 2);
  xs.push_back(vals[n - 1] + 0.5 * span);
  for (double x : xs)
  {
    double eP = 0, eE = 0;
    for (size_t i = 0; i < n; ++i) if (vals[i] < x) { eP += pr[i]; eE += pr[i] * vals[i]; }
    double P = NAN, E = NAN;
    vrt::Outcome o = vrt::capture([&] { P = d.pProb(x); E = d.Expectation(x); });
    vrt::expect(o.returned() && std::fabs(P - eP) <= 1e-9, "parent.atoms-cdf", c.cls, [&] { return c.W(what + " pProb(" + str(x) + ") " + o.text() + " " + str(P) + " expected " + str(eP) + " for values " + vrt::vecStr(vals) + " probs " + vrt::vecStr(pr)); });
    vrt::expect(o.returned() && std::fabs(E - eE) <= 1e-9 * (1 + std::fabs(eE)), "parent.atoms-expectation", c.cls, [&] { return c.W(what + " Expectation(" + str(x) + ") " + o.text() + " " + str(E) + " expected " + str(eE) + " for values " + vrt::vecStr(vals) + " probs " + vrt::vecStr(pr)); });
  }
  // quantile: any generalised inverse convention: mass strictly below Q(u) <= u < mass up to the value after Q(u)
  Vdouble us = { 1e-3, 0.25, 0.5, 0.75, 1 - 1e-3 };
  double cum = 0;
  for (size_t i = 0; i + 1 < n; ++i) { cum += pr[i]; if (cum > 1e-3 && cum < 1 - 1e-3) { us.push_back(cum - 5e-4); us.push_back(cum + 5e-4); } }
  sort(us.begin(), us.end());
  double prevq = -INFINITY;
  for (double u : us)
  {
    double q = NAN;
    vrt::Outcome o = vrt::capture([&] { q = d.qProb(u); });
    if (!vrt::expect(o.returned(), "parent.atoms-quantile", c.cls + ":raises", [&] { return c.W(what + " qProb(" + str(u) + ") " + o.text()); })) return;
    bool isValue = q <= -1e22;
    double below = 0, upto = 0;
    size_t at = n;
    for (size_t i = 0; i < n; ++i) if (std::fabs(vals[i] - q) <= 1e-12 * (1 + std::fabs(q))) { isValue = true; at = i; }
    if (!vrt::expect(isValue, "parent.atoms-quantile", c.cls + ":not-a-class-value", [&] { return c.W(what + " qProb(" + str(u) + ")=" + str(q) + " is neither a class value nor the -infinity marker; values " + vrt::vecStr(vals) + " probs " + vrt::vecStr(pr)); })) return;
    size_t nextIdx = at == n ? 0 : at + 1;
    for (size_t i = 0; i < n; ++i) { if (at != n && i < at) below += pr[i]; if (i <= nextIdx && nextIdx < n) upto += pr[i]; }
    if (nextIdx >= n) upto = 2;
    vrt::expect(below <= u + 1e-9 && u <= upto + 1e-9, "parent.atoms-quantile", c.cls + ":not-an-inverse", [&] { return c.W(what + " qProb(" + str(u) + ")=" + str(q) + ": mass below it " + str(below) + ", mass up to the next value " + str(upto) + "; values " + vrt::vecStr(vals) + " probs " + vrt::vecStr(pr)); });
    vrt::expect(q >= prevq, "parent.atoms-quantile", c.cls + ":not-monotone", [&] { return c.W(what + " qProb decreases at u=" + str(u) + ": " + str(prevq) + " -> " + str(q)); });
    prevq = q;
  }
}

bool distinctBeyond(const Vdouble& sorted, double gap)
{
  for (size_t i = 0; i + 1 < sorted.size(); ++i) if (!(sorted[i + 1] - sorted[i] > gap)) return false;
  return true;
}

void auditSimple(const DD& d, Node& m, Ctx c, vrt::Rng& rng)
{
  c.cls = m.cls() + (m.fixed ? ":fixed" : "") + (m.restricted ? ":restricted" : "");
  size_t n = m.sv.size();
  Vdouble vals = m.sv, pr = m.sp;
  if (!m.fixed)
  {
    double rest = 1;
    for (size_t i = 0; i < n; ++i)
    {
      vals[i] = d.getParameterValue("V" + str(i + 1));
      if (i + 1 < n) { double t = d.getParameterValue("theta" + str(i + 1)); pr[i] = t * rest; rest *= 1 - t; }
      else pr[i] = rest;
    }
  }
  View v = observe(d, c, static_cast<long>(n));
  if (!v.ok) return;
  vrt::cover(c.cls + ":" + (n == 1 ? "n1" : n == 2 ? "n2" : "n3+"));
  bool sOk = auditStructure(v, c, false);
  // the classes are the user's (value, probability) pairs
  vector<pair<double, double>> e;
  for (size_t i = 0; i < n; ++i) e.push_back(make_pair(vals[i], pr[i]));
  sort(e.begin(), e.end());
  Vdouble ev, ep;
  for (auto& x : e) { ev.push_back(x.first); ep.push_back(x.second); }
  if (distinctBeyond(ev, 4 * v.prec))
  {
    bool same = true;
    for (size_t i = 0; i < n; ++i) if (!(vrt::sameDouble(ev[i], v.cats[i]) && std::fabs(ep[i] - v.probs[i]) <= 1e-12)) same = false;
    vrt::expect(same, "compound.simple-classes", c.cls, [&] { return c.W("classes differ from the (V,theta) parameters: expected values " + vrt::vecStr(ev) + " probs " + vrt::vecStr(ep) + "; " + viewStr(v)); });
  }
  else vrt::cover(c.cls + ":colliding-values");
  auditCumulative(d, v, c);
  if (sOk) { auditLookup(d, v, c, rng); auditAtomsParent(d, c, v.cats, v.probs, "simple"); }
}

void auditConstant(const DD& d, Node& m, Ctx c, vrt::Rng& rng)
{
  c.cls = m.cls() + (m.restricted ? ":restricted" : "");
  m.a = d.getParameterValue("value");
  View v = observe(d, c, 1);
  if (!v.ok) return;
  vrt::cover(c.cls);
  auditStructure(v, c, false);
  vrt::expect(vrt::sameDouble(v.cats[0], m.a) && v.probs[0] == 1, "compound.constant-class", c.cls, [&] { return c.W("expected the single class (" + str(m.a) + ",1); " + viewStr(v)); });
  auditCumulative(d, v, c);
  double got = NAN;
  vrt::Outcome o = vrt::capture([&] { got = d.getValueCategory(m.a); });
  vrt::expect(o.returned() && vrt::sameDouble(got, m.a), "lookup.value", c.fam + ":only:class-value", [&] { return c.W("getValueCategory(" + str(m.a) + ") " + o.text() + " " + str(got)); });
  auditAtomsParent(d, c, v.cats, v.probs, "constant");
}

// generic compound parent checks on the compound's own domain
void auditCompoundParent(const DD& d, const View& v, const Ctx& c, double pTol, double eTol)
{
  Vdouble xs = probePoints(v);
  auditPE(d, c, xs, pTol, eTol);
}

bool anyMedian(const Node& m)
{
  if (m.leaf()) return m.median;
  for (auto& k : m.kids) if (anyMedian(k)) return true;
  return false;
}
double nodeETol(const Node& m)
{
  if (m.leaf()) return parentOf(m).eTol;
  double t = 1e-12;
  for (auto& k : m.kids) t = std::max(t, nodeETol(k));
  if (m.kind == SIMPLE) for (double x : m.sv) t = std::max(t, 1e-12 * std::fabs(x));
  return t;
}
double nodePTol(const Node& m)
{
  if (m.leaf()) return parentOf(m).pTol;
  double t = 1e-12;
  for (auto& k : m.kids) t = std::max(t, nodePTol(k));
  return t;
}

bool auditInvMixed(const DD& d, Node& m, Ctx c, vrt::Rng& rng)
{
  c.cls = m.cls() + (m.restricted ? ":restricted" : "");
  m.a = d.getParameterValue("p");
  const DD* sub = childOf(d, m, 0);
  if (!vrt::expect(sub != nullptr, "compound.structure", c.cls, c.W("no nested distribution"))) return true;
  {
    Ctx cc = c;
    cc.hist += " [nested]";
    if (!auditNode(*sub, m.kids[0], cc, rng)) { vrt::counted("unjudged.thin-domain"); return false; }
  }
  Ctx cn = c;
  cn.cls = "nested";
  Vdouble nc = sub->getCategories(), np = sub->getProbabilities();
  if (nc.size() != np.size() || nc.empty()) return true;
  double prec = 1e-12;
  if (auto ad = dynamic_cast<const AbstractDiscreteDistribution*>(&d)) prec = ad->precision();
  // expected classes: nested classes scaled by 1-p, invariant with p
  bool exact = false, near = false;
  for (double x : nc) { if (x == m.inv) exact = true; else if (std::fabs(x - m.inv) <= 4 * prec) near = true; }
  // recorded finding: the nested comparator can be finer than this one (beta: 1e-20 against 1e-12); nested classes
  // that are distinct in the nested distribution are then merged here and the bounds no longer match the classes
  bool nestedMerge = false;
  for (size_t i = 0; i + 1 < nc.size(); ++i) if (nc[i + 1] - nc[i] <= 4 * prec) nestedMerge = true;
  if (nestedMerge && !g_forceAll && vrt::known("C09-invmixed-coarser-comparator"))
  {
    vrt::cover(c.cls + ":nested-values-merged");
    vrt::counted("unjudged.invmixed-coarser-comparator");
    return true;
  }
  long expN = near ? -1 : static_cast<long>(nc.size() + (exact ? 0 : 1));
  View v = observe(d, c, expN);
  if (!v.ok) return true;
  vrt::cover(c.cls + (exact ? ":inv-is-a-nested-value" : near ? ":inv-near-a-nested-value" : m.inv < nc[0] ? ":inv-below" : m.inv > nc.back() ? ":inv-above" : ":inv-between"));
  bool sOk = auditStructure(v, c, anyMedian(m), true);
  if (!near)
  {
    vector<pair<double, double>> e;
    bool placed = false;
    for (size_t i = 0; i < nc.size(); ++i)
    {
      if (nc[i] == m.inv) { e.push_back(make_pair(m.inv, m.a + (1 - m.a) * np[i])); placed = true; }
      else e.push_back(make_pair(nc[i], (1 - m.a) * np[i]));
    }
    if (!placed) e.push_back(make_pair(m.inv, m.a));
    sort(e.begin(), e.end());
    bool same = e.size() == v.n;
    for (size_t i = 0; same && i < v.n; ++i) if (!(vrt::sameDouble(e[i].first, v.cats[i]) && std::fabs(e[i].second - v.probs[i]) <= 1e-12)) same = false;
    vrt::expect(same, "compound.invariant-classes", c.cls, [&] { return c.W("classes are not {invariant " + str(m.inv) + " with p=" + str(m.a) + "} + (1-p)*nested (nested values " + vrt::vecStr(nc, 40) + " probs " + vrt::vecStr(np, 40) + "); " + viewStr(v)); });
  }
  auditCumulative(d, v, c);
  auditCumulativeNested(d, v, c, nc);
  if (!sOk) return true;
  auditLookup(d, v, c, rng);
  {
    // the invariant is a class value: looking it up returns it (also when it is an end of the domain)
    double got = NAN;
    vrt::Outcome o = vrt::capture([&] { got = d.getValueCategory(m.inv); });
    vrt::expect(o.returned() && vrt::sameDouble(got, m.inv), "lookup.value", c.fam + ":invariant" + (m.inv == v.lo || m.inv == v.hi ? ":on-domain-end" : ""), [&] { return c.W("getValueCategory(invariant " + str(m.inv) + ") " + o.text() + " " + str(got) + "; " + viewStr(v)); });
    size_t gi = static_cast<size_t>(-1);
    vrt::Outcome oi = vrt::capture([&] { gi = d.getCategoryIndex(m.inv); });
    lookupAgree(v, c, m.inv, o, got, oi, gi, c.fam + ":invariant" + (m.inv == v.lo || m.inv == v.hi ? ":on-domain-end" : ""));
  }
  auditCompoundParent(d, v, c, nodePTol(m), nodeETol(m) + 1e-12 * std::fabs(m.inv));
  // quantile = generalised inverse of the (right-continuous) cumulative
  if (m.kids[0].leaf() && m.a < 1)
  {
    Parent par = parentOf(m.kids[0]);
    for (int i = 1; i < 20; ++i)
    {
      double u = i / 20.0 + 0.0123;
      if (u >= 1 - 1e-3) continue;
      // the nested quantile is only trusted on [1e-4, 1-1e-4]
      double q = NAN;
      vrt::Outcome o = vrt::capture([&] { q = d.qProb(u); });
      if (!vrt::expect(o.returned() && std::isfinite(q), "parent.inverse", c.cls + ":raises", [&] { return c.W("qProb(" + str(u) + ") " + o.text() + " " + str(q)); })) break;
      double delta = 1e-9 * std::max(1.0, std::fabs(q));
      double Pq = d.pProb(q), Pb = d.pProb(q - delta);
      double tol = par.qMass + 2 * par.pTol + 1e-6 + ulpSlack([&d](double x) { return d.pProb(x); }, q, -VB, VB);
      double uN1 = u / (1 - m.a), uN2 = (u - m.a) / (1 - m.a);
      bool trusted = (uN1 > 1e-4 && uN1 < 1 - 1e-4) || (uN2 > 1e-4 && uN2 < 1 - 1e-4);
      if (!trusted) { vrt::counted("unjudged.quantile-tail"); continue; }
      if (!vrt::expect(Pb <= u + tol && u <= Pq + tol, "parent.inverse", c.cls, [&] { return c.W("qProb(" + str(u) + ")=" + str(q) + " but pProb just below it=" + str(Pb) + " and pProb at it=" + str(Pq) + " (p=" + str(m.a) + ", invariant=" + str(m.inv) + ")"); })) break;
    }
  }
  return true;
}

bool auditMixture(const DD& d, Node& m, Ctx c, vrt::Rng& rng)
{
  c.cls = m.cls() + (m.restricted ? ":restricted" : "");
  auto mx = dynamic_cast<const MixtureOfDiscreteDistributions*>(&d);
  size_t k = m.kids.size();
  if (!vrt::expect(mx && mx->getNumberOfDistributions() == k, "compound.structure", c.cls, c.W("not a mixture of " + str(k)))) return true;
  // weights from the theta parameters
  Vdouble w(k);
  double rest = 1;
  for (size_t i = 0; i < k; ++i)
  {
    if (i + 1 < k) { double t = d.getParameterValue("theta" + str(i + 1)); w[i] = t * rest; rest *= 1 - t; }
    else w[i] = rest;
  }
  m.sp = w;
  bool wok = true;
  for (size_t i = 0; i < k; ++i) if (std::fabs(mx->getNProbability(i) - w[i]) > 1e-12) wok = false;
  vrt::expect(wok, "compound.mixture-weights", c.cls, [&] { Vdouble g; for (size_t i = 0; i < k; ++i) g.push_back(mx->getNProbability(i)); return c.W("component weights " + vrt::vecStr(g) + " but the theta parameters give " + vrt::vecStr(w)); });
  Vdouble all;
  vector<Vdouble> cc(k), cp(k);
  double lo = INFINITY, hi = -INFINITY;
  bool judged = true;
  for (size_t i = 0; i < k; ++i)
  {
    const DD& s = mx->nDistribution(i);
    Ctx c2 = c;
    c2.hist += " [component " + str(i + 1) + "]";
    if (!auditNode(s, m.kids[i], c2, rng)) judged = false;
    cc[i] = s.getCategories();
    cp[i] = s.getProbabilities();
    all.insert(all.end(), cc[i].begin(), cc[i].end());
    lo = std::min(lo, s.getLowerBound());
    hi = std::max(hi, s.getUpperBound());
  }
  if (!judged) { vrt::counted("unjudged.thin-domain"); return false; }
  sort(all.begin(), all.end());
  double prec = 1e-12;
  if (auto ad = dynamic_cast<const AbstractDiscreteDistribution*>(&d)) prec = ad->precision();
  Vdouble uniq;
  bool near = false;
  for (double x : all)
  {
    if (!uniq.empty() && x == uniq.back()) continue;
    if (!uniq.empty() && x - uniq.back() <= 4 * prec) near = true;
    uniq.push_back(x);
  }
  View v = observe(d, c, near ? -1 : static_cast<long>(uniq.size()));
  if (!v.ok) return true;
  vrt::cover(c.cls + (near ? ":near-values" : uniq.size() < all.size() ? ":shared-values" : ""));
  bool sOk = auditStructure(v, c, false);
  vrt::expect(v.lo == lo && v.hi == hi, "compound.mixture-domain", c.cls, [&] { return c.W("domain [" + str(v.lo) + "," + str(v.hi) + "] is not the hull of the component domains [" + str(lo) + "," + str(hi) + "]"); });
  if (!near)
  {
    bool same = true;
    size_t badi = 0;
    double exp_ = 0;
    for (size_t j = 0; j < v.n && same; ++j)
    {
      double e = 0;
      for (size_t i = 0; i < k; ++i) for (size_t t = 0; t < cc[i].size(); ++t) if (cc[i][t] == v.cats[j]) e += w[i] * cp[i][t];
      if (std::fabs(e - v.probs[j]) > 1e-12) { same = false; badi = j; exp_ = e; }
    }
    vrt::expect(same, "compound.mixture-classes", c.cls, [&] { return c.W("class " + str(badi) + " probability " + str(v.probs[badi]) + " expected sum of weight*component probability = " + str(exp_) + "; " + viewStr(v)); });
  }
  auditCumulative(d, v, c);
  auditCumulativeNested(d, v, c, all);
  if (!sOk) return true;
  auditLookup(d, v, c, rng);
  // P and E of the mixture = weighted sums of the components', and consistent on the mixture's domain
  Vdouble xs = probePoints(v);
  for (double x : xs)
  {
    double eP = 0, eE = 0, P = NAN, E = NAN;
    vrt::Outcome o = vrt::capture([&] { for (size_t i = 0; i < k; ++i) { eP += w[i] * mx->nDistribution(i).pProb(x); eE += w[i] * mx->nDistribution(i).Expectation(x); } P = d.pProb(x); E = d.Expectation(x); });
    if (!vrt::expect(o.returned() && vrt::close(P, eP, 1e-12, 1e-13) && vrt::close(E, eE, 1e-12, 1e-13), "compound.mixture-functions", c.cls, [&] { return c.W("pProb/Expectation(" + str(x) + ") " + o.text() + " " + str(P) + "/" + str(E) + " expected the weighted sums " + str(eP) + "/" + str(eE)); })) break;
  }
  auditCompoundParent(d, v, c, nodePTol(m), nodeETol(m));
  vrt::Outcome oq = vrt::capture([&] { (void)d.qProb(0.5); });
  vrt::expect(oq.returned() || oq.raisedBpp(), "parent.mixture-quantile", c.cls, [&] { return c.W("qProb(0.5) " + oq.text()); });
  return true;
}

bool auditNode(const DD& d, Node& m, Ctx c, vrt::Rng& rng)
{
  c.fam = kindName(m.kind);
  if (m.leaf()) return auditLeaf(d, m, c, rng);
  if (m.kind == SIMPLE) { auditSimple(d, m, c, rng); return true; }
  if (m.kind == CONSTANT) { auditConstant(d, m, c, rng); return true; }
  if (m.kind == INVMIX) return auditInvMixed(d, m, c, rng);
  return auditMixture(d, m, c, rng);
}

// ------------------------------------------------------------------ generators
double signedLog(vrt::Rng& r, double lo, double hi) { double x = r.logReal(lo, hi); return r.chance(0.5) ? x : -x; }
double location(vrt::Rng& r) { return r.chance(0.15) ? 0.0 : signedLog(r, 0.01, 10); }

Node genLeaf(vrt::Rng& r, int kind, size_t n, short scheme, bool median)
{
  Node m;
  m.kind = kind; m.n = n; m.scheme = scheme; m.median = median;
  switch (kind)
  {
  case GAMMA: m.a = r.logReal(0.1, 100); m.b = r.logReal(0.1, 100); break;
  case GAMMAOFF: m.a = r.logReal(0.1, 100); m.b = r.logReal(0.1, 100); m.off = location(r); break;
  case BETA: m.a = r.logReal(0.1, 100); m.b = r.logReal(0.1, 100); break;
  case GAUSS: m.a = location(r); m.b = r.logReal(0.1, 100); break;
  case EXPO: m.a = r.logReal(0.1, 100); break;
  case TEXP: m.a = r.logReal(0.1, 100); m.b = r.logReal(0.1, 100); break;
  default: m.a = location(r); m.b = m.a + r.logReal(0.1, 100); break;
  }
  return m;
}

Node genSimple(vrt::Rng& r, size_t n)
{
  Node m;
  m.kind = SIMPLE; m.n = n;
  m.fixed = r.chance(0.2);
  while (m.sv.size() < n)
  {
    double x = r.chance(0.1) ? 0.0 : signedLog(r, 0.01, 10);
    bool dup = false;
    for (double y : m.sv) if (std::fabs(x - y) < 1e-6) dup = true;
    if (!dup) m.sv.push_back(x);
  }
  Vdouble w(n);
  double s = 0;
  for (auto& x : w) { x = r.real(0.05, 1); s += x; }
  double acc = 0;
  for (size_t i = 0; i + 1 < n; ++i) { w[i] /= s; acc += w[i]; }
  w[n - 1] = 1 - acc;
  m.sp = w;
  m.ctor = static_cast<int>(r.below(3));
  if (m.ctor == 1) sort(m.sv.begin(), m.sv.end());
  return m;
}

Node genConstant(vrt::Rng& r)
{
  Node m;
  m.kind = CONSTANT; m.n = 1; m.a = location(r);
  return m;
}

Node genSmallLeaf(vrt::Rng& r)
{
  size_t n = r.chance(0.8) ? static_cast<size_t>(r.range(1, 6)) : static_cast<size_t>(r.range(7, 32));
  return genLeaf(r, static_cast<int>(r.below(NLEAF)), n, static_cast<short>(r.range(1, 3)), false);
}

Node genMixture(vrt::Rng& r, bool leavesOnly);

Node genInvMix(vrt::Rng& r, bool leafOnly)
{
  Node m;
  m.kind = INVMIX;
  int t = static_cast<int>(r.below(100));
  if (leafOnly || t < 70) m.kids.push_back(genSmallLeaf(r));
  else if (t < 85) m.kids.push_back(genSimple(r, static_cast<size_t>(r.range(1, 5))));
  else if (t < 90) m.kids.push_back(genConstant(r));
  else m.kids.push_back(genMixture(r, true));
  m.a = r.chance(0.1) ? 0.0 : r.real(0.01, 0.95);
  m.inv = r.chance(0.6) ? 0.0 : signedLog(r, 0.01, 10);
  const Node& k = m.kids[0];
  if (k.kind == SIMPLE && r.chance(0.3)) m.inv = k.sv[r.below(k.sv.size())];
  if (k.kind == CONSTANT && r.chance(0.3)) m.inv = k.a;
  return m;
}

Node genMixture(vrt::Rng& r, bool leavesOnly)
{
  Node m;
  m.kind = MIXTURE;
  size_t k = static_cast<size_t>(r.range(1, 3));
  if (k == 1 && r.chance(0.7)) k = 2;
  for (size_t i = 0; i < k; ++i)
  {
    int t = static_cast<int>(r.below(100));
    if (leavesOnly || t < 65) m.kids.push_back(genSmallLeaf(r));
    else if (t < 80) m.kids.push_back(genSimple(r, static_cast<size_t>(r.range(1, 4))));
    else if (t < 90) m.kids.push_back(genConstant(r));
    else m.kids.push_back(genInvMix(r, true));
  }
  Vdouble w(k);
  double s = 0;
  for (auto& x : w) { x = r.real(0.05, 1); s += x; }
  double acc = 0;
  for (size_t i = 0; i + 1 < k; ++i) { w[i] /= s; acc += w[i]; }
  w[k - 1] = 1 - acc;
  m.sp = w;
  return m;
}

// ------------------------------------------------------------------ histories
struct PRef { string name; Node* node; int which; }; // which: 0 a, 1 b, 2 offset, 3 proportion (theta / p), 4 simple value

void collectParams(Node& m, const string& pre, bool isRoot, vector<PRef>& out)
{
  string own = pre + (isRoot ? "" : m.ns());
  switch (m.kind)
  {
  case GAMMA: out.push_back({ own + "alpha", &m, 0 }); out.push_back({ own + "beta", &m, 1 }); break;
  case GAMMAOFF: out.push_back({ own + "alpha", &m, 0 }); out.push_back({ own + "beta", &m, 1 }); out.push_back({ own + "offset", &m, 2 }); break;
  case BETA: out.push_back({ own + "alpha", &m, 0 }); out.push_back({ own + "beta", &m, 1 }); break;
  case GAUSS: out.push_back({ own + "mu", &m, 0 }); out.push_back({ own + "sigma", &m, 1 }); break;
  case EXPO: out.push_back({ own + "lambda", &m, 0 }); break;
  case TEXP: out.push_back({ own + "lambda", &m, 0 }); out.push_back({ own + "tp", &m, 1 }); break;
  case UNIF: break;
  case CONSTANT: out.push_back({ own + "value", &m, 0 }); break;
  case SIMPLE:
    if (!m.fixed)
      for (size_t i = 0; i < m.sv.size(); ++i)
      {
        out.push_back({ own + "V" + str(i + 1), &m, 4 });
        if (i + 1 < m.sv.size()) out.push_back({ own + "theta" + str(i + 1), &m, 3 });
      }
    break;
  case INVMIX:
    out.push_back({ own + "p", &m, 3 });
    collectParams(m.kids[0], own, false, out);
    break;
  default:
    for (size_t i = 0; i + 1 < m.kids.size(); ++i) out.push_back({ own + "theta" + str(i + 1), &m, 3 });
    for (size_t i = 0; i < m.kids.size(); ++i) collectParams(m.kids[i], own + str(i + 1) + "_", false, out);
  }
}

double regularValue(vrt::Rng& r, const PRef& p)
{
  const Node& m = *p.node;
  if (p.which == 3) return m.kind == INVMIX ? r.real(0, 0.95) : m.kind == MIXTURE ? r.real(0.02, 0.98) : (r.chance(0.08) ? (r.chance(0.5) ? 0.0 : 1.0) : r.real(0, 1));
  if (p.which == 4) return signedLog(r, 0.01, 10);
  if (p.which == 2) return location(r);
  switch (m.kind)
  {
  case GAUSS: return p.which == 0 ? location(r) : r.logReal(0.1, 100);
  case CONSTANT: return location(r);
  default: return r.logReal(0.1, 100);
  }
}
// a value outside the parameter's constraint (unconstrained parameters have none: a regular value is drawn)
bool hasIrregular(const PRef& p)
{
  if (p.which == 4 || p.which == 2) return false;
  if (p.node->kind == GAUSS && p.which == 0) return false;
  if (p.node->kind == CONSTANT) return false;
  return true;
}
double irregularValue(vrt::Rng& r, const PRef& p)
{
  if (p.which == 3) return r.chance(0.5) ? -0.25 : 1.5;
  return -1.0; // shapes / rates / sigma / truncation point
}

bool allLeaves(const Node& m)
{
  if (m.leaf()) return true;
  if (m.kind == SIMPLE || m.kind == CONSTANT) return false;
  for (auto& k : m.kids) if (!allLeaves(k)) return false;
  return true;
}
void setLeavesN(Node& m, size_t n) { if (m.leaf()) m.n = n; for (auto& k : m.kids) setLeavesN(k, n); }
void setLeavesMedian(Node& m, bool b) { if (m.leaf()) m.median = b; for (auto& k : m.kids) setLeavesMedian(k, b); }
void setRestricted(Node& m) { m.restricted = true; for (auto& k : m.kids) setRestricted(k); }

// domains of all discretised leaves of the live tree
void leafDomains(const DD& d, const Node& m, vector<pair<double, double>>& out)
{
  if (m.leaf()) { out.push_back(make_pair(d.getLowerBound(), d.getUpperBound())); return; }
  for (size_t i = 0; i < m.kids.size(); ++i)
  {
    const DD* k = childOf(d, m, i);
    if (k) leafDomains(*k, m.kids[i], out);
  }
}

template<class T> bool tryAssign(DD& dst, const DD& src)
{
  T* a = dynamic_cast<T*>(&dst);
  const T* b = dynamic_cast<const T*>(&src);
  if (!a || !b) return false;
  *a = *b;
  return true;
}
bool assignFrom(DD& dst, const DD& src)
{
  return tryAssign<GammaDiscreteDistribution>(dst, src) || tryAssign<BetaDiscreteDistribution>(dst, src) || tryAssign<GaussianDiscreteDistribution>(dst, src)
         || tryAssign<ExponentialDiscreteDistribution>(dst, src) || tryAssign<TruncatedExponentialDiscreteDistribution>(dst, src) || tryAssign<UniformDiscreteDistribution>(dst, src)
         || tryAssign<SimpleDiscreteDistribution>(dst, src) || tryAssign<ConstantDistribution>(dst, src) || tryAssign<InvariantMixedDiscreteDistribution>(dst, src)
         || tryAssign<MixtureOfDiscreteDistributions>(dst, src);
}
// another tree with the same shape (hence the same parameter names) but other parameter values, class counts and
// schemes.  (Assignment between trees with different parameter lists runs into AbstractParameterAliasable::operator=,
// which is not C09's code.)
Node genSameShape(vrt::Rng& r, const Node& m, bool top)
{
  if (m.leaf()) return genLeaf(r, m.kind, static_cast<size_t>(r.range(1, 9)), static_cast<short>(r.range(1, 3)), top ? r.chance(0.5) : false);
  if (m.kind == SIMPLE) { Node o = genSimple(r, m.sv.size()); o.fixed = m.fixed; return o; }
  if (m.kind == CONSTANT) return genConstant(r);
  Node o = m;
  for (size_t i = 0; i < m.kids.size(); ++i) o.kids[i] = genSameShape(r, m.kids[i], false);
  if (m.kind == INVMIX) { o.a = r.real(0.01, 0.95); o.inv = r.chance(0.5) ? 0.0 : signedLog(r, 0.01, 10); }
  else
  {
    double sum = 0, acc = 0;
    for (auto& x : o.sp) { x = r.real(0.05, 1); sum += x; }
    for (size_t i = 0; i + 1 < o.sp.size(); ++i) { o.sp[i] /= sum; acc += o.sp[i]; }
    o.sp.back() = 1 - acc;
  }
  o.restricted = false;
  return o;
}

string opBucket(size_t n) { return n == 1 ? "n1" : n == 2 ? "n2" : n <= 8 ? "n3-8" : "n9-32"; }

void runHistory(vrt::Case& c, Node& model, size_t len)
{
  string hist = model.text();
  vrt::step("construct " + hist);
  unique_ptr<DD> d;
  vrt::Outcome oc = vrt::capture([&] { d = build(model); });
  if (!vrt::expect(oc.returned(), "construct.accepts-regular-parameters", model.cls(), [&] { return hist + " => " + oc.text(); })) return;
  Ctx ctx;
  ctx.hist = hist;
  auditNode(*d, model, ctx, c.rng);
  bool rootMedian = model.leaf() ? model.median : false;
  for (size_t s = 0; s < len; ++s)
  {
    if (vrt::violationsInCase() > 0) return; // the first divergence is the witness; later ones would be echoes
    vector<PRef> ps;
    collectParams(model, "", true, ps);
    int k = static_cast<int>(c.rng.below(100));
    string op;
    if (k < 40 && !ps.empty())
    {
      const PRef& p = c.rng.pick(ps);
      bool irregular = c.rng.chance(0.06) && hasIrregular(p);
      double val = irregular ? irregularValue(c.rng, p) : regularValue(c.rng, p);
      op = "setParameterValue(" + p.name + "," + str(val) + ")";
      vrt::step(op);
      vrt::Outcome o = vrt::capture([&] { d->setParameterValue(p.name, val); });
      vrt::cover(model.cls() + ":op:param:" + (irregular ? "irregular:" : "regular:") + (o.returned() ? "accepted" : "rejected"));
      op += o.returned() ? "" : " [" + o.text() + "]";
      if (!irregular && !model.restricted)
        vrt::expect(o.returned(), "update.accepts-regular-parameters", model.cls(), [&] { return hist + " ; " + op; });
      if (!o.returned())
        vrt::expect(o.kind != vrt::Outcome::Other, "update.rejection-is-an-exception-object", model.cls(), [&] { return hist + " ; " + op; });
    }
    else if (k < 58)
    {
      if (!allLeaves(model)) continue;
      size_t n = c.rng.chance(0.5) ? static_cast<size_t>(c.rng.range(1, 4)) : static_cast<size_t>(c.rng.range(1, 32));
      op = "setNumberOfCategories(" + str(n) + ")";
      vrt::step(op);
      d->setNumberOfCategories(n);
      setLeavesN(model, n);
      vrt::cover(model.cls() + ":op:setN:" + opBucket(n));
    }
    else if (k < 68)
    {
      bool b = c.rng.chance(0.6) ? !rootMedian : rootMedian;
      op = string("setMedian(") + (b ? "true" : "false") + ")";
      vrt::step(op);
      d->setMedian(b);
      if (b != rootMedian) { setLeavesMedian(model, b); rootMedian = b; }
      vrt::cover(model.cls() + ":op:median");
    }
    else if (k < 86)
    {
      // restriction to a sub-interval whose ends are taken among the current bounds / values
      View v0 = observe(*d, ctx, -1);
      if (!v0.ok) return;
      Vdouble xs = probePoints(v0);
      if (xs.size() < 2) continue;
      size_t i = c.rng.below(xs.size() - 1), j = i + 1 + c.rng.below(xs.size() - 1 - i);
      double a = xs[i], b = xs[j];
      int shape = static_cast<int>(c.rng.below(4));
      if (shape == 1) a = -INFINITY; // only an upper restriction
      if (shape == 2) b = INFINITY;  // only a lower restriction
      bool ia = c.rng.chance(0.5), ib = c.rng.chance(0.5);
      {
        // a sub-interval of the domain of every discretised leaf (a component restricted to an interval
        // disjoint from its own domain is outside the quantifier)
        vector<pair<double, double>> doms;
        leafDomains(*d, model, doms);
        bool overlap = true;
        for (auto& dm : doms)
        {
          double l = std::max(a, dm.first), u = std::min(b, dm.second);
          if (!(u - l > 1e-6 * (1 + std::fabs(l) + (isInf(u) ? 0 : std::fabs(u))))) overlap = false;
        }
        if (!overlap) continue;
      }
      IntervalConstraint ic(a, b, ia, ib);
      op = "restrictToConstraint(" + ic.getDescription() + ")";
      vrt::step(op);
      vrt::Outcome o = vrt::capture([&] { d->restrictToConstraint(ic); });
      op += o.returned() ? "" : " [" + o.text() + "]";
      setRestricted(model);
      vrt::cover(model.cls() + ":op:restrict:" + (shape == 1 ? "upper" : shape == 2 ? "lower" : "both") + (o.returned() ? "" : ":rejected"));
      if (!o.returned())
      {
        vrt::expect(o.kind != vrt::Outcome::Other, "update.rejection-is-an-exception-object", model.cls(), [&] { return hist + " ; " + op; });
        return; // the statement covers accepted restrictions only; the state after a rejected one is not specified
      }
      if (o.returned() && model.leaf())
      {
        double elo = std::max(v0.lo, a), ehi = std::min(v0.hi, b);
        double lo = d->getLowerBound(), hi = d->getUpperBound();
        vrt::expect(lo == elo && hi == ehi, "restrict.domain", model.cls(), [&] { return hist + " ; " + op + " => domain [" + str(lo) + "," + str(hi) + "] expected the intersection [" + str(elo) + "," + str(ehi) + "] with the previous [" + str(v0.lo) + "," + str(v0.hi) + "]"; });
      }
    }
    else if (k < 90)
    {
      // restriction to a far tail where the parent has no representable mass
      if (!(model.kind == EXPO || model.kind == GAUSS || model.kind == GAMMA || model.kind == GAMMAOFF)) continue;
      double a, b;
      // "edge": the lower end sits where 1-cdf is a few ulp of 1 (mass ~1e-16: neither zero nor usable)
      bool edge = (model.kind == EXPO || model.kind == GAUSS) && c.rng.chance(0.5);
      if (model.kind == EXPO) { a = (edge ? c.rng.real(34, 37.5) : 60) / model.a; b = 80 / model.a; }
      else if (model.kind == GAUSS) { a = model.a + (edge ? c.rng.real(8.0, 8.3) : 45) * model.b; b = model.a + 60 * model.b; }
      else { double off = model.kind == GAMMAOFF ? model.off : 0; a = off + (4 * model.a + 150) / model.b; b = off + (6 * model.a + 300) / model.b; }
      if (!(a > d->getLowerBound() && b < d->getUpperBound())) continue;
      IntervalConstraint ic(a, b, true, true);
      op = "restrictToConstraint(" + ic.getDescription() + (edge ? ") [tail at the resolution limit]" : ") [far tail]");
      vrt::step(op);
      d->restrictToConstraint(ic);
      setRestricted(model);
      vrt::cover(model.cls() + (edge ? ":op:restrict:tail-edge" : ":op:restrict:tail"));
    }
    else if (k < 93)
    {
      // assignment over an unrelated object of the same class: the target must become the source
      Node other = genSameShape(c.rng, model, true);
      op = "assign over " + other.cls();
      vrt::step(op);
      unique_ptr<DD> t = build(other);
      if (!assignFrom(*t, *d)) continue;
      d = move(t);
      vrt::cover(model.cls() + ":op:assign");
    }
    else if (k < 96)
    {
      op = "clone";
      vrt::step(op);
      unique_ptr<DD> cp(d->clone());
      d = move(cp);
      vrt::cover(model.cls() + ":op:clone");
    }
    else
    {
      op = "discretize";
      vrt::step(op);
      d->discretize();
      vrt::cover(model.cls() + ":op:discretize");
    }
    hist += " ; " + op;
    ctx.hist = hist;
    auditNode(*d, model, ctx, c.rng);
  }
}

void caseLeaf(vrt::Case& c)
{
  size_t i = c.index;
  int kind = static_cast<int>(i % NLEAF);
  size_t n = (i / NLEAF) % 32 + 1;
  short scheme = static_cast<short>((i / (NLEAF * 32)) % 3 + 1);
  bool median = ((i / (NLEAF * 32 * 3)) % 2) == 1;
  Node m = genLeaf(c.rng, kind, n, scheme, median);
  size_t len = static_cast<size_t>(c.rng.range(0, 5));
  vrt::describe(m.cls(), m.text() + " + history of " + str(len));
  runHistory(c, m, len);
}

void caseCompound(vrt::Case& c)
{
  Node m;
  switch (c.index % 4)
  {
  case 0: m = genSimple(c.rng, static_cast<size_t>(c.rng.range(1, 8))); break;
  case 1: m = c.rng.chance(0.3) ? genConstant(c.rng) : genInvMix(c.rng, false); break;
  case 2: m = genInvMix(c.rng, false); break;
  default: m = genMixture(c.rng, false);
  }
  size_t len = static_cast<size_t>(c.rng.range(0, 5));
  vrt::describe(m.cls(), m.text() + " + history of " + str(len));
  runHistory(c, m, len);
}
// stored witness of the recorded finding C09-invmixed-coarser-comparator
void caseKnownInvMixedMerge(vrt::Case& c)
{
  Node m;
  m.kind = INVMIX; m.a = 0.25; m.inv = 0;
  Node k;
  k.kind = BETA; k.n = 28; k.scheme = 3; k.median = false; k.a = 6.8351002682709661; k.b = 0.10642624678969781;
  m.kids.push_back(k);
  vrt::describe(m.cls(), m.text() + " (stored witness)");
  g_forceAll = true;
  runHistory(c, m, 0);
  g_forceAll = false;
}

// stored witness of the recorded finding C09-median-rescaled-outside-interval
void caseKnownMedian(vrt::Case& c)
{
  Node m;
  m.kind = BETA; m.n = 23; m.scheme = 1; m.median = true; m.a = 75.485620192288053; m.b = 0.19257634568110735;
  vrt::describe(m.cls(), m.text() + " (stored witness)");
  g_forceAll = true;
  runHistory(c, m, 0);
  g_forceAll = false;
}
} // namespace

int main(int argc, char** argv)
{
  const size_t combos = NLEAF * 32 * 3 * 2;
  vector<vrt::Group> groups = {
    { "leaf", combos * 8, combos * 120, caseLeaf, 600, false },
    { "compound", 12000, 400000, caseCompound, 600, false },
    { "known-median", 1, 1, caseKnownMedian, 300, false },
    { "known-invmixed-merge", 1, 1, caseKnownInvMixedMerge, 300, false },
  };
  vrt::Meta meta;
  meta.rule = "leaf: case index enumerates (family in gamma, gamma+offset, beta, gaussian, exponential, truncated exponential, uniform) x class count 1..32 x scheme "
      "(equal probability, equal interval, equal probability when possible) x median on/off; parameters log-uniform over 3 decades (shapes/rates 0.1..100, locations "
      "0 or +-0.01..10); then a history of 0..5 operations among setParameterValue (6% outside the constraint), setNumberOfCategories, setMedian, restrictToConstraint "
      "(ends among the current bounds/values, one- or two-sided, open/closed; sometimes a far tail without mass), clone, discretize; all clauses audited after every step. "
      "compound: random simple / constant / invariant-mixed / mixture trees (depth <= 2) with the same histories applied at the root. "
      "A class key = family(+nested families), scheme, median, class-count bucket, domain situation (restricted, zero mass, fallback) or operation kind and outcome.";
  meta.assumptions = {
    "parent = a freshly constructed distribution of the same family holding the parameter values the live object reports (+ closed forms for exponential, truncated exponential, uniform, gaussian)",
    "tolerances: gamma cdf 4e-8 abs (documented 1e-8), gamma quantile 2e-5*max(1,sqrt(alpha)) in probability (qChisq stopping rule 5e-7 relative), beta 1e-10/1e-7, gaussian 1e-11/1e-9, closed-form families 1e-13/1e-11; all divided by the parent's mass on the domain",
    "a value is inside its interval up to (n+1)*precision() (the tolerance comparator's resolution times the number of classes: duplicate separation)",
    "domains on which the parent's mass is below 0.02 (but not zero) are unjudged; zero-mass domains: structural clauses only",
    "quantiles are only exercised for probabilities in [1e-4, 1-1e-4]",
    "class-count changes are only applied to trees whose leaves are all discretised continuous families (simple / constant have a user-given class count)",
    "cumulative class queries are made with the stored class values and with arguments within the documented tolerance of a class value (1 ulp and 0.45 x precision() above/below, nested class values merged into a compound class); judged only when the argument is closer than 0.95 x precision() minus rounding and no other class lies within 4 x precision()",
    "lookup on an interior bound accepts either neighbouring class; lookups outside the domain are unjudged (must not abort)",
    "the classes partition the domain: getValueCategory and getCategoryIndex of the same argument name the same class (lookup.agree), also on an interior bound; one representable number below / above an interior bound belongs strictly to the class on that side",
    "qProb of simple / constant: any generalised-inverse convention accepted; mixture qProb may raise the library's exception",
  };
  meta.requiredClauses = { "count.requested", "prob.sum", "prob.nonnegative", "values.increasing", "values.in-interval", "bounds.ordered", "mass.equal", "mass.parent",
                           "scheme.equal-interval", "mean.preserved", "parent.monotone", "parent.derivative", "parent.inverse", "parent.current-parameters",
                           "lookup.value", "lookup.index", "lookup.agree", "cumulative.inf", "cumulative.iinf", "cumulative.sup", "cumulative.ssup",
                           "compound.simple-classes", "compound.invariant-classes", "compound.mixture-classes", "restrict.domain" };
  return vrt::run(argc, argv, "C09", groups, meta);
}
