// C14 - Graph and object-association views stay consistent with a reference model.
// Reference model: a multigraph (node set + edge table id -> (top,bottom)) and, per observer, association maps
// (graph id <-> object, object <-> index), kept by the harness and executed next to the real
// AssociationGlobalGraphObserver / GlobalGraph after every PUBLIC API call of a generated history.
// After each call every query and iterator of the property's observe_at list is compared with the model.
#include "vrt.h"

#include <Bpp/Exceptions.h>
#include <Bpp/Graph/AssociationGraphImplObserver.h>

#include <algorithm>
#include <map>
#include <memory>
#include <set>
#include <unordered_set>

using namespace bpp;
using namespace std;
using vrt::str;

namespace
{
typedef unsigned int Id;
struct NObj { int tag; explicit NObj(int t = 0) : tag(t) {} };
struct EObj { int tag; explicit EObj(int t = 0) : tag(t) {} };
typedef AssociationGlobalGraphObserver<NObj, EObj> Obs;
typedef shared_ptr<NObj> NP;
typedef shared_ptr<EObj> EP;

// ------------------------------------------------------------------ checking machinery
struct Ctx
{
  string hist;     // textual history of the running path
  string opClass;  // structural class of the last operation (+ graph mode) : the witness class
  string who;      // which observer is audited ("" primary, "shadow", "copy", ...)
  const char* q;   // query being evaluated (for unexpected exceptions)
  bool failed;
  unsigned long probeSeq, auditNo; // sampling of the probes that are expected to raise (a bpp::Exception costs a backtrace)
  Ctx() : q(""), failed(false), probeSeq(0), auditNo(0) {}
};
Ctx* C = 0;
map<string, vrt::u64>& counters() { static map<string, vrt::u64> m; return m; }
vrt::u64* counterFor(const char* clause) { return &counters()[clause]; }
void flushCounters()
{
  for (auto& kv : counters()) if (kv.second) { vrt::counted(kv.first.c_str(), kv.second); kv.second = 0; }
}
void fail(const char* clause, const string& wit)
{
  C->failed = true;
  vrt::violation(clause, C->opClass + (C->who.empty() ? "" : "@" + C->who), C->hist + " => " + (C->who.empty() ? "" : "[" + C->who + "] ") + wit);
}
// every stride-th probe of a list is executed, the phase moves with every audit: over a few audits every probe is made
unsigned gStrideMul = 1; // the exhaustive exploration audits so many states that it samples the raising probes more thinly
bool sampleRaise(unsigned stride) { return (C->probeSeq++ + C->auditNo) % (stride * gStrideMul) == 0; }
#define CHK(cond, clause, wit) do { static vrt::u64* k_ = counterFor(clause); ++*k_; if (!(cond)) { fail(clause, (wit)); return false; } } while (0)

template<class T> vector<T> sorted(vector<T> v) { sort(v.begin(), v.end()); return v; }
string ids(const vector<Id>& v)
{
  string s = "[";
  for (size_t i = 0; i < v.size(); ++i) s += (i ? "," : "") + str(v[i]);
  return s + "]";
}
string nm(const NP& p) { return p ? "n" + str(p->tag) : "null"; }
string em(const EP& p) { return p ? "e" + str(p->tag) : "null"; }
string nms(const vector<NP>& v) { string s = "["; for (size_t i = 0; i < v.size(); ++i) s += (i ? "," : "") + nm(v[i]); return s + "]"; }
string ems(const vector<EP>& v) { string s = "["; for (size_t i = 0; i < v.size(); ++i) s += (i ? "," : "") + em(v[i]); return s + "]"; }

// ------------------------------------------------------------------ reference multigraph
struct GModel
{
  bool directed;
  set<Id> nodes;
  map<Id, pair<Id, Id>> edges; // id -> (top, bottom)
  GModel() : directed(false) {}

  vector<Id> outE(Id n) const
  {
    vector<Id> r;
    for (auto& e : edges)
    {
      if (e.second.first == n) r.push_back(e.first);
      else if (!directed && e.second.second == n) r.push_back(e.first);
    }
    return r;
  }
  vector<Id> inE(Id n) const
  {
    if (!directed) return outE(n);
    vector<Id> r;
    for (auto& e : edges) if (e.second.second == n) r.push_back(e.first);
    return r;
  }
  Id other(Id e, Id n) const { const auto& p = edges.at(e); return p.first == n ? p.second : p.first; }
  vector<Id> outN(Id n) const { vector<Id> r; for (Id e : outE(n)) r.push_back(other(e, n)); return r; }
  vector<Id> inN(Id n) const { vector<Id> r; for (Id e : inE(n)) r.push_back(other(e, n)); return r; }
  // edges realising the relation a -> b (undirected: a - b)
  vector<Id> linkE(Id a, Id b) const
  {
    vector<Id> r;
    for (auto& e : edges)
    {
      if (e.second.first == a && e.second.second == b) r.push_back(e.first);
      else if (!directed && e.second.first == b && e.second.second == a) r.push_back(e.first);
    }
    return r;
  }
  set<Id> incidentE(Id n) const
  {
    set<Id> r;
    for (auto& e : edges) if (e.second.first == n || e.second.second == n) r.insert(e.first);
    return r;
  }
  set<Id> distinctN(Id n) const
  {
    set<Id> r;
    for (Id e : incidentE(n)) r.insert(other(e, n));
    return r;
  }
  // number of edge ends at n (a loop counts twice): upper reading of "number of neighbours"
  size_t ends(Id n) const
  {
    size_t k = 0;
    for (auto& e : edges) { if (e.second.first == n) ++k; if (e.second.second == n) ++k; }
    return k;
  }
  size_t endsTo(Id n, Id nb) const
  {
    size_t k = 0;
    for (auto& e : edges)
    {
      if (e.second.first == n && e.second.second == nb) ++k;
      if (e.second.second == n && e.second.first == nb) ++k;
    }
    return k;
  }
  bool hasReciprocal() const
  {
    for (auto& e : edges)
      for (auto& f : edges)
        if (e.first < f.first && e.second.first != e.second.second)
        {
          if (e.second.first == f.second.second && e.second.second == f.second.first) return true;
          if (e.second.first == f.second.first && e.second.second == f.second.second) return true; // parallel pair: also "met twice"
        }
    return false;
  }
  Id nodeAt(size_t rank) const { auto it = nodes.begin(); advance(it, rank); return *it; }
  Id edgeAt(size_t rank) const { auto it = edges.begin(); advance(it, rank); return it->first; }
  size_t rankOfNode(Id n) const { return static_cast<size_t>(distance(nodes.begin(), nodes.find(n))); }
  Id absentNode(int variant) const
  {
    if (variant == 1 && !nodes.empty())
      for (Id i = 0; i < *nodes.rbegin(); ++i) if (!nodes.count(i)) return i; // an id that was deleted
    return nodes.empty() ? 0 : *nodes.rbegin() + 1;
  }
  Id absentEdge(int variant) const
  {
    if (variant == 1 && !edges.empty())
      for (Id i = 0; i < edges.rbegin()->first; ++i) if (!edges.count(i)) return i;
    return edges.empty() ? 0 : edges.rbegin()->first + 1;
  }
  // is the component of n a tree of the underlying simple graph (no loop, no parallel/reciprocal pair, acyclic)?
  bool componentIsTree(Id n, map<Id, int>* dist = 0) const
  {
    map<Id, int> d;
    vector<Id> todo(1, n);
    d[n] = 0;
    size_t nEdges = 0;
    set<Id> seenE;
    for (size_t i = 0; i < todo.size(); ++i)
    {
      Id x = todo[i];
      for (Id e : incidentE(x))
      {
        if (seenE.insert(e).second) ++nEdges;
        Id y = other(e, x);
        if (y == x) return false;
        if (!d.count(y)) { d[y] = d[x] + 1; todo.push_back(y); }
      }
    }
    if (dist) *dist = d;
    return nEdges + 1 == todo.size();
  }
  string dump() const
  {
    string s = directed ? "directed{" : "undirected{";
    for (Id n : nodes) s += str(n) + " ";
    s += "|";
    for (auto& e : edges) s += " " + str(e.first) + ":" + str(e.second.first) + (directed ? "->" : "--") + str(e.second.second);
    return s + "}";
  }
};

// ------------------------------------------------------------------ association model of one observer
struct AModel
{
  map<Id, NP> nObj;
  map<Id, EP> eObj;
  map<NP, unsigned> nIdx;
  map<EP, unsigned> eIdx;
  vector<NP> poolN; // every node object ever handed to this observer
  vector<EP> poolE;
  long maxAssocN, maxAssocE, maxIdxN, maxIdxE; // highest graph id / index ever used (sizes of the internal vectors)
  AModel() : maxAssocN(-1), maxAssocE(-1), maxIdxN(-1), maxIdxE(-1) {}

  Id idOfN(const NP& p) const { for (auto& kv : nObj) if (kv.second == p) return kv.first; return 0xFFFFFFFFu; }
  Id idOfE(const EP& p) const { for (auto& kv : eObj) if (kv.second == p) return kv.first; return 0xFFFFFFFFu; }
  bool hasN(const NP& p) const { return idOfN(p) != 0xFFFFFFFFu; }
  bool hasE(const EP& p) const { return idOfE(p) != 0xFFFFFFFFu; }
  NP objN(Id id) const { auto it = nObj.find(id); return it == nObj.end() ? NP() : it->second; }
  EP objE(Id id) const { auto it = eObj.find(id); return it == eObj.end() ? EP() : it->second; }
  NP nodeWithIdx(unsigned v) const { for (auto& kv : nIdx) if (kv.second == v) return kv.first; return NP(); }
  EP edgeWithIdx(unsigned v) const { for (auto& kv : eIdx) if (kv.second == v) return kv.first; return EP(); }
  void noteN(Id id) { maxAssocN = max<long>(maxAssocN, id); }
  void noteE(Id id) { maxAssocE = max<long>(maxAssocE, id); }
  void forgetNodeId(Id id)
  {
    auto it = nObj.find(id);
    if (it == nObj.end()) return;
    nIdx.erase(it->second);
    nObj.erase(it);
  }
  void forgetEdgeId(Id id)
  {
    auto it = eObj.find(id);
    if (it == eObj.end()) return;
    eIdx.erase(it->second);
    eObj.erase(it);
  }
  vector<NP> objsN(const vector<Id>& v) const { vector<NP> r; for (Id i : v) { NP p = objN(i); if (p) r.push_back(p); } return r; }
  vector<EP> objsE(const vector<Id>& v) const { vector<EP> r; for (Id i : v) { EP p = objE(i); if (p) r.push_back(p); } return r; }
};

struct Slot
{
  unique_ptr<Obs> obs;
  AModel a;
  string name;
};

struct Config
{
  bool directed;   // initial mode
  bool edgeObj;    // links carry edge objects / edge association operations are used
  int indexMode;   // 0 none, 1 explicit (set*Index), 2 allocated (add*Index), 3 both
  int maxNodes;
  string text() const
  {
    return string(directed ? "directed" : "undirected") + (edgeObj ? ",edge-objects" : ",no-edge-objects") +
           (indexMode == 0 ? ",no-index" : indexMode == 1 ? ",explicit-index" : indexMode == 2 ? ",allocated-index" : ",mixed-index") + ",max-nodes=" + str(maxNodes);
  }
};

struct World
{
  Config cfg;
  shared_ptr<GlobalGraph> graph;
  GModel g;
  vector<Slot> obs; // [0] primary, [1] optional shadow (a copy sharing the graph)
  int nextTag;
  World() : nextTag(0) {}
};
bool gSteps = false; // journal every call of the running history (random group, replay)

// ------------------------------------------------------------------ audit of the graph views
template<class It> vector<Id> drainFresh(It& it) // iterator as constructed (positioned on the first item)
{
  vector<Id> r;
  for (size_t guard = 0; !it.end() && guard < 4096; it.next(), ++guard) r.push_back(*it);
  return r;
}
template<class It> vector<Id> drainRestart(It& it)
{
  vector<Id> r;
  size_t guard = 0;
  for (it.start(); !it.end() && guard < 4096; it.next(), ++guard) r.push_back(*it);
  return r;
}

bool mustRaise(const char* clause, const char* what, unsigned stride, const function<void()>& f)
{
  if (!sampleRaise(stride)) return true;
  vrt::Outcome o = vrt::capture(f);
  CHK(o.raisedBpp(), clause, string(what) + " on an absent item " + o.text() + " (expected a bpp::Exception)");
  return true;
}

// multiset `got` is a list of the set `want` where item x may appear between 1 and cap(x) times
template<class CapFn> bool setWithMultiplicity(const vector<Id>& got, const set<Id>& want, CapFn cap)
{
  map<Id, size_t> cnt;
  for (Id x : got) ++cnt[x];
  if (cnt.size() != want.size()) return false;
  for (auto& kv : cnt)
  {
    if (!want.count(kv.first)) return false;
    if (kv.second > cap(kv.first)) return false;
  }
  return true;
}

bool auditGraphImpl(GlobalGraph& g, const GModel& m)
{
  const GlobalGraph& cg = g;
  C->q = "isDirected";
  CHK(cg.isDirected() == m.directed, "graph.isDirected", "isDirected()=" + str(cg.isDirected()) + " model " + m.dump());

  // ---- node and edge lists, counts, whole-graph iterators
  vector<Id> wantNodes(m.nodes.begin(), m.nodes.end());
  vector<Id> wantEdges;
  for (auto& e : m.edges) wantEdges.push_back(e.first);
  C->q = "getAllNodes";
  vector<Id> allN = cg.getAllNodes();
  CHK(sorted(allN) == wantNodes, "graph.getAllNodes", "getAllNodes()=" + ids(allN) + " model " + m.dump());
  CHK(cg.getNumberOfNodes() == wantNodes.size(), "graph.getNumberOfNodes", "getNumberOfNodes()=" + str(cg.getNumberOfNodes()) + " model " + m.dump());
  C->q = "getAllEdges";
  vector<Id> allE = cg.getAllEdges();
  CHK(sorted(allE) == wantEdges, "graph.getAllEdges", "getAllEdges()=" + ids(allE) + " model " + m.dump());
  CHK(cg.getNumberOfEdges() == wantEdges.size(), "graph.getNumberOfEdges", "getNumberOfEdges()=" + str(cg.getNumberOfEdges()) + " model " + m.dump());
  {
    C->q = "allNodesIterator";
    auto it = g.allNodesIterator();
    vector<Id> a = drainFresh(*it), b = drainRestart(*it);
    auto cit = cg.allNodesIterator();
    vector<Id> c = drainFresh(*cit);
    CHK(sorted(a) == sorted(allN) && sorted(b) == sorted(allN) && sorted(c) == sorted(allN), "graph.iter.allNodes",
        "allNodesIterator enumerates " + ids(a) + " / after start() " + ids(b) + " / const " + ids(c) + " but getAllNodes()=" + ids(allN));
    C->q = "allEdgesIterator";
    auto eit = g.allEdgesIterator();
    vector<Id> ea = drainFresh(*eit), eb = drainRestart(*eit);
    auto ceit = cg.allEdgesIterator();
    vector<Id> ec = drainFresh(*ceit);
    CHK(sorted(ea) == sorted(allE) && sorted(eb) == sorted(allE) && sorted(ec) == sorted(allE), "graph.iter.allEdges",
        "allEdgesIterator enumerates " + ids(ea) + " / after start() " + ids(eb) + " / const " + ids(ec) + " but getAllEdges()=" + ids(allE));
  }

  // ---- every edge: two existing end points, listed by both
  for (auto& e : m.edges)
  {
    Id id = e.first;
    C->q = "getNodes";
    pair<Id, Id> p = cg.getNodes(id);
    bool same = p == e.second;
    bool swapped = p.first == e.second.second && p.second == e.second.first;
    CHK(same || (!m.directed && swapped), "graph.getNodes", "getNodes(" + str(id) + ")=(" + str(p.first) + "," + str(p.second) + ") model " + m.dump());
    CHK(cg.getTop(id) == p.first && cg.getBottom(id) == p.second, "graph.getTopBottom",
        "getTop/getBottom(" + str(id) + ")=(" + str(cg.getTop(id)) + "," + str(cg.getBottom(id)) + ") but getNodes gives (" + str(p.first) + "," + str(p.second) + ")");
    CHK(m.nodes.count(p.first) && m.nodes.count(p.second), "graph.edge-endpoints-exist",
        "edge " + str(id) + " has end points (" + str(p.first) + "," + str(p.second) + ") but the live nodes are " + ids(wantNodes));
    C->q = "edge listed by end points";
    vector<Id> oe = cg.getOutgoingEdges(p.first), ie = cg.getIncomingEdges(p.second);
    CHK(count(oe.begin(), oe.end(), id) >= 1 && count(ie.begin(), ie.end(), id) >= 1, "graph.edge-listed-by-endpoints",
        "edge " + str(id) + "=(" + str(p.first) + "," + str(p.second) + ") but getOutgoingEdges(" + str(p.first) + ")=" + ids(oe) + " getIncomingEdges(" + str(p.second) + ")=" + ids(ie));
    if (!m.directed)
    {
      vector<Id> oe2 = cg.getOutgoingEdges(p.second), ie2 = cg.getIncomingEdges(p.first);
      CHK(count(oe2.begin(), oe2.end(), id) >= 1 && count(ie2.begin(), ie2.end(), id) >= 1, "graph.edge-listed-both-directions",
          "undirected edge " + str(id) + "=(" + str(p.first) + "," + str(p.second) + ") but getOutgoingEdges(" + str(p.second) + ")=" + ids(oe2) + " getIncomingEdges(" + str(p.first) + ")=" + ids(ie2));
    }
  }

  // ---- every node
  set<Id> leafSet, noSon, innerOut, innerDistinct, innerEnds;
  for (Id n : m.nodes)
  {
    string N = str(n);
    vector<Id> wOutN = sorted(m.outN(n)), wInN = sorted(m.inN(n)), wOutE = sorted(m.outE(n)), wInE = sorted(m.inE(n));
    C->q = "getOutgoingNeighbors";
    vector<Id> outN = cg.getOutgoingNeighbors(n);
    CHK(sorted(outN) == wOutN, "graph.getOutgoingNeighbors", "getOutgoingNeighbors(" + N + ")=" + ids(outN) + " expected " + ids(wOutN) + " model " + m.dump());
    C->q = "getIncomingNeighbors";
    vector<Id> inN = cg.getIncomingNeighbors(n);
    CHK(sorted(inN) == wInN, "graph.getIncomingNeighbors", "getIncomingNeighbors(" + N + ")=" + ids(inN) + " expected " + ids(wInN) + " model " + m.dump());
    C->q = "getOutgoingEdges";
    vector<Id> outE = cg.getOutgoingEdges(n);
    CHK(sorted(outE) == wOutE, "graph.getOutgoingEdges", "getOutgoingEdges(" + N + ")=" + ids(outE) + " expected " + ids(wOutE) + " model " + m.dump());
    C->q = "getIncomingEdges";
    vector<Id> inE = cg.getIncomingEdges(n);
    CHK(sorted(inE) == wInE, "graph.getIncomingEdges", "getIncomingEdges(" + N + ")=" + ids(inE) + " expected " + ids(wInE) + " model " + m.dump());
    // neighbour list and edge list are position-aligned views of the same relation
    bool aligned = outN.size() == outE.size() && inN.size() == inE.size();
    for (size_t i = 0; aligned && i < outN.size(); ++i) aligned = m.edges.count(outE[i]) && m.other(outE[i], n) == outN[i];
    for (size_t i = 0; aligned && i < inN.size(); ++i) aligned = m.edges.count(inE[i]) && m.other(inE[i], n) == inN[i];
    CHK(aligned, "graph.neighbor-edge-alignment", "node " + N + ": out " + ids(outN) + " via " + ids(outE) + ", in " + ids(inN) + " via " + ids(inE) + " model " + m.dump());

    C->q = "getNumberOfOutgoingNeighbors";
    CHK(cg.getNumberOfOutgoingNeighbors(n) == wOutN.size(), "graph.getNumberOfOutgoingNeighbors", "getNumberOfOutgoingNeighbors(" + N + ")=" + str(cg.getNumberOfOutgoingNeighbors(n)) + " expected " + str(wOutN.size()) + " model " + m.dump());
    C->q = "getNumberOfIncomingNeighbors";
    CHK(cg.getNumberOfIncomingNeighbors(n) == wInN.size(), "graph.getNumberOfIncomingNeighbors", "getNumberOfIncomingNeighbors(" + N + ")=" + str(cg.getNumberOfIncomingNeighbors(n)) + " expected " + str(wInN.size()) + " model " + m.dump());

    // neighbourhood iterators = list queries (non-const and const, as built and after start())
    {
      C->q = "outgoingNeighborNodesIterator";
      auto i1 = g.outgoingNeighborNodesIterator(n);
      vector<Id> a = drainFresh(*i1), b = drainRestart(*i1);
      auto i2 = cg.outgoingNeighborNodesIterator(n);
      vector<Id> c = drainFresh(*i2);
      CHK(sorted(a) == sorted(outN) && sorted(b) == sorted(outN) && sorted(c) == sorted(outN), "graph.iter.outgoingNeighborNodes",
          "outgoingNeighborNodesIterator(" + N + ") enumerates " + ids(a) + "/" + ids(b) + "/const " + ids(c) + " but getOutgoingNeighbors=" + ids(outN));
      C->q = "incomingNeighborNodesIterator";
      auto i3 = g.incomingNeighborNodesIterator(n);
      a = drainFresh(*i3); b = drainRestart(*i3);
      auto i4 = cg.incomingNeighborNodesIterator(n);
      c = drainFresh(*i4);
      CHK(sorted(a) == sorted(inN) && sorted(b) == sorted(inN) && sorted(c) == sorted(inN), "graph.iter.incomingNeighborNodes",
          "incomingNeighborNodesIterator(" + N + ") enumerates " + ids(a) + "/" + ids(b) + "/const " + ids(c) + " but getIncomingNeighbors=" + ids(inN));
      C->q = "outgoingEdgesIterator";
      auto e1 = g.outgoingEdgesIterator(n);
      a = drainFresh(*e1); b = drainRestart(*e1);
      auto e2 = cg.outgoingEdgesIterator(n);
      c = drainFresh(*e2);
      CHK(sorted(a) == sorted(outE) && sorted(b) == sorted(outE) && sorted(c) == sorted(outE), "graph.iter.outgoingEdges",
          "outgoingEdgesIterator(" + N + ") enumerates " + ids(a) + "/" + ids(b) + "/const " + ids(c) + " but getOutgoingEdges=" + ids(outE));
      C->q = "incomingEdgesIterator";
      auto e3 = g.incomingEdgesIterator(n);
      a = drainFresh(*e3); b = drainRestart(*e3);
      auto e4 = cg.incomingEdgesIterator(n);
      c = drainFresh(*e4);
      CHK(sorted(a) == sorted(inE) && sorted(b) == sorted(inE) && sorted(c) == sorted(inE), "graph.iter.incomingEdges",
          "incomingEdgesIterator(" + N + ") enumerates " + ids(a) + "/" + ids(b) + "/const " + ids(c) + " but getIncomingEdges=" + ids(inE));
    }

    // all neighbours / all edges: the set is fixed; multiplicities are left open up to the number of edge ends
    set<Id> dN = m.distinctN(n), iE = m.incidentE(n);
    size_t ends = m.directed ? m.ends(n) : iE.size() + (dN.count(n) ? 1 : 0);
    C->q = "getNeighbors";
    vector<Id> nb = cg.getNeighbors(n);
    CHK(setWithMultiplicity(nb, dN, [&](Id x) { return m.directed ? m.endsTo(n, x) : (x == n ? 2 * m.linkE(n, n).size() : m.linkE(n, x).size()); }), "graph.getNeighbors",
        "getNeighbors(" + N + ")=" + ids(nb) + " expected the neighbours " + ids(vector<Id>(dN.begin(), dN.end())) + " (one entry per connecting edge at most) model " + m.dump());
    C->q = "getEdges";
    vector<Id> ed = cg.getEdges(n);
    CHK(setWithMultiplicity(ed, iE, [&](Id x) { return m.edges.at(x).first == m.edges.at(x).second ? size_t(2) : size_t(1); }), "graph.getEdges",
        "getEdges(" + N + ")=" + ids(ed) + " expected the incident edges " + ids(vector<Id>(iE.begin(), iE.end())) + " (each once) model " + m.dump());
    C->q = "getDegree";
    size_t deg = cg.getDegree(n), nnb = cg.getNumberOfNeighbors(n);
    CHK(deg >= dN.size() && deg <= ends, "graph.getDegree", "getDegree(" + N + ")=" + str(deg) + " expected between " + str(dN.size()) + " (distinct neighbours) and " + str(ends) + " (edge ends) model " + m.dump());
    CHK(nnb >= dN.size() && nnb <= ends, "graph.getNumberOfNeighbors", "getNumberOfNeighbors(" + N + ")=" + str(nnb) + " expected between " + str(dN.size()) + " and " + str(ends) + " model " + m.dump());
    C->q = "isLeaf";
    bool leaf = cg.isLeaf(n);
    CHK(leaf == (dN.size() <= 1), "graph.isLeaf", "isLeaf(" + N + ")=" + str(leaf) + " but the node has " + str(dN.size()) + " distinct neighbour(s) model " + m.dump());
    if (leaf) leafSet.insert(n);
    if (wOutN.empty()) noSon.insert(n);
    if (!wOutN.empty()) innerOut.insert(n);
    if (dN.size() >= 2) innerDistinct.insert(n);
    if (ends >= 2) innerEnds.insert(n);

    // leaves reachable from a node: judged on tree-shaped components only (elsewhere the walk is not specified)
    map<Id, int> dist;
    if (m.componentIsTree(n, &dist))
      for (unsigned depth : { 0u, 1u, 2u, 9u })
      {
        C->q = "getLeavesFromNode";
        vector<Id> want;
        if (dN.size() <= 1) want.push_back(n);
        else
          for (auto& kv : dist) if (kv.first != n && kv.second <= static_cast<int>(depth) && m.distinctN(kv.first).size() <= 1) want.push_back(kv.first);
        vector<Id> got = cg.getLeavesFromNode(n, depth);
        CHK(sorted(got) == sorted(want), "graph.getLeavesFromNode", "getLeavesFromNode(" + N + "," + str(depth) + ")=" + ids(got) + " expected " + ids(want) + " model " + m.dump());
      }
  }
  {
    C->q = "getAllLeaves";
    vector<Id> al = cg.getAllLeaves();
    set<Id> als(al.begin(), al.end());
    CHK(als.size() == al.size() && (als == leafSet || (m.directed && als == noSon)), "graph.getAllLeaves",
        "getAllLeaves()=" + ids(al) + " expected the nodes with isLeaf " + ids(vector<Id>(leafSet.begin(), leafSet.end())) + (m.directed ? " or the nodes without son " + ids(vector<Id>(noSon.begin(), noSon.end())) : "") + " model " + m.dump());
    CHK(cg.getSetOfAllLeaves() == als, "graph.getSetOfAllLeaves", "getSetOfAllLeaves() differs from getAllLeaves()=" + ids(al));
    C->q = "getAllInnerNodes";
    vector<Id> in = cg.getAllInnerNodes();
    set<Id> ins(in.begin(), in.end());
    CHK(ins.size() == in.size() && (ins == innerOut || ins == innerDistinct || ins == innerEnds), "graph.getAllInnerNodes",
        "getAllInnerNodes()=" + ids(in) + " matches none of the documented readings (has a son / degree>=2) model " + m.dump());
  }

  // ---- pairs: getEdge / getAnyEdge (present: one of the connecting edges; absent: the library's exception)
  vector<Id> probe(wantNodes);
  Id absA = m.absentNode(0), absB = m.absentNode(1);
  probe.push_back(absA);
  if (absB != absA) probe.push_back(absB);
  for (Id a : probe)
    for (Id b : probe)
    {
      vector<Id> fw = (m.nodes.count(a) && m.nodes.count(b)) ? m.linkE(a, b) : vector<Id>();
      vector<Id> bw = (m.nodes.count(a) && m.nodes.count(b)) ? m.linkE(b, a) : vector<Id>();
      if (fw.empty() && !sampleRaise(bw.empty() ? 9 : 2)) continue; // expected to raise: sampled
      C->q = "getEdge";
      Id got = 0;
      vrt::Outcome o = vrt::capture([&] { got = cg.getEdge(a, b); });
      if (!fw.empty())
        CHK(o.returned() && count(fw.begin(), fw.end(), got), "graph.getEdge", "getEdge(" + str(a) + "," + str(b) + ") " + (o.returned() ? "=" + str(got) : o.text()) + " expected one of " + ids(fw) + " model " + m.dump());
      else
        CHK(o.raisedBpp(), "graph.getEdge-absent", "getEdge(" + str(a) + "," + str(b) + ") " + (o.returned() ? "=" + str(got) : o.text()) + " but no such relation exists (expected a bpp::Exception) model " + m.dump());
      C->q = "getAnyEdge";
      o = vrt::capture([&] { got = cg.getAnyEdge(a, b); });
      vector<Id> any(fw);
      any.insert(any.end(), bw.begin(), bw.end());
      if (!any.empty())
        CHK(o.returned() && count(any.begin(), any.end(), got), "graph.getAnyEdge", "getAnyEdge(" + str(a) + "," + str(b) + ") " + (o.returned() ? "=" + str(got) : o.text()) + " expected one of " + ids(any) + " model " + m.dump());
      else
        CHK(o.raisedBpp(), "graph.getAnyEdge-absent", "getAnyEdge(" + str(a) + "," + str(b) + ") " + (o.returned() ? "=" + str(got) : o.text()) + " but the nodes are not linked (expected a bpp::Exception) model " + m.dump());
    }

  // ---- queries on absent nodes / edges must raise the library's exception
  for (Id x : { absA, absB })
  {
    string X = "(" + str(x) + ")";
    if (!mustRaise("graph.absent-node-raises", ("getOutgoingNeighbors" + X).c_str(), 7, [&] { cg.getOutgoingNeighbors(x); })) return false;
    if (!mustRaise("graph.absent-node-raises", ("getIncomingNeighbors" + X).c_str(), 7, [&] { cg.getIncomingNeighbors(x); })) return false;
    if (!mustRaise("graph.absent-node-raises", ("getOutgoingEdges" + X).c_str(), 7, [&] { cg.getOutgoingEdges(x); })) return false;
    if (!mustRaise("graph.absent-node-raises", ("getIncomingEdges" + X).c_str(), 7, [&] { cg.getIncomingEdges(x); })) return false;
    if (!mustRaise("graph.absent-node-raises", ("getNeighbors" + X).c_str(), 7, [&] { cg.getNeighbors(x); })) return false;
    if (!mustRaise("graph.absent-node-raises", ("getEdges" + X).c_str(), 7, [&] { cg.getEdges(x); })) return false;
    if (!mustRaise("graph.absent-node-raises", ("getDegree" + X).c_str(), 7, [&] { cg.getDegree(x); })) return false;
    if (!mustRaise("graph.absent-node-raises", ("isLeaf" + X).c_str(), 7, [&] { cg.isLeaf(x); })) return false;
    if (!mustRaise("graph.absent-node-raises", ("getNumberOfNeighbors" + X).c_str(), 7, [&] { cg.getNumberOfNeighbors(x); })) return false;
    if (!mustRaise("graph.absent-node-raises", ("getNumberOfOutgoingNeighbors" + X).c_str(), 7, [&] { cg.getNumberOfOutgoingNeighbors(x); })) return false;
    if (!mustRaise("graph.absent-node-raises", ("getNumberOfIncomingNeighbors" + X).c_str(), 7, [&] { cg.getNumberOfIncomingNeighbors(x); })) return false;
    if (!mustRaise("graph.absent-node-raises", ("getLeavesFromNode" + X).c_str(), 7, [&] { cg.getLeavesFromNode(x, 2); })) return false;
    if (!mustRaise("graph.absent-node-raises", ("outgoingNeighborNodesIterator" + X).c_str(), 7, [&] { g.outgoingNeighborNodesIterator(x); })) return false;
    if (!mustRaise("graph.absent-node-raises", ("incomingNeighborNodesIterator" + X).c_str(), 7, [&] { g.incomingNeighborNodesIterator(x); })) return false;
    if (!mustRaise("graph.absent-node-raises", ("outgoingEdgesIterator" + X).c_str(), 7, [&] { g.outgoingEdgesIterator(x); })) return false;
    if (!mustRaise("graph.absent-node-raises", ("incomingEdgesIterator" + X).c_str(), 7, [&] { g.incomingEdgesIterator(x); })) return false;
    if (!mustRaise("graph.absent-node-raises", ("const outgoingNeighborNodesIterator" + X).c_str(), 7, [&] { cg.outgoingNeighborNodesIterator(x); })) return false;
    if (!mustRaise("graph.absent-node-raises", ("const incomingNeighborNodesIterator" + X).c_str(), 7, [&] { cg.incomingNeighborNodesIterator(x); })) return false;
    if (!mustRaise("graph.absent-node-raises", ("const outgoingEdgesIterator" + X).c_str(), 7, [&] { cg.outgoingEdgesIterator(x); })) return false;
    if (!mustRaise("graph.absent-node-raises", ("const incomingEdgesIterator" + X).c_str(), 7, [&] { cg.incomingEdgesIterator(x); })) return false;
  }
  for (Id x : { m.absentEdge(0), m.absentEdge(1) })
  {
    string X = "(" + str(x) + ")";
    if (!mustRaise("graph.absent-edge-raises", ("getNodes" + X).c_str(), 3, [&] { cg.getNodes(x); })) return false;
    if (!mustRaise("graph.absent-edge-raises", ("getTop" + X).c_str(), 3, [&] { cg.getTop(x); })) return false;
    if (!mustRaise("graph.absent-edge-raises", ("getBottom" + X).c_str(), 3, [&] { cg.getBottom(x); })) return false;
  }
  if (m.directed)
  {
    C->q = "containsReciprocalRelations";
    CHK(cg.containsReciprocalRelations() == m.hasReciprocal(), "graph.containsReciprocalRelations", "containsReciprocalRelations()=" + str(cg.containsReciprocalRelations()) + " model " + m.dump());
  }
  return true;
}

bool auditGraph(GlobalGraph& g, const GModel& m)
{
  C->who = "";
  try { return auditGraphImpl(g, m); }
  catch (std::exception& e)
  {
    static vrt::u64* k_ = counterFor("graph.query-raised");
    ++*k_;
    fail("graph.query-raised", string(C->q) + " on existing items raised " + vrt::typeName(typeid(e)) + ": " + e.what() + " model " + m.dump());
    return false;
  }
}

// ------------------------------------------------------------------ audit of one observer's views
template<class It> vector<NP> drainN(It& it, bool restart)
{
  vector<NP> r;
  size_t guard = 0;
  if (restart) it.start();
  for ( ; !it.end() && guard < 4096; it.next(), ++guard) r.push_back(*it);
  return r;
}
template<class It> vector<EP> drainE(It& it, bool restart)
{
  vector<EP> r;
  size_t guard = 0;
  if (restart) it.start();
  for ( ; !it.end() && guard < 4096; it.next(), ++guard) r.push_back(*it);
  return r;
}
template<class T> bool sameMultiset(vector<T> a, vector<T> b) { sort(a.begin(), a.end()); sort(b.begin(), b.end()); return a == b; }

// list `got` of objects is the set of objects of `wantIds` (those that have an object), multiplicity per id bounded by cap
template<class P, class ObjFn, class CapFn> bool objSetWithMultiplicity(const vector<P>& got, const set<Id>& wantIds, ObjFn obj, CapFn cap)
{
  map<P, size_t> capOf;
  for (Id i : wantIds) { P p = obj(i); if (p) capOf[p] = cap(i); }
  map<P, size_t> cnt;
  for (auto& p : got) ++cnt[p];
  if (cnt.size() != capOf.size()) return false;
  for (auto& kv : cnt)
  {
    auto it = capOf.find(kv.first);
    if (it == capOf.end() || kv.second > it->second) return false;
  }
  return true;
}

bool auditObsImpl(Obs& o, const AModel& a, const GModel& m)
{
  const Obs& co = o;
  // ---- the association refers to live items only, one object per item
  for (auto& kv : a.nObj)
    CHK(m.nodes.count(kv.first), "obs.association-to-live-node", "object " + nm(kv.second) + " is associated to node " + str(kv.first) + " which is not in the graph " + m.dump());
  for (auto& kv : a.eObj)
    CHK(m.edges.count(kv.first), "obs.association-to-live-edge", "object " + em(kv.second) + " is associated to edge " + str(kv.first) + " which is not in the graph " + m.dump());

  C->q = "getNumberOfNodes";
  CHK(co.getNumberOfNodes() == a.nObj.size(), "obs.getNumberOfNodes", "getNumberOfNodes()=" + str(co.getNumberOfNodes()) + " but " + str(a.nObj.size()) + " node objects are associated; " + m.dump());
  C->q = "getNumberOfEdges";
  CHK(co.getNumberOfEdges() == a.eObj.size(), "obs.getNumberOfEdges", "getNumberOfEdges()=" + str(co.getNumberOfEdges()) + " but " + str(a.eObj.size()) + " edge objects are associated; " + m.dump());

  // ---- graph id -> object (live, absent and deleted ids)
  {
    C->q = "getNodeFromGraphid";
    set<Id> probe(m.nodes.begin(), m.nodes.end());
    probe.insert(m.absentNode(0));
    probe.insert(m.absentNode(1));
    if (a.maxAssocN >= 0) { probe.insert(static_cast<Id>(a.maxAssocN)); probe.insert(static_cast<Id>(a.maxAssocN) + 1); }
    for (Id id : probe)
    {
      NP w = a.objN(id);
      NP g1 = o.getNodeFromGraphid(id), g2 = co.getNodeFromGraphid(id);
      CHK(g1 == w && g2 == w, "obs.getNodeFromGraphid", "getNodeFromGraphid(" + str(id) + ")=" + nm(g1) + "/const " + nm(g2) + " expected " + nm(w) + "; " + m.dump());
    }
    C->q = "getEdgeFromGraphid";
    set<Id> eprobe;
    for (auto& e : m.edges) eprobe.insert(e.first);
    eprobe.insert(m.absentEdge(0));
    eprobe.insert(m.absentEdge(1));
    if (a.maxAssocE >= 0) { eprobe.insert(static_cast<Id>(a.maxAssocE)); eprobe.insert(static_cast<Id>(a.maxAssocE) + 1); }
    for (Id id : eprobe)
    {
      EP w = a.objE(id);
      EP g1 = o.getEdgeFromGraphid(id), g2 = co.getEdgeFromGraphid(id);
      CHK(g1 == w && g2 == w, "obs.getEdgeFromGraphid", "getEdgeFromGraphid(" + str(id) + ")=" + em(g1) + "/const " + em(g2) + " expected " + em(w) + "; " + m.dump());
    }
  }

  // ---- object -> graph id, object -> index (every object ever used, associated or not)
  for (const NP& p : a.poolN)
  {
    Id id = a.idOfN(p);
    bool has = id != 0xFFFFFFFFu;
    C->q = "hasNode(object)";
    CHK(co.hasNode(p) == has, "obs.hasNode", "hasNode(" + nm(p) + ")=" + str(co.hasNode(p)) + " expected " + str(has) + "; " + m.dump());
    C->q = "getNodeGraphid";
    if (has || sampleRaise(3))
    {
      Id got = 0;
      vrt::Outcome oc = vrt::capture([&] { got = co.getNodeGraphid(p); });
      if (has) CHK(oc.returned() && got == id, "obs.getNodeGraphid", "getNodeGraphid(" + nm(p) + ") " + (oc.returned() ? "=" + str(got) : oc.text()) + " expected " + str(id));
      else CHK(oc.raisedBpp(), "obs.absent-object-raises", "getNodeGraphid(" + nm(p) + ") " + (oc.returned() ? "=" + str(got) : oc.text()) + " but the object is not associated (expected a bpp::Exception)");
    }
    auto ix = a.nIdx.find(p);
    C->q = "hasNodeIndex";
    CHK(co.hasNodeIndex(p) == (ix != a.nIdx.end()), "obs.hasNodeIndex", "hasNodeIndex(" + nm(p) + ")=" + str(co.hasNodeIndex(p)) + " expected " + str(ix != a.nIdx.end()) + (has ? "" : " (object not associated to any node)"));
    C->q = "getNodeIndex";
    if (ix != a.nIdx.end() || sampleRaise(4))
    {
      unsigned gi = 0;
      vrt::Outcome oc = vrt::capture([&] { gi = co.getNodeIndex(p); });
      if (ix != a.nIdx.end()) CHK(oc.returned() && gi == ix->second, "obs.getNodeIndex", "getNodeIndex(" + nm(p) + ") " + (oc.returned() ? "=" + str(gi) : oc.text()) + " expected " + str(ix->second));
      else CHK(oc.raisedBpp(), "obs.no-index-raises", "getNodeIndex(" + nm(p) + ") " + (oc.returned() ? "=" + str(gi) : oc.text()) + " but the object has no index (expected a bpp::Exception)");
    }
  }
  for (const EP& p : a.poolE)
  {
    Id id = a.idOfE(p);
    bool has = id != 0xFFFFFFFFu;
    C->q = "hasEdge(object)";
    CHK(co.hasEdge(p) == has, "obs.hasEdge", "hasEdge(" + em(p) + ")=" + str(co.hasEdge(p)) + " expected " + str(has) + "; " + m.dump());
    C->q = "getEdgeGraphid";
    if (has || sampleRaise(3))
    {
      Id got = 0;
      vrt::Outcome oc = vrt::capture([&] { got = co.getEdgeGraphid(p); });
      if (has) CHK(oc.returned() && got == id, "obs.getEdgeGraphid", "getEdgeGraphid(" + em(p) + ") " + (oc.returned() ? "=" + str(got) : oc.text()) + " expected " + str(id));
      else CHK(oc.raisedBpp(), "obs.absent-object-raises", "getEdgeGraphid(" + em(p) + ") " + (oc.returned() ? "=" + str(got) : oc.text()) + " but the object is not associated (expected a bpp::Exception)");
    }
    auto ix = a.eIdx.find(p);
    C->q = "hasEdgeIndex";
    CHK(co.hasEdgeIndex(p) == (ix != a.eIdx.end()), "obs.hasEdgeIndex", "hasEdgeIndex(" + em(p) + ")=" + str(co.hasEdgeIndex(p)) + " expected " + str(ix != a.eIdx.end()) + (has ? "" : " (object not associated to any edge)"));
    C->q = "getEdgeIndex";
    if (ix != a.eIdx.end() || sampleRaise(4))
    {
      unsigned gi = 0;
      vrt::Outcome oc = vrt::capture([&] { gi = co.getEdgeIndex(p); });
      if (ix != a.eIdx.end()) CHK(oc.returned() && gi == ix->second, "obs.getEdgeIndex", "getEdgeIndex(" + em(p) + ") " + (oc.returned() ? "=" + str(gi) : oc.text()) + " expected " + str(ix->second));
      else CHK(oc.raisedBpp(), "obs.no-index-raises", "getEdgeIndex(" + em(p) + ") " + (oc.returned() ? "=" + str(gi) : oc.text()) + " but the object has no index (expected a bpp::Exception)");
    }
    if (has)
    {
      C->q = "getNodes(edge object)";
      pair<NP, NP> ends = co.getNodes(p);
      pair<Id, Id> me = m.edges.at(id);
      pair<NP, NP> w(a.objN(me.first), a.objN(me.second));
      CHK(ends == w || (!m.directed && ends.first == w.second && ends.second == w.first), "obs.getNodes",
          "getNodes(" + em(p) + ")=(" + nm(ends.first) + "," + nm(ends.second) + ") expected (" + nm(w.first) + "," + nm(w.second) + "); " + m.dump());
    }
    else if (sampleRaise(4))
    {
      vrt::Outcome oc2 = vrt::capture([&] { co.getNodes(p); });
      CHK(oc2.raisedBpp(), "obs.absent-object-raises", "getNodes(" + em(p) + ") " + oc2.text() + " but the edge object is not associated (expected a bpp::Exception)");
    }
  }

  // ---- index -> object
  {
    long top = max<long>(a.maxIdxN, 3) + 2;
    for (unsigned v = 0; v <= static_cast<unsigned>(top); ++v)
    {
      NP w = a.nodeWithIdx(v);
      C->q = "hasNode(index)";
      CHK(co.hasNode(v) == static_cast<bool>(w), "obs.hasNode(index)", "hasNode(index " + str(v) + ")=" + str(co.hasNode(v)) + " expected " + str(static_cast<bool>(w)) + " (" + nm(w) + ")");
      C->q = "getNode(index)";
      NP got;
      vrt::Outcome oc = vrt::capture([&] { got = co.getNode(v); });
      if (w) CHK(oc.returned() && got == w, "obs.getNode(index)", "getNode(index " + str(v) + ") " + (oc.returned() ? "=" + nm(got) : oc.text()) + " expected " + nm(w));
      else CHK(!oc.returned() || !got, "obs.getNode(index)-unused", "getNode(index " + str(v) + ")=" + nm(got) + " but no node holds this index");
    }
    top = max<long>(a.maxIdxE, 3) + 2;
    for (unsigned v = 0; v <= static_cast<unsigned>(top); ++v)
    {
      EP w = a.edgeWithIdx(v);
      C->q = "hasEdge(index)";
      CHK(co.hasEdge(v) == static_cast<bool>(w), "obs.hasEdge(index)", "hasEdge(index " + str(v) + ")=" + str(co.hasEdge(v)) + " expected " + str(static_cast<bool>(w)) + " (" + em(w) + ")");
      C->q = "getEdge(index)";
      EP got;
      vrt::Outcome oc = vrt::capture([&] { got = co.getEdge(v); });
      if (w) CHK(oc.returned() && got == w, "obs.getEdge(index)", "getEdge(index " + str(v) + ") " + (oc.returned() ? "=" + em(got) : oc.text()) + " expected " + em(w));
      else CHK(!oc.returned() || !got, "obs.getEdge(index)-unused", "getEdge(index " + str(v) + ")=" + em(got) + " but no edge holds this index");
    }
  }

  // ---- whole-observer lists and iterators
  vector<NP> wantAllN;
  for (auto& kv : a.nObj) wantAllN.push_back(kv.second);
  vector<EP> wantAllE;
  for (auto& kv : a.eObj) wantAllE.push_back(kv.second);
  {
    C->q = "getAllNodes";
    vector<NP> all = co.getAllNodes();
    CHK(all == wantAllN, "obs.getAllNodes", "getAllNodes()=" + nms(all) + " expected (graph id order) " + nms(wantAllN) + "; " + m.dump());
    C->q = "allNodesIterator";
    auto it = o.allNodesIterator();
    vector<NP> x = drainN(*it, false), y = drainN(*it, true);
    auto cit = co.allNodesIterator();
    vector<NP> z = drainN(*cit, false);
    CHK(sameMultiset(x, all) && sameMultiset(y, all) && sameMultiset(z, all), "obs.iter.allNodes", "allNodesIterator enumerates " + nms(x) + "/" + nms(y) + "/const " + nms(z) + " but getAllNodes()=" + nms(all));
    C->q = "getAllEdges";
    vector<EP> alle = co.getAllEdges();
    CHK(alle == wantAllE, "obs.getAllEdges", "getAllEdges()=" + ems(alle) + " expected (graph id order) " + ems(wantAllE) + "; " + m.dump());
    C->q = "allEdgesIterator";
    auto eit = o.allEdgesIterator();
    vector<EP> ex = drainE(*eit, false), ey = drainE(*eit, true);
    auto ceit = co.allEdgesIterator();
    vector<EP> ez = drainE(*ceit, false);
    CHK(sameMultiset(ex, alle) && sameMultiset(ey, alle) && sameMultiset(ez, alle), "obs.iter.allEdges", "allEdgesIterator enumerates " + ems(ex) + "/" + ems(ey) + "/const " + ems(ez) + " but getAllEdges()=" + ems(alle));

    // index lists: defined when every listed object has an index (otherwise the library's exception is accepted)
    bool allIdxN = true, allIdxE = true;
    vector<unsigned> wi, we;
    for (auto& p : wantAllN) { auto ix = a.nIdx.find(p); if (ix == a.nIdx.end()) allIdxN = false; else wi.push_back(ix->second); }
    for (auto& p : wantAllE) { auto ix = a.eIdx.find(p); if (ix == a.eIdx.end()) allIdxE = false; else we.push_back(ix->second); }
    C->q = "getAllNodesIndexes";
    vector<unsigned> gi;
    if (allIdxN || sampleRaise(3))
    {
      vrt::Outcome oc = vrt::capture([&] { gi = co.getAllNodesIndexes(); });
      if (allIdxN) CHK(oc.returned() && gi == wi, "obs.getAllNodesIndexes", "getAllNodesIndexes() " + (oc.returned() ? "=" + ids(gi) : oc.text()) + " expected " + ids(wi));
      else CHK(oc.raisedBpp(), "obs.getAllNodesIndexes-missing", "getAllNodesIndexes() " + (oc.returned() ? "=" + ids(gi) : oc.text()) + " although a node object has no index (expected a bpp::Exception)");
    }
    C->q = "getAllEdgesIndexes";
    if (allIdxE || sampleRaise(3))
    {
      vrt::Outcome oc = vrt::capture([&] { gi = co.getAllEdgesIndexes(); });
      if (allIdxE) CHK(oc.returned() && gi == we, "obs.getAllEdgesIndexes", "getAllEdgesIndexes() " + (oc.returned() ? "=" + ids(gi) : oc.text()) + " expected " + ids(we));
      else CHK(oc.raisedBpp(), "obs.getAllEdgesIndexes-missing", "getAllEdgesIndexes() " + (oc.returned() ? "=" + ids(gi) : oc.text()) + " although an edge object has no index (expected a bpp::Exception)");
    }
  }

  // ---- per associated node object: neighbourhood views and iterators
  auto objOfN = [&](Id i) { return a.objN(i); };
  auto objOfE = [&](Id i) { return a.objE(i); };
  vector<NP> wantLeaves;
  for (auto& kv : a.nObj)
  {
    Id n = kv.first;
    const NP& p = kv.second;
    string N = nm(p) + "#" + str(n);
    vector<NP> wOutN = a.objsN(m.outN(n)), wInN = a.objsN(m.inN(n));
    vector<EP> wOutE = a.objsE(m.outE(n)), wInE = a.objsE(m.inE(n));
    C->q = "getOutgoingNeighbors(object)";
    vector<NP> outN = co.getOutgoingNeighbors(p);
    CHK(sameMultiset(outN, wOutN), "obs.getOutgoingNeighbors", "getOutgoingNeighbors(" + N + ")=" + nms(outN) + " expected " + nms(wOutN) + "; " + m.dump());
    C->q = "getIncomingNeighbors(object)";
    vector<NP> inN = co.getIncomingNeighbors(p);
    CHK(sameMultiset(inN, wInN), "obs.getIncomingNeighbors", "getIncomingNeighbors(" + N + ")=" + nms(inN) + " expected " + nms(wInN) + "; " + m.dump());
    C->q = "getOutgoingEdges(object)";
    vector<EP> outE = co.getOutgoingEdges(p);
    CHK(sameMultiset(outE, wOutE), "obs.getOutgoingEdges", "getOutgoingEdges(" + N + ")=" + ems(outE) + " expected " + ems(wOutE) + "; " + m.dump());
    C->q = "getIncomingEdges(object)";
    vector<EP> inE = co.getIncomingEdges(p);
    CHK(sameMultiset(inE, wInE), "obs.getIncomingEdges", "getIncomingEdges(" + N + ")=" + ems(inE) + " expected " + ems(wInE) + "; " + m.dump());
    {
      C->q = "outgoingNeighborNodesIterator(object)";
      auto i1 = o.outgoingNeighborNodesIterator(p);
      vector<NP> x = drainN(*i1, false), y = drainN(*i1, true);
      auto i2 = co.outgoingNeighborNodesIterator(p);
      vector<NP> z = drainN(*i2, false);
      CHK(sameMultiset(x, outN) && sameMultiset(y, outN) && sameMultiset(z, outN), "obs.iter.outgoingNeighborNodes", "outgoingNeighborNodesIterator(" + N + ") enumerates " + nms(x) + "/" + nms(y) + "/const " + nms(z) + " but getOutgoingNeighbors=" + nms(outN));
      C->q = "incomingNeighborNodesIterator(object)";
      auto i3 = o.incomingNeighborNodesIterator(p);
      x = drainN(*i3, false); y = drainN(*i3, true);
      auto i4 = co.incomingNeighborNodesIterator(p);
      z = drainN(*i4, false);
      CHK(sameMultiset(x, inN) && sameMultiset(y, inN) && sameMultiset(z, inN), "obs.iter.incomingNeighborNodes", "incomingNeighborNodesIterator(" + N + ") enumerates " + nms(x) + "/" + nms(y) + "/const " + nms(z) + " but getIncomingNeighbors=" + nms(inN));
      C->q = "outgoingEdgesIterator(object)";
      auto e1 = o.outgoingEdgesIterator(p);
      vector<EP> ex = drainE(*e1, false), ey = drainE(*e1, true);
      auto e2 = co.outgoingEdgesIterator(p);
      vector<EP> ez = drainE(*e2, false);
      CHK(sameMultiset(ex, outE) && sameMultiset(ey, outE) && sameMultiset(ez, outE), "obs.iter.outgoingEdges", "outgoingEdgesIterator(" + N + ") enumerates " + ems(ex) + "/" + ems(ey) + "/const " + ems(ez) + " but getOutgoingEdges=" + ems(outE));
      C->q = "incomingEdgesIterator(object)";
      auto e3 = o.incomingEdgesIterator(p);
      ex = drainE(*e3, false); ey = drainE(*e3, true);
      auto e4 = co.incomingEdgesIterator(p);
      ez = drainE(*e4, false);
      CHK(sameMultiset(ex, inE) && sameMultiset(ey, inE) && sameMultiset(ez, inE), "obs.iter.incomingEdges", "incomingEdgesIterator(" + N + ") enumerates " + ems(ex) + "/" + ems(ey) + "/const " + ems(ez) + " but getIncomingEdges=" + ems(inE));
    }
    set<Id> dN = m.distinctN(n), iE = m.incidentE(n);
    C->q = "getNeighbors(object)";
    vector<NP> nb = co.getNeighbors(p);
    CHK(objSetWithMultiplicity(nb, dN, objOfN, [&](Id x) { return m.directed ? m.endsTo(n, x) : (x == n ? 2 * m.linkE(n, n).size() : m.linkE(n, x).size()); }), "obs.getNeighbors",
        "getNeighbors(" + N + ")=" + nms(nb) + " expected the objects of nodes " + ids(vector<Id>(dN.begin(), dN.end())) + " (one entry per connecting edge at most); " + m.dump());
    C->q = "getEdges(object)";
    vector<EP> ed = co.getEdges(p);
    CHK(objSetWithMultiplicity(ed, iE, objOfE, [&](Id x) { return m.edges.at(x).first == m.edges.at(x).second ? size_t(2) : size_t(1); }), "obs.getEdges",
        "getEdges(" + N + ")=" + ems(ed) + " expected the objects of edges " + ids(vector<Id>(iE.begin(), iE.end())) + " (each once); " + m.dump());
    C->q = "getDegree(object)";
    size_t ends = m.directed ? m.ends(n) : iE.size() + (dN.count(n) ? 1 : 0);
    size_t deg = co.getDegree(p);
    CHK(deg >= dN.size() && deg <= ends, "obs.getDegree", "getDegree(" + N + ")=" + str(deg) + " expected between " + str(dN.size()) + " and " + str(ends) + "; " + m.dump());
    C->q = "isLeaf(object)";
    bool leaf = co.isLeaf(p);
    CHK(leaf == (dN.size() <= 1), "obs.isLeaf", "isLeaf(" + N + ")=" + str(leaf) + " but the node has " + str(dN.size()) + " distinct neighbour(s); " + m.dump());
    if (leaf) wantLeaves.push_back(p);

    // index flavoured queries: defined when the node and all listed items have an index
    auto ixn = a.nIdx.find(p);
    if (ixn != a.nIdx.end())
    {
      unsigned v = ixn->second;
      C->q = "isLeaf(index)";
      CHK(co.isLeaf(v) == leaf, "obs.isLeaf(index)", "isLeaf(index " + str(v) + ")=" + str(co.isLeaf(v)) + " but isLeaf(" + N + ")=" + str(leaf));
      auto idxOfN = [&](const vector<NP>& objs, vector<unsigned>& out) { for (auto& x : objs) { auto f = a.nIdx.find(x); if (f == a.nIdx.end()) return false; out.push_back(f->second); } return true; };
      auto idxOfE = [&](const vector<EP>& objs, vector<unsigned>& out) { for (auto& x : objs) { auto f = a.eIdx.find(x); if (f == a.eIdx.end()) return false; out.push_back(f->second); } return true; };
      vector<unsigned> w, got;
      C->q = "getOutgoingNeighbors(index)";
      if (idxOfN(outN, w)) { got = co.getOutgoingNeighbors(v); CHK(got == w, "obs.getOutgoingNeighbors(index)", "getOutgoingNeighbors(index " + str(v) + ")=" + ids(got) + " expected " + ids(w)); }
      w.clear();
      C->q = "getIncomingNeighbors(index)";
      if (idxOfN(inN, w)) { got = co.getIncomingNeighbors(v); CHK(got == w, "obs.getIncomingNeighbors(index)", "getIncomingNeighbors(index " + str(v) + ")=" + ids(got) + " expected " + ids(w)); }
      w.clear();
      C->q = "getNeighbors(index)";
      if (idxOfN(nb, w)) { got = co.getNeighbors(v); CHK(got == w, "obs.getNeighbors(index)", "getNeighbors(index " + str(v) + ")=" + ids(got) + " expected " + ids(w)); }
      w.clear();
      C->q = "getOutgoingEdges(index)";
      if (idxOfE(outE, w)) { got = co.getOutgoingEdges(v); CHK(got == w, "obs.getOutgoingEdges(index)", "getOutgoingEdges(index " + str(v) + ")=" + ids(got) + " expected " + ids(w)); }
      w.clear();
      C->q = "getIncomingEdges(index)";
      if (idxOfE(inE, w)) { got = co.getIncomingEdges(v); CHK(got == w, "obs.getIncomingEdges(index)", "getIncomingEdges(index " + str(v) + ")=" + ids(got) + " expected " + ids(w)); }
      w.clear();
      C->q = "getEdges(index)";
      if (idxOfE(ed, w)) { got = co.getEdges(v); CHK(got == w, "obs.getEdges(index)", "getEdges(index " + str(v) + ")=" + ids(got) + " expected " + ids(w)); }
    }
    // leaves from a node (tree-shaped components only)
    map<Id, int> dist;
    if (m.componentIsTree(n, &dist))
    {
      C->q = "getLeavesFromNode(object)";
      vector<Id> want;
      if (dN.size() <= 1) want.push_back(n);
      else
        for (auto& d : dist) if (d.first != n && d.second <= 2 && m.distinctN(d.first).size() <= 1) want.push_back(d.first);
      vector<NP> got = co.getLeavesFromNode(p, 2);
      CHK(sameMultiset(got, a.objsN(want)), "obs.getLeavesFromNode", "getLeavesFromNode(" + N + ",2)=" + nms(got) + " expected " + nms(a.objsN(want)) + "; " + m.dump());
    }
  }
  {
    C->q = "getAllLeaves(objects)";
    vector<NP> al = co.getAllLeaves();
    vector<NP> noSon;
    for (auto& kv : a.nObj) if (m.outN(kv.first).empty()) noSon.push_back(kv.second);
    CHK(sameMultiset(al, wantLeaves) || (m.directed && sameMultiset(al, noSon)), "obs.getAllLeaves", "getAllLeaves()=" + nms(al) + " expected the leaf objects " + nms(wantLeaves) + "; " + m.dump());
    C->q = "getNumberOfLeaves";
    CHK(co.getNumberOfLeaves() == wantLeaves.size(), "obs.getNumberOfLeaves", "getNumberOfLeaves()=" + str(co.getNumberOfLeaves()) + " but " + str(wantLeaves.size()) + " associated nodes satisfy isLeaf; " + m.dump());
    C->q = "getAllInnerNodes(objects)";
    vector<NP> in = co.getAllInnerNodes();
    vector<NP> r1, r2, r3;
    for (auto& kv : a.nObj)
    {
      Id n = kv.first;
      set<Id> dN = m.distinctN(n);
      size_t ends = m.directed ? m.ends(n) : m.incidentE(n).size() + (dN.count(n) ? 1 : 0);
      if (!m.outN(n).empty()) r1.push_back(kv.second);
      if (dN.size() >= 2) r2.push_back(kv.second);
      if (ends >= 2) r3.push_back(kv.second);
    }
    CHK(sameMultiset(in, r1) || sameMultiset(in, r2) || sameMultiset(in, r3), "obs.getAllInnerNodes", "getAllInnerNodes()=" + nms(in) + " matches none of the documented readings; " + m.dump());
  }

  // ---- the edge linking two associated nodes
  for (auto& ka : a.nObj)
    for (auto& kb : a.nObj)
    {
      C->q = "getEdgeLinking";
      vector<Id> fw = m.linkE(ka.first, kb.first);
      if (fw.empty() && !sampleRaise(7)) continue; // no edge: the call raises, sampled
      EP got;
      vrt::Outcome oc = vrt::capture([&] { got = co.getEdgeLinking(ka.second, kb.second); });
      string call = "getEdgeLinking(" + nm(ka.second) + "#" + str(ka.first) + "," + nm(kb.second) + "#" + str(kb.first) + ")";
      if (!fw.empty())
      {
        bool ok = false;
        for (Id e : fw) if (a.objE(e) == got) ok = true;
        CHK(oc.returned() && ok, "obs.getEdgeLinking", call + " " + (oc.returned() ? "=" + em(got) : oc.text()) + " expected the object of edge " + ids(fw) + "; " + m.dump());
      }
      else
        CHK(oc.raisedBpp() || (oc.returned() && !got), "obs.getEdgeLinking-none", call + " " + (oc.returned() ? "=" + em(got) : oc.text()) + " but no edge links them (expected null or a bpp::Exception); " + m.dump());
    }

  // ---- topology queries on an object that is not associated must raise the library's exception
  for (const NP& p : a.poolN)
  {
    if (a.hasN(p)) continue;
    string X = "(" + nm(p) + ")";
    if (!mustRaise("obs.absent-object-raises", ("getOutgoingNeighbors" + X).c_str(), 4, [&] { co.getOutgoingNeighbors(p); })) return false;
    if (!mustRaise("obs.absent-object-raises", ("getIncomingNeighbors" + X).c_str(), 4, [&] { co.getIncomingNeighbors(p); })) return false;
    if (!mustRaise("obs.absent-object-raises", ("getNeighbors" + X).c_str(), 4, [&] { co.getNeighbors(p); })) return false;
    if (!mustRaise("obs.absent-object-raises", ("getEdges" + X).c_str(), 4, [&] { co.getEdges(p); })) return false;
    if (!mustRaise("obs.absent-object-raises", ("getOutgoingEdges" + X).c_str(), 4, [&] { co.getOutgoingEdges(p); })) return false;
    if (!mustRaise("obs.absent-object-raises", ("getIncomingEdges" + X).c_str(), 4, [&] { co.getIncomingEdges(p); })) return false;
    if (!mustRaise("obs.absent-object-raises", ("getDegree" + X).c_str(), 4, [&] { co.getDegree(p); })) return false;
    if (!mustRaise("obs.absent-object-raises", ("isLeaf" + X).c_str(), 4, [&] { co.isLeaf(p); })) return false;
    if (!mustRaise("obs.absent-object-raises", ("outgoingNeighborNodesIterator" + X).c_str(), 4, [&] { o.outgoingNeighborNodesIterator(p); })) return false;
    if (!mustRaise("obs.absent-object-raises", ("incomingNeighborNodesIterator" + X).c_str(), 4, [&] { co.incomingNeighborNodesIterator(p); })) return false;
    if (!mustRaise("obs.absent-object-raises", ("outgoingEdgesIterator" + X).c_str(), 4, [&] { o.outgoingEdgesIterator(p); })) return false;
    if (!mustRaise("obs.absent-object-raises", ("incomingEdgesIterator" + X).c_str(), 4, [&] { co.incomingEdgesIterator(p); })) return false;
    if (!a.nObj.empty())
      if (!mustRaise("obs.absent-object-raises", ("getEdgeLinking" + X).c_str(), 4, [&] { co.getEdgeLinking(p, a.nObj.begin()->second); })) return false;
    break; // one absent object per audit is enough (they are interchangeable for these calls)
  }
  return true;
}

bool auditObs(Obs& o, const AModel& a, const GModel& m, const string& who)
{
  C->who = who;
  bool ok;
  try { ok = auditObsImpl(o, a, m); }
  catch (std::exception& e)
  {
    static vrt::u64* k_ = counterFor("obs.query-raised");
    ++*k_;
    fail("obs.query-raised", string(C->q) + " on existing items raised " + vrt::typeName(typeid(e)) + ": " + e.what() + "; " + m.dump());
    ok = false;
  }
  C->who = "";
  return ok;
}

bool auditWorld(World& w)
{
  ++C->auditNo;
  C->probeSeq = 0;
  if (!auditGraph(*w.graph, w.g)) return false;
  for (auto& s : w.obs)
    if (!auditObs(*s.obs, s.a, w.g, s.name)) return false;
  return true;
}

// ------------------------------------------------------------------ operations (public API only)
enum Kind
{
  O_CREATE, O_CREATE_FROM, O_LINK, O_UNLINK, O_DELETE, O_ASSOC_N, O_DISSOC_N, O_ASSOC_E, O_DISSOC_E, O_SET_LINKING,
  O_SET_NIDX, O_ADD_NIDX, O_SET_EIDX, O_ADD_EIDX,
  G_CREATE, G_FROM_NODE, G_ON_EDGE, G_FROM_EDGE, G_DELETE, G_MK_DIRECTED, G_MK_UNDIRECTED,
  P_COPY, P_ASSIGN, S_SPAWN, S_KILL, KIND_COUNT
};
const char* kindName(int k)
{
  static const char* n[] = { "O.createNode", "O.createNode(origin)", "O.link", "O.unlink", "O.deleteNode", "O.associateNode", "O.dissociateNode", "O.associateEdge",
                             "O.dissociateEdge", "O.setEdgeLinking", "O.setNodeIndex", "O.addNodeIndex", "O.setEdgeIndex", "O.addEdgeIndex",
                             "G.createNode", "G.createNodeFromNode", "G.createNodeOnEdge", "G.createNodeFromEdge", "G.deleteNode", "G.makeDirected", "G.makeUndirected",
                             "copy-construct", "assign", "spawn-copy", "destroy-copy" };
  return n[k];
}
const int ABSENT = -1;  // a node/edge/object that is not in the structure
const int ABSENT2 = -2; // second flavour: an id that existed and was deleted
struct Op
{
  int kind;
  int a, b;   // node references: rank among the live node ids, or ABSENT/ABSENT2
  int e;      // edge reference: rank among the live edge ids, or ABSENT/ABSENT2
  int sel;    // variant: which object is passed (0 = a free object, 1 = an object that is already associated) / clone instead of copy-ctor ...
  int eobj;   // 0 = no edge object, 1 = a free edge object, 2 = an edge object that is already associated
  unsigned v; // index value
  int tgt;    // observer slot the call is made on
  Op(int k = 0) : kind(k), a(0), b(0), e(0), sel(0), eobj(0), v(0), tgt(0) {}
};

enum Expect { RET, RAISE, EITHER };

NP freeNodeObj(World& w, AModel& a)
{
  // prefer recycling an object that was associated before (stale entries would show), else a new one
  for (auto it = a.poolN.rbegin(); it != a.poolN.rend(); ++it) if (!a.hasN(*it) && !a.nIdx.count(*it)) return *it;
  NP p(new NObj(w.nextTag++));
  a.poolN.push_back(p);
  return p;
}
EP freeEdgeObj(World& w, AModel& a)
{
  for (auto it = a.poolE.rbegin(); it != a.poolE.rend(); ++it) if (!a.hasE(*it) && !a.eIdx.count(*it)) return *it;
  EP p(new EObj(w.nextTag++));
  a.poolE.push_back(p);
  return p;
}

void forgetEdge(World& w, Id e)
{
  w.g.edges.erase(e);
  for (auto& s : w.obs) s.a.forgetEdgeId(e);
}
void forgetNode(World& w, Id n)
{
  set<Id> inc = w.g.incidentE(n);
  for (Id e : inc) forgetEdge(w, e);
  w.g.nodes.erase(n);
  for (auto& s : w.obs) s.a.forgetNodeId(n);
}

// learn the ids of the edges the call created: exactly the expected end point pairs, each as a new id
bool discoverEdges(World& w, vector<pair<Id, Id>> expected, vector<Id>* idsOut)
{
  C->q = "getAllEdges (new edges)";
  vector<Id> all = w.graph->getAllEdges();
  vector<Id> fresh;
  for (Id e : all) if (!w.g.edges.count(e)) fresh.push_back(e);
  CHK(fresh.size() == expected.size(), "op.new-edges", str(expected.size()) + " new edge(s) expected, getAllEdges() shows the new ids " + ids(fresh) + "; model before " + w.g.dump());
  if (idsOut) idsOut->assign(expected.size(), 0);
  vector<bool> used(expected.size(), false);
  for (Id e : fresh)
  {
    C->q = "getNodes (new edge)";
    pair<Id, Id> p = w.graph->getNodes(e);
    size_t hit = expected.size();
    for (size_t i = 0; i < expected.size() && hit == expected.size(); ++i)
      if (!used[i] && (p == expected[i] || (!w.g.directed && p.first == expected[i].second && p.second == expected[i].first))) hit = i;
    CHK(hit < expected.size(), "op.new-edges", "new edge " + str(e) + " has end points (" + str(p.first) + "," + str(p.second) + ") which the call should not have produced; model before " + w.g.dump());
    used[hit] = true;
    w.g.edges[e] = p;
    if (idsOut) (*idsOut)[hit] = e;
  }
  return true;
}

// rebuild the model from the primary views after a call that raised (the statement only requires that the views agree afterwards)
bool resync(World& w)
{
  try
  {
    C->q = "resync";
    GModel g;
    g.directed = w.graph->isDirected();
    for (Id n : w.graph->getAllNodes()) g.nodes.insert(n);
    for (Id e : w.graph->getAllEdges()) g.edges[e] = w.graph->getNodes(e);
    w.g = g;
    for (auto& s : w.obs)
    {
      s.a.nObj.clear(); s.a.eObj.clear(); s.a.nIdx.clear(); s.a.eIdx.clear();
      for (auto& p : s.a.poolN)
      {
        if (s.obs->hasNode(p)) { Id id = s.obs->getNodeGraphid(p); s.a.nObj[id] = p; s.a.noteN(id); }
        if (s.obs->hasNodeIndex(p)) { s.a.nIdx[p] = s.obs->getNodeIndex(p); s.a.maxIdxN = max<long>(s.a.maxIdxN, s.a.nIdx[p]); }
      }
      for (auto& p : s.a.poolE)
      {
        if (s.obs->hasEdge(p)) { Id id = s.obs->getEdgeGraphid(p); s.a.eObj[id] = p; s.a.noteE(id); }
        if (s.obs->hasEdgeIndex(p)) { s.a.eIdx[p] = s.obs->getEdgeIndex(p); s.a.maxIdxE = max<long>(s.a.maxIdxE, s.a.eIdx[p]); }
      }
    }
    return true;
  }
  catch (std::exception& e)
  {
    static vrt::u64* k_ = counterFor("graph.query-raised");
    ++*k_;
    fail("graph.query-raised", string("reading the structure back after a raising call: ") + vrt::typeName(typeid(e)) + ": " + e.what());
    return false;
  }
}

// index kept or dropped by dissociate*: left open by the documentation, read back from the real object
void readBackIndexN(Slot& s, const NP& p)
{
  auto it = s.a.nIdx.find(p);
  if (it == s.a.nIdx.end()) return;
  if (!s.obs->hasNodeIndex(p)) s.a.nIdx.erase(it);
}
void readBackIndexE(Slot& s, const EP& p)
{
  auto it = s.a.eIdx.find(p);
  if (it == s.a.eIdx.end()) return;
  if (!s.obs->hasEdgeIndex(p)) s.a.eIdx.erase(it);
}

string nref(const World& w, const Slot& s, Id id) { NP p = s.a.objN(id); return nm(p) + "#" + str(id); }

bool probeCopy(World& w, Slot& s, bool viaClone);
bool probeAssign(World& w, Slot& s, bool alreadyCopy);
bool cloneModel(const AModel& src, Obs& cp, AModel& out);

// Execute one operation on the real structure and on the model, then (optionally) audit every view.
// Returns false at the first divergence.
bool applyOp(World& w, const Op& op, bool audit)
{
  Slot& s = w.obs[static_cast<size_t>(op.tgt) < w.obs.size() ? op.tgt : 0];
  Obs& o = *s.obs;
  AModel& a = s.a;
  GModel& g = w.g;
  GlobalGraph& G = *w.graph;
  auto nodeId = [&](int ref) -> Id { return ref >= 0 ? g.nodeAt(ref) : g.absentNode(ref == ABSENT2 ? 1 : 0); };
  auto edgeId = [&](int ref) -> Id { return ref >= 0 ? g.edgeAt(ref) : g.absentEdge(ref == ABSENT2 ? 1 : 0); };
  // object standing for a node reference: the associated object, or (absent) an object that is not associated
  auto nodeObjOf = [&](int ref) -> NP { return ref >= 0 ? a.objN(g.nodeAt(ref)) : freeNodeObj(w, a); };
  auto pickEdgeObj = [&](int mode) -> EP { return mode == 0 ? EP() : mode == 1 ? freeEdgeObj(w, a) : a.eObj.begin()->second; };

  Expect ex = RET;
  string cls = kindName(op.kind), text;
  function<void()> call;
  function<bool()> onReturn = [] { return true; };
  string tgtName = s.name.empty() ? "" : s.name + ":";

  switch (op.kind)
  {
  case O_CREATE:
  {
    NP p = op.sel == 0 ? freeNodeObj(w, a) : a.nObj.begin()->second;
    ex = op.sel == 0 ? RET : RAISE;
    cls += op.sel == 0 ? ":new" : ":object-already-associated";
    text = "createNode(" + nm(p) + ")";
    call = [&o, p] { o.createNode(p); };
    onReturn = [&, p] {
        Id id = 0;
        vrt::Outcome oc = vrt::capture([&] { id = o.getNodeGraphid(p); });
        CHK(oc.returned() && !g.nodes.count(id), "op.createNode", "after createNode(" + nm(p) + ") getNodeGraphid " + (oc.returned() ? "=" + str(id) + " which is not a new node" : oc.text()) + "; model before " + g.dump());
        g.nodes.insert(id);
        a.nObj[id] = p;
        a.noteN(id);
        return true;
      };
    break;
  }
  case O_CREATE_FROM:
  {
    NP origin = nodeObjOf(op.a);
    NP p = op.sel == 0 ? freeNodeObj(w, a) : a.nObj.begin()->second;
    if (op.sel == 0 && p == origin) { p = NP(new NObj(w.nextTag++)); a.poolN.push_back(p); }
    EP e = pickEdgeObj(op.eobj);
    bool bad = op.a < 0 || op.sel != 0 || op.eobj == 2;
    ex = bad ? RAISE : RET;
    cls += string(op.a < 0 ? ":origin-absent" : "") + (op.sel ? ":object-already-associated" : "") + (op.eobj == 2 ? ":edge-object-already-associated" : op.eobj == 1 ? ":edge-object" : "") + (bad ? "" : ":new");
    Id oid = op.a >= 0 ? g.nodeAt(op.a) : 0;
    text = "createNode(origin " + (op.a >= 0 ? nm(origin) + "#" + str(oid) : nm(origin) + " (not associated)") + "," + nm(p) + "," + em(e) + ")";
    call = [&o, origin, p, e] { o.createNode(origin, p, e); };
    onReturn = [&, p, e, oid] {
        Id id = 0;
        vrt::Outcome oc = vrt::capture([&] { id = o.getNodeGraphid(p); });
        CHK(oc.returned() && !g.nodes.count(id), "op.createNode", "after createNode(origin,...) getNodeGraphid(" + nm(p) + ") " + (oc.returned() ? "=" + str(id) + " which is not a new node" : oc.text()));
        g.nodes.insert(id);
        a.nObj[id] = p;
        a.noteN(id);
        vector<Id> ne;
        if (!discoverEdges(w, { make_pair(oid, id) }, &ne)) return false;
        if (e) { a.eObj[ne[0]] = e; a.noteE(ne[0]); }
        return true;
      };
    break;
  }
  case O_LINK:
  {
    NP pa = nodeObjOf(op.a), pb = op.b == op.a && op.a >= 0 ? pa : nodeObjOf(op.b);
    if (op.a < 0 && op.b < 0 && pa == pb) { pb = NP(new NObj(w.nextTag++)); a.poolN.push_back(pb); }
    EP e = pickEdgeObj(op.eobj);
    bool absent = op.a < 0 || op.b < 0;
    Id ia = op.a >= 0 ? g.nodeAt(op.a) : 0, ib = op.b >= 0 ? g.nodeAt(op.b) : 0;
    bool dup = !absent && !g.linkE(ia, ib).empty();
    ex = (absent || op.eobj == 2) ? RAISE : dup ? EITHER : RET;
    cls += string(op.a < 0 ? ":first-absent" : "") + (op.b < 0 ? ":second-absent" : "") + (op.eobj == 2 ? ":edge-object-already-associated" : op.eobj == 1 ? ":edge-object" : "") +
           (absent ? "" : dup ? ":already-linked" : ":new") + (!absent && ia == ib ? ":loop" : "");
    text = "link(" + (op.a >= 0 ? nm(pa) + "#" + str(ia) : nm(pa) + " (not associated)") + "," + (op.b >= 0 ? nm(pb) + "#" + str(ib) : nm(pb) + " (not associated)") + "," + em(e) + ")";
    call = [&o, pa, pb, e] { o.link(pa, pb, e); };
    onReturn = [&, e, ia, ib] {
        vector<Id> ne;
        if (!discoverEdges(w, { make_pair(ia, ib) }, &ne)) return false;
        if (e) { a.eObj[ne[0]] = e; a.noteE(ne[0]); }
        return true;
      };
    break;
  }
  case O_UNLINK:
  {
    NP pa = nodeObjOf(op.a), pb = op.b == op.a && op.a >= 0 ? pa : nodeObjOf(op.b);
    bool absent = op.a < 0 || op.b < 0;
    Id ia = op.a >= 0 ? g.nodeAt(op.a) : 0, ib = op.b >= 0 ? g.nodeAt(op.b) : 0;
    vector<Id> victims = absent ? vector<Id>() : g.linkE(ia, ib);
    ex = absent ? RAISE : victims.empty() ? EITHER : RET;
    cls += string(op.a < 0 ? ":first-absent" : "") + (op.b < 0 ? ":second-absent" : "") + (absent ? "" : victims.empty() ? ":not-linked" : ":linked") + (!absent && ia == ib ? ":loop" : "");
    text = "unlink(" + (op.a >= 0 ? nm(pa) + "#" + str(ia) : nm(pa) + " (not associated)") + "," + (op.b >= 0 ? nm(pb) + "#" + str(ib) : nm(pb) + " (not associated)") + ")";
    call = [&o, pa, pb] { o.unlink(pa, pb); };
    onReturn = [&, victims] { for (Id e : victims) forgetEdge(w, e); return true; };
    break;
  }
  case O_DELETE:
  {
    NP p = nodeObjOf(op.a);
    Id id = op.a >= 0 ? g.nodeAt(op.a) : 0;
    ex = op.a >= 0 ? RET : RAISE;
    cls += op.a >= 0 ? (g.incidentE(id).empty() ? ":isolated" : ":linked") : ":absent";
    text = "deleteNode(" + (op.a >= 0 ? nm(p) + "#" + str(id) : nm(p) + " (not associated)") + ")";
    call = [&o, p] { o.deleteNode(p); };
    onReturn = [&, id] { forgetNode(w, id); return true; };
    break;
  }
  case O_ASSOC_N:
  {
    NP p = op.sel == 0 ? freeNodeObj(w, a) : a.nObj.begin()->second;
    Id id = nodeId(op.a);
    bool live = op.a >= 0, taken = live && a.objN(id);
    ex = (op.sel != 0 || !live) ? RAISE : taken ? EITHER : RET;
    cls += string(op.sel ? ":object-already-associated" : "") + (!live ? ":node-absent" : taken ? ":node-has-object" : ":free-node");
    text = "associateNode(" + nm(p) + "," + str(id) + ")";
    call = [&o, p, id] { o.associateNode(p, id); };
    onReturn = [&, p, id, taken] {
        if (taken)
        {
          // replacing is accepted: the previous object must then be forgotten; its index is read back
          NP old = a.objN(id);
          a.nObj.erase(id);
          readBackIndexN(s, old);
        }
        a.nObj[id] = p;
        a.noteN(id);
        return true;
      };
    break;
  }
  case O_DISSOC_N:
  {
    NP p = nodeObjOf(op.a);
    Id id = op.a >= 0 ? g.nodeAt(op.a) : 0;
    ex = op.a >= 0 ? RET : RAISE;
    cls += op.a >= 0 ? ":associated" : ":absent";
    text = "dissociateNode(" + (op.a >= 0 ? nm(p) + "#" + str(id) : nm(p) + " (not associated)") + ")";
    call = [&o, p] { o.dissociateNode(p); };
    onReturn = [&, p, id] { a.nObj.erase(id); readBackIndexN(s, p); return true; };
    break;
  }
  case O_ASSOC_E:
  {
    EP p = op.sel == 0 ? freeEdgeObj(w, a) : a.eObj.begin()->second;
    Id id = edgeId(op.e);
    bool live = op.e >= 0, taken = live && a.objE(id);
    ex = (op.sel != 0 || !live) ? RAISE : taken ? EITHER : RET;
    cls += string(op.sel ? ":object-already-associated" : "") + (!live ? ":edge-absent" : taken ? ":edge-has-object" : ":free-edge");
    text = "associateEdge(" + em(p) + "," + str(id) + ")";
    call = [&o, p, id] { o.associateEdge(p, id); };
    onReturn = [&, p, id, taken] {
        if (taken) { EP old = a.objE(id); a.eObj.erase(id); readBackIndexE(s, old); }
        a.eObj[id] = p;
        a.noteE(id);
        return true;
      };
    break;
  }
  case O_DISSOC_E:
  {
    EP p = op.e >= 0 ? a.objE(g.edgeAt(op.e)) : freeEdgeObj(w, a);
    Id id = op.e >= 0 ? g.edgeAt(op.e) : 0;
    ex = op.e >= 0 ? RET : RAISE;
    cls += op.e >= 0 ? ":associated" : ":absent";
    text = "dissociateEdge(" + (op.e >= 0 ? em(p) + "#" + str(id) : em(p) + " (not associated)") + ")";
    call = [&o, p] { o.dissociateEdge(p); };
    onReturn = [&, p, id] { a.eObj.erase(id); readBackIndexE(s, p); return true; };
    break;
  }
  case O_SET_LINKING:
  {
    NP pa = nodeObjOf(op.a), pb = op.b == op.a && op.a >= 0 ? pa : nodeObjOf(op.b);
    EP p = op.sel == 0 ? freeEdgeObj(w, a) : a.eObj.begin()->second;
    bool absent = op.a < 0 || op.b < 0;
    Id ia = op.a >= 0 ? g.nodeAt(op.a) : 0, ib = op.b >= 0 ? g.nodeAt(op.b) : 0;
    vector<Id> le = absent ? vector<Id>() : g.linkE(ia, ib);
    bool taken = !le.empty() && a.objE(le[0]);
    ex = (absent || op.sel != 0 || le.empty()) ? RAISE : (taken || le.size() > 1) ? EITHER : RET;
    cls += string(absent ? ":node-absent" : le.empty() ? ":not-linked" : taken ? ":edge-has-object" : ":free-edge") + (op.sel ? ":object-already-associated" : "");
    text = "setEdgeLinking(" + (op.a >= 0 ? nm(pa) + "#" + str(ia) : nm(pa) + " (not associated)") + "," + (op.b >= 0 ? nm(pb) + "#" + str(ib) : nm(pb) + " (not associated)") + "," + em(p) + ")";
    call = [&o, pa, pb, p] { o.setEdgeLinking(pa, pb, p); };
    onReturn = [&, p, le, taken] {
        Id id = 0;
        vrt::Outcome oc = vrt::capture([&] { id = o.getEdgeGraphid(p); });
        CHK(oc.returned() && count(le.begin(), le.end(), id), "op.setEdgeLinking", "after setEdgeLinking getEdgeGraphid(" + em(p) + ") " + (oc.returned() ? "=" + str(id) : oc.text()) + " expected one of " + ids(le));
        if (a.objE(id)) { EP old = a.objE(id); a.eObj.erase(id); readBackIndexE(s, old); }
        a.eObj[id] = p;
        a.noteE(id);
        return true;
      };
    break;
  }
  case O_SET_NIDX:
  {
    NP p = a.objN(g.nodeAt(op.a));
    bool hasIdx = a.nIdx.count(p), used = static_cast<bool>(a.nodeWithIdx(op.v));
    ex = (hasIdx || used) ? RAISE : RET;
    cls += hasIdx ? ":object-has-index" : used ? ":index-in-use" : ":free";
    text = "setNodeIndex(" + nm(p) + "," + str(op.v) + ")";
    auto ret = make_shared<unsigned>(0);
    unsigned v = op.v;
    call = [&o, p, v, ret] { *ret = o.setNodeIndex(p, v); };
    onReturn = [&, p, v, ret] {
        CHK(*ret == v, "op.setNodeIndex", "setNodeIndex(" + nm(p) + "," + str(v) + ") returned " + str(*ret));
        a.nIdx[p] = v;
        a.maxIdxN = max<long>(a.maxIdxN, v);
        return true;
      };
    break;
  }
  case O_ADD_NIDX:
  {
    NP p = a.objN(g.nodeAt(op.a));
    bool hasIdx = a.nIdx.count(p);
    ex = hasIdx ? RAISE : RET;
    cls += hasIdx ? ":object-has-index" : ":free";
    text = "addNodeIndex(" + nm(p) + ")";
    auto ret = make_shared<unsigned>(0);
    call = [&o, p, ret] { *ret = o.addNodeIndex(p); };
    onReturn = [&, p, ret] {
        CHK(!a.nodeWithIdx(*ret), "op.addNodeIndex", "addNodeIndex(" + nm(p) + ") allocated index " + str(*ret) + " which is held by " + nm(a.nodeWithIdx(*ret)));
        a.nIdx[p] = *ret;
        a.maxIdxN = max<long>(a.maxIdxN, *ret);
        return true;
      };
    break;
  }
  case O_SET_EIDX:
  {
    EP p = a.objE(g.edgeAt(op.e));
    bool hasIdx = a.eIdx.count(p), used = static_cast<bool>(a.edgeWithIdx(op.v));
    ex = (hasIdx || used) ? RAISE : RET;
    cls += hasIdx ? ":object-has-index" : used ? ":index-in-use" : ":free";
    text = "setEdgeIndex(" + em(p) + "," + str(op.v) + ")";
    auto ret = make_shared<unsigned>(0);
    unsigned v = op.v;
    call = [&o, p, v, ret] { *ret = o.setEdgeIndex(p, v); };
    onReturn = [&, p, v, ret] {
        CHK(*ret == v, "op.setEdgeIndex", "setEdgeIndex(" + em(p) + "," + str(v) + ") returned " + str(*ret));
        a.eIdx[p] = v;
        a.maxIdxE = max<long>(a.maxIdxE, v);
        return true;
      };
    break;
  }
  case O_ADD_EIDX:
  {
    EP p = a.objE(g.edgeAt(op.e));
    bool hasIdx = a.eIdx.count(p);
    ex = hasIdx ? RAISE : RET;
    cls += hasIdx ? ":object-has-index" : ":free";
    text = "addEdgeIndex(" + em(p) + ")";
    auto ret = make_shared<unsigned>(0);
    call = [&o, p, ret] { *ret = o.addEdgeIndex(p); };
    onReturn = [&, p, ret] {
        CHK(!a.edgeWithIdx(*ret), "op.addEdgeIndex", "addEdgeIndex(" + em(p) + ") allocated index " + str(*ret) + " which is held by " + em(a.edgeWithIdx(*ret)));
        a.eIdx[p] = *ret;
        a.maxIdxE = max<long>(a.maxIdxE, *ret);
        return true;
      };
    break;
  }
  case G_CREATE:
  {
    auto ret = make_shared<Id>(0);
    text = "getGraph()->createNode()";
    call = [&G, ret] { *ret = G.createNode(); };
    onReturn = [&, ret] {
        CHK(!g.nodes.count(*ret), "op.graph-createNode", "createNode() returned " + str(*ret) + " which is already a node; " + g.dump());
        g.nodes.insert(*ret);
        return true;
      };
    break;
  }
  case G_FROM_NODE:
  {
    Id origin = nodeId(op.a);
    ex = op.a >= 0 ? RET : RAISE;
    cls += op.a >= 0 ? ":origin-live" : op.a == ABSENT2 ? ":origin-deleted" : ":origin-absent";
    auto ret = make_shared<Id>(0);
    text = "getGraph()->createNodeFromNode(" + str(origin) + ")";
    call = [&G, ret, origin] { *ret = G.createNodeFromNode(origin); };
    onReturn = [&, ret, origin] {
        CHK(!g.nodes.count(*ret), "op.graph-createNode", "createNodeFromNode returned " + str(*ret) + " which is already a node; " + g.dump());
        g.nodes.insert(*ret);
        return discoverEdges(w, { make_pair(origin, *ret) }, 0);
      };
    break;
  }
  case G_ON_EDGE:
  case G_FROM_EDGE:
  {
    Id e = edgeId(op.e);
    ex = op.e >= 0 ? RET : RAISE;
    cls += op.e >= 0 ? ":edge-live" : ":edge-absent";
    bool loop = op.e >= 0 && g.edges.at(e).first == g.edges.at(e).second;
    if (loop) cls += ":loop";
    // splitting an undirected loop A-A gives two edges A-N: parallel edges, which link() is free to refuse
    if (loop && !g.directed) ex = EITHER;
    auto ret = make_shared<Id>(0);
    bool from = op.kind == G_FROM_EDGE;
    text = string("getGraph()->") + (from ? "createNodeFromEdge(" : "createNodeOnEdge(") + str(e) + ")";
    if (from) call = [&G, ret, e] { *ret = G.createNodeFromEdge(e); };
    else call = [&G, ret, e] { *ret = G.createNodeOnEdge(e); };
    onReturn = [&, ret, e, from] {
        pair<Id, Id> ab = g.edges.at(e);
        CHK(!g.nodes.count(*ret), "op.graph-createNode", text + " returned " + str(*ret) + " which is already a node; " + g.dump());
        Id mid = *ret;
        if (from)
        {
          // two new nodes: the anchor splitting the edge and the returned node hanging from it
          C->q = "getAllNodes (new nodes)";
          vector<Id> fresh;
          for (Id n : G.getAllNodes()) if (!g.nodes.count(n)) fresh.push_back(n);
          CHK(fresh.size() == 2 && count(fresh.begin(), fresh.end(), *ret) == 1, "op.graph-createNode", text + " returned " + str(*ret) + " and getAllNodes() shows the new nodes " + ids(fresh) + " (two expected); " + g.dump());
          mid = fresh[0] == *ret ? fresh[1] : fresh[0];
          g.nodes.insert(mid);
        }
        g.nodes.insert(*ret);
        forgetEdge(w, e);
        vector<pair<Id, Id>> want = { make_pair(ab.first, mid), make_pair(mid, ab.second) };
        if (from) want.push_back(make_pair(mid, *ret));
        return discoverEdges(w, want, 0);
      };
    break;
  }
  case G_DELETE:
  {
    Id id = nodeId(op.a);
    ex = op.a >= 0 ? RET : RAISE;
    cls += op.a >= 0 ? (g.incidentE(id).empty() ? ":isolated" : ":linked") : op.a == ABSENT2 ? ":deleted" : ":absent";
    if (op.a >= 0) { bool hasObj = false; for (auto& sl : w.obs) if (sl.a.objN(id)) hasObj = true; cls += hasObj ? ":has-object" : ":no-object"; }
    text = "getGraph()->deleteNode(" + str(id) + ")";
    call = [&G, id] { G.deleteNode(id); };
    onReturn = [&, id] { forgetNode(w, id); return true; };
    break;
  }
  case G_MK_DIRECTED:
  {
    cls += g.directed ? ":already" : ":convert";
    text = "getGraph()->makeDirected()";
    call = [&G] { G.makeDirected(); };
    onReturn = [&] {
        if (g.directed) return true;
        g.directed = true;
        // the resulting directions are documented as arbitrary: read them back, the end points must be the same
        for (auto& e : g.edges)
        {
          C->q = "getNodes (after makeDirected)";
          pair<Id, Id> p = G.getNodes(e.first);
          CHK(p == e.second || (p.first == e.second.second && p.second == e.second.first), "op.makeDirected", "after makeDirected getNodes(" + str(e.first) + ")=(" + str(p.first) + "," + str(p.second) + ") but the edge linked " + str(e.second.first) + " and " + str(e.second.second));
          e.second = p;
        }
        return true;
      };
    break;
  }
  case G_MK_UNDIRECTED:
  {
    bool rec = g.directed && g.hasReciprocal();
    ex = rec ? RAISE : RET;
    cls += !g.directed ? ":already" : rec ? ":reciprocal" : ":convert";
    text = "getGraph()->makeUndirected()";
    call = [&G] { G.makeUndirected(); };
    onReturn = [&] { g.directed = false; return true; };
    break;
  }
  case P_COPY:
  case P_ASSIGN:
  case S_SPAWN:
  case S_KILL:
    break;
  }

  C->opClass = cls + (g.directed ? "|directed" : "|undirected");
  if (op.kind == P_COPY || op.kind == P_ASSIGN)
  {
    text = string(op.kind == P_COPY ? (op.sel ? "clone()" : "copy-construct") : (op.sel ? "copy = source (again)" : "other = source")) + " + independence check";
    C->hist += " ; " + tgtName + text;
    if (vrt::replaying()) vrt::step(tgtName + text);
    C->opClass = string(kindName(op.kind)) + (op.sel ? ":variant" : "") + (g.directed ? "|directed" : "|undirected");
    bool ok = op.kind == P_COPY ? probeCopy(w, s, op.sel != 0) : probeAssign(w, s, op.sel != 0);
    return ok && (!audit || auditWorld(w));
  }
  if (op.kind == S_SPAWN)
  {
    text = "shadow = copy of " + (s.name.empty() ? string("primary") : s.name);
    C->hist += " ; " + text;
    Slot sh;
    sh.name = "shadow";
    vrt::Outcome oc = vrt::capture([&] { sh.obs.reset(op.sel ? s.obs->clone() : new Obs(*s.obs)); });
    CHK(oc.returned(), "copy.outcome", "copying the observer " + oc.text());
    if (sh.obs->getGraph() != w.graph) { vrt::tally("copy-does-not-share-graph"); return true; }
    if (!cloneModel(a, *sh.obs, sh.a)) return false;
    w.obs.push_back(std::move(sh));
    return !audit || auditWorld(w);
  }
  if (op.kind == S_KILL)
  {
    C->hist += " ; destroy shadow";
    w.obs.pop_back();
    return !audit || auditWorld(w);
  }

  C->hist += " ; " + tgtName + text;
  if (gSteps || vrt::replaying()) vrt::step(tgtName + text);
  vrt::Outcome oc = vrt::capture(call);
  {
    static vrt::u64* k_ = counterFor("op.outcome");
    ++*k_;
  }
  if (oc.returned())
  {
    if (ex == RAISE) { fail("op.outcome", "the call returned but had to raise a bpp::Exception (absent item / duplicate)"); return false; }
    bool ok;
    try { ok = onReturn(); }
    catch (std::exception& e) { fail("graph.query-raised", string(C->q) + " raised " + vrt::typeName(typeid(e)) + ": " + e.what() + " while reading the result of the call"); ok = false; }
    if (!ok) return false;
  }
  else
  {
    if (ex == RET) { fail("op.outcome", "the call " + oc.text() + " but all its arguments are valid (expected to return)"); return false; }
    if (ex == RAISE && !oc.raisedBpp()) { fail("op.outcome", "the call " + oc.text() + " where the library's exception (bpp::Exception) is required"); return false; }
    if (!resync(w)) return false;
  }
  return !audit || auditWorld(w);
}

// ------------------------------------------------------------------ copies
// Model of a copy: same graph ids and indices, NEW objects carrying equal values.
bool cloneModel(const AModel& src, Obs& cp, AModel& out)
{
  out = AModel();
  out.maxAssocN = src.maxAssocN; out.maxAssocE = src.maxAssocE; out.maxIdxN = src.maxIdxN; out.maxIdxE = src.maxIdxE;
  for (auto& kv : src.nObj)
  {
    NP c = cp.getNodeFromGraphid(kv.first);
    CHK(c && c != kv.second && c->tag == kv.second->tag, "copy.objects", "node " + str(kv.first) + ": the copy holds " + (c ? (c == kv.second ? "the SAME object " : "object ") + nm(c) : string("no object")) + " where the source holds " + nm(kv.second) + " (an independent object with the same value is expected)");
    out.nObj[kv.first] = c;
    out.poolN.push_back(c);
    auto ix = src.nIdx.find(kv.second);
    if (ix != src.nIdx.end()) out.nIdx[c] = ix->second;
  }
  for (auto& kv : src.eObj)
  {
    EP c = cp.getEdgeFromGraphid(kv.first);
    CHK(c && c != kv.second && c->tag == kv.second->tag, "copy.objects", "edge " + str(kv.first) + ": the copy holds " + (c ? (c == kv.second ? "the SAME object " : "object ") + em(c) : string("no object")) + " where the source holds " + em(kv.second) + " (an independent object with the same value is expected)");
    out.eObj[kv.first] = c;
    out.poolE.push_back(c);
    auto ix = src.eIdx.find(kv.second);
    if (ix != src.eIdx.end()) out.eIdx[c] = ix->second;
  }
  // the source's objects are foreign to the copy
  for (auto& p : src.poolN) out.poolN.push_back(p);
  for (auto& p : src.poolE) out.poolE.push_back(p);
  return true;
}

// mutate the association layer of `x` (model xa) a little: dissociate, index
bool scribble(World& w, Obs& x, AModel& xa)
{
  vrt::Outcome oc;
  if (!xa.nObj.empty())
  {
    NP p = xa.nObj.rbegin()->second;
    Id id = xa.nObj.rbegin()->first;
    oc = vrt::capture([&] { x.dissociateNode(p); });
    CHK(oc.returned(), "copy.outcome", "dissociateNode on the copy " + oc.text());
    xa.nObj.erase(id);
    if (xa.nIdx.count(p) && !x.hasNodeIndex(p)) xa.nIdx.erase(p);
  }
  if (!xa.eObj.empty())
  {
    EP p = xa.eObj.begin()->second;
    Id id = xa.eObj.begin()->first;
    oc = vrt::capture([&] { x.dissociateEdge(p); });
    CHK(oc.returned(), "copy.outcome", "dissociateEdge on the copy " + oc.text());
    xa.eObj.erase(id);
    if (xa.eIdx.count(p) && !x.hasEdgeIndex(p)) xa.eIdx.erase(p);
  }
  for (auto& kv : xa.nObj)
    if (!xa.nIdx.count(kv.second))
    {
      unsigned r = 0;
      NP p = kv.second;
      oc = vrt::capture([&] { r = x.addNodeIndex(p); });
      CHK(oc.returned() && !xa.nodeWithIdx(r), "copy.outcome", "addNodeIndex on the copy " + (oc.returned() ? "allocated the used index " + str(r) : oc.text()));
      xa.nIdx[p] = r;
      xa.maxIdxN = max<long>(xa.maxIdxN, r);
      break;
    }
  // associate a new object to a node without object
  for (Id n : w.g.nodes)
    if (!xa.objN(n))
    {
      NP p(new NObj(w.nextTag++));
      xa.poolN.push_back(p);
      oc = vrt::capture([&] { x.associateNode(p, n); });
      CHK(oc.returned(), "copy.outcome", "associateNode on the copy " + oc.text());
      xa.nObj[n] = p;
      xa.noteN(n);
      break;
    }
  return true;
}

bool probeCopy(World& w, Slot& s, bool viaClone)
{
  unique_ptr<Obs> cp;
  vrt::Outcome oc = vrt::capture([&] { cp.reset(viaClone ? s.obs->clone() : new Obs(*s.obs)); });
  CHK(oc.returned(), "copy.outcome", "copying the observer " + oc.text());
  bool shared = cp->getGraph() == w.graph;
  if (!shared) { vrt::tally("copy-does-not-share-graph"); return true; }
  AModel ca;
  if (!cloneModel(s.a, *cp, ca)) return false;
  if (!auditObs(*cp, ca, w.g, "copy")) return false;
  // independence: changing the copy's associations leaves the source alone, and conversely
  if (!scribble(w, *cp, ca)) return false;
  if (!auditObs(*cp, ca, w.g, "copy")) return false;
  if (!auditObs(*s.obs, s.a, w.g, s.name.empty() ? "source-after-copy-changed" : s.name)) return false;
  if (!s.a.nObj.empty())
  {
    // round trip on the source while the copy is alive
    NP p = s.a.nObj.begin()->second;
    Id id = s.a.nObj.begin()->first;
    bool hadIdx = s.a.nIdx.count(p);
    oc = vrt::capture([&] { s.obs->dissociateNode(p); });
    CHK(oc.returned(), "copy.outcome", "dissociateNode on the source " + oc.text());
    if (!auditObs(*cp, ca, w.g, "copy-after-source-changed")) return false;
    bool keptIdx = s.obs->hasNodeIndex(p);
    oc = vrt::capture([&] { s.obs->associateNode(p, id); });
    CHK(oc.returned(), "copy.outcome", "associateNode (back) on the source " + oc.text());
    if (hadIdx && !keptIdx) s.a.nIdx.erase(p);
  }
  cp.reset();
  return true;
}

bool probeAssign(World& w, Slot& s, bool alreadyCopy)
{
  shared_ptr<GlobalGraph> oldGraph;
  Id oldNode = 0;
  {
    unique_ptr<Obs> other;
    vector<NP> oldN;
    vector<EP> oldE;
    vrt::Outcome oc;
    if (alreadyCopy)
    {
      oc = vrt::capture([&] { other.reset(new Obs(*s.obs)); });
      CHK(oc.returned(), "copy.outcome", "copying the observer " + oc.text());
      for (auto& kv : s.a.nObj) { NP c = other->getNodeFromGraphid(kv.first); if (c) oldN.push_back(c); }
      for (auto& kv : s.a.eObj) { EP c = other->getEdgeFromGraphid(kv.first); if (c) oldE.push_back(c); }
    }
    else
    {
      // an observer with its own graph and content
      other.reset(new Obs(!w.g.directed));
      oldGraph = other->getGraph();
      NP x(new NObj(w.nextTag++)), y(new NObj(w.nextTag++));
      EP z(new EObj(w.nextTag++));
      oc = vrt::capture([&] { other->createNode(x); other->createNode(x, y, z); other->setNodeIndex(x, 6); other->addNodeIndex(y); other->setEdgeIndex(z, 5); oldNode = other->getNodeGraphid(y); });
      CHK(oc.returned(), "copy.outcome", "building a two-node observer " + oc.text());
      oldN = { x, y };
      oldE = { z };
    }
    oc = vrt::capture([&] { *other = *s.obs; });
    CHK(oc.returned(), "copy.assign-outcome", "assigning the observer " + oc.text());
    if (other->getGraph() != w.graph) { vrt::tally("copy-does-not-share-graph"); return true; }
    AModel ca;
    if (!cloneModel(s.a, *other, ca)) return false;
    // what the target held before is forgotten
    for (auto& p : oldN) ca.poolN.push_back(p);
    for (auto& p : oldE) ca.poolE.push_back(p);
    ca.maxIdxN = max<long>(ca.maxIdxN, 6);
    ca.maxIdxE = max<long>(ca.maxIdxE, 5);
    if (!auditObs(*other, ca, w.g, "assigned")) return false;
    if (!scribble(w, *other, ca)) return false;
    if (!auditObs(*other, ca, w.g, "assigned")) return false;
    if (!auditObs(*s.obs, s.a, w.g, s.name.empty() ? "source-after-copy-changed" : s.name)) return false;
  }
  // the former graph of the (now destroyed) target must not keep it as an observer: a notifying operation on it
  if (oldGraph)
  {
    vrt::Outcome oc = vrt::capture([&] { oldGraph->deleteNode(oldNode); });
    CHK(oc.returned(), "copy.assign-outcome", "deleteNode on the graph the assigned observer used to follow " + oc.text());
  }
  return true;
}

// ------------------------------------------------------------------ operation enumeration
vector<Op> listOps(const World& w, int tgt)
{
  const Slot& s = w.obs[tgt];
  const AModel& a = s.a;
  const GModel& g = w.g;
  const Config& cfg = w.cfg;
  vector<Op> ops;
  auto add = [&](int kind, int na, int nb, int e, int sel, int eobj, unsigned v) {
      Op o(kind); o.a = na; o.b = nb; o.e = e; o.sel = sel; o.eobj = eobj; o.v = v; o.tgt = tgt; ops.push_back(o);
    };
  int nN = static_cast<int>(g.nodes.size()), nE = static_cast<int>(g.edges.size());
  vector<int> withObj, withoutObj; // node ranks
  for (int r = 0; r < nN; ++r) (a.objN(g.nodeAt(r)) ? withObj : withoutObj).push_back(r);
  vector<int> eWith, eWithout;
  for (int r = 0; r < nE; ++r) (a.objE(g.edgeAt(r)) ? eWith : eWithout).push_back(r);
  bool room = nN < cfg.maxNodes;
  int eo = cfg.edgeObj ? 1 : 0;
  bool anyEObj = !a.eObj.empty();

  if (room) add(O_CREATE, 0, 0, 0, 0, 0, 0);
  if (!withObj.empty()) add(O_CREATE, 0, 0, 0, 1, 0, 0);
  if (room)
  {
    for (int r : withObj) add(O_CREATE_FROM, r, 0, 0, 0, eo, 0);
    add(O_CREATE_FROM, ABSENT, 0, 0, 0, eo, 0);
    if (!withObj.empty()) add(O_CREATE_FROM, withObj[0], 0, 0, 1, eo, 0);
    if (!withObj.empty() && cfg.edgeObj && anyEObj) add(O_CREATE_FROM, withObj[0], 0, 0, 0, 2, 0);
  }
  for (int x : withObj)
    for (int y : withObj) { add(O_LINK, x, y, 0, 0, eo, 0); add(O_UNLINK, x, y, 0, 0, 0, 0); }
  if (!withObj.empty())
  {
    add(O_LINK, ABSENT, withObj[0], 0, 0, eo, 0);
    add(O_LINK, withObj[0], ABSENT, 0, 0, eo, 0);
    add(O_UNLINK, ABSENT, withObj[0], 0, 0, 0, 0);
    add(O_UNLINK, withObj[0], ABSENT, 0, 0, 0, 0);
    if (cfg.edgeObj && anyEObj) add(O_LINK, withObj[0], withObj.back(), 0, 0, 2, 0);
  }
  for (int r : withObj) { add(O_DELETE, r, 0, 0, 0, 0, 0); add(O_DISSOC_N, r, 0, 0, 0, 0, 0); }
  add(O_DELETE, ABSENT, 0, 0, 0, 0, 0);
  add(O_DISSOC_N, ABSENT, 0, 0, 0, 0, 0);
  for (int r : withoutObj) add(O_ASSOC_N, r, 0, 0, 0, 0, 0);
  add(O_ASSOC_N, ABSENT, 0, 0, 0, 0, 0);
  if (!g.nodes.empty() && g.absentNode(1) != g.absentNode(0)) add(O_ASSOC_N, ABSENT2, 0, 0, 0, 0, 0);
  if (!withObj.empty()) { add(O_ASSOC_N, withObj[0], 0, 0, 0, 0, 0); add(O_ASSOC_N, withObj.back(), 0, 0, 1, 0, 0); }
  if (cfg.edgeObj)
  {
    for (int r : eWithout) add(O_ASSOC_E, 0, 0, r, 0, 0, 0);
    add(O_ASSOC_E, 0, 0, ABSENT, 0, 0, 0);
    if (!eWith.empty()) { add(O_ASSOC_E, 0, 0, eWith[0], 0, 0, 0); add(O_ASSOC_E, 0, 0, eWith.back(), 1, 0, 0); }
    for (int r : eWith) add(O_DISSOC_E, 0, 0, r, 0, 0, 0);
    add(O_DISSOC_E, 0, 0, ABSENT, 0, 0, 0);
    // setEdgeLinking: every ordered pair of associated nodes joined by an edge; one pair that is not joined; absent node
    bool notLinkedDone = false;
    for (int x : withObj)
      for (int y : withObj)
      {
        vector<Id> le = g.linkE(g.nodeAt(x), g.nodeAt(y));
        if (!le.empty()) add(O_SET_LINKING, x, y, 0, 0, 0, 0);
        else if (!notLinkedDone) { add(O_SET_LINKING, x, y, 0, 0, 0, 0); notLinkedDone = true; }
      }
    if (!withObj.empty()) add(O_SET_LINKING, withObj[0], ABSENT, 0, 0, 0, 0);
  }
  if (cfg.indexMode == 1 || cfg.indexMode == 3)
  {
    for (int r : withObj) for (unsigned v : { 0u, 2u }) add(O_SET_NIDX, r, 0, 0, 0, 0, v);
    if (cfg.edgeObj) for (int r : eWith) for (unsigned v : { 0u, 2u }) add(O_SET_EIDX, 0, 0, r, 0, 0, v);
  }
  if (cfg.indexMode == 2 || cfg.indexMode == 3)
  {
    for (int r : withObj) add(O_ADD_NIDX, r, 0, 0, 0, 0, 0);
    if (cfg.edgeObj) for (int r : eWith) add(O_ADD_EIDX, 0, 0, r, 0, 0, 0);
  }
  if (tgt == 0)
  {
    if (room) add(G_CREATE, 0, 0, 0, 0, 0, 0);
    if (room) { for (int r = 0; r < nN; ++r) add(G_FROM_NODE, r, 0, 0, 0, 0, 0); add(G_FROM_NODE, ABSENT, 0, 0, 0, 0, 0); if (!g.nodes.empty() && g.absentNode(1) != g.absentNode(0)) add(G_FROM_NODE, ABSENT2, 0, 0, 0, 0, 0); }
    if (room) { for (int r = 0; r < nE; ++r) add(G_ON_EDGE, 0, 0, r, 0, 0, 0); add(G_ON_EDGE, 0, 0, ABSENT, 0, 0, 0); }
    if (nN + 2 <= cfg.maxNodes) { for (int r = 0; r < nE; ++r) add(G_FROM_EDGE, 0, 0, r, 0, 0, 0); add(G_FROM_EDGE, 0, 0, ABSENT, 0, 0, 0); }
    for (int r = 0; r < nN; ++r) add(G_DELETE, r, 0, 0, 0, 0, 0);
    add(G_DELETE, ABSENT, 0, 0, 0, 0, 0);
    if (!g.nodes.empty() && g.absentNode(1) != g.absentNode(0)) add(G_DELETE, ABSENT2, 0, 0, 0, 0, 0);
    add(G_MK_DIRECTED, 0, 0, 0, 0, 0, 0);
    add(G_MK_UNDIRECTED, 0, 0, 0, 0, 0, 0);
  }
  add(P_COPY, 0, 0, 0, 0, 0, 0);
  add(P_COPY, 0, 0, 0, 1, 0, 0);
  add(P_ASSIGN, 0, 0, 0, 0, 0, 0);
  add(P_ASSIGN, 0, 0, 0, 1, 0, 0);
  return ops;
}

// canonical form of the (audited) state: ids replaced by ranks, objects by "has object", plus what decides the
// relation of an id/index to the sizes of the observer's internal tables
string stateKey(const World& w)
{
  const GModel& g = w.g;
  const AModel& a = w.obs[0].a;
  string k = g.directed ? "D" : "U";
  for (Id n : g.nodes)
  {
    NP p = a.objN(n);
    k += p ? 'o' : '-';
    if (p) { auto ix = a.nIdx.find(p); k += ix == a.nIdx.end() ? string("_") : str(ix->second); }
    k += static_cast<long>(n) <= a.maxAssocN ? '<' : static_cast<long>(n) == a.maxAssocN + 1 ? '=' : '>';
  }
  k += '|';
  for (auto& e : g.edges)
  {
    EP p = a.objE(e.first);
    k += str(g.rankOfNode(e.second.first)) + str(g.rankOfNode(e.second.second));
    k += p ? 'o' : '-';
    if (p) { auto ix = a.eIdx.find(p); k += ix == a.eIdx.end() ? string("_") : str(ix->second); }
    k += static_cast<long>(e.first) <= a.maxAssocE ? '<' : static_cast<long>(e.first) == a.maxAssocE + 1 ? '=' : '>';
  }
  k += '|';
  // indices still held by objects that are no longer associated
  vector<unsigned> fn, fe;
  for (auto& kv : a.nIdx) if (!a.hasN(kv.first)) fn.push_back(kv.second);
  for (auto& kv : a.eIdx) if (!a.hasE(kv.first)) fe.push_back(kv.second);
  sort(fn.begin(), fn.end());
  sort(fe.begin(), fe.end());
  for (unsigned v : fn) k += str(v) + ",";
  k += '|';
  for (unsigned v : fe) k += str(v) + ",";
  k += '|' + str(a.maxIdxN) + "," + str(a.maxIdxE);
  // gaps in the id sequences matter for "deleted id" probes
  k += (!g.nodes.empty() && g.absentNode(1) != g.absentNode(0)) ? "h" : "";
  k += (!g.edges.empty() && g.absentEdge(1) != g.absentEdge(0)) ? "H" : "";
  return k;
}

void initWorld(World& w, const Config& cfg)
{
  w = World();
  w.cfg = cfg;
  Slot s;
  s.obs.reset(new Obs(cfg.directed));
  w.graph = s.obs->getGraph();
  w.g.directed = cfg.directed;
  w.obs.push_back(std::move(s));
}

// ------------------------------------------------------------------ exhaustive exploration
const int PREFIX_DEPTH = 2;      // states first reached after PREFIX_DEPTH calls are distributed over the cases
const int FRONTIER_SLOTS = 24;   // cases reserved per configuration (>= measured number of such states, checked)

Config exhaustiveConfig(size_t i)
{
  Config c;
  c.directed = (i % 2) == 1;
  c.edgeObj = ((i / 2) % 2) == 1;
  c.indexMode = static_cast<int>((i / 4) % 3);
  c.maxNodes = 4;
  return c;
}
const size_t N_EXH_CONFIGS = 12;

bool isIndexOp(int k) { return k == O_SET_NIDX || k == O_ADD_NIDX || k == O_SET_EIDX || k == O_ADD_EIDX; }

bool replay(World& w, const Config& cfg, const vector<Op>& ops)
{
  initWorld(w, cfg);
  C->hist = cfg.text() + ":";
  for (auto& op : ops)
    if (!applyOp(w, op, false)) return false;
  return true;
}

void caseExhaustive(vrt::Case& c)
{
  Ctx ctx;
  C = &ctx;
  // index -> (configuration, state slot); the low slots (the ones that exist) alternate with high (empty) ones and the
  // configurations are interleaved, so that every chunk of consecutive indices carries a similar load
  size_t ci = c.index % N_EXH_CONFIGS, s2 = c.index / N_EXH_CONFIGS;
  size_t slot = (s2 % 2 == 0) ? s2 / 2 : FRONTIER_SLOTS / 2 + s2 / 2;
  Config cfg = exhaustiveConfig(ci);
  const int depth = c.tier == 1 ? 6 : (cfg.indexMode == 0 ? 5 : 4);
  gStrideMul = 4;
  vrt::describe("exhaustive:" + cfg.text(), "all call sequences up to length " + str(depth) + " continuing the state #" + str(slot) + " reached after " + str(PREFIX_DEPTH) + " calls; " + cfg.text());
  unordered_set<string> seen;
  vector<vector<Op>> cur(1), next;
  {
    World w0;
    initWorld(w0, cfg);
    C->hist = cfg.text() + ":";
    C->opClass = "initial";
    if (!auditWorld(w0)) { flushCounters(); return; }
    seen.insert(stateKey(w0));
  }
  vrt::u64 expansions = 0, states = 0;
  for (int d = 1; d <= depth && !cur.empty(); ++d)
  {
    if (d == PREFIX_DEPTH + 1)
    {
      if (slot == 0) vrt::tally("exhaustive.frontier-states." + cfg.text(), cur.size());
      if (cur.size() > static_cast<size_t>(FRONTIER_SLOTS))
      {
        if (slot == 0) vrt::violation("harness.frontier-overflow", cfg.text(), str(cur.size()) + " states after " + str(PREFIX_DEPTH) + " calls but only " + str(FRONTIER_SLOTS) + " cases reserved");
        cur.resize(FRONTIER_SLOTS);
      }
      if (slot >= cur.size()) { cur.clear(); break; }
      vector<Op> mine = cur[slot];
      cur.assign(1, mine);
    }
    next.clear();
    for (auto& seq : cur)
    {
      World w;
      if (!replay(w, cfg, seq)) continue;
      vector<Op> ops = listOps(w, 0);
      bool seqHasIndexOp = false;
      for (auto& o : seq) if (isIndexOp(o.kind)) seqHasIndexOp = true;
      for (auto& op : ops)
      {
        // a sequence without any index call is the same sequence in the index-free configuration: explored there
        if (cfg.indexMode != 0 && d == depth && !seqHasIndexOp && !isIndexOp(op.kind)) continue;
        // the copy/assignment probes leave the state unchanged: one flavour of each per state, alternating with the depth
        if (op.kind == P_COPY && op.sel != d % 2) continue;
        if (op.kind == P_ASSIGN && op.sel != (d + 1) % 2) continue;
        World w2;
        if (!replay(w2, cfg, seq)) break;
        ++expansions;
        bool ok = applyOp(w2, op, true);
        vrt::cover(C->opClass);
        if (!ok)
        {
          if (vrt::violationsInCase() >= 10) { vrt::tally("exhaustive.expansions", expansions); vrt::tally("exhaustive.new-states", states); flushCounters(); return; }
          continue;
        }
        if (seen.insert(stateKey(w2)).second)
        {
          if (d > PREFIX_DEPTH) ++states;
          else if (slot == 0) vrt::tally("exhaustive.prefix-states");
          if (d < depth) { next.push_back(seq); next.back().push_back(op); }
        }
      }
    }
    cur.swap(next);
  }
  vrt::tally("exhaustive.expansions", expansions);
  vrt::tally("exhaustive.new-states", states);
  flushCounters();
}

// ------------------------------------------------------------------ random histories
void caseRandom(vrt::Case& c)
{
  Ctx ctx;
  C = &ctx;
  Config cfg;
  cfg.directed = c.rng.chance(0.5);
  cfg.edgeObj = c.rng.chance(0.7);
  cfg.indexMode = static_cast<int>(c.rng.below(4));
  cfg.maxNodes = c.rng.chance(0.7) ? 8 : static_cast<int>(c.rng.range(3, 7));
  const size_t len = 40;
  gStrideMul = 1;
  vrt::describe("random:" + cfg.text(), "random history of " + str(len) + " calls; " + cfg.text());
  static const double weight[KIND_COUNT] = { 6, 8, 12, 6, 3, 3, 2, 3, 2, 3, 3, 3, 3, 3, 3, 4, 3, 2, 3, 2, 2, 0.7, 0.7, 1.5, 1 };
  World w;
  initWorld(w, cfg);
  C->hist = cfg.text() + ":";
  gSteps = true;
  for (size_t stepNo = 0; stepNo < len; ++stepNo)
  {
    int tgt = (w.obs.size() > 1 && c.rng.chance(0.35)) ? 1 : 0;
    vector<Op> ops = listOps(w, tgt);
    if (w.obs.size() == 1) { Op o(S_SPAWN); o.sel = c.rng.chance(0.3) ? 1 : 0; ops.push_back(o); }
    else { ops.push_back(Op(S_KILL)); }
    double total = 0;
    bool present[KIND_COUNT] = { false };
    for (auto& o : ops) present[o.kind] = true;
    for (int k = 0; k < KIND_COUNT; ++k) if (present[k]) total += weight[k];
    double x = c.rng.unit() * total;
    int kind = -1;
    for (int k = 0; k < KIND_COUNT; ++k) if (present[k]) { kind = k; if (x < weight[k]) break; x -= weight[k]; }
    vector<Op> ofKind;
    for (auto& o : ops) if (o.kind == kind) ofKind.push_back(o);
    Op op = ofKind[c.rng.below(ofKind.size())];
    if (op.kind == O_SET_NIDX || op.kind == O_SET_EIDX) op.v = static_cast<unsigned>(c.rng.below(7));
    bool ok = applyOp(w, op, true);
    vrt::cover(C->opClass + (w.obs.size() > 1 ? "+shadow" : ""));
    if (!ok) break;
  }
  gSteps = false;
  flushCounters();
}
} // namespace

int main(int argc, char** argv)
{
  vector<vrt::Group> groups = {
    { "exhaustive", N_EXH_CONFIGS * FRONTIER_SLOTS, N_EXH_CONFIGS * FRONTIER_SLOTS, caseExhaustive, 7200, true },
    { "random", 2500, 40000, caseRandom, 600, false },
  };
  vrt::Meta meta;
  meta.rule = "exhaustive: for each of 12 configurations (initially directed/undirected x links with/without edge objects x no/explicit/allocated indices) a breadth-first "
      "exploration of ALL sequences of public calls (observer: createNode both forms, link, unlink, deleteNode, associate*/dissociate*, setEdgeLinking, set*/add*Index, "
      "copy-construct/clone/assign probes; graph: createNode, createNodeFromNode, createNodeOnEdge, createNodeFromEdge, deleteNode, makeDirected, makeUndirected; every call "
      "also with absent/deleted/duplicate arguments that must raise) over at most 4 nodes, up to length 6 (thorough; quick: 5 for the configurations without indices, 4 for the others), memoised on the canonical form of the audited "
      "state (ids replaced by ranks; see stateKey); the states first reached after 2 calls are distributed over the cases, each case explores everything behind one of them "
      "(memo per case). In the configurations with indices a last call is only added to sequences that contain an index call (the others are literally the sequences of the "
      "index-free configuration); the copy-construct/clone and assign/re-assign probes (which leave the state unchanged) alternate with the depth, one flavour of each per state. "
      "random: histories of 40 calls over at most 8 nodes with a second observer (a live copy sharing the graph) spawned and destroyed at random moments. "
      "A class key = operation kind + argument class (new/absent/duplicate/loop/...) + graph mode; all keys are real calls on the structure.";
  meta.assumptions = {
    "behaviour depends on ids only through their order and through their relation to the highest id/index ever associated (memoisation key)",
    "after a call that raises the model is re-read from getAllNodes/getAllEdges+getNodes/hasNode/getNodeGraphid/has*Index (the statement only requires the views to agree afterwards)",
    "left open and accepted either way: a second link between linked nodes may raise or add an edge that every view lists; unlink of unlinked nodes may raise or do nothing; "
    "associating an item that already has an object may raise or replace; dissociate* may keep or drop the object's index; multiplicity of a neighbour in getNeighbors/getDegree "
    "between distinct-neighbour and edge-end counting; getAllLeaves in a directed graph: isLeaf nodes or son-less nodes; getAllInnerNodes any documented reading; getNode(unused index) null or any exception",
    "getLeavesFromNode is judged on tree-shaped components only",
    "isTree/isDA/orientate/root handling belong to C15 and are not judged here",
  };
  meta.requiredClauses = { "graph.getAllNodes", "graph.edge-listed-by-endpoints", "graph.edge-listed-both-directions", "graph.getNeighbors", "graph.iter.outgoingEdges", "graph.getEdge-absent",
                           "graph.absent-node-raises", "obs.getNodeFromGraphid", "obs.hasNode", "obs.getNode(index)", "obs.getNodes", "obs.getEdgeLinking", "obs.iter.allNodes",
                           "obs.absent-object-raises", "copy.objects", "op.outcome" };
  return vrt::run(argc, argv, "C14", groups, meta);
}
