// C12 - Numerical derivatives are transparent and exact on low-degree polynomials.
//
// The wrapped function is a harness test double: a random polynomial (total degree 0..5, 1..4 variables, optional
// box constraints on its parameters, analytic first/second derivatives cached at every parameter change the way
// likelihood functions cache them, i.e. only while the corresponding flag is enabled) that LOGS every point at which
// it is evaluated.  A Two/Three/FivePointsNumericalDerivative wraps it; a history of updates through all entry points
// is executed and after each one the monitor compares
//   - the wrapped function's parameters with the requested point (bitwise) and the wrapper's value with the polynomial there,
//   - every selected variable's first/second (three points: cross) derivative with the analytic one, within
//     (Taylor remainder of the scheme, 0 when the polynomial is of a degree the scheme differentiates exactly) + rounding,
//   - derivatives of non-selected variables with what the wrapped function provides.
// A separate group measures the convergence order by a ratio test over three steps.
#include "vrt.h"

#include <Bpp/Numeric/AbstractParametrizable.h>
#include <Bpp/Numeric/Function/FivePointsNumericalDerivative.h>
#include <Bpp/Numeric/Function/Functions.h>
#include <Bpp/Numeric/Function/ThreePointsNumericalDerivative.h>
#include <Bpp/Numeric/Function/TwoPointsNumericalDerivative.h>

#include <algorithm>
#include <array>
#include <memory>

using namespace bpp;
using namespace std;
using vrt::str;

namespace
{
const double INF = numeric_limits<double>::infinity();
const double EPS = numeric_limits<double>::epsilon();
const size_t MAXV = 4;
typedef array<int, MAXV> Expo;

// ------------------------------------------------------------------------------------------------
// polynomial: sum_t c_t prod_i x_i^{a_t,i}
// ------------------------------------------------------------------------------------------------
double ipow(double x, int k) { double r = 1; for (int i = 0; i < k; ++i) r *= x; return r; }
double falling(int a, int b) { double r = 1; for (int i = 0; i < b; ++i) r *= (a - i); return r; } // a(a-1)...(a-b+1), 0 when b>a

struct PolyN
{
  size_t n;
  vector<Expo> a;
  vector<double> c;

  int degree() const
  {
    int d = 0;
    for (const Expo& e : a) { int s = 0; for (size_t i = 0; i < n; ++i) s += e[i]; d = max(d, s); }
    return d;
  }
  int degreeIn(size_t v) const { int d = 0; for (const Expo& e : a) d = max(d, e[v]); return d; }
  // partial derivative of multi-order beta at x
  double partial(const Expo& beta, const vector<double>& x) const
  {
    double s = 0;
    for (size_t t = 0; t < a.size(); ++t)
    {
      double m = c[t];
      for (size_t i = 0; i < n && m != 0; ++i)
      {
        if (beta[i] > a[t][i]) { m = 0; break; }
        m *= falling(a[t][i], beta[i]) * ipow(x[i], a[t][i] - beta[i]);
      }
      s += m;
    }
    return s;
  }
  double eval(const vector<double>& x) const { Expo z{}; return partial(z, x); }
  // upper bound of |partial beta| over the box |x_i| <= X_i (sum of absolute values of the terms)
  double absBound(const Expo& beta, const vector<double>& X) const
  {
    double s = 0;
    for (size_t t = 0; t < a.size(); ++t)
    {
      double m = fabs(c[t]);
      for (size_t i = 0; i < n && m != 0; ++i)
      {
        if (beta[i] > a[t][i]) { m = 0; break; }
        m *= falling(a[t][i], beta[i]) * ipow(X[i], a[t][i] - beta[i]);
      }
      s += m;
    }
    return s;
  }
  string text() const
  {
    string s;
    for (size_t t = 0; t < a.size(); ++t)
    {
      s += (t ? " + " : "") + str(c[t]);
      for (size_t i = 0; i < n; ++i) if (a[t][i]) s += "*v" + str(i) + (a[t][i] > 1 ? "^" + str(a[t][i]) : "");
    }
    return s.empty() ? "0" : s;
  }
};

Expo unit(size_t v, int k) { Expo e{}; e[v] = k; return e; }
Expo unit2(size_t v, int k, size_t w, int l) { Expo e{}; e[v] += k; e[w] += l; return e; }

struct Box
{
  double lo, hi;       // +-inf when absent
  bool loClosed, hiClosed;
  bool constrained() const { return std::isfinite(lo) || std::isfinite(hi); }
  bool contains(double x) const
  {
    return (std::isinf(lo) || (loClosed ? x >= lo : x > lo)) && (std::isinf(hi) || (hiClosed ? x <= hi : x < hi));
  }
  string text() const
  {
    if (!constrained()) return "free";
    return string(loClosed ? "[" : "]") + (std::isfinite(lo) ? str(lo) : "-inf") + ";" + (std::isfinite(hi) ? str(hi) : "+inf") + (hiClosed ? "]" : "[");
  }
  double distToBound(double x) const { return min(std::isfinite(lo) ? x - lo : INF, std::isfinite(hi) ? hi - x : INF); }
};

// ------------------------------------------------------------------------------------------------
// the wrapped function (test double)
// ------------------------------------------------------------------------------------------------
class LoggedPoly :
  public virtual SecondOrderDerivable,
  public AbstractParametrizable
{
public:
  PolyN poly;
  mutable vector<vector<double>> log; // every evaluation point
  bool d1on, d2on;
  vector<double> d1cache;           // analytic derivatives at the last parameter change seen with the flag enabled
  vector<double> d2cache;           // n*n
  size_t fired;

  LoggedPoly(const PolyN& p, const vector<Box>& boxes, const vector<double>& x0) :
    AbstractParametrizable(""), poly(p), log(), d1on(true), d2on(true), d1cache(p.n, 0), d2cache(p.n * p.n, 0), fired(0)
  {
    for (size_t i = 0; i < p.n; ++i)
    {
      if (boxes[i].constrained())
        addParameter_(new Parameter("v" + str(i), x0[i], make_shared<IntervalConstraint>(boxes[i].lo, boxes[i].hi, boxes[i].loClosed, boxes[i].hiClosed)));
      else
        addParameter_(new Parameter("v" + str(i), x0[i]));
    }
    fireParameterChanged(getParameters());
  }
  LoggedPoly* clone() const override { return new LoggedPoly(*this); }

  vector<double> point() const
  {
    vector<double> v(poly.n);
    for (size_t i = 0; i < poly.n; ++i) v[i] = getParameters()[i].getValue();
    return v;
  }
  size_t indexOf(const string& name) const
  {
    for (size_t i = 0; i < poly.n; ++i) if (getParameters()[i].getName() == name) return i;
    throw Exception("LoggedPoly: no parameter " + name);
  }
  void setParameters(const ParameterList& pl) override { matchParametersValues(pl); }
  double getValue() const override
  {
    vector<double> x = point();
    log.push_back(x);
    return poly.eval(x);
  }
  void fireParameterChanged(const ParameterList&) override
  {
    ++fired;
    vector<double> x = point();
    if (d1on)
      for (size_t i = 0; i < poly.n; ++i) d1cache[i] = poly.partial(unit(i, 1), x);
    if (d2on)
      for (size_t i = 0; i < poly.n; ++i)
        for (size_t j = 0; j < poly.n; ++j) d2cache[i * poly.n + j] = poly.partial(unit2(i, 1, j, 1), x);
  }
  void enableFirstOrderDerivatives(bool yn) override { d1on = yn; }
  bool enableFirstOrderDerivatives() const override { return d1on; }
  void enableSecondOrderDerivatives(bool yn) override { d2on = yn; }
  bool enableSecondOrderDerivatives() const override { return d2on; }
  double getFirstOrderDerivative(const string& v) const override
  {
    if (!d1on) throw Exception("LoggedPoly: first order derivatives are not computed");
    return d1cache[indexOf(v)];
  }
  double getSecondOrderDerivative(const string& v) const override
  {
    if (!d2on) throw Exception("LoggedPoly: second order derivatives are not computed");
    size_t i = indexOf(v);
    return d2cache[i * poly.n + i];
  }
  double getSecondOrderDerivative(const string& v, const string& w) const override
  {
    if (!d2on) throw Exception("LoggedPoly: second order derivatives are not computed");
    return d2cache[indexOf(v) * poly.n + indexOf(w)];
  }
};

// ------------------------------------------------------------------------------------------------
// generators
// ------------------------------------------------------------------------------------------------
PolyN drawPoly(vrt::Rng& rng, size_t n, int degree)
{
  PolyN p;
  p.n = n;
  size_t nterms = degree == 0 ? 1 : 2 + rng.below(3 + 2 * n);
  for (size_t t = 0; t < nterms; ++t)
  {
    Expo e{};
    int d = (t == 0) ? degree : static_cast<int>(rng.range(0, degree)); // the first term has the full degree
    // distribute d over the variables; often on one or two of them
    for (int k = 0; k < d; ++k)
    {
      size_t v = rng.below(n);
      if (k > 0 && rng.chance(0.5)) { for (size_t i = 0; i < n; ++i) if (e[i]) { v = i; break; } }
      e[v]++;
    }
    double c = rng.real(-2, 2);
    if (fabs(c) < 0.05) c = 0.5;
    if (rng.chance(0.3)) { c = floor(c * 2 + 0.5) / 2; if (c == 0) c = 1; } // round coefficients: exactly representable monomials
    p.a.push_back(e);
    p.c.push_back(c);
  }
  return p;
}

Box drawBox(vrt::Rng& rng)
{
  Box b;
  b.lo = -INF; b.hi = INF; b.loClosed = b.hiClosed = false;
  int k = static_cast<int>(rng.below(10));
  if (k < 3) return b; // free
  double lo = rng.chance(0.3) ? static_cast<double>(rng.range(-3, 0)) : rng.real(-3, 0);
  double w = rng.chance(0.3) ? static_cast<double>(rng.range(2, 5)) : rng.real(2, 5);
  if (k == 3) { b.lo = lo; b.loClosed = rng.chance(0.6); return b; }          // half line
  if (k == 4) { b.hi = lo + w; b.hiClosed = rng.chance(0.6); return b; }
  b.lo = lo;
  b.hi = lo + w;
  b.loClosed = rng.chance(0.7);
  b.hiClosed = rng.chance(0.7);
  return b;
}

// a coordinate inside the box: interior, on a closed bound, or next to a bound at a distance comparable with the step
double drawCoord(vrt::Rng& rng, const Box& b, double h, string* kind = nullptr)
{
  auto interior = [&]() {
      double lo = std::isfinite(b.lo) ? b.lo : (std::isfinite(b.hi) ? b.hi - 6 : -4);
      double hi = std::isfinite(b.hi) ? b.hi : (std::isfinite(b.lo) ? b.lo + 6 : 4);
      double m = 0.2 * (hi - lo);
      if (kind) *kind = "interior";
      return rng.real(lo + m, hi - m);
    };
  if (!b.constrained() || rng.chance(0.45)) return interior();
  bool upper = std::isfinite(b.hi) && (!std::isfinite(b.lo) || rng.chance(0.5));
  double bound = upper ? b.hi : b.lo;
  bool closed = upper ? b.hiClosed : b.loClosed;
  double hb = (1 + fabs(bound)) * h;
  static const vector<double> fr = { 0, 1e-6, 1e-3, 0.3, 0.7, 0.999, 1.0, 1.001, 1.5, 1.999, 2.0, 2.001, 2.6 };
  double d = rng.pick(fr) * hb;
  if (rng.chance(0.2)) d = rng.real(0, 2.5) * hb;
  if (!closed && d < 1e-9) d = 1e-9;
  double x = upper ? bound - d : bound + d;
  if (!b.contains(x)) x = upper ? nextafter(bound, -INF) : nextafter(bound, INF);
  if (!b.contains(x)) return interior();
  if (kind) *kind = d == 0 ? "on-bound" : "next-to-bound";
  return x;
}

enum Scheme { TWO = 2, THREE = 3, FIVE = 5 };
enum FType { PLAIN = 0, FIRST, SECOND };
const char* ftypeName(int f) { return f == PLAIN ? "function" : f == FIRST ? "first-order-function" : "second-order-function"; }

shared_ptr<AbstractNumericalDerivative> makeND(int scheme, int ftype, const shared_ptr<LoggedPoly>& F)
{
  shared_ptr<FunctionInterface> f0 = F;
  shared_ptr<FirstOrderDerivable> f1 = F;
  shared_ptr<SecondOrderDerivable> f2 = F;
  switch (scheme)
  {
  case TWO:
    if (ftype == PLAIN) return make_shared<TwoPointsNumericalDerivative>(f0);
    return make_shared<TwoPointsNumericalDerivative>(f1);
  case THREE:
    if (ftype == PLAIN) return make_shared<ThreePointsNumericalDerivative>(f0);
    if (ftype == FIRST) return make_shared<ThreePointsNumericalDerivative>(f1);
    return make_shared<ThreePointsNumericalDerivative>(f2);
  default:
    if (ftype == PLAIN) return make_shared<FivePointsNumericalDerivative>(f0);
    if (ftype == FIRST) return make_shared<FivePointsNumericalDerivative>(f1);
    return make_shared<FivePointsNumericalDerivative>(f2);
  }
}

enum Entry { SET = 0, SETALL, SETONE, SETVALUES, MATCH, FCALL, NENTRY };
const char* entryName(int e)
{
  static const char* n[] = { "setParameters", "setAllParametersValues", "setParameterValue", "setParametersValues", "matchParametersValues", "f" };
  return n[e];
}

// ------------------------------------------------------------------------------------------------
// tolerances
// ------------------------------------------------------------------------------------------------
struct Tol
{
  double trunc, round;
  double total() const { return trunc + round; }
};

// |x_i| bound over every stencil of the scheme around x
vector<double> hull(const vector<double>& x, double h)
{
  vector<double> X(x.size());
  for (size_t i = 0; i < x.size(); ++i) X[i] = fabs(x[i]) + 2.05 * (1 + fabs(x[i])) * h;
  return X;
}

// the step used for variable value x
double stepOf(double x, double h) { return (1 + fabs(x)) * h; }

// is a central stencil of the scheme guaranteed to fit next to the bounds?
bool centralFits(int scheme, const Box& b, double x, double h)
{
  double r = (scheme == FIVE ? 2.0 : 1.0) * stepOf(x, h) * 1.0001 + 4 * EPS * (1 + fabs(x));
  return b.distToBound(x) > r;
}

Tol tolFirst(int scheme, const PolyN& p, const vector<double>& x, size_t v, double h, bool central)
{
  vector<double> X = hull(x, h);
  double hv = stepOf(x[v], h);
  double S = p.absBound(Expo{}, X);
  Tol t;
  double B2 = p.absBound(unit(v, 2), X), B3 = p.absBound(unit(v, 3), X), B5 = p.absBound(unit(v, 5), X);
  if (scheme == TWO) t.trunc = hv / 2 * B2;
  else if (scheme == THREE) t.trunc = central ? hv * hv / 6 * B3 : hv * B2 + hv * hv / 6 * B3;
  else t.trunc = central ? ipow(hv, 4) / 30 * B5 : hv * B2 + ipow(hv, 4) / 30 * B5;
  t.trunc *= 2;
  t.round = (central && scheme != TWO ? 128 : 1024) * EPS * S / hv; // one-sided estimates may use a halved step
  return t;
}

Tol tolSecond(int scheme, const PolyN& p, const vector<double>& x, size_t v, double h, bool central)
{
  vector<double> X = hull(x, h);
  double hv = stepOf(x[v], h);
  double S = p.absBound(Expo{}, X);
  Tol t;
  double B3 = p.absBound(unit(v, 3), X), B4 = p.absBound(unit(v, 4), X), B6 = p.absBound(unit(v, 6), X);
  if (scheme == THREE) t.trunc = central ? hv * hv / 12 * B4 : hv * B3 + hv * hv / 12 * B4;
  else t.trunc = central ? ipow(hv, 4) / 90 * B6 : 2 * hv * B3 + ipow(hv, 4) / 90 * B6;
  t.trunc *= 2;
  t.round = (central ? 512 : 8192) * EPS * S / (hv * hv);
  return t;
}

Tol tolCross(const PolyN& p, const vector<double>& x, size_t v, size_t w, double h)
{
  vector<double> X = hull(x, h);
  double hv = stepOf(x[v], h), hw = stepOf(x[w], h);
  double S = p.absBound(Expo{}, X);
  Tol t;
  t.trunc = 2 * (hv * hv / 6 * p.absBound(unit2(v, 3, w, 1), X) + hw * hw / 6 * p.absBound(unit2(v, 1, w, 3), X));
  t.round = 512 * EPS * S / (hv * hw);
  return t;
}

string pointStr(const vector<double>& v) { return vrt::vecStr(v, 8); }

// ================================================================================================
// Group "history"
// ================================================================================================
void caseHistory(vrt::Case& c)
{
  vrt::Rng& rng = c.rng;
  const int schemes[3] = { TWO, THREE, FIVE };
  int scheme = schemes[c.index % 3];
  size_t n = 1 + (c.index / 3) % 4;
  int degree = static_cast<int>((c.index / 12) % 6);
  int ftype = static_cast<int>((c.index / 72) % 3);
  if (scheme == TWO && ftype == SECOND) ftype = FIRST;
  bool cross = scheme == THREE ? ((c.index / 216) % 2 == 1) : rng.chance(0.3);
  static const vector<double> steps = { 1e-2, 1e-3, 1e-4, 1e-4, 1e-5, 1e-6 };
  double h = rng.chance(0.6) ? rng.pick(steps) : rng.logReal(1e-6, 1e-2);
  bool defaultStep = rng.chance(0.1);
  if (defaultStep) h = 1e-4;

  PolyN poly = drawPoly(rng, n, degree);
  vector<Box> boxes(n);
  for (size_t i = 0; i < n; ++i) boxes[i] = drawBox(rng);
  vector<double> x0(n);
  for (size_t i = 0; i < n; ++i) x0[i] = drawCoord(rng, boxes[i], h);

  // selected variables: any subset, any order (sometimes empty)
  vector<size_t> sel;
  for (size_t i = 0; i < n; ++i) if (rng.chance(0.75)) sel.push_back(i);
  if (sel.empty() && !rng.chance(0.15)) sel.push_back(rng.below(n));
  rng.shuffle(sel);
  vector<string> selNames;
  for (size_t i : sel) selNames.push_back("v" + str(i));
  auto isSel = [&](size_t i) { return find(sel.begin(), sel.end(), i) != sel.end(); };

  string sname = str(scheme) + "pt";
  string boxtxt;
  for (size_t i = 0; i < n; ++i) boxtxt += (i ? " " : "") + string("v") + str(i) + ":" + boxes[i].text();
  string desc = sname + " h=" + str(h) + " over " + ftypeName(ftype) + " F=" + poly.text() + " boxes{" + boxtxt + "} selected=" + vrt::vecStr(selNames) + (cross ? " cross=on" : " cross=off") + " start=" + pointStr(x0);
  vrt::describe(sname + ":" + ftypeName(ftype) + (cross ? ":cross" : ""), desc);

  shared_ptr<LoggedPoly> F;
  {
    vrt::Outcome o = vrt::capture([&] { F = make_shared<LoggedPoly>(poly, boxes, x0); });
    if (!o.returned()) { vrt::counted("harness.function-construction-refused"); return; }
  }
  shared_ptr<AbstractNumericalDerivative> nd = makeND(scheme, ftype, F);
  if (!defaultStep) nd->setInterval(h);
  // Sometimes the wrapper has served another selection before (a re-used wrapper): the earlier selection must leave no
  // trace - variables it contained and the final one drops are delegated again, slots are re-assigned.
  if (rng.chance(0.4))
  {
    vector<size_t> pre;
    for (size_t i = 0; i < n; ++i) if (rng.chance(0.7)) pre.push_back(i);
    if (pre.empty()) pre.push_back(rng.below(n));
    rng.shuffle(pre);
    vector<string> preNames;
    for (size_t i : pre) preNames.push_back("v" + str(i));
    vrt::step("earlier selection setParametersToDerivate(" + vrt::vecStr(preNames) + ") + full update");
    nd->setParametersToDerivate(preNames);
    vrt::Outcome po = vrt::capture([&] { nd->setParameters(F->getParameters()); });
    (void)po; // next to a bound with cross derivatives the three-point scheme may legitimately raise
    bool drops = false;
    for (size_t i : pre) if (find(sel.begin(), sel.end(), i) == sel.end()) drops = true;
    vrt::cover(sname + ":reselect:" + (drops ? "drops-variable" : "superset-or-reorder"));
  }
  nd->setParametersToDerivate(selNames);
  nd->enableSecondOrderCrossDerivatives(cross);
  vrt::expect(nd->getInterval() == h && nd->enableSecondOrderCrossDerivatives() == cross, "configuration.kept", sname, [&] { return desc + " : getInterval() = " + str(nd->getInterval()); });

  vector<double> cur = x0; // model of the wrapped function's parameters
  size_t len = 2 + rng.below(4);
  for (size_t stepNo = 0; stepNo < len; ++stepNo)
  {
    int entry = static_cast<int>(rng.below(NENTRY));
    // which variables the update names
    vector<size_t> which;
    if (entry == SETALL) { for (size_t i = 0; i < n; ++i) which.push_back(i); rng.shuffle(which); }
    else if (entry == SETONE) which.push_back(rng.below(n));
    else
    {
      if (rng.chance(0.5)) for (size_t i = 0; i < n; ++i) which.push_back(i);
      else { for (size_t i = 0; i < n; ++i) if (rng.chance(0.5)) which.push_back(i); if (which.empty()) which.push_back(rng.below(n)); }
      rng.shuffle(which);
    }
    vector<double> target = cur;
    for (size_t i : which)
    {
      string kind;
      target[i] = rng.chance(0.1) ? cur[i] : drawCoord(rng, boxes[i], h, &kind); // sometimes the same value again
    }
    bool stripConstraints = rng.chance(0.4);
    ParameterList pl;
    string txt;
    for (size_t i : which)
    {
      if (stripConstraints) pl.addParameter(Parameter("v" + str(i), target[i]));
      else
      {
        Parameter p(F->getParameters()[i]);
        p.setValue(target[i]);
        pl.addParameter(p);
      }
      txt += (txt.empty() ? "" : ",") + string("v") + str(i) + "=" + str(target[i]);
    }
    if (entry == MATCH && rng.chance(0.3)) pl.addParameter(Parameter("unknown", 1.));
    string call = string(entryName(entry)) + "(" + txt + ")" + (stripConstraints ? " [list without constraints]" : "");
    vrt::step(call);

    F->log.clear();
    double ret = 0;
    vrt::Outcome o = vrt::capture([&] {
          switch (entry)
          {
          case SET: nd->setParameters(pl); break;
          case SETALL: nd->setAllParametersValues(pl); break;
          case SETONE: nd->setParameterValue("v" + str(which[0]), target[which[0]]); break;
          case SETVALUES: nd->setParametersValues(pl); break;
          case MATCH: nd->matchParametersValues(pl); break;
          default: ret = nd->f(pl);
          }
        });
    vrt::tally("evaluations-per-update-total", F->log.size());
    vrt::tally("updates");

    // geometry of the new point
    vector<bool> central(n);
    bool selNear = false;
    for (size_t i = 0; i < n; ++i)
    {
      central[i] = centralFits(scheme == TWO ? THREE : scheme, boxes[i], target[i], h);
      if (isSel(i) && !central[i]) selNear = true;
    }
    const string ecls = sname + ":" + entryName(entry);
    // cross derivatives next to a bound are not promised: the three-point scheme may raise the library's exception there
    bool crossMayRaise = scheme == THREE && cross && sel.size() >= 2 && selNear;
    bool raised = !o.returned();
    if (raised)
    {
      if (crossMayRaise && o.raisedBpp()) { vrt::cover(sname + ":cross-at-limit-raised"); vrt::counted("update.cross-at-limit-raise-accepted"); }
      else
      {
        vrt::expect(false, "update.returns", ecls + (selNear ? ":next-to-bound" : ":interior"), [&] { return desc + " ; " + call + " " + o.text(); });
        return;
      }
    }
    else
      vrt::expect(true, "update.returns", ecls, string());
    cur = target;

    // ---- transparency
    vector<double> now = F->point();
    bool same = true;
    for (size_t i = 0; i < n; ++i) same = same && vrt::sameDouble(now[i], cur[i]);
    string geo = selNear ? ":next-to-bound" : ":interior";
    vrt::cover(ecls + geo + (cross ? ":cross" : ""));
    if (!vrt::expect(same, "transparent.parameters", ecls + geo + (cross && scheme == THREE ? ":cross" : "") + (raised ? ":raised" : ""), [&] {
          return desc + " ; " + call + " left the wrapped function at " + pointStr(now) + " instead of " + pointStr(cur) + " (" + str(F->log.size()) + " evaluations)";
        }))
      return; // everything below would be measured at another point
    {
      // the wrapper shows the wrapped function's parameters
      bool through = nd->getNumberOfParameters() == n;
      for (size_t i = 0; through && i < n; ++i) through = vrt::sameDouble(nd->getParameterValue("v" + str(i)), cur[i]) && vrt::sameDouble(nd->getParameters()[i].getValue(), cur[i]);
      vrt::expect(through, "transparent.parameters-through-wrapper", ecls, [&] { return desc + " ; " + call + " : the wrapper's own getParameters() differ from " + pointStr(cur); });
    }
    double want = poly.eval(cur);
    double got = 0;
    vrt::Outcome og = vrt::capture([&] { got = nd->getValue(); });
    vrt::expect(og.returned() && vrt::sameDouble(got, want) && (entry != FCALL || raised || vrt::sameDouble(ret, want)), "transparent.value", ecls + geo, [&] {
          return desc + " ; " + call + " : wrapper value " + (og.returned() ? str(got) : og.text()) + (entry == FCALL ? " f() returned " + str(ret) : string()) + " but the polynomial at " + pointStr(cur) + " is " + str(want);
        });
    // probes stay inside the box (the log is the witness), and the probing pattern is recorded as coverage
    {
      bool inside = true;
      for (const vector<double>& e : F->log)
        for (size_t i = 0; i < n; ++i) inside = inside && boxes[i].contains(e[i]);
      vrt::expect(inside, "probes.inside-box", sname, [&] { return desc + " ; " + call + " evaluated the function outside its box"; });
      for (size_t i : sel)
      {
        bool left = false, right = false;
        for (const vector<double>& e : F->log) { if (e[i] < cur[i]) left = true; if (e[i] > cur[i]) right = true; }
        vrt::cover(sname + ":probes:" + (left && right ? "both-sides" : left ? "left-only" : right ? "right-only" : "none") + (central[i] ? "" : ":next-to-bound"));
      }
    }

    // ---- derivatives of the selected variables (all of them: the point is the whole parameter vector)
    for (size_t i : sel)
    {
      bool inUpdate = find(which.begin(), which.end(), i) != which.end();
      string vcls = sname + (central[i] ? ":central" : ":next-to-bound") + (inUpdate ? "" : ":variable-not-in-update");
      string vname = "v" + str(i);
      double d1 = 0;
      vrt::Outcome o1 = vrt::capture([&] { d1 = nd->getFirstOrderDerivative(vname); });
      double a1 = poly.partial(unit(i, 1), cur);
      Tol t1 = tolFirst(scheme, poly, cur, i, h, central[i] && scheme != TWO);
      bool exact1 = t1.trunc == 0;
      vrt::cover(sname + ":d1:" + (exact1 ? "exact" : "truncated") + (central[i] ? ":central" : ":next-to-bound") + ":deg" + str(poly.degreeIn(i)));
      vrt::expect(o1.returned() && std::isfinite(d1) && fabs(d1 - a1) <= t1.total(), exact1 ? "derivative.first-exact" : "derivative.first-converges", vcls, [&] {
            return desc + " ; " + call + " : d/d" + vname + " = " + (o1.returned() ? str(d1) : o1.text()) + " analytic " + str(a1) + " (error " + str(d1 - a1) + ", allowed truncation " + str(t1.trunc) + " + rounding " + str(t1.round) + ")";
          });
      if (scheme != TWO)
      {
        double d2 = 0;
        vrt::Outcome o2 = vrt::capture([&] { d2 = nd->getSecondOrderDerivative(vname); });
        double a2 = poly.partial(unit(i, 2), cur);
        Tol t2 = tolSecond(scheme, poly, cur, i, h, central[i]);
        bool exact2 = t2.trunc == 0;
        vrt::cover(sname + ":d2:" + (exact2 ? "exact" : "truncated") + (central[i] ? ":central" : ":next-to-bound") + ":deg" + str(poly.degreeIn(i)));
        vrt::expect(o2.returned() && std::isfinite(d2) && fabs(d2 - a2) <= t2.total(), exact2 ? "derivative.second-exact" : "derivative.second-converges", vcls, [&] {
              return desc + " ; " + call + " : d2/d" + vname + "2 = " + (o2.returned() ? str(d2) : o2.text()) + " analytic " + str(a2) + " (error " + str(d2 - a2) + ", allowed truncation " + str(t2.trunc) + " + rounding " + str(t2.round) + ")";
            });
      }
      // The two-variable getter with the same variable twice is d2f/dv dv = the second derivative: the cross-derivative
      // matrix of the three-point scheme has a diagonal, whatever the number of selected variables (a single one gives a
      // 1 x 1 matrix).  Same analytic value and same allowance as the one-variable getter (one-sided next to a bound).
      if (scheme == THREE && cross && !raised)
      {
        double dd = 0;
        vrt::Outcome od = vrt::capture([&] { dd = nd->getSecondOrderDerivative(vname, vname); });
        double a2 = poly.partial(unit(i, 2), cur);
        Tol td = tolSecond(scheme, poly, cur, i, h, central[i]);
        bool exactd = td.trunc == 0;
        string ncls = sel.size() == 1 ? ":one-selected" : ":several-selected";
        vrt::cover(sname + ":cross-diagonal:" + (exactd ? "exact" : "truncated") + (central[i] ? ":central" : ":next-to-bound") + ncls);
        vrt::expect(od.returned() && std::isfinite(dd) && fabs(dd - a2) <= td.total(), exactd ? "derivative.cross-exact" : "derivative.cross-converges",
            sname + ":same-variable-twice" + ncls + (central[i] ? ":central" : ":next-to-bound") + (inUpdate ? "" : ":variable-not-in-update"), [&] {
              return desc + " ; " + call + " : d2/d" + vname + "d" + vname + " (two-variable getter) = " + (od.returned() ? str(dd) : od.text()) + " analytic d2/d" + vname + "2 " + str(a2) + " (error " + str(dd - a2) + ", allowed truncation " + str(td.trunc) + " + rounding " + str(td.round) + ")";
            });
      }
      if (scheme == THREE && cross && !raised)
        for (size_t j : sel)
        {
          if (j == i) continue;
          if (!central[i] || !central[j]) continue;
          bool jIn = find(which.begin(), which.end(), j) != which.end();
          string wname = "v" + str(j);
          double dx = 0;
          vrt::Outcome ox = vrt::capture([&] { dx = nd->getSecondOrderDerivative(vname, wname); });
          double ax = poly.partial(unit2(i, 1, j, 1), cur);
          Tol tx = tolCross(poly, cur, i, j, h);
          bool exactx = tx.trunc == 0;
          vrt::cover(sname + ":cross:" + (exactx ? "exact" : "truncated"));
          vrt::expect(ox.returned() && std::isfinite(dx) && fabs(dx - ax) <= tx.total(), exactx ? "derivative.cross-exact" : "derivative.cross-converges",
              sname + (inUpdate && jIn ? "" : ":variable-not-in-update") + (selNear ? ":another-variable-next-to-bound" : ""), [&] {
                return desc + " ; " + call + " : d2/d" + vname + "d" + wname + " = " + (ox.returned() ? str(dx) : ox.text()) + " analytic " + str(ax) + " (error " + str(dx - ax) + ", allowed truncation " + str(tx.trunc) + " + rounding " + str(tx.round) + ")";
              });
        }
    }

    // ---- non-selected variables are delegated to the wrapped function when it provides them
    for (size_t i = 0; i < n; ++i)
    {
      if (isSel(i)) continue;
      string vname = "v" + str(i);
      string dcls = sname + ":" + ftypeName(ftype) + (sel.empty() ? ":nothing-selected" : "") + (find(which.begin(), which.end(), i) != which.end() ? "" : ":variable-not-in-update");
      if (ftype >= FIRST)
      {
        double d1 = 0;
        vrt::Outcome o1 = vrt::capture([&] { d1 = nd->getFirstOrderDerivative(vname); });
        double a1 = poly.partial(unit(i, 1), cur);
        vrt::cover(sname + ":delegated-first");
        vrt::expect(o1.returned() && vrt::close(d1, a1, 1e-13, 0), "delegation.first", dcls, [&] {
              return desc + " ; " + call + " : non-selected d/d" + vname + " = " + (o1.returned() ? str(d1) : o1.text()) + " but the wrapped function's analytic derivative at " + pointStr(cur) + " is " + str(a1);
            });
      }
      if (ftype == SECOND && scheme != TWO)
      {
        double d2 = 0;
        vrt::Outcome o2 = vrt::capture([&] { d2 = nd->getSecondOrderDerivative(vname); });
        double a2 = poly.partial(unit(i, 2), cur);
        vrt::cover(sname + ":delegated-second");
        vrt::expect(o2.returned() && vrt::close(d2, a2, 1e-13, 0), "delegation.second", dcls, [&] {
              return desc + " ; " + call + " : non-selected d2/d" + vname + "2 = " + (o2.returned() ? str(d2) : o2.text()) + " but the wrapped function's analytic derivative is " + str(a2);
            });
        // the two- and five-point classes document that they offer no cross derivative at all (the query is refused for any pair)
        for (size_t j = 0; scheme == THREE && j < n; ++j)
        {
          if (j == i) continue;
          double dx = 0;
          vrt::Outcome ox = vrt::capture([&] { dx = nd->getSecondOrderDerivative(vname, "v" + str(j)); });
          double ax = poly.partial(unit2(i, 1, j, 1), cur);
          vrt::expect(ox.returned() && vrt::close(dx, ax, 1e-13, 0), "delegation.cross", dcls, [&] {
                return desc + " ; " + call + " : d2/d" + vname + "dv" + str(j) + " with " + vname + " not selected = " + (ox.returned() ? str(dx) : ox.text()) + " but the wrapped function's analytic derivative is " + str(ax);
              });
          // the same pair with the non-selected variable as the second argument (first argument selected)
          if (isSel(j))
          {
            double dr = 0;
            vrt::Outcome orv = vrt::capture([&] { dr = nd->getSecondOrderDerivative("v" + str(j), vname); });
            vrt::expect(orv.returned() && vrt::close(dr, ax, 1e-13, 0), "delegation.cross", dcls + ":non-selected-second-argument", [&] {
                  return desc + " ; " + call + " : d2/dv" + str(j) + "d" + vname + " with " + vname + " not selected = " + (orv.returned() ? str(dr) : orv.text()) + " but the wrapped function's analytic derivative is " + str(ax);
                });
          }
        }
      }
      // the wrapped function itself answers for all its variables again (flags restored)
      if (ftype >= FIRST)
      {
        vrt::Outcome of = vrt::capture([&] { (void)F->getFirstOrderDerivative(vname); });
        vrt::expect(of.returned(), "delegation.flags-restored", sname + ":first", [&] { return desc + " ; " + call + " : the wrapped function's own getFirstOrderDerivative " + of.text(); });
      }
    }
    if (raised) return;
  }
}

// ================================================================================================
// Group "order": ratio test over three steps, unconstrained interior point, single selected variable among several
// ================================================================================================
void caseOrder(vrt::Case& c)
{
  vrt::Rng& rng = c.rng;
  const int schemes[3] = { TWO, THREE, FIVE };
  int scheme = schemes[c.index % 3];
  size_t n = 1 + rng.below(3);
  // a degree above what the scheme differentiates exactly
  int degree = scheme == TWO ? static_cast<int>(rng.range(2, 3)) : scheme == THREE ? static_cast<int>(rng.range(3, 5)) : 5;
  PolyN poly;
  poly.n = n;
  size_t v = rng.below(n);
  // dominant term in v of the full degree plus lower terms
  {
    Expo e{};
    e[v] = degree;
    poly.a.push_back(e);
    poly.c.push_back((rng.chance(0.5) ? 1 : -1) * rng.real(0.5, 2));
    size_t extra = 1 + rng.below(4);
    for (size_t t = 0; t < extra; ++t)
    {
      Expo f{};
      int d = static_cast<int>(rng.range(0, degree));
      for (int k = 0; k < d; ++k) f[rng.below(n)]++;
      poly.a.push_back(f);
      poly.c.push_back(rng.real(-1, 1));
    }
  }
  vector<Box> boxes(n);
  for (size_t i = 0; i < n; ++i) { boxes[i].lo = -INF; boxes[i].hi = INF; boxes[i].loClosed = boxes[i].hiClosed = false; }
  vector<double> x(n);
  for (size_t i = 0; i < n; ++i) x[i] = rng.real(-2, 2);
  double h0 = rng.chance(0.5) ? 1e-2 : rng.real(4e-3, 1e-2);
  string sname = str(scheme) + "pt";
  string desc = sname + " F=" + poly.text() + " at " + pointStr(x) + " variable v" + str(v) + " steps " + str(h0) + ", /2, /4";
  vrt::describe(sname, desc);

  shared_ptr<LoggedPoly> F = make_shared<LoggedPoly>(poly, boxes, x);
  shared_ptr<AbstractNumericalDerivative> nd = makeND(scheme, PLAIN, F);
  nd->setParametersToDerivate(vector<string>(1, "v" + str(v)));
  ParameterList pl = F->getParameters();

  int p1 = scheme == TWO ? 1 : scheme == THREE ? 2 : 4; // order of the first derivative
  int p2 = scheme == THREE ? 2 : 4;                      // order of the second derivative
  double e1[3], e2[3], r1[3], r2[3], nx1[3], nx2[3];
  double a1 = poly.partial(unit(v, 1), x), a2 = poly.partial(unit(v, 2), x);
  for (int k = 0; k < 3; ++k)
  {
    double h = h0 / (1 << k);
    nd->setInterval(h);
    vrt::Outcome o = vrt::capture([&] { nd->setParameters(pl); });
    if (!vrt::expect(o.returned(), "update.returns", sname + ":order", [&] { return desc + " setParameters " + o.text(); })) return;
    e1[k] = fabs(nd->getFirstOrderDerivative("v" + str(v)) - a1);
    vector<double> X = hull(x, h);
    double hv = stepOf(x[v], h), S = poly.absBound(Expo{}, X);
    r1[k] = 128 * EPS * S / hv;
    // bound of the terms beyond the leading one (next derivative in the expansion)
    if (scheme == TWO) nx1[k] = hv * hv / 6 * poly.absBound(unit(v, 3), X);
    else if (scheme == THREE) nx1[k] = ipow(hv, 4) / 120 * poly.absBound(unit(v, 5), X);
    else nx1[k] = 0; // degree 5: the h^4 term is the only one
    if (scheme != TWO)
    {
      e2[k] = fabs(nd->getSecondOrderDerivative("v" + str(v)) - a2);
      r2[k] = 512 * EPS * S / (hv * hv);
      nx2[k] = scheme == THREE ? ipow(hv, 4) / 360 * poly.absBound(unit(v, 6), X) : 0;
    }
  }
  auto ratio = [&](const char* clause, const double* e, const double* r, const double* nx, int p, const string& what) {
      for (int k = 0; k < 2; ++k)
      {
        double noise = r[k] + r[k + 1] + nx[k] + nx[k + 1];
        if (!(e[k] > 50 * noise) || !(e[k + 1] > 0)) { vrt::counted("order.leading-term-not-dominant-unjudged"); continue; }
        double q = e[k] / e[k + 1], expect = ipow(2, p);
        vrt::cover(sname + ":order:" + what);
        vrt::expect(q > expect / 1.25 && q < expect * 1.25, clause, sname + ":" + what, [&] {
              return desc + " : error of the " + what + " derivative " + str(e[k]) + " at step " + str(h0 / (1 << k)) + " and " + str(e[k + 1]) + " at half of it: ratio " + str(q) + " expected about " + str(expect);
            });
      }
    };
  ratio("order.first", e1, r1, nx1, p1, "first");
  if (scheme == THREE && degree >= 4) ratio("order.second", e2, r2, nx2, p2, "second");
  // the wrapped function is back at the point
  vector<double> now = F->point();
  bool same = true;
  for (size_t i = 0; i < n; ++i) same = same && vrt::sameDouble(now[i], x[i]);
  vrt::expect(same, "transparent.parameters", sname + ":order", [&] { return desc + " left the function at " + pointStr(now); });
}
} // namespace

int main(int argc, char** argv)
{
  vector<vrt::Group> groups = {
    { "history", 51840, 2592000, caseHistory, 1800, false },
    { "order", 4500, 90000, caseOrder, 1800, false },
  };
  vrt::Meta meta;
  meta.rule = "history: index -> (scheme 2/3/5 points, 1..4 variables, total degree 0..5, wrapped as Function / FirstOrderDerivable / SecondOrderDerivable, cross derivatives on/off); random "
      "polynomial (2..12 monomials, coefficients in [-2,2]), per variable no constraint / half line / box of width 2..5 with open or closed bounds, step 1e-6..1e-2 (10% the default), any subset and order of "
      "selected variables (sometimes none), then 2..5 updates through setParameters / setAllParametersValues / setParameterValue / setParametersValues / matchParametersValues / f() naming all or some "
      "variables, in lists with or without constraints, to points inside the box: interior, on a closed bound, at 0..2.6 steps from a bound. order: three halved steps from 4e-3..1e-2 on a polynomial of a degree "
      "the scheme does not differentiate exactly, at an unconstrained point. A class key = (scheme, entry point, interior/next-to-bound, cross) resp. (scheme, derivative, exact/truncated, central/next-to-bound, "
      "degree in the variable) resp. the side(s) on which the logged probes of a variable lie; every key involves at least one update with probing.";
  meta.assumptions = {
    "requested points are inside the box; boxes are at least 2 wide (more than 20 steps), so a one-sided stencil always fits",
    "tolerance of a derivative = 2 x the Taylor remainder bound of the scheme over the stencil hull (central: h^2/6 f''' / h^4/30 f^(5) first, h^2/12 f'''' / h^4/90 f^(6) second, cross h1^2/6 f_xxxy + h2^2/6 f_xyyy; "
    "one-sided and two points: h f'' first, h f''' (2h five points) second), which is 0 for polynomials of the degree the scheme differentiates exactly, plus rounding 128 eps sum|terms|/h (512 eps sum|terms|/h^2 second and cross; "
    "x8 / x16 next to a bound where the step may be halved), h = (1+|x|) * interval",
    "next to a bound (a central stencil does not fit) the one-sided remainder is accepted for first and second derivatives; cross derivatives there are not promised: the three-point scheme may raise a bpp::Exception, but must leave the function at the requested point",
    "five- and two-point schemes do not offer cross derivatives (documented): only transparency is judged with cross derivatives switched on",
    "three points with cross derivatives on: the two-variable getter with one selected variable given twice is d2f/dv2 (the diagonal of the cross-derivative matrix, also a 1 x 1 matrix when a single variable is selected) "
    "and is judged with the allowance of the second derivative; a pair with one non-selected variable in either argument position is delegated to a SecondOrderDerivable function",
    "the value of a derivative is judged for every selected variable after every update, also for variables the update did not name (the point is the whole parameter vector)",
    "the test double caches its analytic derivatives at parameter changes while the corresponding flag is enabled and refuses (bpp::Exception) while it is disabled, like the repository's PolynomialFunction1Der1",
    "ratio test: judged only when the error exceeds 50 x (rounding allowance + next term of the expansion); ratio within 25% of 2^order",
  };
  meta.requiredClauses = { "update.returns", "transparent.parameters", "transparent.value", "derivative.first-exact", "derivative.first-converges", "derivative.second-exact", "derivative.second-converges",
                           "derivative.cross-exact", "derivative.cross-converges", "delegation.first", "delegation.second", "order.first", "order.second" };
  return vrt::run(argc, argv, "C12", groups, meta);
}
