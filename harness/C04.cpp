// C04 - Matrix operations match their definitions for every shape and storage layout.
// Every MatrixTools routine named by the property is executed for all shapes 0x0..7x7 and every
// combination of RowMatrix / ColMatrix / LinearMatrix per operand and result (results unsized and
// wrongly pre-sized with garbage), next to an independent long double reference (exact for
// integer-valued entries, rounding bound of the same finite sum for real entries).  Non-conformable
// operands must raise bpp::DimensionException.  lap() is checked against brute force over all
// permutations, including dual feasibility / tightness.
#include "vrt.h"

#include <Bpp/Exceptions.h>
#include <Bpp/Io/OutputStream.h>
#include <Bpp/Numeric/Matrix/Matrix.h>
#include <Bpp/Numeric/Matrix/MatrixTools.h>

#include <algorithm>
#include <cmath>
#include <complex>
#include <limits>
#include <memory>
#include <numeric>
#include <type_traits>
#include <functional>
#include <sstream>

using namespace bpp;
using namespace std;
using vrt::str;

namespace
{
typedef long double LD;
const LD EPS = numeric_limits<double>::epsilon();
const char KN[] = "RCLB"; // Row, Col, Linear, B = static type is the abstract Matrix<S>
const int NPRE = 5;       // result pre-states: 0 unsized, 1 exact+garbage, 2 larger, 3 smaller, 4 other shape

template<class S> struct SName;
template<> struct SName<double> { static const char* n() { return "double"; } };
template<> struct SName<int> { static const char* n() { return "int"; } };

// ---------------------------------------------------------------- dense reference container
template<class S> struct Dense
{
  size_t r, c;
  vector<S> a;
  Dense() : r(0), c(0), a() {}
  Dense(size_t r_, size_t c_) : r(r_), c(c_), a(r_ * c_, S()) {}
  S& operator()(size_t i, size_t j) { return a.at(i * c + j); }
  const S& operator()(size_t i, size_t j) const { return a.at(i * c + j); }
};

struct Exp // expected result + admissible absolute deviation per cell
{
  size_t r, c;
  vector<LD> v, tol;
  Exp() : r(0), c(0) {}
  Exp(size_t r_, size_t c_) : r(r_), c(c_), v(r_ * c_, 0), tol(r_ * c_, 0) {}
  LD& at(size_t i, size_t j) { return v.at(i * c + j); }
  LD& tl(size_t i, size_t j) { return tol.at(i * c + j); }
  const LD& at(size_t i, size_t j) const { return v.at(i * c + j); }
  const LD& tl(size_t i, size_t j) const { return tol.at(i * c + j); }
};

string dc(size_t x) { return x == 0 ? "0" : x == 1 ? "1" : "n"; }
string sc(size_t r, size_t c)
{
  if (r >= 2 && c >= 2) return r == c ? "sq" : r < c ? "wide" : "tall";
  return dc(r) + "x" + dc(c);
}

template<class T> string num(const T& x) { ostringstream o; o.precision(17); o << x; return o.str(); }
string num(LD x) { ostringstream o; o.precision(21); o << x; return o.str(); }

template<class S> string dumpD(const Dense<S>& d)
{
  ostringstream o;
  o.precision(17);
  o << d.r << "x" << d.c << "[";
  for (size_t i = 0; i < d.r; ++i)
  {
    o << (i ? ",[" : "[");
    for (size_t j = 0; j < d.c; ++j) o << (j ? "," : "") << d(i, j);
    o << "]";
  }
  o << "]";
  return o.str();
}
template<class S> string dumpM(const Matrix<S>& m)
{
  Dense<S> d(m.getNumberOfRows(), m.getNumberOfColumns());
  for (size_t i = 0; i < d.r; ++i) for (size_t j = 0; j < d.c; ++j) d(i, j) = m(i, j);
  return dumpD(d);
}
template<class S> string dumpV(const vector<S>& v)
{
  ostringstream o;
  o.precision(17);
  o << "(";
  for (size_t i = 0; i < v.size(); ++i) o << (i ? "," : "") << v[i];
  o << ")";
  return o.str();
}

// ---------------------------------------------------------------- storage classes
template<class S> unique_ptr<Matrix<S>> newM(int k)
{
  switch (k)
  {
  case 0: return unique_ptr<Matrix<S>>(new RowMatrix<S>());
  case 1: return unique_ptr<Matrix<S>>(new ColMatrix<S>());
  default: return unique_ptr<Matrix<S>>(new LinearMatrix<S>());
  }
}
template<class S> unique_ptr<Matrix<S>> newM(int k, size_t r, size_t c)
{
  switch (k)
  {
  case 0: return unique_ptr<Matrix<S>>(new RowMatrix<S>(r, c));
  case 1: return unique_ptr<Matrix<S>>(new ColMatrix<S>(r, c));
  default: return unique_ptr<Matrix<S>>(new LinearMatrix<S>(r, c));
  }
}
// a vector-of-rows cannot hold 0xn, a vector-of-columns cannot hold nx0
bool representable(int k, size_t r, size_t c) { return !(k == 0 && r == 0 && c > 0) && !(k == 1 && c == 0 && r > 0); }
void reprDims(int k, size_t& r, size_t& c)
{
  if (k == 0 && r == 0) c = 0;
  if (k == 1 && c == 0) r = 0;
}
template<class S> unique_ptr<Matrix<S>> fromDense(int k, const Dense<S>& d)
{
  if (!representable(k, d.r, d.c)) return unique_ptr<Matrix<S>>();
  unique_ptr<Matrix<S>> m = newM<S>(k, d.r, d.c);
  bool ok = m->getNumberOfRows() == d.r && m->getNumberOfColumns() == d.c;
  vrt::expect(ok, "storage.ctor-dims", string("kind=") + KN[k] + ",shape=" + sc(d.r, d.c), [&] {
      return string(1, KN[k]) + "Matrix(" + str(d.r) + "," + str(d.c) + ") reports " + str(m->getNumberOfRows()) + "x" + str(m->getNumberOfColumns());
    });
  if (!ok) return unique_ptr<Matrix<S>>();
  for (size_t i = 0; i < d.r; ++i) for (size_t j = 0; j < d.c; ++j) (*m)(i, j) = d(i, j);
  return m;
}
template<class S> S garbage(size_t i, size_t j) { return static_cast<S>(7000 + 10 * static_cast<int>(i) + static_cast<int>(j)); }
void preDims(int pre, size_t er, size_t ec, size_t& r, size_t& c)
{
  switch (pre)
  {
  case 1: r = er; c = ec; break;
  case 2: r = er + 2; c = ec + 1; break;
  case 3: r = er / 2; c = ec ? ec - 1 : 0; break;
  default: if (er != ec) { r = ec; c = er; } else { r = er + 1; c = ec; }
  }
}
template<class S> unique_ptr<Matrix<S>> outM(int k, int pre, size_t er, size_t ec)
{
  if (pre == 0) return newM<S>(k);
  size_t r, c;
  preDims(pre, er, ec, r, c);
  unique_ptr<Matrix<S>> m = newM<S>(k, r, c);
  for (size_t i = 0; i < m->getNumberOfRows(); ++i) for (size_t j = 0; j < m->getNumberOfColumns(); ++j) (*m)(i, j) = garbage<S>(i, j);
  return m;
}

// an input operand held in the three storage classes (null where the class cannot hold the shape)
template<class S> struct Opnd
{
  Dense<S> d;
  unique_ptr<Matrix<S>> k[3];
  explicit Opnd(const Dense<S>& d_) : d(d_) { for (int i = 0; i < 3; ++i) k[i] = fromDense<S>(i, d); }
  Matrix<S>* get(int kind) const { return k[kind].get(); }
  bool unchanged() const
  {
    for (int t = 0; t < 3; ++t)
    {
      if (!k[t]) continue;
      if (k[t]->getNumberOfRows() != d.r || k[t]->getNumberOfColumns() != d.c) return false;
      for (size_t i = 0; i < d.r; ++i) for (size_t j = 0; j < d.c; ++j) if (!((*k[t])(i, j) == d(i, j))) return false;
    }
    return true;
  }
};

// static dispatch for the routines that are templates over the matrix class: route 0..2 = concrete class, 3 = abstract base
template<class S, class F> void asKind(Matrix<S>& m, int route, F&& f)
{
  switch (route)
  {
  case 0: f(static_cast<RowMatrix<S>&>(m)); break;
  case 1: f(static_cast<ColMatrix<S>&>(m)); break;
  case 2: f(static_cast<LinearMatrix<S>&>(m)); break;
  default: f(m);
  }
}
template<class S, class F> void asConcrete(Matrix<S>& m, int kind, F&& f)
{
  switch (kind)
  {
  case 0: f(static_cast<RowMatrix<S>&>(m)); break;
  case 1: f(static_cast<ColMatrix<S>&>(m)); break;
  default: f(static_cast<LinearMatrix<S>&>(m));
  }
}

// ---------------------------------------------------------------- outcome of a library call
struct Out
{
  int k; // 0 returned, 1 DimensionException, 2 other bpp::Exception, 3 std::exception, 4 anything else
  string text;
  const char* kindName() const { return k == 0 ? "returned" : k == 1 ? "dimension-exception" : k == 2 ? "other-bpp-exception" : k == 3 ? "std-exception" : "foreign-exception"; }
};
template<class F> Out call(F&& f)
{
  Out o;
  o.k = 0;
  o.text = "returned";
  try { f(); }
  catch (DimensionException& e) { o.k = 1; o.text = string("DimensionException: ") + e.what(); }
  catch (bpp::Exception& e) { o.k = 2; o.text = "raised " + vrt::typeName(typeid(e)) + ": " + e.what(); }
  catch (std::exception& e) { o.k = 3; o.text = "raised " + vrt::typeName(typeid(e)) + ": " + e.what(); }
  catch (...) { o.k = 4; o.text = "raised a non-standard exception"; }
  return o;
}

// ---------------------------------------------------------------- entries
// mode 0: integer-valued entries in [-lim,lim]; mode 1: reals of mixed magnitude (double only)
double genReal(vrt::Rng& g)
{
  double u = g.unit();
  if (u < 0.6) return g.real(-10, 10);
  if (u < 0.8) return (g.chance(0.5) ? -1 : 1) * g.logReal(1e-3, 1e3);
  if (u < 0.9) return static_cast<double>(g.range(-9, 9));
  return 0.0;
}
template<class S> S genEntry(vrt::Rng& g, int mode, int lim) { return static_cast<S>(g.range(-lim, lim)); }
template<> double genEntry<double>(vrt::Rng& g, int mode, int lim) { return mode == 0 ? static_cast<double>(g.range(-lim, lim)) : genReal(g); }
template<class S> Dense<S> genDense(vrt::Rng& g, size_t r, size_t c, int mode, int lim = 9)
{
  Dense<S> d(r, c);
  for (size_t i = 0; i < d.a.size(); ++i) d.a[i] = genEntry<S>(g, mode, lim);
  return d;
}
template<class S> vector<S> genVec(vrt::Rng& g, size_t n, int mode, int lim = 9)
{
  vector<S> v(n);
  for (size_t i = 0; i < n; ++i) v[i] = genEntry<S>(g, mode, lim);
  return v;
}

// kind combinations of n matrices: all 3^n when that is <= maxCount, else the three uniform ones + random ones
vector<vector<int>> combos(vrt::Rng& g, int n, size_t maxCount)
{
  size_t total = 1;
  for (int i = 0; i < n; ++i) total *= 3;
  vector<vector<int>> out;
  if (total <= maxCount)
  {
    for (size_t t = 0; t < total; ++t)
    {
      vector<int> k(n);
      size_t x = t;
      for (int i = 0; i < n; ++i) { k[i] = static_cast<int>(x % 3); x /= 3; }
      out.push_back(k);
    }
    return out;
  }
  for (int u = 0; u < 3; ++u) out.push_back(vector<int>(n, u));
  while (out.size() < maxCount)
  {
    vector<int> k(n);
    for (int i = 0; i < n; ++i) k[i] = static_cast<int>(g.below(3));
    out.push_back(k);
  }
  return out;
}
string comboName(const vector<int>& k)
{
  string s;
  for (size_t i = 0; i < k.size(); ++i) s += KN[k[i]];
  return s;
}

// ---------------------------------------------------------------- result checker for one case
template<class S> struct Checker
{
  string g, cls;
  function<string()> ops; // text of the operands, built only on failure
  vector<vector<S>> first; // first result per output slot (storage independence)
  vector<string> firstCombo;
  Checker(const string& g_, const string& cls_, const function<string()>& ops_) : g(g_), cls(cls_), ops(ops_), first(), firstCombo() {}

  bool returned(const Out& o, const string& combo)
  {
    return vrt::expect(o.k == 0, (g + ".returns").c_str(), cls + ",outcome=" + o.kindName(), [&] { return ops() + " storage " + combo + " => " + o.text + " (operands are conformable)"; });
  }
  bool raisedDim(const Out& o, const string& combo, const string& what)
  {
    // class = kind of mismatch + outcome (not the shapes: one missing validation = one signature)
    return vrt::expect(o.k == 1, (g + ".nonconformable").c_str(), what + ",outcome=" + o.kindName(), [&] { return ops() + " storage " + combo + " (" + what + ") => " + o.text + ", expected DimensionException"; });
  }
  // compare one output matrix; ko = storage class of the output; slot = index of the output argument
  bool check(const Matrix<S>& O, int ko, const string& combo, const Exp& e, size_t slot = 0, const char* name = "O")
  {
    size_t r = O.getNumberOfRows(), c = O.getNumberOfColumns();
    bool dimsOk = (r == e.r && c == e.c);
    if (!dimsOk && e.r * e.c == 0)
    {
      size_t rr = e.r, cc = e.c;
      reprDims(ko, rr, cc);
      dimsOk = (r == rr && c == cc);
    }
    if (!vrt::expect(dimsOk, (g + ".dims").c_str(), cls, [&] { return ops() + " storage " + combo + " => " + name + " is " + str(r) + "x" + str(c) + ", expected " + str(e.r) + "x" + str(e.c); }))
      return false;
    if (e.r * e.c == 0) return true;
    bool ok = true;
    size_t bi = 0, bj = 0;
    for (size_t i = 0; i < e.r && ok; ++i)
      for (size_t j = 0; j < e.c; ++j)
      {
        LD d = fabsl(static_cast<LD>(O(i, j)) - e.at(i, j));
        if (!(d <= e.tl(i, j))) { ok = false; bi = i; bj = j; break; }
      }
    vrt::expect(ok, (g + ".value").c_str(), cls, [&] {
        return ops() + " storage " + combo + " => " + name + "(" + str(bi) + "," + str(bj) + ") = " + num(O(bi, bj)) + ", definition gives " + num(e.at(bi, bj)) + " (admissible deviation " + num(e.tl(bi, bj)) + "); " + name + " = " + dumpM(O);
      });
    vector<S> flat;
    for (size_t i = 0; i < e.r; ++i) for (size_t j = 0; j < e.c; ++j) flat.push_back(O(i, j));
    if (first.size() <= slot) { first.resize(slot + 1); firstCombo.resize(slot + 1); }
    if (firstCombo[slot].empty()) { first[slot] = flat; firstCombo[slot] = combo; }
    else
    {
      bool same = flat.size() == first[slot].size();
      for (size_t t = 0; same && t < flat.size(); ++t) same = (flat[t] == first[slot][t]) || (flat[t] != flat[t] && first[slot][t] != first[slot][t]);
      ok &= vrt::expect(same, (g + ".storage-independent").c_str(), cls, [&] { return ops() + ": " + name + " differs between storage " + firstCombo[slot] + " and " + combo + ": " + dumpM(O); });
    }
    return ok;
  }
  void inputsUnchanged(std::initializer_list<const Opnd<S>*> in)
  {
    bool ok = true;
    for (const Opnd<S>* o : in) ok &= o->unchanged();
    vrt::expect(ok, (g + ".inputs-unchanged").c_str(), cls, [&] { return ops() + ": a read-only operand was modified"; });
  }
};

// scalar/entry mode of a case: 0 = double, integer-valued; 1 = double, real; 2 = int
const char* SM[] = { "double-int", "double-real", "int" };

// ================================================================ mult family
string shape3(size_t m, size_t k, size_t n) { return "m=" + dc(m) + ",k=" + dc(k) + ",n=" + dc(n); }

// ---- mult(A,B,O)
template<class S> void multPlain(vrt::Case& c, size_t m, size_t k, size_t n, int sm, int pre)
{
  int mode = sm == 1 ? 1 : 0;
  Opnd<S> A(genDense<S>(c.rng, m, k, mode)), B(genDense<S>(c.rng, k, n, mode));
  Exp e(m, n);
  for (size_t i = 0; i < m; ++i)
    for (size_t j = 0; j < n; ++j)
    {
      LD s = 0, ab = 0;
      for (size_t t = 0; t < k; ++t) { LD p = static_cast<LD>(A.d(i, t)) * static_cast<LD>(B.d(t, j)); s += p; ab += fabsl(p); }
      e.at(i, j) = s;
      e.tl(i, j) = mode ? 8 * (k + 2) * EPS * ab : 0;
    }
  string cls = shape3(m, k, n);
  vrt::describe("mult:" + cls, string("mult(A,B,O) ") + SM[sm] + " A " + str(m) + "x" + str(k) + " B " + str(k) + "x" + str(n) + " pre-state " + str(pre));
  vrt::cover("mult:" + cls + ":" + SM[sm] + ":pre" + str(pre));
  Checker<S> ck("mult", cls, [&] { return "mult(A=" + dumpD(A.d) + ", B=" + dumpD(B.d) + ", O pre-state " + str(pre) + ")"; });
  for (auto& kk : combos(c.rng, 3, 27))
  {
    Matrix<S>* a = A.get(kk[0]);
    Matrix<S>* b = B.get(kk[1]);
    if (!a || !b) { vrt::tally("skipped-unrepresentable-operand"); continue; }
    auto o = outM<S>(kk[2], pre, m, n);
    Out r = call([&] { MatrixTools::mult(*a, *b, *o); });
    if (ck.returned(r, comboName(kk))) ck.check(*o, kk[2], comboName(kk), e);
  }
  ck.inputsUnchanged({ &A, &B });
}
template<class S> void multPlainBad(vrt::Case& c, int sm)
{
  int mode = sm == 1 ? 1 : 0;
  size_t m = c.rng.below(8), k = c.rng.below(8), k2 = c.rng.below(7), n = c.rng.below(8);
  if (k2 >= k) ++k2;
  int pre = static_cast<int>(c.rng.below(NPRE));
  Opnd<S> A(genDense<S>(c.rng, m, k, mode)), B(genDense<S>(c.rng, k2, n, mode));
  string cls = "A=" + sc(m, k) + ",B=" + sc(k2, n);
  vrt::describe("mult-bad:" + cls, string("mult(A,B,O) ") + SM[sm] + " A " + str(m) + "x" + str(k) + " B " + str(k2) + "x" + str(n));
  vrt::cover("mult:nonconformable:" + cls);
  Checker<S> ck("mult", cls, [&] { return "mult(A=" + dumpD(A.d) + ", B=" + dumpD(B.d) + ")"; });
  for (auto& kk : combos(c.rng, 3, 27))
  {
    Matrix<S>* a = A.get(kk[0]);
    Matrix<S>* b = B.get(kk[1]);
    if (!a || !b) { vrt::tally("skipped-unrepresentable-operand"); continue; }
    auto o = outM<S>(kk[2], pre, m, n);
    Out r = call([&] { MatrixTools::mult(*a, *b, *o); });
    ck.raisedDim(r, comboName(kk), k2 < k ? "B-has-fewer-rows" : "B-has-more-rows");
  }
}
void caseMult(vrt::Case& c)
{
  const size_t NC = 512 * 3 * NPRE;
  if (c.index < NC)
  {
    size_t s = c.index % 512, sm = (c.index / 512) % 3, pre = c.index / 1536;
    if (sm == 2) multPlain<int>(c, s / 64, (s / 8) % 8, s % 8, 2, static_cast<int>(pre));
    else multPlain<double>(c, s / 64, (s / 8) % 8, s % 8, static_cast<int>(sm), static_cast<int>(pre));
    return;
  }
  int sm = static_cast<int>(c.index % 3);
  if (sm == 2) multPlainBad<int>(c, 2);
  else multPlainBad<double>(c, sm);
}

// ---- mult(A,D,B,O): A.diag(D).B
template<class S> void multDiag(vrt::Case& c, size_t m, size_t k, size_t n, int sm, int pre)
{
  int mode = sm == 1 ? 1 : 0;
  int lim = sm == 2 ? 9 : 9;
  Opnd<S> A(genDense<S>(c.rng, m, k, mode, lim)), B(genDense<S>(c.rng, k, n, mode, lim));
  vector<S> D = genVec<S>(c.rng, k, mode, lim);
  Exp e(m, n);
  for (size_t i = 0; i < m; ++i)
    for (size_t j = 0; j < n; ++j)
    {
      LD s = 0, ab = 0;
      for (size_t t = 0; t < k; ++t) { LD p = static_cast<LD>(A.d(i, t)) * static_cast<LD>(D[t]) * static_cast<LD>(B.d(t, j)); s += p; ab += fabsl(p); }
      e.at(i, j) = s;
      e.tl(i, j) = mode ? 8 * (k + 4) * EPS * ab : 0;
    }
  string cls = shape3(m, k, n);
  vrt::describe("mult-diag:" + cls, string("mult(A,D,B,O) ") + SM[sm] + " A " + str(m) + "x" + str(k) + " B " + str(k) + "x" + str(n) + " pre-state " + str(pre));
  vrt::cover("mult-diag:" + cls + ":" + SM[sm] + ":pre" + str(pre));
  Checker<S> ck("mult-diag", cls, [&] { return "mult(A=" + dumpD(A.d) + ", D=" + dumpV(D) + ", B=" + dumpD(B.d) + ", O pre-state " + str(pre) + ")"; });
  for (auto& kk : combos(c.rng, 3, 27))
  {
    Matrix<S>* a = A.get(kk[0]);
    Matrix<S>* b = B.get(kk[1]);
    if (!a || !b) { vrt::tally("skipped-unrepresentable-operand"); continue; }
    auto o = outM<S>(kk[2], pre, m, n);
    Out r = call([&] { MatrixTools::mult(*a, D, *b, *o); });
    if (ck.returned(r, comboName(kk))) ck.check(*o, kk[2], comboName(kk), e);
  }
  ck.inputsUnchanged({ &A, &B });
}
template<class S> void multDiagBad(vrt::Case& c, int sm)
{
  int mode = sm == 1 ? 1 : 0;
  size_t m = c.rng.below(8), k = c.rng.below(8), k2 = k, n = c.rng.below(8), dn = k;
  string what;
  if (c.rng.chance(0.5)) { k2 = c.rng.below(7); if (k2 >= k) ++k2; what = k2 < k ? "B-has-fewer-rows" : "B-has-more-rows"; if (c.rng.chance(0.3)) dn = k2; }
  else { dn = c.rng.chance(0.5) ? k + 1 + c.rng.below(2) : (k ? k - 1 : 1); what = dn < k ? "D-shorter" : "D-longer"; }
  int pre = static_cast<int>(c.rng.below(NPRE));
  Opnd<S> A(genDense<S>(c.rng, m, k, mode)), B(genDense<S>(c.rng, k2, n, mode));
  vector<S> D = genVec<S>(c.rng, dn, mode);
  string cls = "A=" + sc(m, k) + ",B=" + sc(k2, n);
  vrt::describe("mult-diag-bad:" + cls, string("mult(A,D,B,O) ") + SM[sm] + " A " + str(m) + "x" + str(k) + " |D|=" + str(dn) + " B " + str(k2) + "x" + str(n));
  vrt::cover("mult-diag:nonconformable:" + what + ":" + cls);
  Checker<S> ck("mult-diag", cls, [&] { return "mult(A=" + dumpD(A.d) + ", D=" + dumpV(D) + ", B=" + dumpD(B.d) + ")"; });
  for (auto& kk : combos(c.rng, 3, 27))
  {
    Matrix<S>* a = A.get(kk[0]);
    Matrix<S>* b = B.get(kk[1]);
    if (!a || !b) { vrt::tally("skipped-unrepresentable-operand"); continue; }
    auto o = outM<S>(kk[2], pre, m, n);
    Out r = call([&] { MatrixTools::mult(*a, D, *b, *o); });
    ck.raisedDim(r, comboName(kk), what);
  }
}
void caseMultDiag(vrt::Case& c)
{
  const size_t NC = 512 * 3 * NPRE;
  if (c.index < NC)
  {
    size_t s = c.index % 512, sm = (c.index / 512) % 3, pre = c.index / 1536;
    if (sm == 2) multDiag<int>(c, s / 64, (s / 8) % 8, s % 8, 2, static_cast<int>(pre));
    else multDiag<double>(c, s / 64, (s / 8) % 8, s % 8, static_cast<int>(sm), static_cast<int>(pre));
    return;
  }
  int sm = static_cast<int>(c.index % 3);
  if (sm == 2) multDiagBad<int>(c, 2);
  else multDiagBad<double>(c, sm);
}

// ---- mult(A,D,U,L,B,O): A.(tridiagonal).B
template<class S> void multTri(vrt::Case& c, size_t m, size_t k, size_t n, int sm, int pre)
{
  int mode = sm == 1 ? 1 : 0;
  Opnd<S> A(genDense<S>(c.rng, m, k, mode)), B(genDense<S>(c.rng, k, n, mode));
  vector<S> D = genVec<S>(c.rng, k, mode), U = genVec<S>(c.rng, k ? k - 1 : 0, mode), L = genVec<S>(c.rng, k ? k - 1 : 0, mode);
  Exp e(m, n);
  for (size_t i = 0; i < m; ++i)
    for (size_t j = 0; j < n; ++j)
    {
      LD s = 0, ab = 0;
      for (size_t t = 0; t < k; ++t)
        for (size_t l = (t ? t - 1 : 0); l < k && l <= t + 1; ++l)
        {
          LD T = l == t ? static_cast<LD>(D[t]) : l == t + 1 ? static_cast<LD>(U[t]) : static_cast<LD>(L[l]); // T(t,t+1)=U[t], T(t,t-1)=L[t-1]
          LD p = static_cast<LD>(A.d(i, t)) * T * static_cast<LD>(B.d(l, j));
          s += p;
          ab += fabsl(p);
        }
      e.at(i, j) = s;
      e.tl(i, j) = mode ? 8 * (3 * k + 6) * EPS * ab : 0;
    }
  string cls = shape3(m, k, n);
  vrt::describe("mult-tridiag:" + cls, string("mult(A,D,U,L,B,O) ") + SM[sm] + " A " + str(m) + "x" + str(k) + " B " + str(k) + "x" + str(n) + " pre-state " + str(pre));
  vrt::cover("mult-tridiag:" + cls + ":" + SM[sm] + ":pre" + str(pre));
  Checker<S> ck("mult-tridiag", cls, [&] { return "mult(A=" + dumpD(A.d) + ", D=" + dumpV(D) + ", U=" + dumpV(U) + ", L=" + dumpV(L) + ", B=" + dumpD(B.d) + ", O pre-state " + str(pre) + ")"; });
  for (auto& kk : combos(c.rng, 3, 27))
  {
    Matrix<S>* a = A.get(kk[0]);
    Matrix<S>* b = B.get(kk[1]);
    if (!a || !b) { vrt::tally("skipped-unrepresentable-operand"); continue; }
    auto o = outM<S>(kk[2], pre, m, n);
    Out r = call([&] { MatrixTools::mult(*a, D, U, L, *b, *o); });
    // a 0x0 tridiagonal factor has no off-diagonal vectors of length -1: a dimension error is as good as the zero product
    if (k == 0 && r.k == 1) { vrt::counted("mult-tridiag.empty-factor-unjudged"); continue; }
    if (ck.returned(r, comboName(kk))) ck.check(*o, kk[2], comboName(kk), e);
  }
  ck.inputsUnchanged({ &A, &B });
}
template<class S> void multTriBad(vrt::Case& c, int sm)
{
  int mode = sm == 1 ? 1 : 0;
  size_t m = c.rng.below(8), k = 1 + c.rng.below(7), k2 = k, n = c.rng.below(8), dn = k, un = k - 1, ln = k - 1;
  string what;
  switch (c.rng.below(4))
  {
  case 0: k2 = c.rng.below(7); if (k2 >= k) ++k2; what = k2 < k ? "B-has-fewer-rows" : "B-has-more-rows"; break;
  case 1: dn = c.rng.chance(0.5) ? k + 1 : k - 1; what = dn < k ? "D-shorter" : "D-longer"; break;
  case 2: un = c.rng.chance(0.5) ? k : (k >= 2 ? k - 2 : 1); what = un < k - 1 ? "U-shorter" : "U-longer"; break;
  default: ln = c.rng.chance(0.5) ? k : (k >= 2 ? k - 2 : 1); what = ln < k - 1 ? "L-shorter" : "L-longer";
  }
  int pre = static_cast<int>(c.rng.below(NPRE));
  Opnd<S> A(genDense<S>(c.rng, m, k, mode)), B(genDense<S>(c.rng, k2, n, mode));
  vector<S> D = genVec<S>(c.rng, dn, mode), U = genVec<S>(c.rng, un, mode), L = genVec<S>(c.rng, ln, mode);
  string cls = "A=" + sc(m, k) + ",B=" + sc(k2, n);
  vrt::describe("mult-tridiag-bad:" + cls, string("mult(A,D,U,L,B,O) ") + SM[sm] + " A " + str(m) + "x" + str(k) + " |D|=" + str(dn) + " |U|=" + str(un) + " |L|=" + str(ln) + " B " + str(k2) + "x" + str(n));
  vrt::cover("mult-tridiag:nonconformable:" + what + ":" + cls);
  Checker<S> ck("mult-tridiag", cls, [&] { return "mult(A=" + dumpD(A.d) + ", D=" + dumpV(D) + ", U=" + dumpV(U) + ", L=" + dumpV(L) + ", B=" + dumpD(B.d) + ")"; });
  for (auto& kk : combos(c.rng, 3, 27))
  {
    Matrix<S>* a = A.get(kk[0]);
    Matrix<S>* b = B.get(kk[1]);
    if (!a || !b) { vrt::tally("skipped-unrepresentable-operand"); continue; }
    auto o = outM<S>(kk[2], pre, m, n);
    Out r = call([&] { MatrixTools::mult(*a, D, U, L, *b, *o); });
    ck.raisedDim(r, comboName(kk), what);
  }
}
void caseMultTri(vrt::Case& c)
{
  const size_t NC = 512 * 3 * NPRE;
  if (c.index < NC)
  {
    size_t s = c.index % 512, sm = (c.index / 512) % 3, pre = c.index / 1536;
    if (sm == 2) multTri<int>(c, s / 64, (s / 8) % 8, s % 8, 2, static_cast<int>(pre));
    else multTri<double>(c, s / 64, (s / 8) % 8, s % 8, static_cast<int>(sm), static_cast<int>(pre));
    return;
  }
  int sm = static_cast<int>(c.index % 3);
  if (sm == 2) multTriBad<int>(c, 2);
  else multTriBad<double>(c, sm);
}

// ---- complex pairs: mult(A,iA,B,iB,O,iO) and mult(A,iA,D,iD,B,iB,O,iO)   (double only)
typedef complex<LD> CLD;
void perturbShape(vrt::Rng& g, size_t& r, size_t& c, string& how)
{
  // a different shape for the imaginary part of a pair: one dimension off by one or two
  bool rows = g.chance(0.5), more = g.chance(0.5);
  size_t& x = rows ? r : c;
  if (!more && x == 0) more = true;
  x = more ? x + 1 + g.below(2) : x - 1;
  how = string(rows ? "rows" : "cols") + (more ? "-more" : "-fewer");
}
void multComplex(vrt::Case& c, size_t m, size_t k, size_t n, int mode, bool withDiag, bool thoroughCombos)
{
  typedef double S;
  const string G = withDiag ? "mult-complex-diag" : "mult-complex";
  Opnd<S> A(genDense<S>(c.rng, m, k, mode)), iA(genDense<S>(c.rng, m, k, mode)), B(genDense<S>(c.rng, k, n, mode)), iB(genDense<S>(c.rng, k, n, mode));
  vector<S> D = genVec<S>(c.rng, k, mode), iD = genVec<S>(c.rng, k, mode);
  int pre = static_cast<int>(c.rng.below(NPRE)), ipre = static_cast<int>(c.rng.below(NPRE));
  Exp e(m, n), ie(m, n);
  for (size_t i = 0; i < m; ++i)
    for (size_t j = 0; j < n; ++j)
    {
      CLD s(0, 0);
      LD ab = 0;
      for (size_t t = 0; t < k; ++t)
      {
        CLD p = CLD(A.d(i, t), iA.d(i, t)) * CLD(B.d(t, j), iB.d(t, j));
        LD a = (fabsl(static_cast<LD>(A.d(i, t))) + fabsl(static_cast<LD>(iA.d(i, t)))) * (fabsl(static_cast<LD>(B.d(t, j))) + fabsl(static_cast<LD>(iB.d(t, j))));
        if (withDiag) { p *= CLD(D[t], iD[t]); a *= fabsl(static_cast<LD>(D[t])) + fabsl(static_cast<LD>(iD[t])); }
        s += p;
        ab += a;
      }
      e.at(i, j) = s.real();
      ie.at(i, j) = s.imag();
      e.tl(i, j) = ie.tl(i, j) = mode ? 8 * (4 * k + 8) * EPS * ab : 0;
    }
  string cls = shape3(m, k, n);
  vrt::describe(G + ":" + cls, G + " " + SM[mode] + " A " + str(m) + "x" + str(k) + " B " + str(k) + "x" + str(n) + " pre-states " + str(pre) + "," + str(ipre));
  vrt::cover(G + ":" + cls + ":" + SM[mode] + ":pre" + str(pre) + "," + str(ipre));
  Checker<S> ck(G, cls, [&] {
      return "mult(A=" + dumpD(A.d) + ", iA=" + dumpD(iA.d) + (withDiag ? ", D=" + dumpV(D) + ", iD=" + dumpV(iD) : string()) + ", B=" + dumpD(B.d) + ", iB=" + dumpD(iB.d) + ", O pre-state " + str(pre) + ", iO pre-state " + str(ipre) + ")";
    });
  for (auto& kk : combos(c.rng, 6, thoroughCombos ? 729 : 36))
  {
    Matrix<S>* a = A.get(kk[0]);
    Matrix<S>* ia = iA.get(kk[1]);
    Matrix<S>* b = B.get(kk[2]);
    Matrix<S>* ib = iB.get(kk[3]);
    if (!a || !ia || !b || !ib) { vrt::tally("skipped-unrepresentable-operand"); continue; }
    auto o = outM<S>(kk[4], pre, m, n);
    auto io = outM<S>(kk[5], ipre, m, n);
    Out r = withDiag ? call([&] { MatrixTools::mult(*a, *ia, D, iD, *b, *ib, *o, *io); }) : call([&] { MatrixTools::mult(*a, *ia, *b, *ib, *o, *io); });
    if (ck.returned(r, comboName(kk)))
    {
      ck.check(*o, kk[4], comboName(kk), e, 0, "O");
      ck.check(*io, kk[5], comboName(kk), ie, 1, "iO");
    }
  }
  ck.inputsUnchanged({ &A, &iA, &B, &iB });
}
void multComplexBad(vrt::Case& c, int mode, bool withDiag)
{
  typedef double S;
  const string G = withDiag ? "mult-complex-diag" : "mult-complex";
  size_t m = c.rng.below(8), k = c.rng.below(8), n = c.rng.below(8);
  size_t ar = m, ac = k, br = k, bc = n, iar = m, iac = k, ibr = k, ibc = n, dn = k, idn = k;
  string what, how;
  switch (c.rng.below(withDiag ? 5 : 3))
  {
  case 0: br = c.rng.below(7); if (br >= k) ++br; ibr = br; what = br < k ? "B-has-fewer-rows" : "B-has-more-rows"; break;
  case 1: perturbShape(c.rng, iar, iac, how); what = "iA-shape-differs-from-A:" + how; break;
  case 2: perturbShape(c.rng, ibr, ibc, how); what = "iB-shape-differs-from-B:" + how; break;
  case 3: dn = c.rng.chance(0.5) ? k + 1 : (k ? k - 1 : 1); if (c.rng.chance(0.5)) idn = dn; what = dn < k ? "D-shorter" : "D-longer"; break;
  default: idn = c.rng.chance(0.5) ? k + 1 : (k ? k - 1 : 1); what = idn < k ? "iD-shorter" : "iD-longer";
  }
  int pre = static_cast<int>(c.rng.below(NPRE)), ipre = static_cast<int>(c.rng.below(NPRE));
  Opnd<S> A(genDense<S>(c.rng, ar, ac, mode)), iA(genDense<S>(c.rng, iar, iac, mode)), B(genDense<S>(c.rng, br, bc, mode)), iB(genDense<S>(c.rng, ibr, ibc, mode));
  vector<S> D = genVec<S>(c.rng, dn, mode), iD = genVec<S>(c.rng, idn, mode);
  string cls = "A=" + sc(ar, ac) + ",B=" + sc(br, bc);
  vrt::describe(G + "-bad:" + what, G + " " + what + " A " + str(ar) + "x" + str(ac) + " iA " + str(iar) + "x" + str(iac) + " B " + str(br) + "x" + str(bc) + " iB " + str(ibr) + "x" + str(ibc) + " |D|=" + str(dn) + " |iD|=" + str(idn));
  vrt::cover(G + ":nonconformable:" + what + ":" + cls);
  Checker<S> ck(G, cls, [&] {
      return "mult(A=" + dumpD(A.d) + ", iA=" + dumpD(iA.d) + (withDiag ? ", D=" + dumpV(D) + ", iD=" + dumpV(iD) : string()) + ", B=" + dumpD(B.d) + ", iB=" + dumpD(iB.d) + ")";
    });
  for (auto& kk : combos(c.rng, 6, 36))
  {
    Matrix<S>* a = A.get(kk[0]);
    Matrix<S>* ia = iA.get(kk[1]);
    Matrix<S>* b = B.get(kk[2]);
    Matrix<S>* ib = iB.get(kk[3]);
    if (!a || !ia || !b || !ib) { vrt::tally("skipped-unrepresentable-operand"); continue; }
    auto o = outM<S>(kk[4], pre, m, n);
    auto io = outM<S>(kk[5], ipre, m, n);
    Out r = withDiag ? call([&] { MatrixTools::mult(*a, *ia, D, iD, *b, *ib, *o, *io); }) : call([&] { MatrixTools::mult(*a, *ia, *b, *ib, *o, *io); });
    ck.raisedDim(r, comboName(kk), what);
  }
}
template<bool withDiag> void caseMultComplex(vrt::Case& c)
{
  const size_t NC = 512 * 2 * 2;
  if (c.index < NC)
  {
    size_t s = c.index % 512;
    multComplex(c, s / 64, (s / 8) % 8, s % 8, static_cast<int>((c.index / 512) % 2), withDiag, c.tier == 1 && c.index < 1024);
    return;
  }
  multComplexBad(c, static_cast<int>(c.index % 2), withDiag);
}

// ================================================================ add, add(x.B), scale, transpose (templates over the matrix classes)
// routes: the 9 concrete pairs + (abstract, abstract) with random dynamic classes
struct Route2 { int ka, kb, ra, rb; string name() const { return string(1, KN[ka]) + (ra == 3 ? "b" : "") + KN[kb] + (rb == 3 ? "b" : ""); } };
vector<Route2> routes2(vrt::Rng& g)
{
  vector<Route2> v;
  for (int a = 0; a < 3; ++a) for (int b = 0; b < 3; ++b) v.push_back(Route2{ a, b, a, b });
  v.push_back(Route2{ static_cast<int>(g.below(3)), static_cast<int>(g.below(3)), 3, 3 });
  return v;
}

// variant 0: add(A,B); 1: add(A,x,B); 2: add(A,A) / add(A,x,A) (aliased)
template<class S> void addCase(vrt::Case& c, size_t r, size_t cc, int sm, int variant)
{
  int mode = sm == 1 ? 1 : 0;
  Dense<S> A0 = genDense<S>(c.rng, r, cc, mode);
  Opnd<S> B(genDense<S>(c.rng, r, cc, mode));
  bool scaled = variant == 1 || (variant == 2 && c.rng.chance(0.5));
  bool alias = variant == 2;
  S x = static_cast<S>(1);
  if (scaled) { int t = static_cast<int>(c.rng.below(4)); x = t == 0 ? static_cast<S>(0) : t == 1 ? static_cast<S>(1) : t == 2 ? static_cast<S>(-1) : genEntry<S>(c.rng, mode, 9); }
  const Dense<S>& Bd = alias ? A0 : B.d;
  Exp e(r, cc);
  for (size_t i = 0; i < r; ++i)
    for (size_t j = 0; j < cc; ++j)
    {
      LD p = static_cast<LD>(x) * static_cast<LD>(Bd(i, j));
      e.at(i, j) = static_cast<LD>(A0(i, j)) + p;
      e.tl(i, j) = mode ? 8 * EPS * (fabsl(static_cast<LD>(A0(i, j))) + fabsl(p)) : 0;
    }
  const string G = scaled ? "add-scaled" : "add";
  string cls = "shape=" + sc(r, cc) + (alias ? ",aliased" : "");
  vrt::describe(G + ":" + cls, G + " " + SM[sm] + " " + str(r) + "x" + str(cc) + (alias ? " B is A itself" : ""));
  vrt::cover(G + ":" + cls + ":" + SM[sm]);
  Checker<S> ck(G, cls, [&] { return G + "(A=" + dumpD(A0) + (scaled ? ", x=" + num(x) : string()) + ", B=" + (alias ? string("A") : dumpD(B.d)) + ")"; });
  for (const Route2& rt : routes2(c.rng))
  {
    if (alias && (rt.ka != rt.kb || rt.ra != rt.rb)) continue;
    auto a = fromDense<S>(rt.ka, A0);
    Matrix<S>* b = alias ? a.get() : B.get(rt.kb);
    if (!a || !b) { vrt::tally("skipped-unrepresentable-operand"); continue; }
    Out o = call([&] {
        asKind<S>(*a, rt.ra, [&](auto& AA) {
          asKind<S>(*b, rt.rb, [&](auto& BB) {
            if (scaled) MatrixTools::add(AA, x, BB);
            else MatrixTools::add(AA, BB);
          });
        });
      });
    if (ck.returned(o, rt.name())) ck.check(*a, rt.ka, rt.name(), e, 0, "A");
  }
  if (!alias) ck.inputsUnchanged({ &B });
}
template<class S> void addBad(vrt::Case& c, int sm)
{
  int mode = sm == 1 ? 1 : 0;
  size_t r = c.rng.below(8), cc = c.rng.below(8), br = r, bc = cc;
  string how;
  perturbShape(c.rng, br, bc, how);
  if (c.rng.chance(0.2)) { size_t r2 = br, c2 = bc; string h2; perturbShape(c.rng, r2, c2, h2); if (r2 != r || c2 != cc) { br = r2; bc = c2; how += "+" + h2; } }
  bool scaled = c.rng.chance(0.5);
  S x = genEntry<S>(c.rng, mode, 9);
  Dense<S> A0 = genDense<S>(c.rng, r, cc, mode);
  Opnd<S> B(genDense<S>(c.rng, br, bc, mode));
  const string G = scaled ? "add-scaled" : "add";
  string cls = "A=" + sc(r, cc);
  string what = (br >= r && bc >= cc) ? "B-larger" : (br <= r && bc <= cc) ? "B-smaller" : "B-larger-and-smaller";
  vrt::describe(G + "-bad:" + what, G + " " + SM[sm] + " A " + str(r) + "x" + str(cc) + " B " + str(br) + "x" + str(bc));
  vrt::cover(G + ":nonconformable:" + what + ":" + cls);
  Checker<S> ck(G, cls, [&] { return G + "(A=" + dumpD(A0) + (scaled ? ", x=" + num(x) : string()) + ", B=" + dumpD(B.d) + ")"; });
  for (const Route2& rt : routes2(c.rng))
  {
    auto a = fromDense<S>(rt.ka, A0);
    Matrix<S>* b = B.get(rt.kb);
    if (!a || !b) { vrt::tally("skipped-unrepresentable-operand"); continue; }
    Out o = call([&] {
        asKind<S>(*a, rt.ra, [&](auto& AA) {
          asKind<S>(*b, rt.rb, [&](auto& BB) {
            if (scaled) MatrixTools::add(AA, x, BB);
            else MatrixTools::add(AA, BB);
          });
        });
      });
    ck.raisedDim(o, rt.name(), what);
  }
}
void caseAdd(vrt::Case& c)
{
  const size_t NC = 64 * 3 * 3;
  if (c.index < NC)
  {
    size_t s = c.index % 64, sm = (c.index / 64) % 3, variant = c.index / 192;
    if (sm == 2) addCase<int>(c, s / 8, s % 8, 2, static_cast<int>(variant));
    else addCase<double>(c, s / 8, s % 8, static_cast<int>(sm), static_cast<int>(variant));
    return;
  }
  int sm = static_cast<int>(c.index % 3);
  if (sm == 2) addBad<int>(c, 2);
  else addBad<double>(c, sm);
}

// ---- scale(A,a,b): A <- a.A + b
template<class S> void scaleCase(vrt::Case& c, size_t r, size_t cc, int sm, int ab)
{
  int mode = sm == 1 ? 1 : 0;
  Dense<S> A0 = genDense<S>(c.rng, r, cc, mode);
  S a = genEntry<S>(c.rng, mode, 9), b = genEntry<S>(c.rng, mode, 9);
  bool defaultB = false;
  switch (ab)
  {
  case 0: a = 1; b = 0; break;
  case 1: a = 1; break;
  case 2: a = 0; break;
  case 3: b = 0; defaultB = true; break;
  case 4: a = -1; b = 0; break;
  default: break;
  }
  Exp e(r, cc);
  for (size_t i = 0; i < r; ++i)
    for (size_t j = 0; j < cc; ++j)
    {
      LD p = static_cast<LD>(a) * static_cast<LD>(A0(i, j));
      e.at(i, j) = p + static_cast<LD>(b);
      e.tl(i, j) = mode ? 8 * EPS * (fabsl(p) + fabsl(static_cast<LD>(b))) : 0;
    }
  const char* abn[] = { "a=1,b=0", "a=1", "a=0", "b-defaulted", "a=-1,b=0", "general" };
  string cls = string("shape=") + sc(r, cc) + "," + abn[ab];
  vrt::describe("scale:" + cls, string("scale(A,a,b) ") + SM[sm] + " " + str(r) + "x" + str(cc) + " a=" + num(a) + " b=" + num(b));
  vrt::cover("scale:" + cls + ":" + SM[sm]);
  Checker<S> ck("scale", cls, [&] { return "scale(A=" + dumpD(A0) + ", a=" + num(a) + ", b=" + num(b) + ")"; });
  for (int route = 0; route < 4; ++route)
  {
    int kind = route < 3 ? route : static_cast<int>(c.rng.below(3));
    auto m = fromDense<S>(kind, A0);
    if (!m) { vrt::tally("skipped-unrepresentable-operand"); continue; }
    string name = string(1, KN[kind]) + (route == 3 ? "b" : "");
    Out o = call([&] { asKind<S>(*m, route, [&](auto& AA) { if (defaultB) MatrixTools::scale(AA, a); else MatrixTools::scale(AA, a, b); }); });
    if (ck.returned(o, name)) ck.check(*m, kind, name, e, 0, "A");
  }
}
void caseScale(vrt::Case& c)
{
  size_t s = c.index % 64, sm = (c.index / 64) % 3, ab = (c.index / 192) % 6;
  if (sm == 2) scaleCase<int>(c, s / 8, s % 8, 2, static_cast<int>(ab));
  else scaleCase<double>(c, s / 8, s % 8, static_cast<int>(sm), static_cast<int>(ab));
}

// ---- scale(A,a,b) with scalars of another type than the entries (Matrix and Scalar are independent template parameters):
// int entries with real a, b and double entries with int a, b.  The definition a.m+b is one expression in the common type of
// scalar and entry.  Real a, b are multiples of 1/2 or 1/8, so a.m+b is an exact multiple of 1/8 in double: when it is an
// integer an int entry must hold exactly that integer, otherwise either neighbouring integer is accepted (the statement fixes
// no rounding mode for the conversion to the entry type): |stored - (a.m+b)| <= 7/8 < 1.
template<class S, class T> void scaleMixedCase(vrt::Case& c, size_t r, size_t cc, int sm, int ab)
{
  const bool intM = is_same<S, int>::value;
  int mode = sm == 2 ? 1 : 0;
  Dense<S> A0 = genDense<S>(c.rng, r, cc, mode);
  long long den = intM ? (c.rng.chance(0.5) ? 2 : 8) : 1;
  T a = static_cast<T>(c.rng.range(-9 * den, 9 * den)) / static_cast<T>(den), b = static_cast<T>(c.rng.range(-9 * den, 9 * den)) / static_cast<T>(den);
  bool defaultB = false;
  switch (ab)
  {
  case 0: a = 1; b = 0; break;
  case 1: a = 1; break;
  case 2: a = 0; break;
  case 3: b = 0; defaultB = true; break;
  case 4: a = -1; b = 0; break;
  default: ab = 5; break;
  }
  Exp e(r, cc);
  for (size_t i = 0; i < r; ++i)
    for (size_t j = 0; j < cc; ++j)
    {
      LD p = static_cast<LD>(a) * static_cast<LD>(A0(i, j));
      e.at(i, j) = p + static_cast<LD>(b);
      if (intM) e.tl(i, j) = e.at(i, j) == floorl(e.at(i, j)) ? 0 : 0.875L;
      else e.tl(i, j) = mode ? 8 * EPS * (fabsl(p) + fabsl(static_cast<LD>(b))) : 0;
    }
  const char* abn[] = { "a=1,b=0", "a=1", "a=0", "b-defaulted", "a=-1,b=0", "general" };
  const char* smn[] = { "int-entries,real-scalars", "double-int-entries,int-scalars", "double-real-entries,int-scalars" };
  string cls = string("shape=") + sc(r, cc) + "," + abn[ab] + "," + smn[sm];
  vrt::describe("scale-mixed:" + cls, string("scale(A,a,b) ") + smn[sm] + " " + str(r) + "x" + str(cc) + " a=" + num(a) + " b=" + num(b));
  vrt::cover("scale-mixed:" + cls);
  Checker<S> ck("scale-mixed", cls, [&] { return string("scale(") + smn[sm] + " A=" + dumpD(A0) + ", a=" + num(a) + ", b=" + num(b) + ")"; });
  for (int route = 0; route < 4; ++route)
  {
    int kind = route < 3 ? route : static_cast<int>(c.rng.below(3));
    auto m = fromDense<S>(kind, A0);
    if (!m) { vrt::tally("skipped-unrepresentable-operand"); continue; }
    string name = string(1, KN[kind]) + (route == 3 ? "b" : "");
    Out o = call([&] { asKind<S>(*m, route, [&](auto& AA) { if (defaultB) MatrixTools::scale(AA, a); else MatrixTools::scale(AA, a, b); }); });
    if (ck.returned(o, name)) ck.check(*m, kind, name, e, 0, "A");
  }
}
void caseScaleMixed(vrt::Case& c)
{
  size_t s = c.index % 64, sm = (c.index / 64) % 3, ab = (c.index / 192) % 8; // ab 5..7: general a, b
  if (sm == 0) scaleMixedCase<int, double>(c, s / 8, s % 8, 0, static_cast<int>(ab));
  else scaleMixedCase<double, int>(c, s / 8, s % 8, static_cast<int>(sm), static_cast<int>(ab));
}

// ---- transpose(A,O) and copy(A,O)
template<class S> void transposeCase(vrt::Case& c, size_t r, size_t cc, int sm, int pre, bool isCopy)
{
  int mode = sm == 1 ? 1 : 0;
  Opnd<S> A(genDense<S>(c.rng, r, cc, mode));
  Exp e(isCopy ? r : cc, isCopy ? cc : r);
  for (size_t i = 0; i < r; ++i) for (size_t j = 0; j < cc; ++j) { if (isCopy) e.at(i, j) = A.d(i, j); else e.at(j, i) = A.d(i, j); }
  const string G = isCopy ? "copy" : "transpose";
  string cls = "shape=" + sc(r, cc);
  vrt::describe(G + ":" + cls, G + "(A,O) " + SM[sm] + " " + str(r) + "x" + str(cc) + " pre-state " + str(pre));
  vrt::cover(G + ":" + cls + ":" + SM[sm] + ":pre" + str(pre));
  Checker<S> ck(G, cls, [&] { return G + "(A=" + dumpD(A.d) + ", O pre-state " + str(pre) + ")"; });
  for (const Route2& rt : routes2(c.rng))
  {
    Matrix<S>* a = A.get(rt.ka);
    if (!a) { vrt::tally("skipped-unrepresentable-operand"); continue; }
    auto o = outM<S>(rt.kb, pre, e.r, e.c);
    Out out = call([&] {
        asKind<S>(*a, rt.ra, [&](auto& AA) {
          asKind<S>(*o, rt.rb, [&](auto& OO) {
            if (isCopy) MatrixTools::copy(AA, OO);
            else MatrixTools::transpose(AA, OO);
          });
        });
      });
    if (ck.returned(out, rt.name())) ck.check(*o, rt.kb, rt.name(), e);
  }
  ck.inputsUnchanged({ &A });
}
void caseTranspose(vrt::Case& c)
{
  size_t s = c.index % 64, sm = (c.index / 64) % 3, pre = (c.index / 192) % NPRE;
  bool isCopy = c.index >= 64 * 3 * NPRE;
  if (sm == 2) transposeCase<int>(c, s / 8, s % 8, 2, static_cast<int>(pre), isCopy);
  else transposeCase<double>(c, s / 8, s % 8, static_cast<int>(sm), static_cast<int>(pre), isCopy);
}

// ================================================================ pow(A,p,O), Taylor(A,p,vO)
// exact powers of A (long double) and of |A| (for the rounding bound)
struct Powers { vector<vector<LD>> P, Q; size_t n; };
template<class S> Powers powersOf(const Dense<S>& A, size_t pmax)
{
  Powers w;
  size_t n = w.n = A.r;
  w.P.assign(pmax + 1, vector<LD>(n * n, 0));
  w.Q = w.P;
  for (size_t i = 0; i < n; ++i) w.P[0][i * n + i] = w.Q[0][i * n + i] = 1;
  for (size_t p = 1; p <= pmax; ++p)
    for (size_t i = 0; i < n; ++i)
      for (size_t j = 0; j < n; ++j)
      {
        LD s = 0, q = 0;
        for (size_t t = 0; t < n; ++t) { s += w.P[p - 1][i * n + t] * static_cast<LD>(A(t, j)); q += w.Q[p - 1][i * n + t] * fabsl(static_cast<LD>(A(t, j))); }
        w.P[p][i * n + j] = s;
        w.Q[p][i * n + j] = q;
      }
  return w;
}
Exp expPower(const Powers& w, size_t p, int mode)
{
  Exp e(w.n, w.n);
  for (size_t t = 0; t < w.n * w.n; ++t) { e.v[t] = w.P[p][t]; e.tol[t] = (mode && p >= 2) ? 8 * (p * w.n + 4) * EPS * w.Q[p][t] : 0; }
  return e;
}
template<class S> int powLim(size_t p, int sm)
{
  // keep every entry of every intermediate power exactly representable: |A^p| <= lim^p n^(p-1), n <= 7
  if (p <= 3) return 9;       // 9^3 * 49 = 35721
  if (p <= 5) return 4;       // 4^5 * 7^4 = 2.5e6
  return 2;                   // 2^10 * 7^9 = 4.1e10 (double) ; int: p <= 8 -> 2^8 * 7^7 = 2.1e8
}
template<class S> void powCase(vrt::Case& c, size_t n, size_t p, int sm, int pre)
{
  int mode = sm == 1 ? 1 : 0;
  Opnd<S> A(genDense<S>(c.rng, n, n, mode, powLim<S>(p, sm)));
  Powers w = powersOf(A.d, p);
  Exp e = expPower(w, p, mode);
  string cls = "n=" + dc(n) + ",p=" + (p <= 3 ? str(p) : p % 2 ? "odd" : "even");
  vrt::describe("pow:" + cls, string("pow(A,p,O) ") + SM[sm] + " n=" + str(n) + " p=" + str(p) + " pre-state " + str(pre));
  vrt::cover("pow:n=" + str(n) + ":p=" + str(p) + ":" + SM[sm]);
  Checker<S> ck("pow", cls, [&] { return "pow(A=" + dumpD(A.d) + ", p=" + str(p) + ", O pre-state " + str(pre) + ")"; });
  for (int kind = 0; kind < 3; ++kind)
  {
    Matrix<S>* a = A.get(kind);
    if (!a) { vrt::tally("skipped-unrepresentable-operand"); continue; }
    auto o = outM<S>(kind, pre, n, n);
    Out out = call([&] { asConcrete<S>(*a, kind, [&](auto& AA) { typedef typename std::remove_reference<decltype(AA)>::type M; MatrixTools::pow(AA, p, static_cast<M&>(*o)); }); });
    if (ck.returned(out, string(1, KN[kind]))) ck.check(*o, kind, string(1, KN[kind]), e);
  }
  ck.inputsUnchanged({ &A });
}
template<class S> void powBad(vrt::Case& c, int sm)
{
  int mode = sm == 1 ? 1 : 0;
  size_t r = c.rng.below(8), cc = c.rng.below(7);
  if (cc >= r) ++cc;
  size_t p = c.rng.below(7);
  Opnd<S> A(genDense<S>(c.rng, r, cc, mode, 2));
  string cls = "A=" + sc(r, cc) + ",p=" + (p <= 3 ? str(p) : p % 2 ? "odd" : "even");
  vrt::describe("pow-bad:" + cls, string("pow(A,p,O) ") + SM[sm] + " A " + str(r) + "x" + str(cc) + " p=" + str(p));
  vrt::cover("pow:nonconformable:" + cls);
  Checker<S> ck("pow", cls, [&] { return "pow(A=" + dumpD(A.d) + ", p=" + str(p) + ")"; });
  int pre = static_cast<int>(c.rng.below(NPRE));
  for (int kind = 0; kind < 3; ++kind)
  {
    Matrix<S>* a = A.get(kind);
    if (!a) { vrt::tally("skipped-unrepresentable-operand"); continue; }
    auto o = outM<S>(kind, pre, r, r);
    Out out = call([&] { asConcrete<S>(*a, kind, [&](auto& AA) { typedef typename std::remove_reference<decltype(AA)>::type M; MatrixTools::pow(AA, p, static_cast<M&>(*o)); }); });
    ck.raisedDim(out, string(1, KN[kind]), "A-not-square");
  }
}
void casePow(vrt::Case& c)
{
  const size_t NP = 11, NC = 8 * NP * 3 * NPRE;
  if (c.index < NC)
  {
    size_t n = c.index % 8, p = (c.index / 8) % NP, sm = (c.index / (8 * NP)) % 3, pre = c.index / (8 * NP * 3);
    if (sm == 2) powCase<int>(c, n, p > 8 ? p - 3 : p, 2, static_cast<int>(pre));
    else powCase<double>(c, n, p, static_cast<int>(sm), static_cast<int>(pre));
    return;
  }
  int sm = static_cast<int>(c.index % 3);
  if (sm == 2) powBad<int>(c, 2);
  else powBad<double>(c, sm);
}

// Taylor(A,p,vO): vO = (A^0 .. A^p).  route 0: A passed as RowMatrix; routes 1..3: A passed as abstract Matrix (dynamic R/C/L)
template<class S> void taylorCase(vrt::Case& c, size_t n, size_t p, int sm, int vpre)
{
  int mode = sm == 1 ? 1 : 0;
  Opnd<S> A(genDense<S>(c.rng, n, n, mode, powLim<S>(p, sm)));
  Powers w = powersOf(A.d, p);
  string cls = "n=" + dc(n) + ",p=" + (p <= 2 ? str(p) : "n");
  vrt::describe("taylor:" + cls, string("Taylor(A,p,vO) ") + SM[sm] + " n=" + str(n) + " p=" + str(p) + " vO pre-state " + str(vpre));
  vrt::cover("taylor:n=" + str(n) + ":p=" + str(p) + ":" + SM[sm] + ":vpre" + str(vpre));
  Checker<S> ck("taylor", cls, [&] { return "Taylor(A=" + dumpD(A.d) + ", p=" + str(p) + ", vO pre-state " + str(vpre) + ")"; });
  for (int route = 0; route < 4; ++route)
  {
    int kind = route == 0 ? 0 : route - 1;
    Matrix<S>* a = A.get(kind);
    if (!a) { vrt::tally("skipped-unrepresentable-operand"); continue; }
    vector<RowMatrix<S>> vO;
    if (vpre == 1) vO.assign(p + 3, RowMatrix<S>(n + 1, n + 2));
    else if (vpre == 2) vO.assign(p / 2, RowMatrix<S>(n, n));
    else if (vpre == 3) vO.assign(p + 1, RowMatrix<S>(n ? n - 1 : 2, n));
    for (auto& m : vO) for (size_t i = 0; i < m.getNumberOfRows(); ++i) for (size_t j = 0; j < m.getNumberOfColumns(); ++j) m(i, j) = garbage<S>(i, j);
    string name = string(1, KN[kind]) + (route ? "b" : "");
    Out out = call([&] {
        if (route == 0) MatrixTools::Taylor(static_cast<RowMatrix<S>&>(*a), p, vO);
        else MatrixTools::Taylor(*a, p, vO);
      });
    if (!ck.returned(out, name)) continue;
    if (!vrt::expect(vO.size() == p + 1, "taylor.length", cls, [&] { return ck.ops() + " route " + name + " => " + str(vO.size()) + " matrices, expected " + str(p + 1); })) continue;
    for (size_t q = 0; q <= p; ++q)
    {
      Exp e = expPower(w, q, mode);
      ck.check(vO[q], 0, name, e, q, ("vO[" + str(q) + "]").c_str());
    }
  }
  ck.inputsUnchanged({ &A });
}
template<class S> void taylorBad(vrt::Case& c, int sm)
{
  int mode = sm == 1 ? 1 : 0;
  size_t r = c.rng.below(8), cc = c.rng.below(7);
  if (cc >= r) ++cc;
  size_t p = c.rng.below(5);
  Opnd<S> A(genDense<S>(c.rng, r, cc, mode, 2));
  string cls = "A=" + sc(r, cc) + ",p=" + (p <= 2 ? str(p) : "n");
  vrt::describe("taylor-bad:" + cls, string("Taylor(A,p,vO) ") + SM[sm] + " A " + str(r) + "x" + str(cc) + " p=" + str(p));
  vrt::cover("taylor:nonconformable:" + cls);
  Checker<S> ck("taylor", cls, [&] { return "Taylor(A=" + dumpD(A.d) + ", p=" + str(p) + ")"; });
  for (int route = 0; route < 4; ++route)
  {
    int kind = route == 0 ? 0 : route - 1;
    Matrix<S>* a = A.get(kind);
    if (!a) { vrt::tally("skipped-unrepresentable-operand"); continue; }
    vector<RowMatrix<S>> vO;
    Out out = call([&] {
        if (route == 0) MatrixTools::Taylor(static_cast<RowMatrix<S>&>(*a), p, vO);
        else MatrixTools::Taylor(*a, p, vO);
      });
    ck.raisedDim(out, string(1, KN[kind]) + (route ? "b" : ""), "A-not-square");
  }
}
void caseTaylor(vrt::Case& c)
{
  const size_t NP = 7, NC = 8 * NP * 3 * 4;
  if (c.index < NC)
  {
    size_t n = c.index % 8, p = (c.index / 8) % NP, sm = (c.index / (8 * NP)) % 3, vpre = c.index / (8 * NP * 3);
    if (sm == 2) taylorCase<int>(c, n, p, 2, static_cast<int>(vpre));
    else taylorCase<double>(c, n, p, static_cast<int>(sm), static_cast<int>(vpre));
    return;
  }
  int sm = static_cast<int>(c.index % 3);
  if (sm == 2) taylorBad<int>(c, 2);
  else taylorBad<double>(c, sm);
}

// ================================================================ kroneckerMult x3
// variant 0: A (x) B ; 1: A (x) (v.I_dim) ; 2: A (x) B with the diagonals of A and B replaced by dA, dB
template<class S> void kronCase(vrt::Case& c, size_t ar, size_t ac, size_t br, size_t bc, int sm, int variant, size_t maxCombos)
{
  int mode = sm == 1 ? 1 : 0;
  if (variant == 1) bc = br;
  Opnd<S> A(genDense<S>(c.rng, ar, ac, mode)), B(genDense<S>(c.rng, br, bc, mode));
  S v = genEntry<S>(c.rng, mode, 9), dA = genEntry<S>(c.rng, mode, 9), dB = genEntry<S>(c.rng, mode, 9);
  int pre = static_cast<int>(c.rng.below(NPRE + 1)); // NPRE = exact size, garbage, check=false
  bool noCheck = pre == NPRE;
  Exp e(ar * br, ac * bc);
  for (size_t ia = 0; ia < ar; ++ia)
    for (size_t ja = 0; ja < ac; ++ja)
      for (size_t ib = 0; ib < br; ++ib)
        for (size_t jb = 0; jb < bc; ++jb)
        {
          LD a = variant == 2 && ia == ja ? static_cast<LD>(dA) : static_cast<LD>(A.d(ia, ja));
          LD b = variant == 1 ? (ib == jb ? static_cast<LD>(v) : 0) : (variant == 2 && ib == jb) ? static_cast<LD>(dB) : static_cast<LD>(B.d(ib, jb));
          e.at(ia * br + ib, ja * bc + jb) = a * b;
          e.tl(ia * br + ib, ja * bc + jb) = mode ? 4 * EPS * fabsl(a * b) : 0;
        }
  const char* vn[] = { "kron", "kron-scalar-identity", "kron-replaced-diagonals" };
  const string G = vn[variant];
  string cls = "A=" + sc(ar, ac) + ",B=" + sc(br, bc);
  vrt::describe(G + ":" + cls, G + " " + SM[sm] + " A " + str(ar) + "x" + str(ac) + " B " + str(br) + "x" + str(bc) + (noCheck ? " check=false" : " pre-state " + str(pre)));
  vrt::cover(G + ":" + cls + ":" + SM[sm] + (noCheck ? ":nocheck" : ""));
  Checker<S> ck(G, cls, [&] {
      return G + "(A=" + dumpD(A.d) + (variant == 1 ? ", dim=" + str(br) + ", v=" + num(v) : ", B=" + dumpD(B.d)) + (variant == 2 ? ", dA=" + num(dA) + ", dB=" + num(dB) : string()) + (noCheck ? ", O exact size, check=false)" : ", O pre-state " + str(pre) + ")");
    });
  for (auto& kk : combos(c.rng, 3, maxCombos))
  {
    Matrix<S>* a = A.get(kk[0]);
    Matrix<S>* b = B.get(kk[1]);
    if (variant == 1) kk[1] = kk[0];
    if (!a || (variant != 1 && !b)) { vrt::tally("skipped-unrepresentable-operand"); continue; }
    if (noCheck && !representable(kk[2], e.r, e.c)) { vrt::tally("skipped-unrepresentable-result"); continue; }
    auto o = outM<S>(kk[2], noCheck ? 1 : pre, e.r, e.c);
    Out r = call([&] {
        if (variant == 0) { if (noCheck) MatrixTools::kroneckerMult(*a, *b, *o, false); else MatrixTools::kroneckerMult(*a, *b, *o); }
        else if (variant == 1) { if (noCheck) MatrixTools::kroneckerMult(*a, br, v, *o, false); else MatrixTools::kroneckerMult(*a, br, v, *o); }
        else { if (noCheck) MatrixTools::kroneckerMult(*a, *b, dA, dB, *o, false); else MatrixTools::kroneckerMult(*a, *b, dA, dB, *o); }
      });
    if (ck.returned(r, comboName(kk))) ck.check(*o, kk[2], comboName(kk), e);
  }
  ck.inputsUnchanged({ &A, &B });
}
void caseKron(vrt::Case& c)
{
  // first block: all shape pairs with every dimension <= 3 (4^4) x 3 variants x 3 scalar modes, all 27 storage combinations;
  // then random shapes up to 7x7 with 6 storage combinations
  const size_t NS = 256 * 3 * 3;
  size_t ar, ac, br, bc, sm, variant, maxc = 27;
  if (c.index < NS)
  {
    size_t s = c.index % 256;
    ar = s / 64; ac = (s / 16) % 4; br = (s / 4) % 4; bc = s % 4;
    variant = (c.index / 256) % 3;
    sm = c.index / 768;
  }
  else
  {
    ar = c.rng.below(8); ac = c.rng.below(8); br = c.rng.below(8); bc = c.rng.below(8);
    variant = c.index % 3;
    sm = (c.index / 3) % 3;
    maxc = 6;
  }
  if (sm == 2) kronCase<int>(c, ar, ac, br, bc, 2, static_cast<int>(variant), maxc);
  else kronCase<double>(c, ar, ac, br, bc, static_cast<int>(sm), static_cast<int>(variant), maxc);
}

// ================================================================ hadamardMult x3
// variant 0: A o B ; 1: complex pairs ; 2: rows weighted by a vector ; 3: columns weighted by a vector
template<class S> void hadamardCase(vrt::Case& c, size_t r, size_t cc, int sm, int variant, bool bad)
{
  int mode = sm == 1 ? 1 : 0;
  size_t br = r, bc = cc, iar = r, iac = cc, ibr = r, ibc = cc, wn = variant == 2 ? r : cc;
  string what, how;
  if (bad)
  {
    if (variant >= 2) { bool more = c.rng.chance(0.5) || wn == 0; wn = more ? wn + 1 + c.rng.below(2) : wn - 1; what = more ? "weights-longer" : "weights-shorter"; }
    else
    {
      int t = variant == 0 ? 0 : static_cast<int>(c.rng.below(3));
      if (t == 0) { perturbShape(c.rng, br, bc, how); ibr = br; ibc = bc; what = "B-" + how; }
      else if (t == 1) { perturbShape(c.rng, iar, iac, how); what = "iA-shape-differs-from-A:" + how; }
      else { perturbShape(c.rng, ibr, ibc, how); what = "iB-shape-differs-from-B:" + how; }
    }
  }
  Opnd<S> A(genDense<S>(c.rng, r, cc, mode)), B(genDense<S>(c.rng, br, bc, mode)), iA(genDense<S>(c.rng, iar, iac, mode)), iB(genDense<S>(c.rng, ibr, ibc, mode));
  vector<S> w = genVec<S>(c.rng, wn, mode);
  int pre = static_cast<int>(c.rng.below(NPRE)), ipre = static_cast<int>(c.rng.below(NPRE));
  Exp e(r, cc), ie(r, cc);
  if (!bad)
    for (size_t i = 0; i < r; ++i)
      for (size_t j = 0; j < cc; ++j)
      {
        LD a = A.d(i, j), b = B.d(i, j), ia = iA.d(i, j), ib = iB.d(i, j);
        if (variant == 0) { e.at(i, j) = a * b; e.tl(i, j) = mode ? 4 * EPS * fabsl(a * b) : 0; }
        else if (variant == 1)
        {
          e.at(i, j) = a * b - ia * ib;
          ie.at(i, j) = ia * b + a * ib;
          e.tl(i, j) = mode ? 8 * EPS * (fabsl(a * b) + fabsl(ia * ib)) : 0;
          ie.tl(i, j) = mode ? 8 * EPS * (fabsl(ia * b) + fabsl(a * ib)) : 0;
        }
        else { LD x = variant == 2 ? w[i] : w[j]; e.at(i, j) = a * x; e.tl(i, j) = mode ? 4 * EPS * fabsl(a * x) : 0; }
      }
  const char* vn[] = { "hadamard", "hadamard-complex", "hadamard-row-weights", "hadamard-col-weights" };
  const string G = vn[variant];
  string cls = "shape=" + sc(r, cc);
  vrt::describe(G + (bad ? "-bad:" + what : ":" + cls), G + " " + SM[sm] + " A " + str(r) + "x" + str(cc) + (bad ? " " + what : string()) + " pre-states " + str(pre) + "," + str(ipre));
  vrt::cover(G + ":" + (bad ? "nonconformable:" + what + ":" : string()) + cls + ":" + SM[sm]);
  Checker<S> ck(G, cls, [&] {
      if (variant == 0) return G + "(A=" + dumpD(A.d) + ", B=" + dumpD(B.d) + ", O pre-state " + str(pre) + ")";
      if (variant == 1) return G + "(A=" + dumpD(A.d) + ", iA=" + dumpD(iA.d) + ", B=" + dumpD(B.d) + ", iB=" + dumpD(iB.d) + ", O pre-state " + str(pre) + ", iO pre-state " + str(ipre) + ")";
      return G + "(A=" + dumpD(A.d) + ", weights=" + dumpV(w) + ", O pre-state " + str(pre) + ")";
    });
  int nm = variant == 0 ? 3 : variant == 1 ? 6 : 2;
  for (auto& kk : combos(c.rng, nm, variant == 1 ? 36 : 27))
  {
    Out out;
    if (variant == 0)
    {
      Matrix<S>* a = A.get(kk[0]);
      Matrix<S>* b = B.get(kk[1]);
      if (!a || !b) { vrt::tally("skipped-unrepresentable-operand"); continue; }
      auto o = outM<S>(kk[2], pre, r, cc);
      out = call([&] { MatrixTools::hadamardMult(*a, *b, *o); });
      if (bad) ck.raisedDim(out, comboName(kk), what);
      else if (ck.returned(out, comboName(kk))) ck.check(*o, kk[2], comboName(kk), e);
    }
    else if (variant == 1)
    {
      Matrix<S>* a = A.get(kk[0]);
      Matrix<S>* ia = iA.get(kk[1]);
      Matrix<S>* b = B.get(kk[2]);
      Matrix<S>* ib = iB.get(kk[3]);
      if (!a || !ia || !b || !ib) { vrt::tally("skipped-unrepresentable-operand"); continue; }
      auto o = outM<S>(kk[4], pre, r, cc);
      auto io = outM<S>(kk[5], ipre, r, cc);
      out = call([&] { MatrixTools::hadamardMult(*a, *ia, *b, *ib, *o, *io); });
      if (bad) ck.raisedDim(out, comboName(kk), what);
      else if (ck.returned(out, comboName(kk))) { ck.check(*o, kk[4], comboName(kk), e, 0, "O"); ck.check(*io, kk[5], comboName(kk), ie, 1, "iO"); }
    }
    else
    {
      Matrix<S>* a = A.get(kk[0]);
      if (!a) { vrt::tally("skipped-unrepresentable-operand"); continue; }
      auto o = outM<S>(kk[1], pre, r, cc);
      out = call([&] { MatrixTools::hadamardMult(*a, w, *o, variant == 2); });
      if (bad) ck.raisedDim(out, comboName(kk), what);
      else if (ck.returned(out, comboName(kk))) ck.check(*o, kk[1], comboName(kk), e);
    }
  }
  ck.inputsUnchanged({ &A, &B, &iA, &iB });
}
void caseHadamard(vrt::Case& c)
{
  const size_t NC = 64 * 3 * 4 * 3; // shapes x scalar modes x variants x 3 repetitions (random pre-states)
  size_t r, cc, sm, variant;
  bool bad = c.index >= NC;
  if (!bad) { size_t s = c.index % 64; r = s / 8; cc = s % 8; sm = (c.index / 64) % 3; variant = (c.index / 192) % 4; }
  else { r = c.rng.below(8); cc = c.rng.below(8); sm = c.index % 3; variant = (c.index / 3) % 4; }
  if (sm == 2) hadamardCase<int>(c, r, cc, 2, static_cast<int>(variant), bad);
  else hadamardCase<double>(c, r, cc, static_cast<int>(sm), static_cast<int>(variant), bad);
}

// ================================================================ directSum x2
template<class S> void directSumPair(vrt::Case& c, size_t ar, size_t ac, size_t br, size_t bc, int sm)
{
  int mode = sm == 1 ? 1 : 0;
  Opnd<S> A(genDense<S>(c.rng, ar, ac, mode)), B(genDense<S>(c.rng, br, bc, mode));
  int pre = static_cast<int>(c.rng.below(NPRE));
  Exp e(ar + br, ac + bc);
  for (size_t i = 0; i < ar; ++i) for (size_t j = 0; j < ac; ++j) e.at(i, j) = A.d(i, j);
  for (size_t i = 0; i < br; ++i) for (size_t j = 0; j < bc; ++j) e.at(ar + i, ac + j) = B.d(i, j);
  string cls = "A=" + sc(ar, ac) + ",B=" + sc(br, bc);
  vrt::describe("directsum:" + cls, string("directSum(A,B,O) ") + SM[sm] + " A " + str(ar) + "x" + str(ac) + " B " + str(br) + "x" + str(bc) + " pre-state " + str(pre));
  vrt::cover("directsum:" + cls + ":" + SM[sm] + ":pre" + str(pre));
  Checker<S> ck("directsum", cls, [&] { return "directSum(A=" + dumpD(A.d) + ", B=" + dumpD(B.d) + ", O pre-state " + str(pre) + ")"; });
  for (auto& kk : combos(c.rng, 3, 27))
  {
    Matrix<S>* a = A.get(kk[0]);
    Matrix<S>* b = B.get(kk[1]);
    if (!a || !b) { vrt::tally("skipped-unrepresentable-operand"); continue; }
    auto o = outM<S>(kk[2], pre, e.r, e.c);
    Out r = call([&] { MatrixTools::directSum(*a, *b, *o); });
    if (ck.returned(r, comboName(kk))) ck.check(*o, kk[2], comboName(kk), e);
  }
  ck.inputsUnchanged({ &A, &B });
}
template<class S> void directSumList(vrt::Case& c, int sm)
{
  int mode = sm == 1 ? 1 : 0;
  size_t cnt = c.rng.below(5);
  vector<unique_ptr<Matrix<S>>> own;
  vector<Matrix<S>*> vA;
  vector<Dense<S>> ds;
  string kinds, shapes;
  size_t R = 0, C = 0;
  for (size_t t = 0; t < cnt; ++t)
  {
    int kind = static_cast<int>(c.rng.below(3));
    size_t r = c.rng.below(t == 0 ? 8 : 5), cc = c.rng.below(t == 0 ? 8 : 5);
    if (!representable(kind, r, cc)) kind = 2;
    Dense<S> d = genDense<S>(c.rng, r, cc, mode);
    own.push_back(fromDense<S>(kind, d));
    vA.push_back(own.back().get());
    ds.push_back(d);
    kinds += KN[kind];
    shapes += (t ? "+" : "") + sc(r, cc);
    R += r;
    C += cc;
  }
  int pre = static_cast<int>(c.rng.below(NPRE));
  Exp e(R, C);
  size_t ro = 0, co = 0;
  for (const Dense<S>& d : ds)
  {
    for (size_t i = 0; i < d.r; ++i) for (size_t j = 0; j < d.c; ++j) e.at(ro + i, co + j) = d(i, j);
    ro += d.r;
    co += d.c;
  }
  string cls = "count=" + str(cnt);
  vrt::describe("directsum-list:" + cls, string("directSum(vA,O) ") + SM[sm] + " blocks " + shapes + " kinds " + kinds + " pre-state " + str(pre));
  vrt::cover("directsum-list:" + shapes);
  Checker<S> ck("directsum-list", cls, [&] {
      string s = "directSum({";
      for (size_t t = 0; t < ds.size(); ++t) s += (t ? ", " : "") + string(1, kinds[t]) + ":" + dumpD(ds[t]);
      return s + "}, O pre-state " + str(pre) + ")";
    });
  for (int ko = 0; ko < 3; ++ko)
  {
    auto o = outM<S>(ko, pre, R, C);
    Out r = call([&] { MatrixTools::directSum(vA, *o); });
    if (ck.returned(r, kinds + ">" + KN[ko])) ck.check(*o, ko, kinds + ">" + KN[ko], e);
  }
  bool same = true;
  for (size_t t = 0; t < ds.size(); ++t)
    for (size_t i = 0; i < ds[t].r; ++i) for (size_t j = 0; j < ds[t].c; ++j) same &= (*vA[t])(i, j) == ds[t](i, j);
  vrt::expect(same, "directsum-list.inputs-unchanged", cls, [&] { return ck.ops() + ": a block was modified"; });
}
void caseDirectSum(vrt::Case& c)
{
  const size_t NP = 4096;
  if (c.index < NP)
  {
    size_t s = c.index, sm = (s * 7 + s / 64) % 3;
    if (sm == 2) directSumPair<int>(c, s / 512, (s / 64) % 8, (s / 8) % 8, s % 8, 2);
    else directSumPair<double>(c, s / 512, (s / 64) % 8, (s / 8) % 8, s % 8, static_cast<int>(sm));
    return;
  }
  int sm = static_cast<int>(c.index % 3);
  if (sm == 2) directSumList<int>(c, 2);
  else directSumList<double>(c, sm);
}

// ================================================================ covar (double)
void covarCase(vrt::Case& c, size_t r, size_t n, int mode, int pre)
{
  typedef double S;
  Opnd<S> A(genDense<S>(c.rng, r, n, mode));
  // integer-valued samples: make every row sum a multiple of n would be needed for exactness of the mean; instead
  // the bound below always applies (division by n rounds), with integer entries it is merely tiny
  Exp e(r, r);
  for (size_t i = 0; i < r; ++i)
    for (size_t j = 0; j < r; ++j)
    {
      LD s = 0, sa = 0, mi = 0, mj = 0, ai = 0, aj = 0;
      for (size_t t = 0; t < n; ++t)
      {
        LD x = A.d(i, t), y = A.d(j, t);
        s += x * y; sa += fabsl(x * y);
        mi += x; mj += y; ai += fabsl(x); aj += fabsl(y);
      }
      LD N = static_cast<LD>(n);
      e.at(i, j) = s / N - (mi / N) * (mj / N);
      e.tl(i, j) = 8 * (2 * n + 8) * EPS * (sa / N + (ai / N) * (aj / N));
    }
  string cls = "r=" + dc(r) + ",n=" + dc(n);
  vrt::describe("covar:" + cls, string("covar(A,O) ") + SM[mode] + " A " + str(r) + "x" + str(n) + " pre-state " + str(pre));
  vrt::cover("covar:" + cls + ":" + SM[mode] + ":pre" + str(pre));
  Checker<S> ck("covar", cls, [&] { return "covar(A=" + dumpD(A.d) + ", O pre-state " + str(pre) + ")"; });
  for (auto& kk : combos(c.rng, 2, 9))
  {
    Matrix<S>* a = A.get(kk[0]);
    if (!a) { vrt::tally("skipped-unrepresentable-operand"); continue; }
    auto o = outM<S>(kk[1], pre, r, r);
    Out out = call([&] { MatrixTools::covar(*a, *o); });
    if (n == 0)
    {
      // the covariance of an empty sample is undefined (0/0): any value or exception, but no abort
      vrt::counted("covar.empty-sample-unjudged");
      continue;
    }
    if (ck.returned(out, comboName(kk))) ck.check(*o, kk[1], comboName(kk), e);
  }
  ck.inputsUnchanged({ &A });
}
void caseCovar(vrt::Case& c)
{
  size_t s = c.index % 64;
  covarCase(c, s / 8, s % 8, static_cast<int>((c.index / 64) % 2), static_cast<int>((c.index / 128) % NPRE));
}

// ================================================================ whichMax/whichMin, max/min, sumElements, isSymmetric
template<class S> void extremaCase(vrt::Case& c, size_t r, size_t cc, int sm, int flavour)
{
  int mode = sm == 1 ? 1 : 0;
  // flavour 0: generic; 1: few distinct values (ties); 2: all entries negative (below the value-initialised 0); 3: all positive; 4: constant
  Dense<S> d = genDense<S>(c.rng, r, cc, mode, flavour == 1 ? 1 : 9);
  for (S& x : d.a)
  {
    if (flavour == 2) x = static_cast<S>(-1) - (x < 0 ? -x : x);
    else if (flavour == 3) x = static_cast<S>(1) + (x < 0 ? -x : x);
    else if (flavour == 4) x = d.a[0];
  }
  Opnd<S> A(d);
  string cls = "shape=" + sc(r, cc);
  const char* fn[] = { "generic", "ties", "all-negative", "all-positive", "constant" };
  vrt::describe("extrema:" + cls, string("whichMax/whichMin/max/min/sumElements ") + SM[sm] + " " + str(r) + "x" + str(cc) + " " + fn[flavour]);
  vrt::cover("extrema:" + cls + ":" + SM[sm] + ":" + fn[flavour]);
  auto ops = [&] { return "A=" + dumpD(d); };
  bool empty = r * cc == 0;
  LD mx = 0, mn = 0, sum = 0, asum = 0;
  for (size_t t = 0; t < d.a.size(); ++t)
  {
    LD x = d.a[t];
    if (t == 0 || x > mx) mx = x;
    if (t == 0 || x < mn) mn = x;
    sum += x;
    asum += fabsl(x);
  }
  for (int route = 0; route < 4; ++route)
  {
    int kind = route < 3 ? route : static_cast<int>(c.rng.below(3));
    Matrix<S>* a = A.get(kind);
    if (!a) { vrt::tally("skipped-unrepresentable-operand"); continue; }
    string name = string(1, KN[kind]) + (route == 3 ? "b" : "");
    vector<size_t> pmax, pmin;
    Out o1 = call([&] { asKind<S>(*a, route, [&](auto& AA) { pmax = MatrixTools::whichMax(AA); pmin = MatrixTools::whichMin(AA); }); });
    if (vrt::expect(o1.k == 0, "extrema.returns", cls + ",outcome=" + o1.kindName(), [&] { return "whichMax/whichMin(" + ops() + ") storage " + name + " => " + o1.text; }) && !empty)
    {
      bool okx = pmax.size() == 2 && pmax[0] < r && pmax[1] < cc && static_cast<LD>(d(pmax[0], pmax[1])) == mx;
      bool okn = pmin.size() == 2 && pmin[0] < r && pmin[1] < cc && static_cast<LD>(d(pmin[0], pmin[1])) == mn;
      vrt::expect(okx, "extrema.whichMax", cls, [&] { return "whichMax(" + ops() + ") storage " + name + " => " + vrt::vecStr(pmax) + ", maximum is " + num(mx); });
      vrt::expect(okn, "extrema.whichMin", cls, [&] { return "whichMin(" + ops() + ") storage " + name + " => " + vrt::vecStr(pmin) + ", minimum is " + num(mn); });
    }
    if (route == 3 || route == kind)
    {
      S s = S();
      Out o2 = call([&] { s = MatrixTools::sumElements(*a); });
      if (vrt::expect(o2.k == 0, "extrema.returns", cls + ",outcome=" + o2.kindName(), [&] { return "sumElements(" + ops() + ") storage " + name + " => " + o2.text; }))
        vrt::expect(fabsl(static_cast<LD>(s) - sum) <= (mode ? 8 * (r * cc + 2) * EPS * asum : 0), "extrema.sumElements", cls, [&] { return "sumElements(" + ops() + ") storage " + name + " => " + num(s) + ", definition gives " + num(sum); });
    }
  }

  vrt::expect(A.unchanged(), "extrema.inputs-unchanged", cls, [&] { return ops() + ": modified by a query"; });
}
void extremaReal(vrt::Case& c, size_t r, size_t cc, int mode, int flavour)
{
  // max/min exist for real scalars only (they start from +-infinity)
  typedef double S;
  Dense<S> d = genDense<S>(c.rng, r, cc, mode, flavour == 1 ? 1 : 9);
  for (S& x : d.a)
  {
    if (flavour == 2) x = -1 - fabs(x);
    else if (flavour == 3) x = 1 + fabs(x);
    else if (flavour == 4) x = d.a[0];
  }
  if (r * cc == 0) return;
  Opnd<S> A(d);
  string cls = "shape=" + sc(r, cc);
  LD mx = d.a[0], mn = d.a[0];
  for (S x : d.a) { if (x > mx) mx = x; if (x < mn) mn = x; }
  for (int kind = 0; kind < 3; ++kind)
  {
    Matrix<S>* a = A.get(kind);
    if (!a) continue;
    S gx = 0, gn = 0;
    Out o = call([&] { gx = MatrixTools::max(*a); gn = MatrixTools::min(*a); });
    if (vrt::expect(o.k == 0, "extrema.returns", cls + ",outcome=" + o.kindName(), [&] { return "max/min(A=" + dumpD(d) + ") => " + o.text; }))
    {
      vrt::expect(static_cast<LD>(gx) == mx, "extrema.max", cls, [&] { return "max(A=" + dumpD(d) + ") storage " + KN[kind] + " => " + num(gx) + ", maximum is " + num(mx); });
      vrt::expect(static_cast<LD>(gn) == mn, "extrema.min", cls, [&] { return "min(A=" + dumpD(d) + ") storage " + KN[kind] + " => " + num(gn) + ", minimum is " + num(mn); });
    }
  }
}
template<class S> void symmetricCase(vrt::Case& c, size_t r, size_t cc, int sm, int flavour)
{
  int mode = sm == 1 ? 1 : 0;
  Dense<S> d = genDense<S>(c.rng, r, cc, mode);
  bool expectSym = false;
  string what = "random";
  if (r == cc)
  {
    if (flavour >= 1) { for (size_t i = 0; i < r; ++i) for (size_t j = 0; j < i; ++j) d(i, j) = d(j, i); what = "symmetric"; }
    if (flavour >= 3 && r >= 2)
    {
      // break exactly one off-diagonal pair, position chosen over the whole triangle
      size_t i = c.rng.below(r), j = c.rng.below(r - 1);
      if (j >= i) ++j;
      d(i, j) = d(j, i) + static_cast<S>(1);
      what = string("one-pair-broken:") + (i < j ? "upper" : "lower");
    }
    expectSym = true;
    for (size_t i = 0; i < r; ++i) for (size_t j = 0; j < r; ++j) if (!(d(i, j) == d(j, i))) expectSym = false;
  }
  else what = "non-square";
  Opnd<S> A(d);
  string cls = "shape=" + sc(r, cc) + "," + what;
  vrt::describe("symmetric:" + cls, string("isSymmetric ") + SM[sm] + " " + str(r) + "x" + str(cc) + " " + what);
  vrt::cover("symmetric:" + cls + ":" + SM[sm]);
  for (int route = 0; route < 4; ++route)
  {
    int kind = route < 3 ? route : static_cast<int>(c.rng.below(3));
    Matrix<S>* a = A.get(kind);
    if (!a) { vrt::tally("skipped-unrepresentable-operand"); continue; }
    bool got = false;
    Out o = call([&] { asKind<S>(*a, route, [&](auto& AA) { got = MatrixTools::isSymmetric(AA); }); });
    // a non-square matrix is not symmetric: false or a dimension error, never true
    if (r != cc) vrt::expect(o.k == 1 || (o.k == 0 && !got), "symmetric.non-square", cls, [&] { return "isSymmetric(A=" + dumpD(d) + ") storage " + KN[kind] + " => " + (o.k == 0 ? string("true") : o.text); });
    else if (vrt::expect(o.k == 0, "symmetric.returns", cls + ",outcome=" + o.kindName(), [&] { return "isSymmetric(A=" + dumpD(d) + ") => " + o.text; }))
      vrt::expect(got == expectSym, "symmetric.value", cls, [&] { return "isSymmetric(A=" + dumpD(d) + ") storage " + KN[kind] + " => " + str(got) + ", expected " + str(expectSym); });
  }
}
void caseExtrema(vrt::Case& c)
{
  size_t s = c.index % 64, sm = (c.index / 64) % 3, fl = (c.index / 192) % 5, part = c.index / 960;
  size_t r = s / 8, cc = s % 8;
  if (part == 0)
  {
    if (sm == 2) extremaCase<int>(c, r, cc, 2, static_cast<int>(fl));
    else { extremaCase<double>(c, r, cc, static_cast<int>(sm), static_cast<int>(fl)); extremaReal(c, r, cc, static_cast<int>(sm), static_cast<int>(fl)); }
  }
  else
  {
    if (sm == 2) symmetricCase<int>(c, r, cc, 2, static_cast<int>(fl));
    else symmetricCase<double>(c, r, cc, static_cast<int>(sm), static_cast<int>(fl));
  }
}

// ================================================================ builders: getId, diag x3, fill, fillDiag, copyUp/copyDown, toVVdouble, isSquare, print
template<class S> void buildCase(vrt::Case& c, size_t r, size_t cc, int sm, int pre)
{
  int mode = sm == 1 ? 1 : 0;
  Opnd<S> A(genDense<S>(c.rng, r, cc, mode));
  vector<S> dv = genVec<S>(c.rng, r, mode);
  S x = genEntry<S>(c.rng, mode, 9);
  if (x == 0) x = 3;
  string cls = "shape=" + sc(r, cc);
  vrt::describe("build:" + cls, string("getId/diag/fill/fillDiag/toVVdouble/print ") + SM[sm] + " " + str(r) + "x" + str(cc) + " pre-state " + str(pre));
  vrt::cover("build:" + cls + ":" + SM[sm] + ":pre" + str(pre));
  Exp eId(r, r), eDiagV(r, r), eDiagX(r, r), eFill(r, cc), eFillDiag(r, cc);
  for (size_t i = 0; i < r; ++i)
  {
    eId.at(i, i) = 1;
    eDiagV.at(i, i) = dv[i];
    eDiagX.at(i, i) = x;
    for (size_t j = 0; j < cc; ++j)
    {
      eFill.at(i, j) = x;
      eFillDiag.at(i, j) = i == j ? static_cast<LD>(x) : static_cast<LD>(A.d(i, j));
    }
  }
  auto opsA = [&] { return "A=" + dumpD(A.d) + ", pre-state " + str(pre); };
  Checker<S> ckId("getId", "n=" + dc(r), [&] { return "getId(" + str(r) + ", O pre-state " + str(pre) + ")"; });
  Checker<S> ckDv("diag-from-vector", "n=" + dc(r), [&] { return "diag(D=" + dumpV(dv) + ", O pre-state " + str(pre) + ")"; });
  Checker<S> ckDx("diag-from-scalar", "n=" + dc(r), [&] { return "diag(x=" + num(x) + ", n=" + str(r) + ", O pre-state " + str(pre) + ")"; });
  Checker<S> ckFill("fill", cls, [&] { return "fill(" + opsA() + ", x=" + num(x) + ")"; });
  Checker<S> ckFd("fillDiag", cls, [&] { return "fillDiag(" + opsA() + ", x=" + num(x) + ")"; });
  for (int route = 0; route < 4; ++route)
  {
    int kind = route < 3 ? route : static_cast<int>(c.rng.below(3));
    string name = string(1, KN[kind]) + (route == 3 ? "b" : "");
    {
      auto o = outM<S>(kind, pre, r, r);
      Out out = call([&] { asKind<S>(*o, route, [&](auto& OO) { MatrixTools::getId(r, OO); }); });
      if (ckId.returned(out, name)) ckId.check(*o, kind, name, eId);
    }
    if (route < 3)
    {
      auto o = outM<S>(kind, pre, r, r);
      Out out = call([&] { MatrixTools::diag(dv, *o); });
      if (ckDv.returned(out, name)) ckDv.check(*o, kind, name, eDiagV);
      auto o2 = outM<S>(kind, pre, r, r);
      out = call([&] { MatrixTools::diag(x, r, *o2); });
      if (ckDx.returned(out, name)) ckDx.check(*o2, kind, name, eDiagX);
    }
    Matrix<S>* a = A.get(kind);
    if (!a) { vrt::tally("skipped-unrepresentable-operand"); continue; }
    {
      auto m = fromDense<S>(kind, A.d);
      Out out = call([&] { asKind<S>(*m, route, [&](auto& MM) { MatrixTools::fill(MM, x); }); });
      if (ckFill.returned(out, name)) ckFill.check(*m, kind, name, eFill, 0, "M");
    }
    {
      // the diagonal of a non-square matrix has min(r,c) cells; a dimension error is accepted too for non-square input
      auto m = fromDense<S>(kind, A.d);
      Out out = call([&] { asKind<S>(*m, route, [&](auto& MM) { MatrixTools::fillDiag(MM, x); }); });
      if (r != cc && out.k == 1) vrt::counted("fillDiag.non-square-dimension-error");
      else if (ckFd.returned(out, name)) ckFd.check(*m, kind, name, eFillDiag, 0, "M");
    }
    if (route < 3)
    {
      // diag(M, O): the diagonal as a vector, square input only
      vector<S> got(pre == 0 ? 0 : pre == 1 ? r : r + 2, garbage<S>(0, 0));
      Out out = call([&] { MatrixTools::diag(*a, got); });
      if (r != cc)
        vrt::expect(out.k == 1, "diag-to-vector.nonconformable", cls + ",outcome=" + out.kindName(), [&] { return "diag(M=" + dumpD(A.d) + ", vector) storage " + name + " => " + out.text + ", expected DimensionException"; });
      else if (vrt::expect(out.k == 0, "diag-to-vector.returns", cls + ",outcome=" + out.kindName(), [&] { return "diag(M=" + dumpD(A.d) + ", vector) => " + out.text; }))
      {
        bool ok = got.size() == r;
        for (size_t i = 0; ok && i < r; ++i) ok = got[i] == A.d(i, i);
        vrt::expect(ok, "diag-to-vector.value", cls, [&] { return "diag(M=" + dumpD(A.d) + ", vector) storage " + name + " => " + dumpV(got); });
      }
      vector<vector<S>> vv(pre == 0 ? 0 : r + 1, vector<S>(cc + 1, garbage<S>(0, 0)));
      out = call([&] { MatrixTools::toVVdouble(*a, vv); });
      bool ok = out.k == 0 && vv.size() == r;
      for (size_t i = 0; ok && i < r; ++i) { ok = vv[i].size() == cc; for (size_t j = 0; ok && j < cc; ++j) ok = vv[i][j] == A.d(i, j); }
      vrt::expect(ok, "toVVdouble.value", cls, [&] { return "toVVdouble(M=" + dumpD(A.d) + ") storage " + name + " => " + out.text; });
    }
    {
      bool sq = false;
      Out out = call([&] { asKind<S>(*a, route, [&](auto& AA) { sq = MatrixTools::isSquare(AA); }); });
      vrt::expect(out.k == 0 && sq == (r == cc), "isSquare.value", cls, [&] { return "isSquare(" + str(r) + "x" + str(cc) + ") => " + str(sq); });
    }
    // print: three overloads; the text starts with the dimensions / holds every entry
    {
      ostringstream os;
      Out out = call([&] { asKind<S>(*a, route, [&](auto& AA) { MatrixTools::print(AA, os); }); });
      string head = str(r) + "x" + str(cc) + "\n[\n";
      size_t commas = 0;
      for (char ch : os.str()) commas += ch == ',';
      vrt::expect(out.k == 0 && os.str().compare(0, head.size(), head) == 0 && commas == r * (cc ? cc - 1 : 0), "print.text", cls, [&] { return "print(M=" + dumpD(A.d) + ", ostream) storage " + name + " => " + out.text + " text '" + os.str() + "'"; });
      ostringstream os2;
      StlOutputStreamWrapper w(&os2);
      out = call([&] { asKind<S>(*a, route, [&](auto& AA) { MatrixTools::print(AA, w); }); });
      vrt::expect(out.k == 0 && os2.str().size() >= 2 && os2.str()[0] == '(', "print.text", cls, [&] { return "print(M=" + dumpD(A.d) + ", OutputStream) storage " + name + " => " + out.text + " text '" + os2.str() + "'"; });
      ostringstream os3;
      out = call([&] { asKind<S>(*a, route, [&](auto& AA) { MatrixTools::printForR(AA, "x", os3); }); });
      vrt::expect(out.k == 0 && os3.str().compare(0, 12, "x<-matrix(c(") == 0, "print.text", cls, [&] { return "printForR(M=" + dumpD(A.d) + ") => '" + os3.str() + "'"; });
    }
  }
  {
    ostringstream os;
    Out out = call([&] { MatrixTools::print(dv, os); });
    string head = str(dv.size()) + "\n[";
    vrt::expect(out.k == 0 && os.str().compare(0, head.size(), head) == 0, "print.text", "vector,n=" + dc(dv.size()), [&] { return "print(vector " + dumpV(dv) + ") => " + out.text + " text '" + os.str() + "'"; });
  }
  vrt::expect(A.unchanged(), "build.inputs-unchanged", cls, [&] { return opsA() + ": modified by a read-only routine"; });
}
void caseBuild(vrt::Case& c)
{
  size_t s = c.index % 64, sm = (c.index / 64) % 3, pre = (c.index / 192) % NPRE;
  if (sm == 2) buildCase<int>(c, s / 8, s % 8, 2, static_cast<int>(pre));
  else buildCase<double>(c, s / 8, s % 8, static_cast<int>(sm), static_cast<int>(pre));
}

// ---- copyUp / copyDown (row shifts), own group: on the unchanged tree a matrix without rows does not return
template<class S> void shiftCase(vrt::Case& c, size_t r, size_t cc, int sm, int pre)
{
  int mode = sm == 1 ? 1 : 0;
  Opnd<S> A(genDense<S>(c.rng, r, cc, mode));
  string cls = "shape=" + sc(r, cc);
  vrt::describe("shift:" + cls, string("copyUp/copyDown ") + SM[sm] + " " + str(r) + "x" + str(cc) + " pre-state " + str(pre));
  vrt::cover("shift:" + cls + ":" + SM[sm] + ":pre" + str(pre));
  Exp eUp(r, cc), eDown(r, cc);
  for (size_t i = 0; i < r; ++i)
    for (size_t j = 0; j < cc; ++j)
    {
      eUp.at(i, j) = i + 1 < r ? static_cast<LD>(A.d(i + 1, j)) : 0;
      eDown.at(i, j) = i > 0 ? static_cast<LD>(A.d(i - 1, j)) : 0;
    }
  auto opsA = [&] { return "A=" + dumpD(A.d) + ", O pre-state " + str(pre); };
  Checker<S> ckUp("copyUp", cls, [&] { return "copyUp(" + opsA() + ")"; });
  Checker<S> ckDown("copyDown", cls, [&] { return "copyDown(" + opsA() + ")"; });
  for (const Route2& rt : routes2(c.rng))
  {
    Matrix<S>* a = A.get(rt.ka);
    if (!a) { vrt::tally("skipped-unrepresentable-operand"); continue; }
    for (int up = 0; up < 2; ++up)
    {
      auto o = outM<S>(rt.kb, pre, r, cc);
      Out out = call([&] {
          asKind<S>(*a, rt.ra, [&](auto& AA) {
            asKind<S>(*o, rt.rb, [&](auto& OO) { if (up) MatrixTools::copyUp(AA, OO); else MatrixTools::copyDown(AA, OO); });
          });
        });
      Checker<S>& ck = up ? ckUp : ckDown;
      // with no row there is nothing to shift: an empty result or a dimension error
      if (r == 0 && out.k == 1) { vrt::counted("copyUpDown.no-row-dimension-error"); continue; }
      if (ck.returned(out, rt.name())) ck.check(*o, rt.kb, rt.name(), up ? eUp : eDown);
    }
  }
  vrt::expect(A.unchanged(), "shift.inputs-unchanged", cls, [&] { return opsA() + ": modified"; });
}
void caseShift(vrt::Case& c)
{
  size_t s = c.index % 64, sm = (c.index / 64) % 3, pre = (c.index / 192) % NPRE;
  if (sm == 2) shiftCase<int>(c, s / 8, s % 8, 2, static_cast<int>(pre));
  else shiftCase<double>(c, s / 8, s % 8, static_cast<int>(sm), static_cast<int>(pre));
}

// ================================================================ the three storage classes behind the Matrix interface
// A random history of resize / element writes / conversions, mirrored on a dense model.
template<class S> struct Model
{
  Dense<S> d;
  bool known; // contents known (after a resize of Row/ColMatrix the kept/new cell values are not specified: re-synchronised by reading)
};
template<class S> bool sameAsModel(const Matrix<S>& m, const Dense<S>& d)
{
  if (m.getNumberOfRows() != d.r || m.getNumberOfColumns() != d.c) return false;
  for (size_t i = 0; i < d.r; ++i) for (size_t j = 0; j < d.c; ++j) if (!(m(i, j) == d(i, j))) return false;
  return true;
}
template<class S> void storageCase(vrt::Case& c, int kind, int sm)
{
  int mode = sm == 1 ? 1 : 0;
  const string K(1, KN[kind]);
  vrt::describe("storage:" + K, K + "Matrix<" + SName<S>::n() + "> random history");
  size_t r0 = c.rng.below(8), c0 = c.rng.below(8);
  bool dflt = c.rng.chance(0.2);
  unique_ptr<Matrix<S>> m = dflt ? newM<S>(kind) : newM<S>(kind, r0, c0);
  string hist = dflt ? K + "()" : K + "(" + str(r0) + "," + str(c0) + ")";
  Dense<S> model;
  {
    size_t er = dflt ? 0 : r0, ec = dflt ? 0 : c0;
    reprDims(kind, er, ec);
    model = Dense<S>(er, ec); // constructors value-initialise
    vrt::expect(sameAsModel(*m, model), "storage.ctor", "kind=" + K + ",shape=" + sc(er, ec), [&] { return hist + " => " + dumpM(*m) + ", expected zeros " + str(er) + "x" + str(ec); });
  }
  size_t len = 1 + c.rng.below(10);
  for (size_t step = 0; step < len; ++step)
  {
    int op = static_cast<int>(c.rng.below(9));
    if (op == 0 || op == 1) // resize
    {
      size_t nr = c.rng.below(8), nc = c.rng.below(8);
      bool lin3 = kind == 2 && c.rng.chance(0.5);
      bool keep = !lin3 || c.rng.chance(0.5);
      string t = "resize(" + str(nr) + "," + str(nc) + (lin3 ? string(",") + (keep ? "true" : "false") : string()) + ")";
      hist += " ; " + t;
      vrt::step(t);
      vector<S> oldFlat = model.a;
      Dense<S> old = model;
      if (lin3) static_cast<LinearMatrix<S>&>(*m).resize(nr, nc, keep);
      else m->resize(nr, nc);
      size_t er = nr, ec = nc;
      reprDims(kind, er, ec);
      string cls = "kind=" + K + ",from=" + sc(old.r, old.c) + ",to=" + sc(nr, nc);
      vrt::cover("storage:resize:" + cls);
      if (!vrt::expect(m->getNumberOfRows() == er && m->getNumberOfColumns() == ec, "storage.resize-dims", cls, [&] { return hist + " => " + str(m->getNumberOfRows()) + "x" + str(m->getNumberOfColumns()); })) return;
      model = Dense<S>(er, ec);
      if (kind == 2)
      {
        // LinearMatrix documents both behaviours: keepValues keeps (i,j) -> (i,j) and zero-fills, otherwise the flat order is kept
        if (keep) { for (size_t i = 0; i < er; ++i) for (size_t j = 0; j < ec; ++j) model(i, j) = (i < old.r && j < old.c) ? old(i, j) : S(); }
        else for (size_t t2 = 0; t2 < model.a.size(); ++t2) model.a[t2] = t2 < oldFlat.size() ? oldFlat[t2] : S();
        vrt::expect(sameAsModel(*m, model), keep ? "storage.linear-resize-keeps-values" : "storage.linear-resize-flat", cls, [&] { return hist + " => " + dumpM(*m) + ", documented result " + dumpD(model); });
      }
      else
      {
        // every cell must be addressable; contents re-synchronised
        for (size_t i = 0; i < er; ++i) for (size_t j = 0; j < ec; ++j) { S v = genEntry<S>(c.rng, mode, 9); (*m)(i, j) = v; model(i, j) = v; }
      }
    }
    else if (op == 2 || op == 3) // element writes through the interface
    {
      if (model.r * model.c == 0) continue;
      size_t n = 1 + c.rng.below(4);
      for (size_t t = 0; t < n; ++t)
      {
        size_t i = c.rng.below(model.r), j = c.rng.below(model.c);
        S v = genEntry<S>(c.rng, mode, 9);
        (*m)(i, j) = v;
        model(i, j) = v;
      }
      hist += " ; set x" + str(n);
    }
    else if (op == 4) // conversion to another class and back (copy constructor from Matrix, operator= from Matrix, clone)
    {
      int k2 = static_cast<int>(c.rng.below(3));
      hist += string(" ; convert->") + KN[k2];
      string cls = "from=" + K + ",to=" + KN[k2] + ",shape=" + sc(model.r, model.c);
      vrt::cover("storage:convert:" + cls);
      unique_ptr<Matrix<S>> viaCtor, viaAssign = newM<S>(k2, 2, 3);
      for (size_t i = 0; i < viaAssign->getNumberOfRows(); ++i) for (size_t j = 0; j < viaAssign->getNumberOfColumns(); ++j) (*viaAssign)(i, j) = garbage<S>(i, j);
      switch (k2)
      {
      case 0: viaCtor.reset(new RowMatrix<S>(*m)); static_cast<RowMatrix<S>&>(*viaAssign) = *m; break;
      case 1: viaCtor.reset(new ColMatrix<S>(*m)); static_cast<ColMatrix<S>&>(*viaAssign) = *m; break;
      default: viaCtor.reset(new LinearMatrix<S>(*m)); static_cast<LinearMatrix<S>&>(*viaAssign) = *m;
      }
      size_t er = model.r, ec = model.c;
      reprDims(k2, er, ec);
      Dense<S> em = (er == model.r && ec == model.c) ? model : Dense<S>(er, ec);
      vrt::expect(sameAsModel(*viaCtor, em), "storage.convert-ctor", cls, [&] { return hist + " => " + dumpM(*viaCtor) + ", source " + dumpD(model); });
      vrt::expect(sameAsModel(*viaAssign, em), "storage.convert-assign", cls, [&] { return hist + " => " + dumpM(*viaAssign) + ", source " + dumpD(model); });
      unique_ptr<Matrix<S>> cl(dynamic_cast<Matrix<S>*>(m->clone()));
      vrt::expect(cl && sameAsModel(*cl, model), "storage.clone", "kind=" + K, [&] { return hist + " => clone differs"; });
      if (cl && model.r * model.c > 0) { (*cl)(0, 0) = (*cl)(0, 0) + static_cast<S>(1); vrt::expect(sameAsModel(*m, model), "storage.clone", "kind=" + K + ",independent", [&] { return hist + " => writing to the clone changed the source"; }); }
      // equality operators
      bool eq = (*m == *viaCtor), eqs = m->equals(*viaCtor, 0.);
      bool same = er == model.r && ec == model.c;
      vrt::expect(eq == same && eqs == same, "storage.equality", cls, [&] { return hist + " => operator== " + str(eq) + " equals " + str(eqs) + ", expected " + str(same); });
      if (same && model.r * model.c > 0)
      {
        size_t i = c.rng.below(model.r), j = c.rng.below(model.c);
        (*viaCtor)(i, j) = (*viaCtor)(i, j) + static_cast<S>(1);
        bool ne = !(*m == *viaCtor), nes = !m->equals(*viaCtor, 0.5), eqt = m->equals(*viaCtor, 1.5);
        vrt::expect(ne && nes && eqt, "storage.equality", cls + ",one-cell-differs", [&] { return hist + " => one cell +1: operator== " + str(!ne) + " equals(0.5) " + str(!nes) + " equals(1.5) " + str(eqt); });
      }
    }
    else if (op == 5) // row() / col()
    {
      bool ok = true;
      for (size_t i = 0; i < model.r && ok; ++i)
      {
        vector<S> rr = m->row(i);
        ok = rr.size() == model.c;
        for (size_t j = 0; ok && j < model.c; ++j) ok = rr[j] == model(i, j);
      }
      for (size_t j = 0; j < model.c && ok; ++j)
      {
        vector<S> cv = m->col(j);
        ok = cv.size() == model.r;
        for (size_t i = 0; ok && i < model.r; ++i) ok = cv[i] == model(i, j);
      }
      if (kind == 0) for (size_t i = 0; i < model.r && ok; ++i) ok = static_cast<RowMatrix<S>&>(*m).getRow(i) == m->row(i);
      if (kind == 1) for (size_t j = 0; j < model.c && ok; ++j) ok = static_cast<ColMatrix<S>&>(*m).getCol(j) == m->col(j);
      hist += " ; row/col";
      vrt::expect(ok, "storage.row-col", "kind=" + K + ",shape=" + sc(model.r, model.c), [&] { return hist + " => row()/col() differ from the entries " + dumpD(model); });
    }
    else if (op == 6 && kind != 2) // addRow / addCol
    {
      bool isRow = kind == 0;
      size_t have = isRow ? model.c : model.r, cnt = isRow ? model.r : model.c;
      if (cnt > 0 && have == 0) continue; // rows of length 0: degenerate, not specified
      bool bad = cnt > 0 && c.rng.chance(0.3);
      size_t len2 = cnt == 0 ? 1 + c.rng.below(4) : bad ? have + 1 : have;
      vector<S> v = genVec<S>(c.rng, len2, mode);
      hist += string(" ; ") + (isRow ? "addRow" : "addCol") + dumpV(v);
      Out o = call([&] { if (isRow) static_cast<RowMatrix<S>&>(*m).addRow(v); else static_cast<ColMatrix<S>&>(*m).addCol(v); });
      string cls = "kind=" + K + (cnt == 0 ? ",first" : bad ? ",wrong-length" : ",fits");
      vrt::cover("storage:add:" + cls);
      if (bad) { vrt::expect(o.k == 1 && sameAsModel(*m, model), "storage.add-wrong-length", cls + ",outcome=" + o.kindName(), [&] { return hist + " => " + o.text + " matrix " + dumpM(*m); }); }
      else
      {
        Dense<S> nm = isRow ? Dense<S>(model.r + 1, len2) : Dense<S>(len2, model.c + 1);
        for (size_t i = 0; i < model.r; ++i) for (size_t j = 0; j < model.c; ++j) nm(i, j) = model(i, j);
        for (size_t t = 0; t < len2; ++t) { if (isRow) nm(model.r, t) = v[t]; else nm(t, model.c) = v[t]; }
        model = nm;
        vrt::expect(o.k == 0 && sameAsModel(*m, model), "storage.add", cls, [&] { return hist + " => " + o.text + " matrix " + dumpM(*m); });
      }
    }
    else // fill through MatrixTools and read back
    {
      S v = genEntry<S>(c.rng, mode, 9);
      MatrixTools::fill(*m, v);
      for (S& x : model.a) x = v;
      hist += " ; fill(" + num(v) + ")";
    }
    string cls2 = "kind=" + K;
    if (!vrt::expect(sameAsModel(*m, model), "storage.read-back", cls2, [&] { return hist + " => " + dumpM(*m) + ", model " + dumpD(model); })) return;
  }
  vrt::cover("storage:history:" + K + ":" + SName<S>::n());
}
void caseStorage(vrt::Case& c)
{
  int kind = static_cast<int>(c.index % 3), sm = static_cast<int>((c.index / 3) % 3);
  if (sm == 2) storageCase<int>(c, kind, 2);
  else storageCase<double>(c, kind, sm);
}

// ================================================================ lap(): linear assignment against brute force
// vecState: 0 = output vectors of size n filled with garbage, 1 = longer than n, 2 = empty, 3 = shorter than n
template<class S> void lapCheck(const Dense<S>& cost, int kind, int vecState, bool realCosts, const string& cls, const string& tag)
{
  size_t n = cost.r;
  unique_ptr<Matrix<S>> m = fromDense<S>(kind, cost);
  if (!m) { vrt::tally("skipped-unrepresentable-operand"); return; }
  size_t vs = vecState == 0 ? n : vecState == 1 ? n + 2 : vecState == 2 ? 0 : n / 2;
  vector<int> rowSol(vs, 77), colSol(vs, 88);
  vector<S> u(vs, static_cast<S>(12345)), v(vs, static_cast<S>(-12345));
  S ret = S();
  auto ops = [&] { return "lap(" + tag + " cost=" + dumpD(cost) + " storage " + KN[kind] + ", output vectors of size " + str(vs) + ")"; };
  Out o = call([&] { ret = MatrixTools::lap(*m, rowSol, colSol, u, v); });
  if (!vrt::expect(o.k == 0, "lap.returns", cls + ",outcome=" + o.kindName(), [&] { return ops() + " => " + o.text; })) return;
  if (!vrt::expect(rowSol.size() >= n && colSol.size() >= n && u.size() >= n && v.size() >= n, "lap.output-size", cls, [&] { return ops() + " => sizes " + str(rowSol.size()) + "," + str(colSol.size()) + "," + str(u.size()) + "," + str(v.size()); })) return;
  auto res = [&] {
      return " => cost " + num(ret) + " rowSol " + vrt::vecStr(vector<int>(rowSol.begin(), rowSol.begin() + n)) + " colSol " + vrt::vecStr(vector<int>(colSol.begin(), colSol.begin() + n)) + " u " + dumpV(vector<S>(u.begin(), u.begin() + n)) + " v " + dumpV(vector<S>(v.begin(), v.begin() + n));
    };
  // permutation and inverse
  vector<int> seen(n, 0);
  bool perm = true;
  for (size_t i = 0; i < n; ++i) { if (rowSol[i] < 0 || static_cast<size_t>(rowSol[i]) >= n || seen[rowSol[i]]++) perm = false; }
  if (!vrt::expect(perm, "lap.permutation", cls, [&] { return ops() + res() + ": rowSol is not a permutation"; })) return;
  bool inv = true;
  for (size_t i = 0; i < n; ++i) inv &= colSol[rowSol[i]] == static_cast<int>(i);
  vrt::expect(inv, "lap.colsol-inverse", cls, [&] { return ops() + res() + ": colSol is not the inverse of rowSol"; });
  // cost of the returned assignment, brute-force optimum
  LD maxAbs = 0, assigned = 0;
  for (S x : cost.a) maxAbs = max(maxAbs, fabsl(static_cast<LD>(x)));
  for (size_t i = 0; i < n; ++i) assigned += static_cast<LD>(cost(i, rowSol[i]));
  LD tol = realCosts ? 1024 * static_cast<LD>(n * n) * EPS * maxAbs : 0;
  vector<size_t> p(n);
  iota(p.begin(), p.end(), 0);
  LD best = 0;
  bool firstP = true;
  do
  {
    LD s = 0;
    for (size_t i = 0; i < n; ++i) s += static_cast<LD>(cost(i, p[i]));
    if (firstP || s < best) best = s;
    firstP = false;
  }
  while (next_permutation(p.begin(), p.end()));
  vrt::expect(fabsl(static_cast<LD>(ret) - assigned) <= tol, "lap.cost-consistent", cls, [&] { return ops() + res() + ": returned cost differs from the cost of rowSol = " + num(assigned); });
  vrt::expect(assigned <= best + tol, "lap.optimal", cls, [&] { return ops() + res() + ": assignment costs " + num(assigned) + ", the minimum over all permutations is " + num(best); });
  // dual certificate: u_i + v_j <= c_ij everywhere, equality on the assignment
  bool feas = true, tight = true;
  size_t fi = 0, fj = 0;
  for (size_t i = 0; i < n; ++i)
    for (size_t j = 0; j < n; ++j)
    {
      LD red = static_cast<LD>(cost(i, j)) - static_cast<LD>(u[i]) - static_cast<LD>(v[j]);
      if (!(red >= -tol)) { if (feas) { fi = i; fj = j; } feas = false; }
      if (static_cast<size_t>(rowSol[i]) == j && !(fabsl(red) <= tol)) { if (tight) { fi = i; fj = j; } tight = false; }
    }
  vrt::expect(feas, "lap.dual-feasible", cls, [&] { return ops() + res() + ": u[" + str(fi) + "]+v[" + str(fj) + "] exceeds the cost"; });
  vrt::expect(tight, "lap.dual-tight", cls, [&] { return ops() + res() + ": u[" + str(fi) + "]+v[" + str(fj) + "] differs from the cost of an assigned pair"; });
}

// exhaustive: n=1 {0,1,2}: 3; n=2 {0,1,2}: 81; n=2 {-2..2}: 625; n=3 {0,1,2}: 19683; (thorough) n=4 {0,1}: 65536
const size_t LAPX[] = { 3, 81, 625, 19683, 65536 };
void caseLapExhaustive(vrt::Case& c)
{
  size_t i = c.index, block = 0;
  while (block < 5 && i >= LAPX[block]) { i -= LAPX[block]; ++block; }
  size_t n = block == 0 ? 1 : block <= 2 ? 2 : block == 3 ? 3 : 4;
  int base = block == 2 ? 5 : block == 4 ? 2 : 3, off = block == 2 ? -2 : 0;
  Dense<double> d(n, n);
  Dense<int> di(n, n);
  size_t x = i;
  for (size_t t = 0; t < n * n; ++t) { int v = static_cast<int>(x % base) + off; x /= base; d.a[t] = v; di.a[t] = v; }
  string cls = "n=" + str(n);
  vrt::describe("lap-exhaustive:" + cls, "lap " + str(n) + "x" + str(n) + " entries base " + str(base) + " code " + str(i));
  vrt::cover("lap-exhaustive:n=" + str(n) + ":base" + str(base));
  for (int kind = 0; kind < 3; ++kind) lapCheck<double>(d, kind, 0, false, cls, "double");
  lapCheck<int>(di, static_cast<int>(c.index % 3), 0, false, cls + ",int", "int");
}

// cost matrix of one of the nine flavours (same draws, in the same order, as the first version of caseLapRandom)
const char* LAPFN[] = { "ints-0..3", "ints--9..9", "ints-0..100", "reals", "real-ties", "rank-one-sum", "monge", "sparse-big", "permuted-diagonal" };
Dense<double> lapCosts(vrt::Rng& g, size_t n, int flavour)
{
  Dense<double> d(n, n);
  vector<double> tie = { g.real(-5, 5), g.real(-5, 5), g.real(-5, 5) };
  vector<long long> ra(n), rb(n);
  for (size_t i = 0; i < n; ++i) { ra[i] = g.range(-5, 5); rb[i] = g.range(-5, 5); }
  vector<size_t> perm(n);
  iota(perm.begin(), perm.end(), 0);
  g.shuffle(perm);
  for (size_t i = 0; i < n; ++i)
    for (size_t j = 0; j < n; ++j)
    {
      double x = 0;
      switch (flavour)
      {
      case 0: x = static_cast<double>(g.range(0, 3)); break;
      case 1: x = static_cast<double>(g.range(-9, 9)); break;
      case 2: x = static_cast<double>(g.range(0, 100)); break;
      case 3: x = g.real(-10, 10); break;
      case 4: x = tie[g.below(3)]; break;
      case 5: x = static_cast<double>(ra[i] + rb[j] + (g.chance(0.15) ? 1 : 0)); break;
      case 6: x = static_cast<double>((i + 1) * (j + 1)); break;
      case 7: x = g.chance(0.7) ? 1000.0 : static_cast<double>(g.range(0, 5)); break;
      default: x = perm[i] == j ? 0.0 : static_cast<double>(g.range(1, 4));
      }
      d(i, j) = x;
    }
  return d;
}

void caseLapRandom(vrt::Case& c)
{
  size_t n = 1 + c.rng.below(7);
  if (c.index % 50 == 0) n = 0;
  int flavour = static_cast<int>(c.rng.below(9));
  const char* const* fn = LAPFN;
  bool realCosts = flavour == 3 || flavour == 4;
  if (c.index % 25 == 24)
  {
    // non-square cost matrix: the statement is about square problems; a library exception is expected, never an abort
    size_t r = c.rng.below(8), cc = c.rng.below(7);
    if (cc >= r) ++cc;
    Dense<double> d = genDense<double>(c.rng, r, cc, 0);
    vrt::describe("lap-random:non-square", "lap on " + str(r) + "x" + str(cc));
    vrt::cover("lap:non-square:" + sc(r, cc));
    for (int kind = 0; kind < 3; ++kind)
    {
      auto m = fromDense<double>(kind, d);
      if (!m) continue;
      vector<int> rs(8), cs(8);
      vector<double> u(8), v(8);
      Out o = call([&] { MatrixTools::lap(*m, rs, cs, u, v); });
      vrt::expect(o.k == 1 || o.k == 2, "lap.non-square", "shape=" + sc(r, cc) + ",outcome=" + o.kindName(), [&] { return "lap(cost=" + dumpD(d) + ") => " + o.text + ", expected a bpp::Exception"; });
    }
    return;
  }
  Dense<double> d = lapCosts(c.rng, n, flavour);
  int vecState = static_cast<int>(c.rng.below(4));
  string cls = "n=" + str(n);
  vrt::describe("lap-random:" + cls, string("lap ") + str(n) + "x" + str(n) + " " + fn[flavour] + " vectors " + str(vecState));
  vrt::cover("lap:n=" + str(n) + ":" + fn[flavour]);
  vrt::cover("lap:n=" + str(n) + ":vectors" + str(vecState));
  vrt::note("cost=" + dumpD(d));
  for (int kind = 0; kind < 3; ++kind) lapCheck<double>(d, kind, vecState, realCosts, cls, fn[flavour]);
  if (!realCosts)
  {
    Dense<int> di(n, n);
    for (size_t t = 0; t < d.a.size(); ++t) di.a[t] = static_cast<int>(d.a[t]);
    lapCheck<int>(di, static_cast<int>(c.rng.below(3)), vecState, false, cls + ",int", string("int ") + fn[flavour]);
  }
}

// lap on costs of large magnitude and large spread (the statement quantifies over all cost matrices): the nine flavours are
// transformed to c'(i,j) = s.c(i,j) + a_i + b_j with a scale s (power of two up to 2^30 or power of ten up to 1e9) and/or
// row and column offsets of 1e5..1e9.  Everything stays integer-valued for the integer flavours (|c'| < 2^41, so every sum
// and difference inside the solver is exact and the comparison stays exact); the int instantiation runs when |c'| <= 3e7.
// Same oracle as lap-random: brute force over all permutations and the dual certificate on the transformed matrix itself.
void caseLapLarge(vrt::Case& c)
{
  size_t n = 1 + c.rng.below(7);
  int flavour = static_cast<int>(c.rng.below(9));
  bool realCosts = flavour == 3 || flavour == 4;
  Dense<double> d = lapCosts(c.rng, n, flavour);
  int tr = static_cast<int>(c.rng.below(4)); // 0 power-of-two scale, 1 decimal scale, 2 offsets only, 3 decimal scale and offsets
  const char* trn[] = { "scale-pow2", "scale-pow10", "offsets", "scale-and-offsets" };
  double s = 1;
  if (tr == 0) s = ldexp(1.0, static_cast<int>(c.rng.range(10, 30)));
  else if (tr != 2) { long long k = c.rng.range(3, 9); for (long long t = 0; t < k; ++t) s *= 10; }
  vector<double> ro(n, 0.0), co(n, 0.0);
  if (tr >= 2)
  {
    double mag = 1e5;
    for (long long t = c.rng.range(0, 4); t > 0; --t) mag *= 10;
    bool rows = c.rng.chance(0.75), cols = !rows || c.rng.chance(0.4);
    for (size_t i = 0; i < n; ++i)
    {
      if (rows) ro[i] = static_cast<double>(c.rng.range(-1, 5)) * mag;
      if (cols) co[i] = static_cast<double>(c.rng.range(-1, 5)) * mag;
    }
  }
  double maxAbs = 0;
  for (size_t i = 0; i < n; ++i)
    for (size_t j = 0; j < n; ++j) { d(i, j) = d(i, j) * s + ro[i] + co[j]; maxAbs = max(maxAbs, fabs(d(i, j))); }
  int vecState = static_cast<int>(c.rng.below(4));
  bool withInt = !realCosts && maxAbs <= 3e7;
  string cls = "n=" + str(n) + ",large-costs";
  vrt::describe("lap-large:" + cls, string("lap ") + str(n) + "x" + str(n) + " " + LAPFN[flavour] + " " + trn[tr] + " scale " + num(s) + " vectors " + str(vecState));
  vrt::cover("lap-large:n=" + str(n) + ":" + LAPFN[flavour]);
  vrt::cover(string("lap-large:") + LAPFN[flavour] + ":" + trn[tr] + (withInt ? ":double+int" : ":double"));
  vrt::note("cost=" + dumpD(d));
  string tag = string(LAPFN[flavour]) + " " + trn[tr];
  for (int kind = 0; kind < 3; ++kind) lapCheck<double>(d, kind, vecState, realCosts, cls, tag);
  if (withInt)
  {
    Dense<int> di(n, n);
    for (size_t t = 0; t < d.a.size(); ++t) di.a[t] = static_cast<int>(d.a[t]);
    lapCheck<int>(di, static_cast<int>(c.rng.below(3)), vecState, false, cls + ",int", "int " + tag);
  }
}
} // namespace

int main(int argc, char** argv)
{
  const size_t M3 = 512 * 3 * NPRE;
  vector<vrt::Group> groups = {
    { "mult", M3 + 2000, M3 + 60000, caseMult, 300, false },
    { "mult-diag", M3 + 2000, M3 + 60000, caseMultDiag, 300, false },
    { "mult-tridiag", M3 + 2400, M3 + 60000, caseMultTri, 300, false },
    { "mult-complex", 2048 + 2000, 2048 + 50000, caseMultComplex<false>, 300, false },
    { "mult-complex-diag", 2048 + 2500, 2048 + 50000, caseMultComplex<true>, 300, false },
    { "add", 576 + 4000, 576 + 100000, caseAdd, 300, false },
    { "scale", 64 * 3 * 6, 64 * 3 * 6 * 4, caseScale, 300, false },
    { "scale-mixed", 64 * 3 * 8, 64 * 3 * 8 * 4, caseScaleMixed, 300, false },
    { "transpose-copy", 2 * 64 * 3 * NPRE, 2 * 64 * 3 * NPRE, caseTranspose, 300, true },
    { "pow", 8 * 11 * 3 * NPRE + 1000, 8 * 11 * 3 * NPRE + 20000, casePow, 300, false },
    { "taylor", 8 * 7 * 3 * 4 + 1000, 8 * 7 * 3 * 4 + 20000, caseTaylor, 300, false },
    { "kronecker", 2304 + 4000, 2304 + 100000, caseKron, 300, false },
    { "hadamard", 2304 + 3000, 2304 + 100000, caseHadamard, 300, false },
    { "directsum", 4096 + 3000, 4096 + 100000, caseDirectSum, 300, false },
    { "covar", 64 * 2 * NPRE, 64 * 2 * NPRE * 8, caseCovar, 300, false },
    { "extrema", 1920, 1920 * 8, caseExtrema, 300, false },
    { "build", 64 * 3 * NPRE, 64 * 3 * NPRE * 4, caseBuild, 300, false },
    { "shift", 64 * 3 * NPRE, 64 * 3 * NPRE, caseShift, 300, false },
    { "storage", 20000, 1000000, caseStorage, 300, false },
    { "lap-exhaustive", 3 + 81 + 625 + 19683, 3 + 81 + 625 + 19683 + 65536, caseLapExhaustive, 300, true },
    { "lap-random", 24000, 2000000, caseLapRandom, 300, false },
    { "lap-large", 6000, 500000, caseLapLarge, 300, false },
  };
  vrt::Meta meta;
  meta.rule = "One group per routine family. Conformable cases enumerate every operand shape 0..7 per dimension (mult family: all 512 (m,k,n); unary/binary element-wise routines: all 64 shapes; "
      "directSum: all 4096 shape pairs; Kronecker: all shape pairs with dimensions <= 3 plus random pairs up to 7x7) x scalar mode (double with integer-valued entries, double with real entries, int) x "
      "result pre-state (unsized, exact size with garbage, larger, smaller, other shape); inside a case the routine runs for every combination of RowMatrix/ColMatrix/LinearMatrix per operand and result "
      "(27 for three matrices; a sample of the 729 for the complex-pair routines, all 729 in the thorough tier; routines that are templates over the matrix class also through the abstract base). "
      "Non-conformable cases draw a random shape mismatch of one operand. lap: every cost matrix over {0,1,2} for n<=3, {-2..2} for n=2 ({0,1} for n=4 in the thorough tier) and random matrices of nine "
      "flavours up to 7x7 with output vectors of four pre-states; lap-large: the same flavours scaled by 2^10..2^30 / 1e3..1e9 and/or shifted by row and column offsets of 1e5..1e9 (double, and int when |c| <= 3e7). "
      "scale-mixed: scale() with scalars of another type than the entries (int entries with real a, b in multiples of 1/2 or 1/8; double entries with int a, b). A class key = (routine, dimension classes 0/1/n resp. square/wide/tall per operand, scalar mode, pre-state or mismatch kind); every key "
      "involves a real call of the routine.";
  meta.assumptions = {
    "entries are finite; integer-valued entries are small enough for every intermediate value to be exact, so the comparison is exact; real entries are compared with the long double value of the same finite sum within 8.(k+c).eps.sum|terms|",
    "shapes a storage class cannot hold (0xn in RowMatrix, nx0 in ColMatrix) are skipped for operands and reported as 0x0 for results",
    "the empty cases the definitions leave open are not judged: covariance of an empty sample, extremum of an empty matrix, tridiagonal factor of order 0, copyUp/copyDown without rows, fillDiag on a non-square matrix may also raise DimensionException",
    "lap: dual feasibility and cost identities are exact for integer costs and within 1024.n^2.eps.max|c| for real costs; a non-square cost matrix must raise any bpp::Exception; output vectors may be left longer than n",
    "scale on int entries with real scalars: a.m+b is exact in double; an integer value must be stored exactly, a non-integer value may be stored as either neighbouring integer",
    "results are required to be identical (bitwise) across storage classes, since all classes run the same generic loops",
  };
  meta.requiredClauses = { "mult.value", "mult.dims", "mult.nonconformable", "mult.storage-independent", "mult-diag.value", "mult-tridiag.value", "mult-complex.value", "mult-complex-diag.value",
                           "add.value", "add.nonconformable", "add-scaled.value", "scale.value", "scale-mixed.value", "transpose.value", "copy.value", "pow.value", "pow.nonconformable", "taylor.value", "kron.value",
                           "kron-scalar-identity.value", "kron-replaced-diagonals.value", "hadamard.value", "hadamard-complex.value", "hadamard-row-weights.value", "hadamard-col-weights.value",
                           "hadamard.nonconformable", "directsum.value", "directsum-list.value", "covar.value", "extrema.whichMax", "extrema.whichMin", "extrema.max", "extrema.min", "extrema.sumElements",
                           "symmetric.value", "getId.value", "diag-from-vector.value", "fill.value", "storage.read-back", "storage.resize-dims", "lap.optimal", "lap.dual-feasible", "lap.dual-tight",
                           "lap.permutation", "lap.cost-consistent" };
  return vrt::run(argc, argv, "C04", groups, meta);
}
