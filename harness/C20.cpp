// C20 - Range collections behave as sets of points.
// Reference model: a bitset over the integer universe (cell i = half-open unit interval [i,i+1[),
// executed next to the real MultiRange / RangeSet after every operation of a generated history.
#include "vrt.h"

#include <Bpp/Numeric/Range.h>

#include <algorithm>
#include <memory>
#include <set>

using namespace bpp;
using namespace std;
using vrt::str;

namespace
{
typedef unsigned long long Bits; // universe up to 64 cells

template<class T> struct TName;
template<> struct TName<int> { static const char* n() { return "int"; } };
template<> struct TName<unsigned> { static const char* n() { return "unsigned"; } };
template<> struct TName<double> { static const char* n() { return "double"; } };

Bits cells(int a, int b) // cells of [min,max[
{
  int lo = min(a, b), hi = max(a, b);
  Bits r = 0;
  for (int i = lo; i < hi; ++i) r |= (Bits(1) << i);
  return r;
}
int popcount(Bits b) { return __builtin_popcountll(b); }

struct Op
{
  char kind; // a add, r restrict, f filterWithin, c clear, k copy(assign through a copy), s self-check copy ctor
  int a, b;
  string text() const
  {
    if (kind == 'c') return "clear";
    if (kind == 'k') return "copy-assign";
    if (kind == 's') return "copy-construct";
    return string(kind == 'a' ? "add" : kind == 'r' ? "restrict" : "filterWithin") + "(" + str(a) + "," + str(b) + ")";
  }
};

template<class T> string dumpMR(const MultiRange<T>& m)
{
  string s;
  for (size_t i = 0; i < m.size(); ++i) s += "[" + str(m.getRange(i).begin()) + "," + str(m.getRange(i).end()) + "[";
  return s;
}

template<class T> string expectedToString(const RangeCollection<T>& m)
{
  string s = "{ ";
  for (size_t i = 0; i < m.size(); ++i)
    s += "[" + TextTools::toString(m.getRange(i).begin()) + "," + TextTools::toString(m.getRange(i).end()) + "[ ";
  return s + "}";
}

// All structural invariants + agreement with the bitset model.  Returns false on the first divergence.
template<class T> bool auditMR(const MultiRange<T>& m, Bits model, const string& hist)
{
  const string ty = TName<T>::n();
  bool ok = true;
  Bits uni = 0;
  size_t tot = 0;
  vector<T> flat;
  for (size_t i = 0; i < m.size(); ++i)
  {
    const Range<T>& r = m.getRange(i);
    flat.push_back(r.begin());
    flat.push_back(r.end());
    ok &= vrt::expect(r.begin() < r.end(), "multirange.nonempty", ty, [&] { return hist + " => stored " + dumpMR(m); });
    if (i + 1 < m.size())
      ok &= vrt::expect(!(m.getRange(i + 1).begin() < r.end()), "multirange.disjoint-ascending", ty, [&] { return hist + " => stored " + dumpMR(m); });
    if (r.begin() < r.end())
    {
      uni |= cells(static_cast<int>(r.begin()), static_cast<int>(r.end()));
      tot += static_cast<size_t>(r.end() - r.begin());
    }
  }
  ok &= vrt::expect(uni == model, "multirange.union", ty, [&] { return hist + " => stored " + dumpMR(m) + " but model cells=" + str(model); });
  ok &= vrt::expect(m.totalLength() == static_cast<size_t>(popcount(model)), "multirange.totalLength", ty,
      [&] { return hist + " => totalLength " + str(m.totalLength()) + " expected " + str(popcount(model)) + " stored " + dumpMR(m); });
  ok &= vrt::expect(m.isEmpty() == (m.size() == 0) && (m.size() == 0) == (model == 0), "multirange.isEmpty", ty,
      [&] { return hist + " => isEmpty " + str(m.isEmpty()) + " size " + str(m.size()) + " model cells " + str(model); });
  ok &= vrt::expect(m.getBounds() == flat, "multirange.getBounds", ty, [&] { return hist + " => bounds differ from getRange list " + dumpMR(m); });
  ok &= vrt::expect(m.toString() == expectedToString<T>(m), "multirange.toString", ty, [&] { return hist + " => '" + m.toString() + "'"; });
  return ok;
}

// One operation applied to real + model; the pre-state segmentation is read from the real object
// (touching ranges may legitimately be stored merged or separate), only filterWithin depends on it.
template<class T> bool applyMR(MultiRange<T>& m, Bits& model, const Op& op, const string& hist)
{
  const string ty = TName<T>::n();
  Range<T> r(static_cast<T>(op.a), static_cast<T>(op.b));
  Bits rc = cells(op.a, op.b);
  switch (op.kind)
  {
  case 'a':
  {
    // class key: how many stored ranges the argument overlaps / touches
    int ov = 0, touch = 0;
    for (size_t i = 0; i < m.size(); ++i)
    {
      Bits c = cells(static_cast<int>(m.getRange(i).begin()), static_cast<int>(m.getRange(i).end()));
      if (c & rc) ++ov;
      else if (m.getRange(i).end() == r.begin() || m.getRange(i).begin() == r.end()) ++touch;
    }
    vrt::cover(ty + ":add:ov" + str(min(ov, 3)) + ":touch" + str(min(touch, 2)) + (rc == 0 ? ":emptyarg" : "") + (op.a > op.b ? ":reversed" : ""));
    m.addRange(r);
    model |= rc;
    break;
  }
  case 'r':
  {
    int ov = 0, cut = 0;
    for (size_t i = 0; i < m.size(); ++i)
    {
      Bits c = cells(static_cast<int>(m.getRange(i).begin()), static_cast<int>(m.getRange(i).end()));
      if (c & rc) { ++ov; if (c & ~rc) ++cut; }
    }
    vrt::cover(ty + ":restrict:ov" + str(min(ov, 3)) + ":cut" + str(min(cut, 2)) + (rc == 0 ? ":emptyarg" : "") + (op.a > op.b ? ":reversed" : ""));
    m.restrictTo(r);
    model &= rc;
    break;
  }
  case 'f':
  {
    Bits keep = 0;
    int kept = 0, dropped = 0;
    int lo = min(op.a, op.b), hi = max(op.a, op.b);
    for (size_t i = 0; i < m.size(); ++i)
    {
      const Range<T>& x = m.getRange(i);
      if (static_cast<int>(x.begin()) >= lo && static_cast<int>(x.end()) <= hi) { keep |= cells(static_cast<int>(x.begin()), static_cast<int>(x.end())); ++kept; }
      else ++dropped;
    }
    vrt::cover(ty + ":filter:kept" + str(min(kept, 2)) + ":dropped" + str(min(dropped, 2)) + (op.a > op.b ? ":reversed" : ""));
    m.filterWithin(r);
    model = keep;
    break;
  }
  case 'c':
    vrt::cover(ty + ":clear:" + (m.size() ? "nonempty" : "empty"));
    m.clear();
    model = 0;
    break;
  case 'k':
  {
    // assignment round trip through a temporary, then mutate the temporary: the target must not move
    vrt::cover(ty + ":copy-assign:" + (m.size() ? "nonempty" : "empty"));
    MultiRange<T> tmp;
    tmp.addRange(Range<T>(static_cast<T>(1), static_cast<T>(3)));
    tmp.addRange(Range<T>(static_cast<T>(5), static_cast<T>(6)));
    tmp.addRange(Range<T>(static_cast<T>(8), static_cast<T>(9)));
    tmp.addRange(Range<T>(static_cast<T>(11), static_cast<T>(12)));
    tmp = m; // onto a target that holds more ranges than most sources
    vrt::expect(dumpMR(tmp) == dumpMR(m), "copy.equal", ty + ":multirange-assign", [&] { return hist + " => assigned copy holds " + dumpMR(tmp) + " source " + dumpMR(m); });
    MultiRange<T> fresh;
    fresh.addRange(Range<T>(static_cast<T>(0), static_cast<T>(2)));
    m = tmp;
    string before = dumpMR(m);
    tmp.restrictTo(Range<T>(static_cast<T>(0), static_cast<T>(1)));
    tmp.addRange(Range<T>(static_cast<T>(5), static_cast<T>(6)));
    tmp.clear();
    vrt::expect(dumpMR(m) == before, "copy.independent", ty + ":multirange-assign", [&] { return hist + " => assigned copy changed from " + before + " to " + dumpMR(m) + " when the source was mutated"; });
    break;
  }
  case 's':
  {
    vrt::cover(ty + ":copy-construct:" + (m.size() ? "nonempty" : "empty"));
    string before = dumpMR(m);
    {
      MultiRange<T> cp(m);
      vrt::expect(dumpMR(cp) == before, "copy.equal", ty + ":multirange-ctor", [&] { return hist + " => copy holds " + dumpMR(cp) + " source " + before; });
      cp.restrictTo(Range<T>(static_cast<T>(0), static_cast<T>(1)));
      cp.addRange(Range<T>(static_cast<T>(4), static_cast<T>(6)));
      vrt::expect(dumpMR(m) == before, "copy.independent", ty + ":multirange-ctor", [&] { return hist + " => source changed from " + before + " to " + dumpMR(m) + " when its copy was mutated"; });
      unique_ptr<MultiRange<T>> viaPtr(new MultiRange<T>(cp));
      cp.clear();
      vrt::counted("copy.independent");
      (void)viaPtr->totalLength();
    }
    vrt::expect(dumpMR(m) == before, "copy.independent", ty + ":multirange-ctor-destroyed", [&] { return hist + " => source changed after its copy was destroyed: " + dumpMR(m); });
    break;
  }
  }
  return auditMR<T>(m, model, hist);
}

vector<Op> opAlphabet(int U)
{
  vector<Op> ops;
  for (char k : { 'a', 'r', 'f' })
    for (int a = 0; a <= U; ++a)
      for (int b = 0; b <= U; ++b)
        ops.push_back(Op{ k, a, b });
  ops.push_back(Op{ 'c', 0, 0 });
  ops.push_back(Op{ 'k', 0, 0 });
  ops.push_back(Op{ 's', 0, 0 });
  return ops;
}

// ---- exhaustive: all sequences up to length 3 over the 0..6 universe; one case = (type, first op, second op block)
template<class T> void exhaustiveFor(vrt::Case& c, size_t first, bool full)
{
  static const vector<Op> ops = opAlphabet(6);
  const string ty = TName<T>::n();
  vrt::describe(ty + ":exhaustive", ty + " sequences starting with " + ops[first].text() + (full ? " (all continuations to length 3)" : " (all continuations to length 2, sampled third op)"));
  MultiRange<T> m0;
  Bits b0 = 0;
  string h0 = ty + ": " + ops[first].text();
  vrt::tally("sequences-len1");
  if (!applyMR<T>(m0, b0, ops[first], h0)) return;
  for (size_t j = 0; j < ops.size(); ++j)
  {
    MultiRange<T> m1(m0);
    Bits b1 = b0;
    string h1 = h0 + " ; " + ops[j].text();
    vrt::tally("sequences-len2");
    if (!applyMR<T>(m1, b1, ops[j], h1)) { if (vrt::violationsInCase() > 20) return; continue; }
    size_t nThird = full ? ops.size() : 12;
    for (size_t t = 0; t < nThird; ++t)
    {
      size_t k = full ? t : c.rng.below(ops.size());
      MultiRange<T> m2;
      m2 = m1;
      Bits b2 = b1;
      vrt::tally("sequences-len3");
      if (!applyMR<T>(m2, b2, ops[k], h1 + " ; " + ops[k].text())) { if (vrt::violationsInCase() > 20) return; }
    }
  }
}

void caseExhaustive(vrt::Case& c)
{
  static const size_t nOps = opAlphabet(6).size();
  size_t type = c.index / nOps, first = c.index % nOps;
  bool full = c.tier == 1;
  if (type == 0) exhaustiveFor<int>(c, first, full);
  else if (type == 1) exhaustiveFor<unsigned>(c, first, full);
  else exhaustiveFor<double>(c, first, full);
}

// ---- random histories of length 12 over the 0..24 universe, MultiRange and RangeSet side by side
template<class T> void randomFor(vrt::Case& c)
{
  const string ty = TName<T>::n();
  const int U = 24;
  size_t len = static_cast<size_t>(c.rng.range(1, 12));
  MultiRange<T> m;
  Bits model = 0;
  RangeSet<T> rs;
  vector<pair<int, int>> rsModel; // multiset of non-empty ranges, in insertion order
  string hist = ty + ":";
  vrt::describe(ty + ":random", ty + " random history, length " + str(len));
  for (size_t s = 0; s < len; ++s)
  {
    Op op;
    int k = static_cast<int>(c.rng.below(100));
    op.kind = k < 50 ? 'a' : k < 70 ? 'r' : k < 85 ? 'f' : k < 90 ? 'c' : k < 95 ? 'k' : 's';
    // end points: biased towards existing bounds so that touching / nested / equal cases are common
    auto endpoint = [&]() -> int {
        if (m.size() && c.rng.chance(0.5))
        {
          const Range<T>& x = m.getRange(c.rng.below(m.size()));
          int v = static_cast<int>(c.rng.chance(0.5) ? x.begin() : x.end()) + static_cast<int>(c.rng.range(-1, 1));
          return max(0, min(U, v));
        }
        return static_cast<int>(c.rng.range(0, U));
      };
    op.a = endpoint();
    op.b = endpoint();
    if ((op.kind == 'r' || op.kind == 'f') && c.rng.chance(0.6)) { op.a = static_cast<int>(c.rng.range(0, 6)); op.b = static_cast<int>(c.rng.range(16, U)); }
    hist += " " + op.text();
    vrt::step(op.text());
    if (!applyMR<T>(m, model, op, hist)) return;

    // the same operation on the RangeSet (copy ops: deep copy check)
    int lo = min(op.a, op.b), hi = max(op.a, op.b);
    Range<T> r(static_cast<T>(op.a), static_cast<T>(op.b));
    if (op.kind == 'a') { rs.addRange(r); if (lo != hi) rsModel.push_back(make_pair(lo, hi)); }
    else if (op.kind == 'r')
    {
      rs.restrictTo(r);
      vector<pair<int, int>> nm;
      for (auto& x : rsModel) { int a = max(x.first, lo), b = min(x.second, hi); if (a < b) nm.push_back(make_pair(a, b)); }
      rsModel = nm;
    }
    else if (op.kind == 'f')
    {
      rs.filterWithin(r);
      vector<pair<int, int>> nm;
      for (auto& x : rsModel) if (x.first >= lo && x.second <= hi) nm.push_back(x);
      rsModel = nm;
    }
    else if (op.kind == 'c') { rs.clear(); rsModel.clear(); }
    else
    {
      // copy construction and assignment (onto an empty, a smaller and a larger target) give the source's ranges;
      // mutating the copies leaves the source alone (checked by the comparison with the model below)
      auto dumpRS = [](const RangeSet<T>& x) { string t; for (size_t i = 0; i < x.size(); ++i) t += "[" + str(x.getRange(i).begin()) + "," + str(x.getRange(i).end()) + "["; return t; };
      const string src = dumpRS(rs);
      RangeSet<T> cp(rs);
      vrt::expect(dumpRS(cp) == src, "copy.equal", ty + ":rangeset-ctor", [&] { return hist + " => RangeSet copy holds " + dumpRS(cp) + " source " + src; });
      size_t pre = c.rng.below(7); // target size before the assignment: 0..6 ranges, so smaller and larger targets occur
      RangeSet<T> as;
      for (size_t q = 0; q < pre; ++q) as.addRange(Range<T>(static_cast<T>(q), static_cast<T>(q + 2)));
      as = rs;
      vrt::expect(dumpRS(as) == src, "copy.equal", ty + ":rangeset-assign:" + (pre > rs.size() ? "onto-larger" : pre == 0 ? "onto-empty" : "onto-smaller-or-equal"), [&] { return hist + " => RangeSet assigned onto a target of " + str(pre) + " ranges holds " + dumpRS(as) + " source " + src; });
      vrt::cover(ty + ":rangeset-assign:" + (pre > rs.size() ? "onto-larger" : pre == 0 ? "onto-empty" : "onto-smaller-or-equal"));
      cp.restrictTo(Range<T>(static_cast<T>(0), static_cast<T>(1)));
      as.clear();
    }
    vector<pair<int, int>> got;
    size_t tot = 0, expTot = 0;
    for (size_t i = 0; i < rs.size(); ++i) { got.push_back(make_pair(static_cast<int>(rs.getRange(i).begin()), static_cast<int>(rs.getRange(i).end()))); }
    for (auto& x : rsModel) expTot += static_cast<size_t>(x.second - x.first);
    tot = rs.totalLength();
    vector<pair<int, int>> g2 = got, e2 = rsModel;
    sort(g2.begin(), g2.end());
    sort(e2.begin(), e2.end());
    auto show = [](const vector<pair<int, int>>& v) { string s; for (auto& x : v) s += "[" + str(x.first) + "," + str(x.second) + "["; return s; };
    if (!vrt::expect(g2 == e2, "rangeset.multiset", ty + ":" + op.kind, [&] { return hist + " => RangeSet holds " + show(got) + " expected (any order) " + show(rsModel); })) return;
    vrt::expect(tot == expTot, "rangeset.totalLength", ty, [&] { return hist + " => RangeSet totalLength " + str(tot) + " expected " + str(expTot); });
    vrt::expect(rs.isEmpty() == rsModel.empty() && rs.size() == rsModel.size(), "rangeset.size", ty, [&] { return hist + " => size " + str(rs.size()) + " expected " + str(rsModel.size()); });
    vrt::expect(rs.toString() == expectedToString<T>(rs), "rangeset.toString", ty, [&] { return hist + " => '" + rs.toString() + "'"; });
    if (op.kind == 'a' || op.kind == 'r' || op.kind == 'f')
      vrt::cover(ty + ":rangeset:" + op.kind + ":n" + str(min<size_t>(rsModel.size(), 3)));
  }
}

void caseRandom(vrt::Case& c)
{
  switch (c.index % 3)
  {
  case 0: randomFor<int>(c); break;
  case 1: randomFor<unsigned>(c); break;
  default: randomFor<double>(c);
  }
}

// ---- Range predicates and transformations against interval arithmetic: one case = (type, a, b), inner loops over (c, d)
template<class T> void predicatesFor(vrt::Case& c, int a, int b, int lo0, int hi0)
{
  const string ty = TName<T>::n();
  vrt::describe(ty + ":range", ty + " Range(" + str(a) + "," + str(b) + ") against all Range(c,d), c,d in " + str(lo0) + ".." + str(hi0));
  const Range<T> x(static_cast<T>(a), static_cast<T>(b));
  int xl = min(a, b), xh = max(a, b);
  string xs = "Range<" + ty + ">(" + str(a) + "," + str(b) + ")";
  vrt::expect(x.begin() == static_cast<T>(xl) && x.end() == static_cast<T>(xh), "range.ctor-orders", ty, [&] { return xs + " => [" + str(x.begin()) + "," + str(x.end()) + "["; });
  vrt::expect(x.length() == static_cast<T>(xh - xl), "range.length", ty, [&] { return xs + ".length() = " + str(x.length()); });
  vrt::expect(x.isEmpty() == (xl == xh), "range.isEmpty", ty, [&] { return xs + ".isEmpty() = " + str(x.isEmpty()); });
  vrt::expect(x.toString() == "[" + TextTools::toString(static_cast<T>(xl)) + "," + TextTools::toString(static_cast<T>(xh)) + "[", "range.toString", ty, [&] { return xs + ".toString() = " + x.toString(); });
  {
    unique_ptr<Range<T>> cl(x.clone());
    vrt::expect(*cl == x && !(*cl != x), "range.clone-equal", ty, [&] { return xs + " clone differs"; });
  }
  for (int cc = lo0; cc <= hi0; ++cc)
    for (int d = lo0; d <= hi0; ++d)
    {
      const Range<T> y(static_cast<T>(cc), static_cast<T>(d));
      int yl = min(cc, d), yh = max(cc, d);
      string ys = xs + " vs Range(" + str(cc) + "," + str(d) + ")";
      bool xe = xl == xh, ye = yl == yh;
      // interval arithmetic on half-open intervals
      bool shareCell = max(xl, yl) < min(xh, yh);
      string rel = shareCell ? "overlap" : (xh == yl || yh == xl) ? "touch" : "apart";
      vrt::cover(ty + ":range:" + rel + (xe ? ":xempty" : "") + (ye ? ":yempty" : "") + (a > b ? ":xrev" : "") + (cc > d ? ":yrev" : ""));
      if (!xe && !ye)
        vrt::expect(x.overlap(y) == shareCell, "range.overlap", ty + ":" + rel, [&] { return ys + " overlap=" + str(x.overlap(y)) + " expected " + str(shareCell); });
      else
        vrt::counted("range.overlap-empty-operand-unjudged"); // an empty interval has no points: the statement does not fix the answer
      vrt::expect(x.overlap(y) == y.overlap(x), "range.overlap-symmetric", ty + ":" + rel, [&] { return ys + " overlap not symmetric"; });
      if (!ye)
        vrt::expect(x.contains(y) == (yl >= xl && yh <= xh), "range.contains", ty + ":" + rel, [&] { return ys + " contains=" + str(x.contains(y)); });
      vrt::expect(x.isContiguous(y) == (xh == yl || yh == xl), "range.isContiguous", ty + ":" + rel, [&] { return ys + " isContiguous=" + str(x.isContiguous(y)); });
      vrt::expect((x == y) == (xl == yl && xh == yh) && (x != y) == !(x == y), "range.equality", ty, [&] { return ys + " ==/!= inconsistent"; });
      // sliceWith = intersection (any empty range when there is no common point)
      {
        Range<T> s(x);
        s.sliceWith(y);
        int il = max(xl, yl), ih = min(xh, yh);
        if (il < ih)
          vrt::expect(s.begin() == static_cast<T>(il) && s.end() == static_cast<T>(ih), "range.sliceWith", ty + ":" + rel, [&] { return ys + " sliceWith => [" + str(s.begin()) + "," + str(s.end()) + "[ expected [" + str(il) + "," + str(ih) + "["; });
        else
          vrt::expect(s.isEmpty(), "range.sliceWith", ty + ":" + rel + ":empty", [&] { return ys + " sliceWith => [" + str(s.begin()) + "," + str(s.end()) + "[ expected an empty range"; });
      }
      // expandWith = hull when the two intervals share a point; unchanged when they are apart.
      // When they only touch the documentation ("if the two intervals do not overlap ... not modified")
      // and the point-set reading (the union is an interval) differ: both answers are accepted.
      {
        Range<T> e(x);
        e.expandWith(y);
        bool isHull = e.begin() == static_cast<T>(min(xl, yl)) && e.end() == static_cast<T>(max(xh, yh));
        bool unchanged = e == x;
        if (xe || ye)
        {
          // with an empty operand only require a result between "unchanged" and the hull
          vrt::expect(unchanged || isHull, "range.expandWith", ty + ":" + rel + ":emptyoperand", [&] { return ys + " expandWith => [" + str(e.begin()) + "," + str(e.end()) + "["; });
        }
        else if (shareCell)
          vrt::expect(isHull, "range.expandWith", ty + ":overlap", [&] { return ys + " expandWith => [" + str(e.begin()) + "," + str(e.end()) + "[ expected the hull"; });
        else if (rel == "touch")
          // two non-empty half-open intervals that share a bound: their union is the interval between the outer
          // bounds, so the expansion is the hull (the in-source comment speaks of "overlap" loosely; the bound tests
          // of the implementation, and MultiRange-free point-set arithmetic, merge touching ranges)
          vrt::expect(isHull, "range.expandWith", ty + ":touch", [&] { return ys + " expandWith => [" + str(e.begin()) + "," + str(e.end()) + "[ expected the hull (touching intervals)"; });
        else
          vrt::expect(unchanged, "range.expandWith", ty + ":apart", [&] { return ys + " expandWith => [" + str(e.begin()) + "," + str(e.end()) + "[ expected unchanged"; });
      }
    }
  // shifting preserves length (shift amounts keep unsigned coordinates non-negative)
  for (int sft = 0; sft <= 5; ++sft)
  {
    Range<T> p(x);
    p += static_cast<T>(sft);
    vrt::expect(p.length() == x.length() && p.begin() == static_cast<T>(xl + sft), "range.shift", ty + ":+=", [&] { return xs + " += " + str(sft) + " => " + p.toString(); });
    Range<T> q = p - static_cast<T>(sft);
    vrt::expect(q == x, "range.shift", ty + ":-", [&] { return xs + " + " + str(sft) + " - " + str(sft) + " => " + q.toString(); });
    Range<T> w = Range<T>(x) + static_cast<T>(sft);
    vrt::expect(w == p, "range.shift", ty + ":+", [&] { return xs + " + " + str(sft) + " => " + w.toString(); });
    Range<T> z(p);
    z -= static_cast<T>(sft);
    vrt::expect(z == x, "range.shift", ty + ":-=", [&] { return xs + " -= => " + z.toString(); });
  }
  // downward shifts below the lower end (after C20-s10): for signed and real coordinates the result has negative
  // coordinates; for unsigned coordinates both ends move in modular arithmetic (well defined in C++), which is what
  // `-=` does bound by bound.  In every case the statement's "shifting preserves length" applies, the binary and the
  // compound form are the same shift, and shifting back restores the range.
  for (int sft : { 1, 2, 3, 4, 5, 7, 11, 24, 25, 30 })
  {
    const T v = static_cast<T>(sft);
    const std::string how = (std::is_unsigned<T>::value && sft > xl) ? (sft > xh ? ":below-zero-both-ends" : ":below-zero-lower-end") : ":plain";
    Range<T> xc(x);
    Range<T> d = xc - v;
    Range<T> dc(x);
    dc -= v;
    vrt::expect(d.length() == x.length(), "range.shift", ty + ":-:length" + how, [&] { return xs + " - " + str(sft) + " => length " + str(d.length()) + " expected " + str(x.length()); });
    vrt::expect(dc.length() == x.length(), "range.shift", ty + ":-=:length" + how, [&] { return xs + " -= " + str(sft) + " => length " + str(dc.length()) + " expected " + str(x.length()); });
    vrt::expect(d.begin() == dc.begin() && d.end() == dc.end(), "range.shift", ty + ":-:same-as-compound" + how, [&] { return xs + " - " + str(sft) + " => [" + str(d.begin()) + "," + str(d.end()) + "[ but -= gives [" + str(dc.begin()) + "," + str(dc.end()) + "["; });
    Range<T> back = Range<T>(d) + v;
    vrt::expect(back.begin() == x.begin() && back.end() == x.end(), "range.shift", ty + ":-+:restores" + how, [&] { return "(" + xs + " - " + str(sft) + ") + " + str(sft) + " => [" + str(back.begin()) + "," + str(back.end()) + "["; });
    vrt::cover("shift-down" + how + ":" + ty);
  }
}

void casePredicates(vrt::Case& c)
{
  // index -> (type, a, b) over the 0..6 universe (exhaustive), then signed/double over -6..6
  const int U = 7;
  size_t i = c.index;
  if (i < 3 * U * U)
  {
    size_t type = i / (U * U);
    int a = static_cast<int>((i / U) % U), b = static_cast<int>(i % U);
    if (type == 0) predicatesFor<int>(c, a, b, 0, 6);
    else if (type == 1) predicatesFor<unsigned>(c, a, b, 0, 6);
    else predicatesFor<double>(c, a, b, 0, 6);
    return;
  }
  i -= 3 * U * U;
  // random larger / negative coordinates for the signed types
  int a = static_cast<int>(c.rng.range(-24, 24)), b = static_cast<int>(c.rng.range(-24, 24));
  int lo = min(a, b) - 3, hi = max(a, b) + 3;
  if (i % 2 == 0) predicatesFor<int>(c, a, b, lo, hi);
  else predicatesFor<double>(c, a, b, lo, hi);
}
} // namespace

int main(int argc, char** argv)
{
  const size_t nOps = opAlphabet(6).size();
  vector<vrt::Group> groups = {
    { "multirange-exhaustive", 3 * nOps, 3 * nOps, caseExhaustive, 900, true },
    { "multirange-random", 30000, 1500000, caseRandom, 600, false },
    { "range-predicates", 3 * 49 + 200, 3 * 49 + 5000, casePredicates, 600, false },
  };
  vrt::Meta meta;
  meta.rule = "multirange-exhaustive: every sequence of operations {add,restrict,filterWithin}(a,b) with a,b in 0..6 (reversed and empty arguments included), clear, "
      "copy-assign, copy-construct, for int/unsigned/double coordinates - all sequences of length<=2, and length 3 completely in the thorough tier (12 random third "
      "operations per length-2 prefix in the quick tier); multirange-random: histories of length 1..12 over 0..24 with end points biased towards stored bounds; "
      "range-predicates: all pairs of ranges over 0..6 for the three types plus random signed ranges. A class key = (coordinate type, operation, number of stored ranges "
      "overlapped/touched/cut/kept/dropped, empty or reversed argument) resp. (type, relation overlap/touch/apart, empty/reversed operands); every key involves a real "
      "operation on the collection, none is trivial.";
  meta.assumptions = {
    "integral end points (also for double), so that the bitset model is exact",
    "universe 0..24 (0..6 exhaustive); signed coordinates below zero only for the Range predicates",
    "expandWith with an empty operand may return the hull or leave the range unchanged; overlap/contains with an empty operand are not judged",
    "filterWithin on a MultiRange is judged against the segmentation observed just before the call (touching ranges may be stored merged or separate)",
  };
  meta.requiredClauses = { "multirange.union", "multirange.disjoint-ascending", "multirange.totalLength", "copy.independent", "rangeset.multiset", "range.overlap", "range.sliceWith", "range.expandWith", "range.shift" };
  return vrt::run(argc, argv, "C20", groups, meta);
}
