// C02 - Bulk parameter updates are atomic; names stay unique; copies are independent.
// Reference model: every live ParameterList (and the list inside every live AbstractParametrizable test
// double) is mirrored by an ordered vector of shared "cells" (name, value, constraint identity, identity of
// the real Parameter object).  Cells are shared between model lists exactly where the real lists are
// supposed to share Parameter objects.  After EVERY call the complete state and the lookups of every live
// list are compared with the model.
#include "vrt.h"

#include <Bpp/Numeric/ParameterList.h>
#include <Bpp/Numeric/AbstractParametrizable.h>

#include <algorithm>
#include <cmath>
#include <cstring>
#include <map>
#include <memory>
#include <set>

using namespace bpp;
using namespace std;
using vrt::str;

namespace
{
typedef shared_ptr<ConstraintInterface> ConsP;

const char* intern(const string& s)
{
  static set<string> pool;
  return pool.insert(s).first->c_str();
}
bool bitsEq(double a, double b) { return memcmp(&a, &b, sizeof a) == 0; }

const vector<string>& namePool()
{
  static const vector<string> p = { "a", "b", "ab", "abab", "ba", "c1", "c10", "k.a", "k.b", "k.k.a" };
  return p;
}
const vector<double>& valueGrid()
{
  static const vector<double> g = { -7, -5, -1, -0.5, 0, 0.25, 0.5, 1, 2, 2.5, 3, 5, 8 };
  return g;
}

// ---- model ----
struct Cell
{
  string name;
  double value;
  ConsP cons;
  const Parameter* real; // identity of the real object; nullptr = "a fresh object, to be bound after the call"
  int uid;
};
typedef shared_ptr<Cell> CellP;
typedef vector<CellP> MList;

int findName(const MList& m, const string& n)
{
  for (size_t i = 0; i < m.size(); ++i) if (m[i]->name == n) return static_cast<int>(i);
  return -1;
}
bool accepts(const Cell& c, double v) { return !c.cons || c.cons->isCorrect(v); }

struct Snap
{
  string name;
  double value;
  const void* cons;
  const Parameter* real;
  bool operator==(const Snap& o) const { return name == o.name && bitsEq(value, o.value) && cons == o.cons && real == o.real; }
};
typedef vector<Snap> SlotSnap;

// ---- AbstractParametrizable test double ----
class Owner : public AbstractParametrizable
{
public:
  struct Fire
  {
    vector<string> names;      // names of the list handed to fireParameterChanged
    vector<string> ownNames;   // own state seen from inside the notification
    vector<double> ownValues;
  };
  vector<Fire> fires;

  Owner(const string& prefix) : AbstractParametrizable(prefix), fires() {}
  Owner* clone() const override { return new Owner(*this); }

  void fireParameterChanged(const ParameterList& pl) override
  {
    Fire f;
    f.names = pl.getParameterNames();
    const ParameterList& own = getParameters();
    for (size_t i = 0; i < own.size(); ++i) { f.ownNames.push_back(own[i].getName()); f.ownValues.push_back(own[i].getValue()); }
    fires.push_back(f);
  }
  void xAdd(Parameter* p) { addParameter_(p); }
  void xAddAll(const ParameterList& pl) { addParameters_(pl); }
  void xShare(const shared_ptr<Parameter>& p) { shareParameter_(p); }
  void xShareAll(const ParameterList& pl) { shareParameters_(pl); }
  void xIncludeAll(const ParameterList& pl) { includeParameters_(pl); }
  void xDelete(size_t i) { deleteParameter_(i); }
  void xDelete(string& n) { deleteParameter_(n); }
  void xDeleteAll(const vector<string>& n) { deleteParameters_(n); }
  void xReset() { resetParameters_(); }
  const shared_ptr<Parameter>& xGet(const string& n) const { return AbstractParametrizable::getParameter(n); }
};

struct Slot
{
  unique_ptr<ParameterList> pl;
  unique_ptr<Owner> own;
  MList m;
  string prefix;
  bool live() const { return pl || own; }
  const ParameterList& real() const { return pl ? *pl : own->getParameters(); }
  void kill() { pl.reset(); own.reset(); m.clear(); prefix.clear(); }
};

struct Plan
{
  string api, cat, text, detail;
  int target, source, dest;
  bool expectRaise, open, atomic;
  size_t raiseAt;
  vector<function<void()>> effects;
  function<void()> call, onRaised, onReturned;
  function<bool()> post;
  string outcomeClause, stateClause, raisedClause;
  Plan() : target(-1), source(-1), dest(-1), expectRaise(false), open(false), atomic(true), raiseAt(0) {}
  void family(const string& c)
  {
    cat = c;
    outcomeClause = c + ".outcome";
    stateClause = c + ".state";
    raisedClause = c + ".state-after-raise";
  }
};

const int NS = 4;   // slots 0..2 live lists / owners, slot 3 = temporary source of the running call
const size_t MAXN = 8;

struct World
{
  vrt::Case& c;
  vector<ConsP> cons; // [0] = none
  Slot slots[NS];
  string hist;
  double pRej;
  int uidCounter;
  vector<shared_ptr<Parameter>> externs;  // handles the harness keeps alive during one call
  unique_ptr<ParameterList> result;       // list returned by the running call
  MList resultModel;
  bool flag;                              // boolean returned by the running call
  vector<size_t> upd;                     // updatedParameters of the running call
  bool nearUsed;                          // the running call carries a value a minimal step away from a target's current value

  explicit World(vrt::Case& cc) : c(cc), cons(), hist(), pRej(0.2), uidCounter(0), externs(), result(), resultModel(), flag(false), upd(), nearUsed(false)
  {
    cons.push_back(ConsP());
    cons.push_back(ConsP(new IntervalConstraint(0, 1, true, true)));
    cons.push_back(ConsP(new IntervalConstraint(0, 1, false, false)));
    cons.push_back(ConsP(new IntervalConstraint(-5, 5, true, true)));
    cons.push_back(ConsP(new IntervalConstraint(true, 0, false)));
    cons.push_back(ConsP(new IntervalConstraint(2, 3, true, false)));
    cons.push_back(ConsP(new IntervalConstraint(false, 1, true)));
  }

  // ---- values / constraints ----
  double anyValue() { return c.rng.chance(0.8) ? c.rng.pick(valueGrid()) : floor(c.rng.real(-8, 8) * 64) / 64 + 0.0; }
  double accVal(const ConsP& k)
  {
    if (!k) return anyValue();
    vector<double> ok;
    for (double v : valueGrid()) if (k->isCorrect(v)) ok.push_back(v);
    if (c.rng.chance(0.2))
      for (int i = 0; i < 8; ++i) { double v = floor(c.rng.real(-8, 8) * 64) / 64 + 0.0; if (k->isCorrect(v)) return v; }
    return c.rng.pick(ok);
  }
  // a value DIFFERENT from cur but a minimal step away from it: 1..3 units in the last place up or down, a relative
  // step of 2^-40..2^-52, or an absolute step of 2^-60..2^-1074 (the last two matter for cur == 0 and for tiny cur).
  // With the default zero precision "differs" means "is another double": such a value has to be stored, reported
  // and validated exactly like any other new value.
  double nearVal(double cur)
  {
    nearUsed = true;
    double v = cur;
    const double dir = c.rng.chance(0.5) ? HUGE_VAL : -HUGE_VAL;
    const size_t how = c.rng.below(5);
    if (how == 3)
    {
      static const int ex[] = { 40, 46, 50, 51, 52 };
      v = cur + (dir > 0 ? cur : -cur) * ldexp(1.0, -ex[c.rng.below(5)]);
    }
    else if (how == 4)
    {
      static const int ex[] = { 60, 200, 1000, 1022, 1074 };
      v = cur + (dir > 0 ? 1 : -1) * ldexp(1.0, -ex[c.rng.below(5)]);
    }
    if (how < 3 || v == cur)
    {
      v = cur;
      for (size_t k = 0; k <= how % 3; ++k) v = nextafter(v, dir);
    }
    return v + 0.0; // never a negative zero
  }
  bool rejVal(const ConsP& k, double& out)
  {
    if (!k) return false;
    vector<double> bad;
    for (double v : valueGrid()) if (!k->isCorrect(v)) bad.push_back(v);
    if (bad.empty()) return false;
    out = c.rng.pick(bad);
    return true;
  }
  ConsP consAccepting(double v)
  {
    vector<ConsP> ok;
    for (auto& k : cons) if (!k || k->isCorrect(v)) ok.push_back(k);
    if (c.rng.chance(0.35)) return ConsP();
    return c.rng.pick(ok);
  }
  ConsP anyCons() { return c.rng.chance(0.3) ? ConsP() : c.rng.pick(cons); }
  string consName(const void* k) const
  {
    if (!k) return "-";
    for (size_t i = 1; i < cons.size(); ++i) if (cons[i].get() == k) return "c" + str(i);
    return "c?";
  }
  CellP mkCell(const string& n, double v, const ConsP& k, const Parameter* real = nullptr)
  {
    CellP x(new Cell());
    x->name = n; x->value = v; x->cons = k; x->real = real; x->uid = ++uidCounter;
    return x;
  }
  CellP cloneCell(const Cell& s) { return mkCell(s.name, s.value, s.cons); }
  MList cloneList(const MList& m) { MList r; for (auto& x : m) r.push_back(cloneCell(*x)); return r; }

  // ---- dumps ----
  string dumpModel(const MList& m) const
  {
    string s = "[";
    for (auto& x : m) s += " " + x->name + "=" + str(x->value) + "{" + consName(x->cons.get()) + "}#" + (x->real ? str(x->uid) : string("new"));
    return s + " ]";
  }
  string dumpSnap(const SlotSnap& m) const
  {
    string s = "[";
    for (auto& x : m) s += " " + x.name + "=" + str(x.value) + "{" + consName(x.cons) + "}";
    return s + " ]";
  }
  string dumpReal(const ParameterList& r) const
  {
    map<const Parameter*, int> ids;
    for (int s = 0; s < NS; ++s) for (auto& x : slots[s].m) if (x->real) ids[x->real] = x->uid;
    string s = "[";
    for (size_t i = 0; i < r.size(); ++i)
    {
      const Parameter* p = r.getParameter(i).get();
      s += " " + p->getName() + "=" + str(p->getValue()) + "{" + consName(p->getConstraint().get()) + "}#" + (ids.count(p) ? str(ids[p]) : string("?"));
    }
    return s + " ]";
  }

  // ---- slot bookkeeping ----
  vector<int> liveSlots(int kind = 0) const // 0 any, 1 lists, 2 owners
  {
    vector<int> v;
    for (int s = 0; s < 3; ++s)
      if (slots[s].live() && (kind == 0 || (kind == 1 && slots[s].pl) || (kind == 2 && slots[s].own))) v.push_back(s);
    return v;
  }
  int pickLive(int kind = 0)
  {
    vector<int> v = liveSlots(kind);
    return v.empty() ? -1 : c.rng.pick(v);
  }
  int pickDest()
  {
    vector<int> fr;
    for (int s = 0; s < 3; ++s) if (!slots[s].live()) fr.push_back(s);
    if (!fr.empty() && c.rng.chance(0.7)) return c.rng.pick(fr);
    return static_cast<int>(c.rng.below(3));
  }
  string slotName(int s) const { return s == 3 ? string("tmp") : (slots[s].own ? "O" : "L") + str(s); }
  bool sharesCells(int a, int b) const
  {
    for (auto& x : slots[a].m) for (auto& y : slots[b].m) if (x == y) return true;
    return false;
  }
  vector<SlotSnap> snapshotAll() const
  {
    vector<SlotSnap> r(NS);
    for (int s = 0; s < NS; ++s) for (auto& x : slots[s].m) r[s].push_back(Snap{ x->name, x->value, x->cons.get(), x->real });
    return r;
  }
  SlotSnap snapOf(int s) const
  {
    SlotSnap r;
    for (auto& x : slots[s].m) r.push_back(Snap{ x->name, x->value, x->cons.get(), x->real });
    return r;
  }

  // ---- comparison of the real lists with the model ----
  // returns "" when slot s agrees, otherwise the first differing aspect.  Fresh cells (real == nullptr) must
  // sit on objects that no other live cell occupies; their tentative binding goes to `bind`.
  string compareSlot(int s, const set<const Parameter*>& liveSet, map<Cell*, const Parameter*>& bind, set<const Parameter*>& boundPtrs) const
  {
    const Slot& S = slots[s];
    const ParameterList& R = S.real();
    if (R.size() != S.m.size()) return "size";
    vector<string> names = R.getParameterNames();
    if (names.size() != S.m.size()) return "names";
    for (size_t i = 0; i < S.m.size(); ++i)
      if (names[i] != S.m[i]->name || R[i].getName() != S.m[i]->name) return "names";
    for (size_t i = 0; i < S.m.size(); ++i)
    {
      Cell* x = S.m[i].get();
      const Parameter* p = R.getParameter(i).get();
      if (&R[i] != p) return "identity";
      if (x->real) { if (p != x->real) return "identity"; }
      else if (bind.count(x)) { if (bind[x] != p) return "identity"; }
      else
      {
        if (liveSet.count(p) || boundPtrs.count(p)) return "identity-not-fresh";
        bind[x] = p;
        boundPtrs.insert(p);
      }
    }
    for (size_t i = 0; i < S.m.size(); ++i)
      if (!bitsEq(R[i].getValue(), S.m[i]->value)) return "value";
    for (size_t i = 0; i < S.m.size(); ++i)
    {
      if (R[i].getConstraint().get() != S.m[i]->cons.get() || R[i].hasConstraint() != static_cast<bool>(S.m[i]->cons)) return "constraint";
      if (R[i].getPrecision() != 0) return "precision";
    }
    return "";
  }
  set<const Parameter*> liveSet() const
  {
    set<const Parameter*> r;
    for (int s = 0; s < NS; ++s) for (auto& x : slots[s].m) if (x->real) r.insert(x->real);
    for (auto& e : externs) r.insert(e.get());
    return r;
  }
  bool quietEqualAll() const
  {
    set<const Parameter*> ls = liveSet(), bp;
    map<Cell*, const Parameter*> bind;
    for (int s = 0; s < NS; ++s)
      if (slots[s].live() && compareSlot(s, ls, bind, bp) != "") return false;
    return true;
  }

  bool exec(Plan& p);
  bool auditAll(const Plan& p, const vector<SlotSnap>& pre, const vrt::Outcome& o);
  bool auditLookups(int s);

  // ---- workload pieces (defined below) ----
  void makeTemp(int t, bool superset, bool subset, bool aliasing);
  int pickSource(int t, bool superset, bool subset);
  void buildList(int d, size_t n, bool owner);
  bool opBulk(Plan& p, int kind, int t = -1, int s = -2);
  bool opSetValue(Plan& p);
  bool opHandle(Plan& p);
  bool opAdd(Plan& p);
  bool opSeq(Plan& p, int kind);
  bool opShareOne(Plan& p);
  bool opSetParameter(Plan& p);
  bool opAssignParams(Plan& p, int kind);
  bool opDelete(Plan& p, int kind);
  bool opSubList(Plan& p, int kind);
  bool opCopy(Plan& p, int kind);
  bool opLife(Plan& p, int kind);
  bool opNamespace(Plan& p);
  bool randomOp(int profile);
};

// ---- execution of one planned call: outcome, model transition, audit of every live list ----
bool World::exec(Plan& p)
{
  hist += (hist.empty() ? "" : " ; ") + p.text;
  vrt::step(p.text);
  vector<SlotSnap> pre = snapshotAll();
  for (int s = 0; s < 3; ++s) if (slots[s].own) slots[s].own->fires.clear();
  flag = false;
  upd.clear();
  result.reset();
  vrt::Outcome o = vrt::capture(p.call);
  bool ok = true;
  if (!o.returned() && !o.raisedBpp())
  {
    vrt::violation(intern(p.cat + ".exception"), p.api + ":" + o.type, hist + " => " + o.text() + " (not a bpp::Exception)");
    ok = false;
  }
  else if (p.open)
    vrt::counted(intern(p.cat + ".outcome-left-open"));
  else
    ok = vrt::expect(o.returned() == !p.expectRaise, intern(p.outcomeClause), p.api + (p.expectRaise ? ":returned-instead-of-raising" : ":raised-unexpectedly"),
        [&] { return hist + " => " + o.text() + " but the model " + (p.expectRaise ? "requires an exception" : "requires a normal return") + " (" + p.detail + "); target model " + (p.target >= 0 ? dumpModel(slots[p.target].m) : string("-")) + (p.source >= 0 ? " source model " + dumpModel(slots[p.source].m) : string("")); });
  if (ok)
  {
    if (o.returned())
    {
      for (auto& e : p.effects) e();
      if (p.onReturned) p.onReturned();
    }
    else if (p.onRaised) p.onRaised();
    else if (!p.atomic)
    {
      // any prefix of the sequential reference behaviour is accepted (0 = all-or-nothing implementation)
      size_t k = 0;
      while (!quietEqualAll() && k < p.raiseAt && k < p.effects.size()) p.effects[k++]();
    }
    ok = auditAll(p, pre, o);
    if (ok && o.returned() && p.post) ok = p.post();
    if (ok)
      for (int s = 0; s < NS && ok; ++s) if (slots[s].live()) ok = auditLookups(s);
    if (ok) vrt::cover(p.api + ":" + (o.returned() ? "ret" : "raise") + (p.detail.empty() ? "" : ":" + p.detail));
    if (ok && nearUsed) vrt::cover("minimal-step:" + p.api + ":" + (o.returned() ? "ret" : "raise"));
  }
  nearUsed = false;
  externs.clear();
  result.reset();
  resultModel.clear();
  slots[3].kill();
  return ok;
}

bool World::auditAll(const Plan& p, const vector<SlotSnap>& pre, const vrt::Outcome& o)
{
  set<const Parameter*> ls = liveSet(), bp;
  map<Cell*, const Parameter*> bind;
  bool bulkRaise = !o.returned() && p.cat == "bulk";
  for (int s = 0; s < NS; ++s)
  {
    if (!slots[s].live()) continue;
    string aspect = compareSlot(s, ls, bind, bp);
    bool tgt = (s == p.target || s == p.dest);
    string role = tgt ? "target" : (s == p.source ? "source" : "bystander");
    string clause;
    if (bulkRaise) clause = p.raisedClause;
    else if (tgt) clause = o.returned() ? p.stateClause : p.raisedClause;
    else clause = (snapOf(s) == pre[s]) ? "copy.independent" : "share.observes";
    if (aspect == "identity-not-fresh") clause = "copy.independent";
    else if (aspect == "identity" && p.api.find("share") != string::npos) clause = "share.identity";
    if (!vrt::expect(aspect.empty(), intern(clause), p.api + ":" + aspect + ":" + role, [&] {
        return hist + " => [" + o.text() + "] " + slotName(s) + " (" + role + ") holds " + dumpReal(slots[s].real()) + " but the model says " + dumpModel(slots[s].m) + "; before the call the model was " + dumpSnap(pre[s]) + " (" + p.detail + ")";
      }))
      return false;
  }
  for (auto& b : bind) b.first->real = b.second;
  // names unique in every live list (follows from model agreement; counted separately so the clause has a number)
  for (int s = 0; s < NS; ++s)
  {
    if (!slots[s].live()) continue;
    vector<string> n = slots[s].real().getParameterNames();
    sort(n.begin(), n.end());
    if (!vrt::expect(adjacent_find(n.begin(), n.end()) == n.end(), "names.unique", p.api, [&] { return hist + " => duplicate name in " + dumpReal(slots[s].real()); }))
      return false;
  }
  return true;
}

bool World::auditLookups(int s)
{
  Slot& S = slots[s];
  const bool owner = static_cast<bool>(S.own);
  const string tag = owner ? ":owner" : "";
  auto fail = [&](const char* clause, const string& cls, const string& what) {
      vrt::violation(clause, cls, hist + " => " + slotName(s) + " " + dumpReal(S.real()) + ": " + what);
      return false;
    };
  vector<string> cand = namePool();
  cand.push_back("");
  cand.push_back("zz");
  if (owner)
    for (auto& x : S.m)
      if (!S.prefix.empty() && x->name.compare(0, S.prefix.size(), S.prefix) == 0) cand.push_back(x->name.substr(S.prefix.size()));
  vector<string> absent;
  for (const string& n : cand)
  {
    const string full = owner ? S.prefix + n : n;
    int idx = findName(S.m, full);
    bool has = false;
    vrt::Outcome oh = vrt::capture([&] { has = owner ? S.own->hasParameter(n) : S.pl->hasParameter(n); });
    vrt::counted("lookup.has");
    if (!oh.returned() || has != (idx >= 0)) return fail("lookup.has", "hasParameter" + tag, "hasParameter('" + n + "') " + (oh.returned() ? "= " + str(has) : oh.text()));
    if (idx < 0) { absent.push_back(n); continue; }
    const Cell& x = *S.m[static_cast<size_t>(idx)];
    string bad;
    vrt::Outcome o = vrt::capture([&] {
        if (owner)
        {
          const Owner& O = *S.own;
          if (&O.parameter(n) != x.real) bad = "parameter";
          else if (O.xGet(n).get() != x.real) bad = "getParameter";
          else if (!bitsEq(O.getParameterValue(n), x.value)) bad = "getParameterValue";
        }
        else
        {
          ParameterList& L = *S.pl;
          const ParameterList& CL = *S.pl;
          if (&CL.parameter(n) != x.real) bad = "parameter-const";
          else if (&L.parameter(n) != x.real) bad = "parameter";
          else if (CL.getParameter(n).get() != x.real) bad = "getParameter-const";
          else if (L.getParameter(n).get() != x.real) bad = "getParameter";
          else if (!bitsEq(CL.getParameterValue(n), x.value)) bad = "getParameterValue";
          else if (CL.whichParameterHasName(n) != static_cast<size_t>(idx)) bad = "whichParameterHasName";
        }
      });
    vrt::counted("lookup.present");
    if (!o.returned()) return fail("lookup.present", "raised" + tag, "lookup of present name '" + n + "' " + o.text());
    if (!bad.empty()) return fail("lookup.present", bad + tag, bad + "('" + n + "') does not address entry " + str(idx));
  }
  // absent names must raise the library's exception (two random absent names per audit)
  c.rng.shuffle(absent);
  for (size_t a = 0; a < absent.size() && a < 2; ++a)
  {
    const string n = absent[a];
    vector<pair<string, function<void()>>> calls;
    if (owner)
    {
      const Owner* O = S.own.get();
      calls.push_back({ "parameter", [O, n] { (void)O->parameter(n); } });
      calls.push_back({ "getParameter", [O, n] { (void)O->xGet(n); } });
      calls.push_back({ "getParameterValue", [O, n] { (void)O->getParameterValue(n); } });
    }
    else
    {
      ParameterList* L = S.pl.get();
      const ParameterList* CL = S.pl.get();
      calls.push_back({ "parameter-const", [CL, n] { (void)CL->parameter(n); } });
      calls.push_back({ "parameter", [L, n] { (void)L->parameter(n); } });
      calls.push_back({ "getParameter-const", [CL, n] { (void)CL->getParameter(n); } });
      calls.push_back({ "getParameter", [L, n] { (void)L->getParameter(n); } });
      calls.push_back({ "getParameterValue", [CL, n] { (void)CL->getParameterValue(n); } });
      calls.push_back({ "whichParameterHasName", [CL, n] { (void)CL->whichParameterHasName(n); } });
    }
    for (auto& f : calls)
    {
      vrt::Outcome o = vrt::capture(f.second);
      vrt::counted("lookup.absent-raises");
      if (!o.raisedBpp()) return fail("lookup.absent-raises", f.first + tag + (o.returned() ? ":returned" : ":foreign-exception"), f.first + "('" + n + "') for an absent name " + o.text());
    }
  }
  if (owner)
  {
    vrt::counted("owner.accessors");
    if (S.own->getNumberOfParameters() != S.m.size()) return fail("owner.accessors", "getNumberOfParameters", "getNumberOfParameters = " + str(S.own->getNumberOfParameters()));
    if (S.own->getNamespace() != S.prefix) return fail("owner.accessors", "getNamespace", "getNamespace = '" + S.own->getNamespace() + "' expected '" + S.prefix + "'");
    for (const string& n : namePool())
    {
      string e = (n.compare(0, S.prefix.size(), S.prefix) == 0) ? n.substr(S.prefix.size()) : n;
      if (S.own->getParameterNameWithoutNamespace(n) != e) return fail("owner.accessors", "getParameterNameWithoutNamespace", "getParameterNameWithoutNamespace('" + n + "') = '" + S.own->getParameterNameWithoutNamespace(n) + "' with namespace '" + S.prefix + "'");
    }
  }
  return true;
}

// ---- construction of lists ----
// temporary source in slot 3, with a name set overlapping the target's and values inside / outside the target's constraints
void World::makeTemp(int t, bool superset, bool subset, bool aliasing)
{
  Slot& X = slots[3];
  X.kill();
  X.pl.reset(new ParameterList());
  const MList T = slots[t].m;
  vector<string> names, extra;
  for (auto& x : T) if (superset || c.rng.chance(0.65)) names.push_back(x->name);
  if (!subset)
    for (auto& n : namePool()) if (findName(T, n) < 0 && c.rng.chance(0.25)) extra.push_back(n);
  c.rng.shuffle(extra);
  for (auto& n : extra) if (names.size() < MAXN) names.push_back(n);
  c.rng.shuffle(names);
  for (auto& n : names)
  {
    int j = findName(T, n);
    if (aliasing && j >= 0 && c.rng.chance(0.5))
    {
      X.pl->shareParameter(slots[t].real().getParameter(static_cast<size_t>(j)));
      X.m.push_back(T[static_cast<size_t>(j)]);
      continue;
    }
    double v;
    if (j >= 0)
    {
      const Cell& tc = *T[static_cast<size_t>(j)];
      if (tc.cons && c.rng.chance(pRej) && rejVal(tc.cons, v)) {}
      else if (c.rng.chance(0.3)) v = tc.value;
      else if (c.rng.chance(0.2)) v = nearVal(tc.value); // accepted or not is the constraint's business (a bound may lie in between)
      else v = accVal(tc.cons);
    }
    else v = anyValue();
    ConsP k = consAccepting(v);
    Parameter prm(n, v, k);
    X.pl->addParameter(prm);
    X.m.push_back(mkCell(n, v, k, X.pl->getParameter(X.pl->size() - 1).get()));
  }
}

int World::pickSource(int t, bool superset, bool subset)
{
  double r = c.rng.unit();
  if (r < 0.55) { makeTemp(t, superset && c.rng.chance(0.85), subset && c.rng.chance(0.85), false); return 3; }
  if (r < 0.67) { makeTemp(t, superset && c.rng.chance(0.85), subset && c.rng.chance(0.85), true); return 3; }
  if (r < 0.75) return t;
  vector<int> o;
  for (int s : liveSlots()) if (s != t) o.push_back(s);
  if (o.empty()) { makeTemp(t, superset, subset, false); return 3; }
  return c.rng.pick(o);
}

// fresh list / owner with n parameters in slot d (construction itself is audited by the caller's first audit)
void World::buildList(int d, size_t n, bool owner)
{
  Slot& D = slots[d];
  D.kill();
  vector<string> names = namePool();
  c.rng.shuffle(names);
  names.resize(min(n, names.size()));
  if (owner)
  {
    D.prefix = c.rng.chance(0.6) ? "k." : "";
    D.own.reset(new Owner(D.prefix));
  }
  else D.pl.reset(new ParameterList());
  for (auto& n0 : names)
  {
    ConsP k = anyCons();
    double v = accVal(k);
    if (owner) { Parameter* raw = new Parameter(n0, v, k); D.own->xAdd(raw); D.m.push_back(mkCell(n0, v, k, raw)); }
    else if (c.rng.chance(0.5)) { Parameter* raw = new Parameter(n0, v, k); D.pl->addParameter(raw); D.m.push_back(mkCell(n0, v, k, raw)); }
    else { Parameter prm(n0, v, k); D.pl->addParameter(prm); D.m.push_back(mkCell(n0, v, k)); }
  }
}

// ---- bulk value updates: setParametersValues(0) matchParametersValues(1, 2 = without out-vector) setAllParametersValues(3) testParametersValues(4)
bool World::opBulk(Plan& p, int kind, int t, int s)
{
  if (t < 0) t = pickLive();
  if (t < 0) return false;
  const bool owner = static_cast<bool>(slots[t].own);
  if (owner && kind == 4) return false;
  if (owner && kind == 2) kind = 1;
  if (s == -2) s = pickSource(t, kind == 3, false);
  static const char* names[] = { "setParametersValues", "matchParametersValues", "matchParametersValues-noout", "setAllParametersValues", "testParametersValues" };
  p.api = string(owner ? "owner." : "") + names[kind];
  p.family("bulk");
  p.outcomeClause = "bulk.raises-iff-rejected";
  p.stateClause = "bulk.applied";
  p.raisedClause = "bulk.atomic";
  p.target = t;
  p.source = s;
  const MList Tm = slots[t].m, Sm = slots[s].m;
  struct U { CellP cell; double v; size_t srcPos; bool differs; };
  auto ups = make_shared<vector<U>>();
  int firstRej = -1;
  bool missing = false, absentInT = false;
  if (kind == 3)
  {
    for (size_t j = 0; j < Tm.size(); ++j)
    {
      int i = findName(Sm, Tm[j]->name);
      if (i < 0) { missing = true; continue; }
      double v = Sm[static_cast<size_t>(i)]->value;
      if (!accepts(*Tm[j], v)) { if (firstRej < 0) firstRej = static_cast<int>(j); }
      ups->push_back(U{ Tm[j], v, static_cast<size_t>(i), v != Tm[j]->value });
    }
  }
  else
  {
    for (size_t i = 0; i < Sm.size(); ++i)
    {
      int j = findName(Tm, Sm[i]->name);
      if (j < 0) { absentInT = true; continue; }
      double v = Sm[i]->value;
      const CellP& tc = Tm[static_cast<size_t>(j)];
      if (!accepts(*tc, v)) { if (firstRej < 0) firstRej = static_cast<int>(i); }
      ups->push_back(U{ tc, v, i, v != tc->value });
    }
  }
  const bool rejected = firstRej >= 0;
  bool anyDiff = false;
  vector<size_t> changedPos;
  vector<string> changedNames;
  for (auto& u : *ups) if (u.differs) { anyDiff = true; changedPos.push_back(u.srcPos); changedNames.push_back(u.cell->name); }
  sort(changedPos.begin(), changedPos.end());
  sort(changedNames.begin(), changedNames.end());
  bool permissiveRaise = false;
  if (kind == 4) { if (rejected) p.open = true; }
  else if (kind == 3) { p.expectRaise = rejected || missing; permissiveRaise = missing && !rejected; }
  else if (kind == 0 && owner && !rejected && absentInT) { p.open = true; permissiveRaise = true; } // Parametrizable documents ParameterNotFoundException, ParameterList documents "matching names"
  else p.expectRaise = rejected;
  if (kind != 4)
    p.effects.push_back([ups] { for (auto& u : *ups) u.cell->value = u.v; });
  if (permissiveRaise)
    // a call that raises because of an absent name (no value is rejected): the statement does not say what happens to
    // the matching entries, every entry may hold its old or its new value
    p.onRaised = [this, ups, t, Tm] {
        const ParameterList& R = slots[t].real();
        if (R.size() != Tm.size()) return;
        for (auto& u : *ups)
          for (size_t j = 0; j < Tm.size(); ++j)
            if (Tm[j] == u.cell && bitsEq(R[j].getValue(), u.v)) u.cell->value = u.v;
      };
  string rel = (s == t) ? "self" : (sharesCells(s, t) ? "alias" : "distinct");
  p.detail = "match" + str(min<size_t>(ups->size(), 4)) + (rejected ? ":rej@" + str(firstRej) : string(":norej")) + (missing ? ":missing" : "") + (absentInT ? ":extra" : "") + ":" + rel + (anyDiff ? ":diff" : ":same");
  p.text = slotName(t) + "." + names[kind] + "(" + slotName(s) + "=" + dumpModel(Sm) + ") on " + dumpModel(Tm);
  const ParameterList* Sr = &slots[s].real();
  if (owner)
  {
    Owner* O = slots[t].own.get();
    if (kind == 0) p.call = [O, Sr] { O->setParametersValues(*Sr); };
    else if (kind == 1) p.call = [this, O, Sr] { flag = O->matchParametersValues(*Sr); };
    else p.call = [O, Sr] { O->setAllParametersValues(*Sr); };
  }
  else
  {
    ParameterList* L = slots[t].pl.get();
    if (kind == 0) p.call = [L, Sr] { L->setParametersValues(*Sr); };
    else if (kind == 1) p.call = [this, L, Sr] { flag = L->matchParametersValues(*Sr, &upd); };
    else if (kind == 2) p.call = [this, L, Sr] { flag = L->matchParametersValues(*Sr); };
    else if (kind == 3) p.call = [L, Sr] { L->setAllParametersValues(*Sr); };
    else p.call = [this, L, Sr] { flag = L->testParametersValues(*Sr); };
  }
  const string api = p.api;
  p.post = [this, kind, owner, anyDiff, rejected, changedPos, changedNames, t, api] {
      bool ok = true;
      if (kind == 1 || kind == 2 || kind == 4)
      {
        bool expFlag = (kind == 4 && rejected) ? true : anyDiff;
        ok = vrt::expect(flag == expFlag, "bulk.flag", api + (expFlag ? ":missed-change" : ":spurious-change"), [&] { return hist + " => returned " + str(flag) + " expected " + str(expFlag); });
      }
      if (ok && kind == 1 && !owner)
      {
        vector<size_t> got = upd;
        sort(got.begin(), got.end());
        ok = vrt::expect(got == changedPos, "bulk.positions", api, [&] { return hist + " => updatedParameters " + vrt::vecStr(upd) + " expected (any order) " + vrt::vecStr(changedPos); });
      }
      if (ok && owner)
      {
        const vector<Owner::Fire>& f = slots[t].own->fires;
        if (kind == 1)
        {
          ok = vrt::expect(f.empty() == !anyDiff, "owner.notify", api + (anyDiff ? ":not-notified" : ":notified-without-change"), [&] { return hist + " => " + str(f.size()) + " notifications, something changed: " + str(anyDiff); });
          if (ok && anyDiff)
          {
            vector<string> got = f.back().names;
            sort(got.begin(), got.end());
            ok = vrt::expect(got == changedNames, "bulk.positions", api + ":notified-names", [&] { return hist + " => notified with " + vrt::vecStr(f.back().names) + " expected the changed entries " + vrt::vecStr(changedNames); });
          }
        }
        else if (anyDiff)
          ok = vrt::expect(!f.empty(), "owner.notify", api + ":not-notified", [&] { return hist + " => no fireParameterChanged although values changed"; });
        if (ok && !f.empty())
        {
          bool same = f.back().ownNames.size() == slots[t].m.size();
          for (size_t i = 0; same && i < slots[t].m.size(); ++i) same = f.back().ownNames[i] == slots[t].m[i]->name && bitsEq(f.back().ownValues[i], slots[t].m[i]->value);
          ok = vrt::expect(same, "owner.notify", api + ":notified-before-applied", [&] { return hist + " => inside fireParameterChanged the owner held " + vrt::vecStr(f.back().ownValues) + " but the updated state is " + dumpModel(slots[t].m); });
        }
      }
      return ok;
    };
  return true;
}

// ---- single value update by name
bool World::opSetValue(Plan& p)
{
  int t = pickLive();
  if (t < 0) return false;
  Slot& T = slots[t];
  const bool owner = static_cast<bool>(T.own);
  p.family("single");
  p.api = owner ? "owner.setParameterValue" : "setParameterValue";
  p.target = t;
  string shortName, full;
  int j = -1;
  if (!T.m.empty() && c.rng.chance(0.85))
  {
    j = static_cast<int>(c.rng.below(T.m.size()));
    full = T.m[static_cast<size_t>(j)]->name;
    if (owner)
    {
      if (full.compare(0, T.prefix.size(), T.prefix) != 0) { j = -1; shortName = full; full = T.prefix + shortName; j = findName(T.m, full); }
      else shortName = full.substr(T.prefix.size());
    }
    else shortName = full;
  }
  else
  {
    shortName = c.rng.pick(namePool());
    full = owner ? T.prefix + shortName : shortName;
    j = findName(T.m, full);
  }
  double v = anyValue();
  string cls = "absent";
  if (j >= 0)
  {
    CellP cell = T.m[static_cast<size_t>(j)];
    double r = c.rng.unit();
    if (r < 0.3 && rejVal(cell->cons, v)) cls = "rejected";
    else if (r < 0.4) { v = cell->value; cls = "same"; }
    else if (r < 0.55) { v = nearVal(cell->value); cls = "minimal-step"; }
    else { v = accVal(cell->cons); cls = "accepted"; }
    if (!accepts(*cell, v)) { cls = cls == "minimal-step" ? "minimal-step-rejected" : "rejected"; p.expectRaise = true; }
    else p.effects.push_back([cell, v] { cell->value = v; });
  }
  else p.expectRaise = true;
  p.detail = cls;
  p.text = slotName(t) + ".setParameterValue('" + shortName + "', " + str(v) + ")";
  if (owner)
  {
    Owner* O = T.own.get();
    p.call = [O, shortName, v] { O->setParameterValue(shortName, v); };
    bool changes = j >= 0 && !p.expectRaise && v != T.m[static_cast<size_t>(j)]->value;
    const string api = p.api;
    p.post = [this, t, changes, api] {
        const vector<Owner::Fire>& f = slots[t].own->fires;
        bool ok = !changes || vrt::expect(!f.empty(), "owner.notify", api + ":not-notified", [&] { return hist + " => no fireParameterChanged although the value changed"; });
        if (ok && !f.empty())
        {
          bool same = f.back().ownNames.size() == slots[t].m.size();
          for (size_t i = 0; same && i < slots[t].m.size(); ++i) same = bitsEq(f.back().ownValues[i], slots[t].m[i]->value);
          ok = vrt::expect(same, "owner.notify", api + ":notified-before-applied", [&] { return hist + " => inside fireParameterChanged the owner held " + vrt::vecStr(f.back().ownValues) + " but the updated state is " + dumpModel(slots[t].m); });
        }
        return ok;
      };
  }
  else
  {
    ParameterList* L = T.pl.get();
    p.call = [L, shortName, v] { L->setParameterValue(shortName, v); };
  }
  return true;
}

// ---- mutation through a handle obtained from a list (value / constraint), owner: setConstraint / removeConstraint by name
bool World::opHandle(Plan& p)
{
  int t = pickLive();
  if (t < 0 || slots[t].m.empty()) return false;
  Slot& T = slots[t];
  const bool owner = static_cast<bool>(T.own);
  p.family("handle");
  p.target = t;
  size_t j = c.rng.below(T.m.size());
  CellP cell = T.m[j];
  string name = cell->name;
  if (owner)
  {
    string shortName;
    if (c.rng.chance(0.15)) { shortName = "zz"; }
    else if (name.compare(0, T.prefix.size(), T.prefix) == 0) shortName = name.substr(T.prefix.size());
    else shortName = name;
    int jj = findName(T.m, T.prefix + shortName);
    Owner* O = T.own.get();
    if (c.rng.chance(0.5))
    {
      p.api = "owner.removeConstraint";
      if (jj < 0) p.expectRaise = true;
      else { CellP x = T.m[static_cast<size_t>(jj)]; p.effects.push_back([x] { x->cons.reset(); }); }
      p.call = [O, shortName] { O->removeConstraint(shortName); };
      p.text = slotName(t) + ".removeConstraint('" + shortName + "')";
    }
    else
    {
      p.api = "owner.setConstraint";
      ConsP k = c.rng.pick(cons);
      if (jj < 0) p.expectRaise = true;
      else
      {
        CellP x = T.m[static_cast<size_t>(jj)];
        if (k && !k->isCorrect(x->value)) p.expectRaise = true;
        else p.effects.push_back([x, k] { x->cons = k; });
      }
      p.call = [O, shortName, k] { O->setConstraint(shortName, k); };
      p.text = slotName(t) + ".setConstraint('" + shortName + "', " + consName(k.get()) + ")";
    }
    p.detail = jj < 0 ? "absent" : (p.expectRaise ? "rejected" : "ok");
    return true;
  }
  ParameterList* L = T.pl.get();
  int how = static_cast<int>(c.rng.below(6));
  if (how <= 3)
  {
    double v;
    if (c.rng.chance(0.3) && rejVal(cell->cons, v)) p.expectRaise = true;
    else
    {
      v = c.rng.chance(0.15) ? nearVal(cell->value) : accVal(cell->cons);
      if (!accepts(*cell, v)) p.expectRaise = true;
      else p.effects.push_back([cell, v] { cell->value = v; });
    }
    static const char* via[] = { "operator[]", "parameter(name)", "getParameter(i)", "getParameter(name)" };
    p.api = string("handle.setValue:") + via[how];
    if (how == 0) p.call = [L, j, v] { (*L)[j].setValue(v); };
    else if (how == 1) p.call = [L, name, v] { L->parameter(name).setValue(v); };
    else if (how == 2) p.call = [L, j, v] { L->getParameter(j)->setValue(v); };
    else p.call = [L, name, v] { L->getParameter(name)->setValue(v); };
    p.text = slotName(t) + "." + via[how] + "{" + name + "}.setValue(" + str(v) + ")";
  }
  else if (how == 4)
  {
    ConsP k = c.rng.pick(cons);
    if (k && !k->isCorrect(cell->value)) p.expectRaise = true;
    else p.effects.push_back([cell, k] { cell->cons = k; });
    p.api = "handle.setConstraint";
    p.call = [L, j, k] { (*L)[j].setConstraint(k); };
    p.text = slotName(t) + "[" + name + "].setConstraint(" + consName(k.get()) + ")";
  }
  else
  {
    p.effects.push_back([cell] { cell->cons.reset(); });
    p.api = "handle.removeConstraint";
    p.call = [L, name] { L->parameter(name).removeConstraint(); };
    p.text = slotName(t) + "[" + name + "].removeConstraint()";
  }
  p.detail = p.expectRaise ? "rejected" : "ok";
  return true;
}

// ---- addParameter(const&) / addParameter(pointer): refused iff the name is present
bool World::opAdd(Plan& p)
{
  int t = pickLive();
  if (t < 0) return false;
  Slot& T = slots[t];
  const bool owner = static_cast<bool>(T.own);
  p.family("add");
  p.outcomeClause = "add.refused-iff-present";
  p.target = t;
  if (owner && c.rng.chance(0.05))
  {
    // a null pointer is documented (code comment) to be ignored by addParameter_; the statement is silent: anything but an abort
    Owner* O = T.own.get();
    p.api = "owner.addParameter_(null)";
    p.open = true;
    p.call = [O] { O->xAdd(nullptr); };
    p.text = slotName(t) + ".addParameter_(nullptr)";
    return true;
  }
  string n;
  if (!T.m.empty() && c.rng.chance(0.35)) n = c.rng.pick(T.m)->name;
  else n = c.rng.pick(namePool());
  bool present = findName(T.m, n) >= 0;
  if (!present && T.m.size() >= MAXN) return false;
  ConsP k = anyCons();
  double v = accVal(k);
  p.expectRaise = present;
  p.detail = present ? "present" : "absent";
  bool byPtr = owner || c.rng.chance(0.5);
  if (byPtr)
  {
    Parameter* raw = new Parameter(n, v, k);
    p.api = owner ? "owner.addParameter_(ptr)" : "addParameter(ptr)";
    if (owner) { Owner* O = T.own.get(); p.call = [O, raw] { O->xAdd(raw); }; }
    else { ParameterList* L = T.pl.get(); p.call = [L, raw] { L->addParameter(raw); }; }
    if (present) p.onRaised = [raw] { delete raw; };  // ownership passes only on success
    else { CellP x = mkCell(n, v, k, raw); p.effects.push_back([this, t, x] { slots[t].m.push_back(x); }); }
  }
  else
  {
    auto prm = make_shared<Parameter>(n, v, k);
    externs.push_back(prm);
    ParameterList* L = T.pl.get();
    p.api = "addParameter(ref)";
    p.call = [L, prm] { L->addParameter(*prm); };
    if (!present) { CellP x = mkCell(n, v, k); p.effects.push_back([this, t, x] { slots[t].m.push_back(x); }); }
  }
  p.text = slotName(t) + "." + p.api + "(" + n + "=" + str(v) + "{" + consName(k.get()) + "})";
  return true;
}

// ---- element-by-element list operations: addParameters(0) includeParameters(1) shareParameters(2)
bool World::opSeq(Plan& p, int kind)
{
  int t = pickLive();
  if (t < 0) return false;
  Slot& T = slots[t];
  const bool owner = static_cast<bool>(T.own);
  int s = pickSource(t, false, false);
  const MList Tm = T.m, Sm = slots[s].m;
  static const char* names[] = { "addParameters", "includeParameters", "shareParameters" };
  static const char* fam[] = { "add", "include", "share" };
  p.family(fam[kind]);
  if (kind == 0) p.outcomeClause = "add.refused-iff-present";
  else p.stateClause = string(fam[kind]) + ".update-or-append";
  p.api = string(owner ? "owner." : "") + names[kind];
  p.target = t;
  p.source = s;
  p.atomic = false;
  size_t finalSize = Tm.size(), nColl = 0;
  int stopAt = -1;
  string why;
  for (size_t i = 0; i < Sm.size() && stopAt < 0; ++i)
  {
    CellP sc = Sm[i];
    int j = findName(Tm, sc->name);
    if (j >= 0)
    {
      ++nColl;
      CellP tc = Tm[static_cast<size_t>(j)];
      if (kind == 0) { stopAt = static_cast<int>(i); why = "collision"; }
      else if (!accepts(*tc, sc->value)) { stopAt = static_cast<int>(i); why = "rejected"; }
      else { double v = sc->value; p.effects.push_back([tc, v] { tc->value = v; }); }
    }
    else
    {
      ++finalSize;
      if (kind == 2) p.effects.push_back([this, t, sc] { slots[t].m.push_back(sc); });
      else { CellP x = cloneCell(*sc); p.effects.push_back([this, t, x] { slots[t].m.push_back(x); }); }
    }
  }
  if (finalSize > MAXN) return false;
  p.expectRaise = stopAt >= 0;
  p.raiseAt = p.effects.size();
  p.detail = "coll" + str(min<size_t>(nColl, 3)) + (stopAt >= 0 ? ":" + why + "@" + str(stopAt) : string(":ok")) + ":" + ((s == t) ? "self" : sharesCells(s, t) ? "alias" : "distinct");
  p.text = slotName(t) + "." + names[kind] + "(" + slotName(s) + "=" + dumpModel(Sm) + ") on " + dumpModel(Tm);
  const ParameterList* Sr = &slots[s].real();
  if (owner)
  {
    Owner* O = T.own.get();
    if (kind == 0) p.call = [O, Sr] { O->xAddAll(*Sr); };
    else if (kind == 1) p.call = [O, Sr] { O->xIncludeAll(*Sr); };
    else p.call = [O, Sr] { O->xShareAll(*Sr); };
  }
  else
  {
    ParameterList* L = T.pl.get();
    if (kind == 0) p.call = [L, Sr] { L->addParameters(*Sr); };
    else if (kind == 1) p.call = [L, Sr] { L->includeParameters(*Sr); };
    else p.call = [L, Sr] { L->shareParameters(*Sr); };
  }
  return true;
}

// ---- shareParameter(shared_ptr): appended as the very same object, or a value update when the name is present
bool World::opShareOne(Plan& p)
{
  int t = pickLive();
  if (t < 0) return false;
  Slot& T = slots[t];
  const bool owner = static_cast<bool>(T.own);
  p.family("share");
  p.stateClause = "share.update-or-append";
  p.api = owner ? "owner.shareParameter_" : "shareParameter";
  p.target = t;
  shared_ptr<Parameter> sp;
  CellP sc;
  string from;
  vector<int> others;
  for (int s : liveSlots()) if (!slots[s].m.empty()) others.push_back(s);
  if (!others.empty() && c.rng.chance(0.6))
  {
    int s = c.rng.pick(others);
    size_t i = c.rng.below(slots[s].m.size());
    sp = slots[s].real().getParameter(i);
    sc = slots[s].m[i];
    from = slotName(s) + "[" + str(i) + "]";
    p.source = s;
  }
  else
  {
    string n = (!T.m.empty() && c.rng.chance(0.5)) ? c.rng.pick(T.m)->name : c.rng.pick(namePool());
    int j = findName(T.m, n);
    ConsP k;
    double v;
    if (j >= 0 && c.rng.chance(0.4) && rejVal(T.m[static_cast<size_t>(j)]->cons, v)) k = ConsP();
    else if (j >= 0 && c.rng.chance(0.25)) { v = nearVal(T.m[static_cast<size_t>(j)]->value); k = consAccepting(v); }
    else { k = anyCons(); v = accVal(k); }
    sp = make_shared<Parameter>(n, v, k);
    sc = mkCell(n, v, k, sp.get());
    from = "fresh";
  }
  externs.push_back(sp);
  int j = findName(T.m, sc->name);
  if (j >= 0)
  {
    CellP tc = T.m[static_cast<size_t>(j)];
    if (!accepts(*tc, sc->value)) { p.expectRaise = true; p.detail = "present:rejected"; }
    else { double v = sc->value; p.effects.push_back([tc, v] { tc->value = v; }); p.detail = tc == sc ? "present:same-object" : "present:update"; }
  }
  else
  {
    if (T.m.size() >= MAXN) return false;
    p.effects.push_back([this, t, sc] { slots[t].m.push_back(sc); });
    p.detail = "absent:" + from.substr(0, 1);
  }
  p.text = slotName(t) + ".shareParameter(" + from + " " + sc->name + "=" + str(sc->value) + ")";
  if (owner) { Owner* O = T.own.get(); p.call = [O, sp] { O->xShare(sp); }; }
  else { ParameterList* L = T.pl.get(); p.call = [L, sp] { L->shareParameter(sp); }; }
  return true;
}

// ---- setParameter(index, param): the entry is replaced by a copy (only generated with names that keep the list duplicate-free)
bool World::opSetParameter(Plan& p)
{
  int t = pickLive(1);
  if (t < 0) return false;
  Slot& T = slots[t];
  p.family("replace");
  p.api = "setParameter";
  p.target = t;
  size_t idx;
  string n;
  if (T.m.empty() || c.rng.chance(0.1)) { idx = T.m.size(); n = c.rng.pick(namePool()); p.expectRaise = true; p.detail = "index==size"; }
  else
  {
    idx = c.rng.below(T.m.size());
    n = T.m[idx]->name;
    if (c.rng.chance(0.5))
    {
      vector<string> freeNames;
      for (auto& q : namePool()) if (findName(T.m, q) < 0) freeNames.push_back(q);
      if (!freeNames.empty()) n = c.rng.pick(freeNames);
    }
    p.detail = n == T.m[idx]->name ? "same-name" : "new-name";
  }
  ConsP k = anyCons();
  double v = accVal(k);
  auto prm = make_shared<Parameter>(n, v, k);
  externs.push_back(prm);
  if (!p.expectRaise) { CellP x = mkCell(n, v, k); p.effects.push_back([this, t, idx, x] { slots[t].m[idx] = x; }); }
  ParameterList* L = T.pl.get();
  p.call = [L, idx, prm] { L->setParameter(idx, *prm); };
  p.text = slotName(t) + ".setParameter(" + str(idx) + ", " + n + "=" + str(v) + "{" + consName(k.get()) + "})";
  return true;
}

// ---- whole-parameter assignment from a list: setAllParameters(0) setParameters(1) matchParameters(2); not atomic by contract
bool World::opAssignParams(Plan& p, int kind)
{
  int t = pickLive(1);
  if (t < 0) return false;
  Slot& T = slots[t];
  int s = pickSource(t, kind == 0, kind == 1);
  const MList Tm = T.m, Sm = slots[s].m;
  static const char* names[] = { "setAllParameters", "setParameters", "matchParameters" };
  p.family("assign");
  p.api = names[kind];
  p.target = t;
  p.source = s;
  p.atomic = false;
  int stopAt = -1;
  auto assign = [&](const CellP& tc, const CellP& sc) {
      double v = sc->value;
      ConsP k = sc->cons;
      p.effects.push_back([tc, v, k] { tc->value = v; tc->cons = k; });
    };
  if (kind == 0)
  {
    for (size_t j = 0; j < Tm.size() && stopAt < 0; ++j)
    {
      int i = findName(Sm, Tm[j]->name);
      if (i < 0) stopAt = static_cast<int>(j);
      else assign(Tm[j], Sm[static_cast<size_t>(i)]);
    }
  }
  else
  {
    for (size_t i = 0; i < Sm.size() && stopAt < 0; ++i)
    {
      int j = findName(Tm, Sm[i]->name);
      if (j < 0) { if (kind == 1) stopAt = static_cast<int>(i); }
      else assign(Tm[static_cast<size_t>(j)], Sm[i]);
    }
  }
  p.expectRaise = stopAt >= 0;
  p.raiseAt = p.effects.size();
  p.detail = "n" + str(min<size_t>(p.effects.size(), 3)) + (stopAt >= 0 ? ":absent@" + str(stopAt) : string(":ok")) + ":" + ((s == t) ? "self" : sharesCells(s, t) ? "alias" : "distinct");
  p.text = slotName(t) + "." + names[kind] + "(" + slotName(s) + "=" + dumpModel(Sm) + ") on " + dumpModel(Tm);
  ParameterList* L = T.pl.get();
  const ParameterList* Sr = &slots[s].real();
  if (kind == 0) p.call = [L, Sr] { L->setAllParameters(*Sr); };
  else if (kind == 1) p.call = [L, Sr] { L->setParameters(*Sr); };
  else p.call = [L, Sr] { L->matchParameters(*Sr); };
  return true;
}

// ---- deletions: by name(0) by index(1) by names(2) by unsorted duplicate-free index set(3) reset(4)
bool World::opDelete(Plan& p, int kind)
{
  int t = pickLive();
  if (t < 0) return false;
  Slot& T = slots[t];
  const bool owner = static_cast<bool>(T.own);
  if (owner && kind == 3) kind = 1;
  const MList Tm = T.m;
  p.family("delete");
  p.target = t;
  ParameterList* L = T.pl.get();
  Owner* O = T.own.get();
  auto eraseCell = [this, t](const CellP& x) {
      MList& m = slots[t].m;
      m.erase(remove(m.begin(), m.end(), x), m.end());
    };
  const string pre = owner ? "owner." : "";
  if (kind == 0)
  {
    string n = (!Tm.empty() && c.rng.chance(0.8)) ? c.rng.pick(Tm)->name : c.rng.pick(namePool());
    int j = findName(Tm, n);
    p.api = pre + "deleteParameter(name)";
    if (j < 0) { p.expectRaise = true; p.detail = "absent"; }
    else { CellP x = Tm[static_cast<size_t>(j)]; p.effects.push_back([eraseCell, x] { eraseCell(x); }); p.detail = j == 0 ? "first" : (static_cast<size_t>(j) + 1 == Tm.size() ? "last" : "middle"); }
    if (owner) p.call = [O, n] { string nn = n; O->xDelete(nn); };
    else p.call = [L, n] { L->deleteParameter(n); };
    p.text = slotName(t) + ".deleteParameter('" + n + "')";
  }
  else if (kind == 1)
  {
    size_t idx = (Tm.empty() || c.rng.chance(0.08)) ? Tm.size() : c.rng.below(Tm.size());
    p.api = pre + "deleteParameter(index)";
    if (idx >= Tm.size()) { p.open = true; p.detail = "index==size"; } // nothing to delete: an exception or a no-op, never an abort
    else { CellP x = Tm[idx]; p.effects.push_back([eraseCell, x] { eraseCell(x); }); p.detail = idx == 0 ? "first" : (idx + 1 == Tm.size() ? "last" : "middle"); }
    if (owner) p.call = [O, idx] { O->xDelete(idx); };
    else p.call = [L, idx] { L->deleteParameter(idx); };
    p.text = slotName(t) + ".deleteParameter(" + str(idx) + ")";
  }
  else if (kind == 2)
  {
    bool mustExist = owner || c.rng.chance(0.5);
    vector<string> names;
    for (auto& x : Tm) if (c.rng.chance(0.4)) names.push_back(x->name);
    bool withAbsent = c.rng.chance(mustExist ? 0.15 : 0.6);
    if (withAbsent) for (auto& n : namePool()) if (findName(Tm, n) < 0 && c.rng.chance(0.3)) names.push_back(n);
    if (!mustExist && !names.empty() && c.rng.chance(0.3)) names.push_back(c.rng.pick(names)); // a repeated name is absent the second time
    c.rng.shuffle(names);
    p.api = pre + (mustExist ? "deleteParameters(names)" : "deleteParameters(names,mustExist=false)");
    p.atomic = false;
    set<string> gone;
    int stopAt = -1;
    for (size_t i = 0; i < names.size() && stopAt < 0; ++i)
    {
      int j = findName(Tm, names[i]);
      if (j < 0 || gone.count(names[i])) { if (mustExist) stopAt = static_cast<int>(i); continue; }
      gone.insert(names[i]);
      CellP x = Tm[static_cast<size_t>(j)];
      p.effects.push_back([eraseCell, x] { eraseCell(x); });
    }
    p.expectRaise = stopAt >= 0;
    p.raiseAt = p.effects.size();
    p.detail = "del" + str(min<size_t>(p.effects.size(), 3)) + (stopAt >= 0 ? ":absent@" + str(min(stopAt, 3)) : (withAbsent ? string(":absent-ignored") : string(":ok")));
    if (owner) p.call = [O, names] { O->xDeleteAll(names); };
    else p.call = [L, names, mustExist] { L->deleteParameters(names, mustExist); };
    p.text = slotName(t) + ".deleteParameters(" + vrt::vecStr(names) + ", mustExist=" + str(mustExist) + ") on " + dumpModel(Tm);
  }
  else if (kind == 3)
  {
    vector<size_t> idx;
    for (size_t i = 0; i < Tm.size(); ++i) if (c.rng.chance(0.4)) idx.push_back(i);
    c.rng.shuffle(idx);
    p.api = "deleteParameters(indices)";
    bool sorted = is_sorted(idx.begin(), idx.end());
    for (size_t i : idx) { CellP x = Tm[i]; p.effects.push_back([eraseCell, x] { eraseCell(x); }); }
    p.detail = "n" + str(min<size_t>(idx.size(), 4)) + (sorted ? ":sorted" : ":unsorted") + ((!idx.empty() && find(idx.begin(), idx.end(), Tm.size() - 1) != idx.end()) ? ":with-last" : "");
    p.call = [L, idx] { L->deleteParameters(idx); };
    p.text = slotName(t) + ".deleteParameters(" + vrt::vecStr(idx) + ") on " + dumpModel(Tm);
  }
  else
  {
    p.api = pre + "reset";
    p.effects.push_back([this, t] { slots[t].m.clear(); });
    p.detail = Tm.empty() ? "empty" : "nonempty";
    if (owner) p.call = [O] { O->xReset(); };
    else p.call = [L] { L->reset(); };
    p.text = slotName(t) + ".reset()";
  }
  return true;
}

// ---- sub-list extraction into slot d: createSubList(names 0, name 2, index 3, indices 4), shareSubList(names 1, indices 5), getCommonParametersWith(6)
bool World::opSubList(Plan& p, int kind)
{
  int t = pickLive();
  if (t < 0) return false;
  const int d = pickDest();
  const MList Tm = slots[t].m;
  const ParameterList* R = &slots[t].real();
  p.family("sublist");
  p.target = t;
  p.dest = d;
  const bool share = (kind == 1 || kind == 5);
  auto model = make_shared<MList>();
  auto take = [&](const CellP& x) {
      if (share) { if (findName(*model, x->name) < 0) model->push_back(x); }
      else model->push_back(cloneCell(*x));
    };
  if (kind == 0 || kind == 1)
  {
    vector<string> names;
    for (auto& x : Tm) if (c.rng.chance(0.5)) names.push_back(x->name);
    if (share && !names.empty() && c.rng.chance(0.2)) names.push_back(c.rng.pick(names));
    bool absent = c.rng.chance(0.12);
    if (absent)
    {
      vector<string> fr;
      for (auto& n : namePool()) if (findName(Tm, n) < 0) fr.push_back(n);
      if (fr.empty()) absent = false; else names.push_back(c.rng.pick(fr));
    }
    c.rng.shuffle(names);
    for (auto& n : names) { int j = findName(Tm, n); if (j >= 0) take(Tm[static_cast<size_t>(j)]); }
    p.expectRaise = absent;
    p.api = share ? "shareSubList(names)" : "createSubList(names)";
    p.detail = "n" + str(min<size_t>(names.size(), 4)) + (absent ? ":absent" : "");
    if (share) p.call = [this, R, names] { result.reset(new ParameterList(R->shareSubList(names))); };
    else p.call = [this, R, names] { result.reset(new ParameterList(R->createSubList(names))); };
    p.text = slotName(d) + " := " + slotName(t) + "." + p.api + vrt::vecStr(names);
  }
  else if (kind == 2)
  {
    string n = (!Tm.empty() && c.rng.chance(0.85)) ? c.rng.pick(Tm)->name : c.rng.pick(namePool());
    int j = findName(Tm, n);
    if (j >= 0) take(Tm[static_cast<size_t>(j)]); else p.expectRaise = true;
    p.api = "createSubList(name)";
    p.detail = j >= 0 ? "present" : "absent";
    p.call = [this, R, n] { result.reset(new ParameterList(R->createSubList(n))); };
    p.text = slotName(d) + " := " + slotName(t) + ".createSubList('" + n + "')";
  }
  else if (kind == 3)
  {
    size_t i = (Tm.empty() || c.rng.chance(0.06)) ? Tm.size() : c.rng.below(Tm.size());
    if (i < Tm.size()) take(Tm[i]); else p.open = true; // no such entry: nothing can be addressed; exception or empty list
    p.api = "createSubList(index)";
    p.detail = i < Tm.size() ? "valid" : "index==size";
    p.call = [this, R, i] { result.reset(new ParameterList(R->createSubList(i))); };
    p.text = slotName(d) + " := " + slotName(t) + ".createSubList(" + str(i) + ")";
  }
  else if (kind == 4 || kind == 5)
  {
    vector<size_t> idx;
    for (size_t i = 0; i < Tm.size(); ++i) if (c.rng.chance(0.5)) idx.push_back(i);
    bool oor = c.rng.chance(0.06);
    if (oor) { idx.push_back(Tm.size()); p.open = true; }
    c.rng.shuffle(idx);
    for (size_t i : idx) if (i < Tm.size()) take(Tm[i]);
    p.api = share ? "shareSubList(indices)" : "createSubList(indices)";
    p.detail = "n" + str(min<size_t>(idx.size(), 4)) + (is_sorted(idx.begin(), idx.end()) ? ":sorted" : ":unsorted") + (oor ? ":index==size" : "");
    if (share) p.call = [this, R, idx] { result.reset(new ParameterList(R->shareSubList(idx))); };
    else p.call = [this, R, idx] { result.reset(new ParameterList(R->createSubList(idx))); };
    p.text = slotName(d) + " := " + slotName(t) + "." + p.api + vrt::vecStr(idx);
  }
  else
  {
    int s = pickSource(t, false, false);
    const MList Sm = slots[s].m;
    p.source = s;
    const ParameterList* Sr = &slots[s].real();
    p.api = "getCommonParametersWith";
    vector<string> common;
    for (auto& x : Sm) if (findName(Tm, x->name) >= 0) common.push_back(x->name);
    p.detail = "common" + str(min<size_t>(common.size(), 3)) + ":" + ((s == t) ? "self" : "other");
    p.call = [this, R, Sr] { result.reset(new ParameterList(R->getCommonParametersWith(*Sr))); };
    p.text = slotName(d) + " := " + slotName(t) + ".getCommonParametersWith(" + slotName(s) + "=" + dumpModel(Sm) + ") on " + dumpModel(Tm);
    // the documentation fixes neither the order nor which of the two lists supplies value and constraint:
    // the model is completed from what came back (names as a set, each entry cloned from either list)
    sort(common.begin(), common.end());
    p.onReturned = [this, model, Tm, Sm, common, d] {
        vector<string> got = result->getParameterNames(), sorted = got;
        sort(sorted.begin(), sorted.end());
        if (vrt::expect(sorted == common, "sublist.common-names", "getCommonParametersWith", [&] { return hist + " => names " + vrt::vecStr(got) + " expected (any order) " + vrt::vecStr(common); }))
          for (size_t i = 0; i < got.size(); ++i)
          {
            const Cell& a = *Sm[static_cast<size_t>(findName(Sm, got[i]))];
            const Cell& b = *Tm[static_cast<size_t>(findName(Tm, got[i]))];
            model->push_back(cloneCell(bitsEq((*result)[i].getValue(), a.value) && (*result)[i].getConstraint().get() == a.cons.get() ? a : b));
          }
        else for (auto& n : common) model->push_back(cloneCell(*Tm[static_cast<size_t>(findName(Tm, n))]));
        slots[d].kill();
        slots[d].pl = std::move(result);
        slots[d].m = *model;
      };
    return true;
  }
  p.onReturned = [this, model, d] {
      slots[d].kill();
      slots[d].pl = std::move(result);
      slots[d].m = *model;
    };
  return true;
}

// ---- copies: copy-ctor(0) clone(1) assignment(2) owner copy(3) owner assignment(4)
bool World::opCopy(Plan& p, int kind)
{
  p.family("copy");
  if (kind <= 2)
  {
    int s = pickLive();
    if (s < 0) return false;
    const ParameterList* R = &slots[s].real();
    auto model = make_shared<MList>(cloneList(slots[s].m));
    p.source = s;
    if (kind == 2)
    {
      vector<int> ls = liveSlots(1);
      if (ls.empty()) return false;
      int d = c.rng.pick(ls);
      if (d == s)
        for (int o = 0; o < 3; ++o) if (o != d && slots[o].live() && sharesCells(o, d)) return false; // self-assignment only where a guarded and an unguarded operator= agree
      p.dest = d;
      p.api = "operator=";
      p.detail = string(d == s ? "self" : sharesCells(d, s) ? "alias" : "distinct") + ":" + (slots[d].m.size() < model->size() ? "grow" : slots[d].m.size() > model->size() ? "shrink" : "same-size");
      ParameterList* L = slots[d].pl.get();
      p.call = [L, R] { *L = *R; };
      p.effects.push_back([this, d, model] { slots[d].m = *model; });
      p.text = slotName(d) + " = " + slotName(s);
      return true;
    }
    int d = pickDest();
    p.dest = d;
    p.api = kind == 0 ? "copy-ctor" : "clone";
    p.detail = string(d == s ? "replace-source" : "other") + ":n" + str(min<size_t>(model->size(), 3));
    if (kind == 0) p.call = [this, R] { result.reset(new ParameterList(*R)); };
    else p.call = [this, R] { result.reset(R->clone()); };
    p.onReturned = [this, model, d] {
        slots[d].kill();
        slots[d].pl = std::move(result);
        slots[d].m = *model;
      };
    p.text = slotName(d) + " := " + p.api + "(" + slotName(s) + ")";
    return true;
  }
  int s = pickLive(2);
  if (s < 0) return false;
  Owner* O = slots[s].own.get();
  auto model = make_shared<MList>(cloneList(slots[s].m));
  const string prefix = slots[s].prefix;
  p.source = s;
  if (kind == 4)
  {
    vector<int> os = liveSlots(2);
    int d = c.rng.pick(os);
    if (d == s)
      for (int o = 0; o < 3; ++o) if (o != d && slots[o].live() && sharesCells(o, d)) return false;
    p.dest = d;
    p.api = "owner.operator=";
    p.detail = d == s ? "self" : "other";
    Owner* D = slots[d].own.get();
    p.call = [D, O] { *D = *O; D->fires.clear(); };
    p.effects.push_back([this, d, model, prefix] { slots[d].m = *model; slots[d].prefix = prefix; });
    p.text = slotName(d) + " = " + slotName(s);
    return true;
  }
  int d = pickDest();
  p.dest = d;
  p.api = c.rng.chance(0.5) ? "owner.copy-ctor" : "owner.clone";
  p.detail = d == s ? "replace-source" : "other";
  auto res = make_shared<unique_ptr<Owner>>();
  if (p.api == "owner.clone") p.call = [res, O] { res->reset(O->clone()); };
  else p.call = [res, O] { res->reset(new Owner(*O)); };
  p.onReturned = [this, model, d, prefix, res] {
      slots[d].kill();
      slots[d].own = std::move(*res);
      slots[d].own->fires.clear();
      slots[d].m = *model;
      slots[d].prefix = prefix;
    };
  p.text = slotName(d) + " := " + p.api + "(" + slotName(s) + ")";
  return true;
}

// ---- life cycle: destroy(0) new list(1) new owner(2)
bool World::opLife(Plan& p, int kind)
{
  p.family("life");
  if (kind == 0)
  {
    vector<int> ls = liveSlots();
    if (ls.size() < 2) return false;
    int d = c.rng.pick(ls);
    p.api = "destroy";
    p.dest = d;
    bool shared = false;
    for (int o : ls) if (o != d && sharesCells(o, d)) shared = true;
    p.detail = shared ? "sharing" : "alone";
    p.call = [this, d] { slots[d].pl.reset(); slots[d].own.reset(); };
    p.effects.push_back([this, d] { slots[d].kill(); });
    p.text = "destroy " + slotName(d);
    return true;
  }
  int d = pickDest();
  size_t n = c.rng.below(MAXN + 1);
  p.dest = d;
  p.api = kind == 1 ? "new-list" : "new-owner";
  p.detail = "n" + str(min<size_t>(n, 3));
  p.stateClause = "add.state";
  p.call = [this, d, n, kind] { buildList(d, n, kind == 2); };
  p.text = string(kind == 1 ? "L" : "O") + str(d) + " := " + p.api + "(" + str(n) + " parameters)";
  return true;
}

// ---- setNamespace on an owner (only where the renamed parameters stay unique in every live list)
bool World::opNamespace(Plan& p)
{
  int t = pickLive(2);
  if (t < 0) return false;
  Slot& T = slots[t];
  static const vector<string> prefixes = { "", "k.", "q.", "k.k." };
  const string np = c.rng.pick(prefixes), op = T.prefix;
  map<Cell*, string> renamed;
  for (auto& x : T.m)
    renamed[x.get()] = (x->name.compare(0, op.size(), op) == 0) ? np + x->name.substr(op.size()) : np + x->name;
  for (int s = 0; s < 3; ++s)
  {
    set<string> seen;
    for (auto& x : slots[s].m)
    {
      string n = renamed.count(x.get()) ? renamed[x.get()] : x->name;
      if (!seen.insert(n).second) return false;
    }
  }
  p.family("owner");
  p.stateClause = "owner.namespace";
  p.api = "owner.setNamespace";
  p.target = t;
  bool mixed = false;
  for (auto& x : T.m) if (x->name.compare(0, op.size(), op) != 0) mixed = true;
  p.detail = string(op.empty() ? "from-none" : "from-prefix") + (np.empty() ? ":to-none" : ":to-prefix") + (mixed ? ":some-unprefixed" : "");
  Owner* O = T.own.get();
  p.call = [O, np] { O->setNamespace(np); };
  MList Tm = T.m;
  p.effects.push_back([this, t, Tm, renamed, np] { for (auto& x : Tm) x->name = renamed.at(x.get()); slots[t].prefix = np; });
  p.text = slotName(t) + ".setNamespace('" + np + "') from '" + op + "'";
  return true;
}

bool World::randomOp(int profile)
{
  // weights: bulk, single, handle, add, seq, shareOne, setParameter, assign, delete, sublist, copy, life, namespace
  static const int W[3][13] = {
    { 24, 6, 6, 6, 12, 5, 3, 7, 9, 10, 7, 3, 2 },
    { 55, 6, 8, 3, 5, 3, 1, 3, 3, 5, 5, 2, 1 },
    { 10, 12, 14, 3, 9, 8, 3, 4, 5, 16, 12, 3, 1 } };
  int tot = 0;
  for (int w : W[profile]) tot += w;
  for (int attempt = 0; attempt < 40; ++attempt)
  {
    int r = static_cast<int>(c.rng.below(static_cast<size_t>(tot))), k = 0;
    while (r >= W[profile][k]) { r -= W[profile][k]; ++k; }
    Plan p;
    bool ok = false;
    switch (k)
    {
    case 0: ok = opBulk(p, static_cast<int>(c.rng.below(5))); break;
    case 1: ok = opSetValue(p); break;
    case 2: ok = opHandle(p); break;
    case 3: ok = opAdd(p); break;
    case 4: ok = opSeq(p, static_cast<int>(c.rng.below(3))); break;
    case 5: ok = opShareOne(p); break;
    case 6: ok = opSetParameter(p); break;
    case 7: ok = opAssignParams(p, static_cast<int>(c.rng.below(3))); break;
    case 8: ok = opDelete(p, static_cast<int>(c.rng.below(5))); break;
    case 9: ok = opSubList(p, static_cast<int>(c.rng.below(7))); break;
    case 10: ok = opCopy(p, static_cast<int>(c.rng.below(5))); break;
    case 11: ok = opLife(p, static_cast<int>(c.rng.below(3))); break;
    default: ok = opNamespace(p);
    }
    if (!ok) { slots[3].kill(); externs.clear(); nearUsed = false; continue; }
    return exec(p);
  }
  return true;
}

// ---- group "history": random histories over up to 3 live lists / owners
void caseHistory(vrt::Case& c)
{
  static const char* profiles[] = { "mix", "bulk", "alias" };
  int profile = static_cast<int>(c.index % 3);
  size_t len = static_cast<size_t>(c.rng.range(1, c.tier == 1 ? 40 : 28));
  World w(c);
  static const double rej[] = { 0.05, 0.2, 0.45 };
  w.pRej = rej[c.rng.below(3)];
  vrt::describe(string("history:") + profiles[profile], string("random history, profile ") + profiles[profile] + ", " + str(len) + " operations, reject probability " + str(w.pRej));
  size_t nInit = static_cast<size_t>(c.rng.range(1, 3));
  for (size_t i = 0; i < nInit; ++i)
  {
    Plan p;
    if (!w.opLife(p, c.rng.chance(0.3) ? 2 : 1)) continue;
    if (!w.exec(p)) return;
  }
  for (size_t i = 0; i < len; ++i)
    if (!w.randomOp(profile)) return;
}

// ---- group "atomic": one rejected value at every position of the iteration, for every bulk value update, list and owner;
// a deep copy and a shared sub-list of the target watch; then the same source with the offender repaired must be applied completely
void caseAtomic(vrt::Case& c)
{
  static const int kinds[] = { 0, 1, 3 };
  static const char* kn[] = { "setParametersValues", "matchParametersValues", "setAllParametersValues" };
  size_t base = c.index % 216, combo = base % 36, ai = base / 36; // ai: 0..2 list, 3..5 owner
  size_t n = 1, j = combo;
  while (j >= n) { j -= n; ++n; }   // (n, j) with 1 <= n <= 8, 0 <= j < n
  const bool owner = ai >= 3;
  const int kind = kinds[ai % 3];
  World w(c);
  w.pRej = 0;
  vrt::describe(string("atomic:") + (owner ? "owner." : "") + kn[ai % 3], string(owner ? "owner." : "") + kn[ai % 3] + " on " + str(n) + " parameters, the value for iteration position " + str(j) + " is rejected");
  {
    Plan p;
    p.family("life"); p.stateClause = "add.state"; p.api = owner ? "new-owner" : "new-list"; p.dest = 0;
    p.text = "target := " + str(n) + " parameters";
    p.call = [&w, n, owner] { w.buildList(0, n, owner); };
    if (!w.exec(p)) return;
  }
  // every target entry constrained (so that each can be the offender)
  for (size_t i = 0; i < n; ++i)
  {
    CellP x = w.slots[0].m[i];
    if (x->cons) continue;
    vector<ConsP> ok;
    for (size_t q = 1; q < w.cons.size(); ++q) if (w.cons[q]->isCorrect(x->value)) ok.push_back(w.cons[q]);
    if (ok.empty()) { x->value = 0.5; x->cons = w.cons[1]; const_cast<Parameter*>(x->real)->setValue(0.5); }
    else x->cons = c.rng.pick(ok);
    const_cast<Parameter*>(x->real)->setConstraint(x->cons);
  }
  {
    Plan p; // deep copy watches
    p.family("copy"); p.api = "copy-ctor"; p.source = 0; p.dest = 1;
    auto model = make_shared<MList>(w.cloneList(w.slots[0].m));
    const ParameterList* R = &w.slots[0].real();
    p.call = [&w, R] { w.result.reset(new ParameterList(*R)); };
    p.onReturned = [&w, model] { w.slots[1].pl = std::move(w.result); w.slots[1].m = *model; };
    p.text = "L1 := copy-ctor(target)";
    if (!w.exec(p)) return;
  }
  {
    Plan p; // shared sub-list watches
    p.family("sublist"); p.api = "shareSubList(names)"; p.target = 0; p.dest = 2;
    const ParameterList* R = &w.slots[0].real();
    vector<string> names = R->getParameterNames();
    auto model = make_shared<MList>(w.slots[0].m);
    p.call = [&w, R, names] { w.result.reset(new ParameterList(R->shareSubList(names))); };
    p.onReturned = [&w, model] { w.slots[2].pl = std::move(w.result); w.slots[2].m = *model; };
    p.text = "L2 := target.shareSubList(all names)";
    if (!w.exec(p)) return;
  }
  // source: all target names in random order (+ foreign names except for setAll...), every value changes and is accepted,
  // except the offender at iteration position j (target order for setAllParametersValues, source order otherwise)
  const MList Tm = w.slots[0].m;
  vector<size_t> order(n);
  for (size_t i = 0; i < n; ++i) order[i] = i;
  c.rng.shuffle(order);
  vector<string> foreign;
  for (auto& q : namePool()) if (findName(Tm, q) < 0 && c.rng.chance(0.2)) foreign.push_back(q);
  for (int round = 0; round < 2; ++round)
  {
    Slot& X = w.slots[3];
    X.kill();
    X.pl.reset(new ParameterList());
    const string offender = kind == 3 ? Tm[j]->name : Tm[order[j]]->name;
    vector<pair<string, double>> entries;
    bool feasible = true;
    for (size_t q = 0; q < n; ++q)
    {
      const Cell& tc = *Tm[order[q]];
      double v = tc.value;
      if (round == 0 && tc.name == offender) { if (!w.rejVal(tc.cons, v)) feasible = false; }
      else
      {
        for (int tries = 0; tries < 6 && v == tc.value; ++tries) v = w.accVal(tc.cons);
        if (c.rng.chance(0.25)) { double nv = w.nearVal(tc.value); if (accepts(tc, nv)) v = nv; } // the smallest change there is
      }
      entries.push_back({ tc.name, v });
    }
    if (!feasible) return;
    size_t fpos = 0;
    for (auto& f : foreign) if (entries.size() < MAXN) { entries.insert(entries.begin() + static_cast<ptrdiff_t>(fpos), { f, w.anyValue() }); fpos = min(entries.size(), fpos + 2); }
    // foreign names shift source positions; keep the offender at source position j for the source-ordered calls
    if (kind != 3 && round == 0)
    {
      size_t at = 0;
      for (size_t q = 0; q < entries.size(); ++q) if (entries[q].first == offender) at = q;
      if (at != j && j < entries.size()) swap(entries[at], entries[j]);
    }
    for (auto& e : entries)
    {
      ConsP k = w.consAccepting(e.second);
      Parameter prm(e.first, e.second, k);
      X.pl->addParameter(prm);
      X.m.push_back(w.mkCell(e.first, e.second, k, X.pl->getParameter(X.pl->size() - 1).get()));
    }
    Plan p;
    if (!w.opBulk(p, kind, 0, 3)) return;
    p.detail = string(round == 0 ? "one-offender" : "repaired") + ":n" + str(n) + ":pos" + str(j);
    if (!w.exec(p)) return;
  }
}
} // namespace

int main(int argc, char** argv)
{
  vector<vrt::Group> groups = {
    { "history", 9000, 240000, caseHistory, 6000, false },
    { "atomic", 216 * 6, 216 * 100, caseAtomic, 1200, false },
  };
  vrt::Meta meta;
  meta.rule = "history: random histories (1..28 calls, 1..40 thorough) over up to 3 live ParameterLists / AbstractParametrizable test doubles with 0..8 parameters from a 10-name pool, "
      "7 constraint choices (none, closed, open, half-open, half-infinite), values from a 13-point grid plus random multiples of 1/64 inside and outside the targets' constraints, plus values a minimal step away from the target's current value "
      "(1..3 ulps up/down, relative 2^-40..2^-52, absolute 2^-60..2^-1074; class keys minimal-step:<API>); three operation "
      "profiles (mix, bulk-heavy, copy/alias-heavy); sources of list-to-list calls are a temporary list overlapping the target, a temporary list sharing objects with the target, the target itself or "
      "another live list. atomic: for every bulk value update (setParametersValues, matchParametersValues, setAllParametersValues; list and owner), every list size 1..8 and every iteration position "
      "of a single rejected value, with a deep copy and a shared sub-list of the target watching, followed by the repaired source that must be applied completely. "
      "A class key = (API, returned/raised, structural detail: number of matching names, position of the first rejected/colliding/absent entry, aliasing relation self/alias/distinct, changed or not ...); "
      "every key is a real call on a list followed by a complete comparison of all live lists.";
  meta.assumptions = {
    "parameters have the default zero precision, no NaN, no negative zero; constraints are IntervalConstraint objects and the constraint's own isCorrect() decides acceptance (C01 checks the intervals)",
    "parameters are only constructed with values their constraint accepts (Parameter value-ctor with value 0 outside the constraint is C01's known suspect and is not generated)",
    "index sets are duplicate-free; setParameter / setNamespace are only generated where the resulting names stay unique (the statement promises uniqueness for add/include/share only)",
    "calls that raise half-way without being bulk VALUE updates (addParameters, includeParameters, shareParameters, setParameters, setAllParameters, deleteParameters) may stop after any prefix of the documented element-by-element behaviour",
    "setAllParametersValues / Parametrizable::setParametersValues raising for an absent name (no value rejected): each matching entry may hold its old or its new value",
    "getCommonParametersWith: names as a set, each entry an independent copy taken from either list; getMatchingParameterNames (wildcards) belongs to C17 and is not checked",
    "index == size for deleteParameter / createSubList / shareSubList: an exception or 'no such entry' are both accepted, an abort is not",
  };
  meta.requiredClauses = { "bulk.raises-iff-rejected", "bulk.atomic", "bulk.applied", "bulk.flag", "bulk.positions", "add.refused-iff-present", "include.update-or-append", "share.update-or-append",
                           "share.observes", "copy.independent", "copy.state", "sublist.state", "delete.state", "names.unique", "lookup.has", "lookup.present", "lookup.absent-raises", "owner.notify" };
  return vrt::run(argc, argv, "C02", groups, meta);
}
