// C05 - LU solve, inverse and determinant meet their equations or report singularity.
//
// Every case builds one square matrix (n = 1..10) from a generator named by the quantifier, hands it to
// LUDecomposition<double> / MatrixTools::inv / MatrixTools::det in one of the three storage classes and
// audits everything that comes back.  All numeric oracles are *a-posteriori* bounds computed (in long
// double) from the factors the library returned, i.e. consequences of the backward-error theory of
// Gaussian elimination (Higham, Accuracy and Stability of Numerical Algorithms, 2nd ed., Thm 9.3/9.4):
//     |P.A - L.U|  <=  gamma_n  |L||U|                (entrywise)          constant used: 8 n eps
//     |B - A.X|    <=  gamma_3n P^T |L||U||X|         (entrywise)          constant used: 24 n eps
//     |det() - det A| <= prod(|a_i|+|g_i|) - prod|a_i|  (multilinearity + Hadamard, g = rows of the bound above)
// with eps = 2^-52 (theory: gamma_k ~ k 2^-53, so the constants carry a factor 16 of head room).
// They grow with n and with the size of the factors (hence with the conditioning); a failure means an
// error far above rounding.  Exact oracles: Bareiss determinant in __int128 for integer matrices,
// unit-lower / upper structure, permutation vector, |l_ij| <= 1 (partial pivoting), returned indicator
// == min |u_ii|, singularity decision against NumConstants::SMALL() on the returned pivots.
#include "vrt.h"

#include <Bpp/Exceptions.h>
#include <Bpp/Numeric/NumConstants.h>
#include <Bpp/Numeric/NumTools.h>
#include <Bpp/Numeric/Matrix/Matrix.h>

#include <algorithm>
#include <cmath>
#include <limits>
#include <memory>
#include <numeric>
#include <sstream>
#include <string>
#include <vector>

// LUDecomposition::solve(const std::vector<Real>&, std::vector<Real>&) of the pinned tree calls
// b.dim1() and X.clean(), which are TNT Array1D members, not std::vector members: the overload could not
// be instantiated at all (compile-time defect, repaired by a fix commit).  So that this harness builds
// on both the pinned and the repaired header, the two names are mapped to their std::vector equivalents
// while the header is read; on the repaired header the macros match nothing.
#define dim1 size
#define clean clear
#include <Bpp/Numeric/Matrix/LUDecomposition.h>
#undef dim1
#undef clean
#include <Bpp/Numeric/Matrix/MatrixTools.h>

using namespace bpp;
using namespace std;
using vrt::str;

namespace
{
typedef long double LD;
typedef __int128 I128;
const LD EPS = numeric_limits<double>::epsilon(); // 2^-52
const LD TINYABS = 1e-280L;                       // absolute slack for underflow
const char KN[] = "RCL";

// ---------------------------------------------------------------- dense reference container
struct Dense
{
  size_t r, c;
  vector<double> a;
  Dense() : r(0), c(0), a() {}
  Dense(size_t r_, size_t c_) : r(r_), c(c_), a(r_ * c_, 0.0) {}
  double& operator()(size_t i, size_t j) { return a.at(i * c + j); }
  const double& operator()(size_t i, size_t j) const { return a.at(i * c + j); }
};

string num(double x) { ostringstream o; o.precision(17); o << x; return o.str(); }
string numL(LD x) { ostringstream o; o.precision(21); o << x; return o.str(); }
string dump(const Dense& d)
{
  ostringstream o;
  o.precision(17);
  o << d.r << "x" << d.c << "[";
  for (size_t i = 0; i < d.r; ++i)
  {
    o << (i ? ",[" : "[");
    for (size_t j = 0; j < d.c; ++j) o << (j ? "," : "") << d(i, j);
    o << "]";
  }
  o << "]";
  return o.str();
}
Dense toDense(const Matrix<double>& m)
{
  Dense d(m.getNumberOfRows(), m.getNumberOfColumns());
  for (size_t i = 0; i < d.r; ++i) for (size_t j = 0; j < d.c; ++j) d(i, j) = m(i, j);
  return d;
}
unique_ptr<Matrix<double>> newM(int k)
{
  switch (k)
  {
  case 0: return unique_ptr<Matrix<double>>(new RowMatrix<double>());
  case 1: return unique_ptr<Matrix<double>>(new ColMatrix<double>());
  default: return unique_ptr<Matrix<double>>(new LinearMatrix<double>());
  }
}
unique_ptr<Matrix<double>> newM(int k, size_t r, size_t c)
{
  switch (k)
  {
  case 0: return unique_ptr<Matrix<double>>(new RowMatrix<double>(r, c));
  case 1: return unique_ptr<Matrix<double>>(new ColMatrix<double>(r, c));
  default: return unique_ptr<Matrix<double>>(new LinearMatrix<double>(r, c));
  }
}
unique_ptr<Matrix<double>> fromDense(int k, const Dense& d)
{
  unique_ptr<Matrix<double>> m = newM(k, d.r, d.c);
  for (size_t i = 0; i < d.r; ++i) for (size_t j = 0; j < d.c; ++j) (*m)(i, j) = d(i, j);
  return m;
}
// result argument in one of 4 pre-states: 0 unsized, 1 exact size + garbage, 2 larger + garbage, 3 smaller + garbage
unique_ptr<Matrix<double>> preState(int k, int pre, size_t r, size_t c)
{
  if (pre == 0) return newM(k);
  size_t rr = r, cc = c;
  if (pre == 2) { rr = r + 2; cc = c + 1; }
  if (pre == 3) { rr = r > 1 ? r - 1 : 1; cc = c > 1 ? c - 1 : 1; }
  unique_ptr<Matrix<double>> m = newM(k, rr, cc);
  for (size_t i = 0; i < rr; ++i) for (size_t j = 0; j < cc; ++j) (*m)(i, j) = 777.25 + static_cast<double>(i) - 3.0 * static_cast<double>(j);
  return m;
}

// ---------------------------------------------------------------- reference arithmetic
// exact determinant of an integer matrix (fraction-free elimination); false when an intermediate product overflows
bool bareiss(const Dense& A, I128& det)
{
  size_t n = A.r;
  vector<I128> m(n * n);
  for (size_t i = 0; i < n; ++i) for (size_t j = 0; j < n; ++j) m[i * n + j] = static_cast<I128>(static_cast<long long>(A(i, j)));
  I128 prev = 1;
  int sign = 1;
  for (size_t k = 0; k + 1 < n; ++k)
  {
    if (m[k * n + k] == 0)
    {
      size_t p = k + 1;
      while (p < n && m[p * n + k] == 0) ++p;
      if (p == n) { det = 0; return true; }
      for (size_t j = 0; j < n; ++j) swap(m[k * n + j], m[p * n + j]);
      sign = -sign;
    }
    for (size_t i = k + 1; i < n; ++i)
      for (size_t j = k + 1; j < n; ++j)
      {
        I128 x, y, z;
        if (__builtin_mul_overflow(m[i * n + j], m[k * n + k], &x)) return false;
        if (__builtin_mul_overflow(m[i * n + k], m[k * n + j], &y)) return false;
        if (__builtin_sub_overflow(x, y, &z)) return false;
        m[i * n + j] = z / prev; // exact division (Bareiss)
      }
    prev = m[k * n + k];
  }
  det = sign * m[(n - 1) * n + (n - 1)];
  return true;
}
// determinant by elimination with complete pivoting in long double (reference for real matrices; its own
// rounding is 2^-11 of the double rounding the tolerances are built from)
LD detLD(const Dense& A)
{
  size_t n = A.r;
  vector<LD> m(n * n);
  for (size_t i = 0; i < n; ++i) for (size_t j = 0; j < n; ++j) m[i * n + j] = A(i, j);
  LD d = 1;
  for (size_t k = 0; k < n; ++k)
  {
    size_t pi = k, pj = k;
    LD best = -1;
    for (size_t i = k; i < n; ++i) for (size_t j = k; j < n; ++j) if (fabsl(m[i * n + j]) > best) { best = fabsl(m[i * n + j]); pi = i; pj = j; }
    if (best == 0) return 0;
    if (pi != k) { for (size_t j = 0; j < n; ++j) swap(m[k * n + j], m[pi * n + j]); d = -d; }
    if (pj != k) { for (size_t i = 0; i < n; ++i) swap(m[i * n + k], m[i * n + pj]); d = -d; }
    d *= m[k * n + k];
    for (size_t i = k + 1; i < n; ++i)
    {
      LD l = m[i * n + k] / m[k * n + k];
      for (size_t j = k + 1; j < n; ++j) m[i * n + j] -= l * m[k * n + j];
    }
  }
  return d;
}
// sign of a permutation given as image vector; 0 when it is not a permutation of 0..n-1
int permSign(const vector<size_t>& p)
{
  size_t n = p.size();
  vector<char> seen(n, 0);
  for (size_t i = 0; i < n; ++i) { if (p[i] >= n || seen[p[i]]) return 0; seen[p[i]] = 1; }
  fill(seen.begin(), seen.end(), 0);
  int s = 1;
  for (size_t i = 0; i < n; ++i)
  {
    if (seen[i]) continue;
    size_t len = 0;
    for (size_t j = i; !seen[j]; j = p[j]) { seen[j] = 1; ++len; }
    if (len % 2 == 0) s = -s;
  }
  return s;
}
Dense transposed(const Dense& A)
{
  Dense t(A.c, A.r);
  for (size_t i = 0; i < A.r; ++i) for (size_t j = 0; j < A.c; ++j) t(j, i) = A(i, j);
  return t;
}

// ---------------------------------------------------------------- what a case knows about its matrix
struct Spec
{
  string gen;        // generator flavour (structural, goes into violation classes)
  Dense A;
  bool haveExact;    // exact determinant known
  LD exactDet;
  int designed;      // +1 built so that every pivot is >= 4 SMALL (or an exact power of two >= SMALL): must be solved;
                     // -1 built so that some pivot is <= SMALL/4 (or an exact power of two < SMALL): must be refused; 0 not designed
  bool haveU;        // the exact U factor is known by construction (row-permuted upper triangular matrix)
  Dense designedU;
  bool intRhs;
  Spec() : gen(), A(), haveExact(false), exactDet(0), designed(0), haveU(false), designedU(), intRhs(false) {}
};
struct Audit
{
  bool ok;        // factors have the right shape / structure, so that the numeric part was run
  double det;     // lu.det()
  LD detTol;      // admissible |det() - det A|
  LD minU;
  Audit() : ok(false), det(0), detTol(0), minU(0) {}
};

string nClass(size_t n) { return n == 1 ? "n=1" : "n>1"; }

// Everything the property says about one matrix.
Audit audit(vrt::Case& c, const Spec& sp)
{
  Audit out;
  const Dense& A = sp.A;
  const size_t n = A.r;
  // violation classes stay structural (size class, route, relation): one defect gives a handful of signatures whatever the generator
  const string cls = nClass(n);
  const string dcls = sp.gen + "," + nClass(n); // for the clauses about designed matrices the generator is the structure
  const int kA = static_cast<int>(c.rng.below(3));
  const string head = "A(" + string(1, KN[kA]) + ")=" + dump(A);
  unique_ptr<Matrix<double>> mA = fromDense(kA, A);

  vrt::step("LUDecomposition(A) gen=" + sp.gen + " n=" + str(n) + " storage=" + KN[kA]);
  LUDecomposition<double> lu(*mA);
  Dense L = toDense(lu.getL()), U = toDense(lu.getU());
  vector<size_t> piv = lu.getPivot();

  // ---- structure
  bool shape = L.r == n && L.c == n && U.r == n && U.c == n && piv.size() == n;
  vrt::expect(shape, "lu.shape", cls, [&] { return head + " => L " + str(L.r) + "x" + str(L.c) + " U " + str(U.r) + "x" + str(U.c) + " pivot length " + str(piv.size()); });
  if (!shape) return out;
  bool unitLower = true, upper = true, bounded = true, finite = true;
  for (size_t i = 0; i < n; ++i)
    for (size_t j = 0; j < n; ++j)
    {
      if (!std::isfinite(L(i, j)) || !std::isfinite(U(i, j))) finite = false;
      if (i == j && L(i, j) != 1.0) unitLower = false;
      if (i < j && L(i, j) != 0.0) unitLower = false;
      if (i > j && U(i, j) != 0.0) upper = false;
      if (i > j && !(fabs(L(i, j)) <= 1.0)) bounded = false;
    }
  vrt::expect(unitLower, "lu.L-unit-lower", cls, [&] { return head + " => L=" + dump(L); });
  vrt::expect(upper, "lu.U-upper", cls, [&] { return head + " => U=" + dump(U); });
  vrt::expect(finite, "lu.finite", cls, [&] { return head + " => L=" + dump(L) + " U=" + dump(U); });
  // partial pivoting: every multiplier is a quotient by the largest entry of its column, so |l_ij| <= 1 exactly
  vrt::expect(bounded, "lu.partial-pivoting", cls, [&] { return head + " => a multiplier exceeds 1 in magnitude: L=" + dump(L); });
  const int sgn = permSign(piv);
  vrt::expect(sgn != 0, "lu.pivot-permutation", cls, [&] { return head + " => pivot vector " + vrt::vecStr(piv) + " is not a permutation"; });
  if (!unitLower || !upper || !finite || sgn == 0) return out;
  size_t moved = 0;
  for (size_t i = 0; i < n; ++i) if (piv[i] != i) ++moved;

  // ---- P.A = L.U within 8 n eps |L||U|
  vector<LD> M(n * n, 0); // |L||U|
  bool resOk = true;
  size_t wi = 0, wj = 0;
  LD wres = 0, wtol = 0;
  for (size_t i = 0; i < n; ++i)
    for (size_t j = 0; j < n; ++j)
    {
      LD s = 0, ab = 0;
      for (size_t k = 0; k < n; ++k) { LD t = static_cast<LD>(L(i, k)) * U(k, j); s += t; ab += fabsl(t); }
      M[i * n + j] = ab;
      LD res = fabsl(static_cast<LD>(A(piv[i], j)) - s);
      LD tol = 8 * static_cast<LD>(n) * EPS * ab + TINYABS;
      if (!(res <= tol) && resOk) { resOk = false; wi = i; wj = j; wres = res; wtol = tol; }
    }
  vrt::expect(resOk, "lu.PA=LU", cls, [&] {
      return head + " => pivot " + vrt::vecStr(piv) + " L=" + dump(L) + " U=" + dump(U) + ": |(PA-LU)(" + str(wi) + "," + str(wj) + ")|=" + numL(wres) + " > 8.n.eps.(|L||U|)=" + numL(wtol);
    });
  if (sp.haveU)
  {
    bool same = true;
    for (size_t i = 0; i < n; ++i) for (size_t j = 0; j < n; ++j) if (U(i, j) != sp.designedU(i, j)) same = false;
    vrt::expect(same, "designed.U-of-permuted-triangular", dcls, [&] { return head + " is a row permutation of the upper triangular T=" + dump(sp.designedU) + " (no elimination needed) but U=" + dump(U); });
  }

  // ---- determinant
  LD minU = fabsl(static_cast<LD>(U(0, 0)));
  for (size_t i = 1; i < n; ++i) minU = min(minU, fabsl(static_cast<LD>(U(i, i))));
  out.minU = minU;
  {
    vrt::step("det");
    double d = lu.det();
    out.det = d;
    double prod = static_cast<double>(sgn);
    for (size_t i = 0; i < n; ++i) prod *= U(i, i);
    // same n multiplications: equal up to n roundings (and underflow)
    vrt::expect(vrt::close(d, prod, static_cast<double>(8 * static_cast<LD>(n) * EPS), 1e-290), "det.sign-times-diagonal", cls + (moved ? ",rows-exchanged" : ",no-exchange"), [&] {
        return head + " => det()=" + num(d) + " but sign(pivot " + vrt::vecStr(piv) + ")=" + str(sgn) + " times prod diag(U)=" + num(prod);
      });
    // a copied / assigned decomposition is the same decomposition: same factors, same permutation, same sign
    {
      vrt::step("copy-construct and assign the decomposition");
      LUDecomposition<double> cp(lu);
      RowMatrix<double> other(1, 1);
      other(0, 0) = 2.;
      LUDecomposition<double> as(other);
      as = lu;
      for (int which = 0; which < 2; ++which)
      {
        LUDecomposition<double>& x = which ? as : cp;
        const string how = which ? "assigned" : "copy-constructed";
        double dx = x.det();
        bool sameFactors = x.getPivot() == piv;
        Dense Lx = toDense(x.getL()), Ux = toDense(x.getU());
        for (size_t i = 0; i < n && sameFactors; ++i)
          for (size_t j = 0; j < n; ++j)
            if (Lx(i, j) != L(i, j) || Ux(i, j) != U(i, j)) sameFactors = false;
        vrt::expect(sameFactors, "copy.same-factors", cls + "," + how, [&] { return head + " => the " + how + " decomposition has other factors / pivot " + vrt::vecStr(x.getPivot()) + " than the original " + vrt::vecStr(piv); });
        vrt::expect(vrt::sameDouble(dx, d), "copy.same-determinant", cls + "," + how + (moved ? ",rows-exchanged" : ",no-exchange"), [&] { return head + " => det() of the " + how + " decomposition = " + num(dx) + " but the original gives " + num(d) + " (pivot " + vrt::vecStr(piv) + ")"; });
      }
    }
    vrt::Outcome od;
    double d2 = 0;
    od = vrt::capture([&] { d2 = MatrixTools::det(*mA); });
    vrt::expect(od.returned() && vrt::close(d2, d, static_cast<double>(8 * static_cast<LD>(n) * EPS), 1e-290), "det.wrapper", cls, [&] { return head + " => MatrixTools::det " + (od.returned() ? num(d2) : od.text()) + " but LUDecomposition::det " + num(d); });

    // tolerance from the verified backward error: det(L.U) = +-det(A + E), |E| <= G := 8 n eps P^T|L||U|
    LD ref = sp.haveExact ? sp.exactDet : detLD(A);
    bool zeroRow = false;
    LD logH = 0, rel = 0;
    for (size_t i = 0; i < n; ++i)
    {
      LD a2 = 0, g2 = 0;
      for (size_t j = 0; j < n; ++j)
      {
        a2 += static_cast<LD>(A(piv[i], j)) * A(piv[i], j);
        LD g = 8 * static_cast<LD>(n) * EPS * M[i * n + j] + TINYABS;
        g2 += g * g;
      }
      if (a2 == 0) { zeroRow = true; break; }
      logH += 0.5L * logl(a2);
      rel += log1pl(sqrtl(g2 / a2));
    }
    if (zeroRow)
    {
      // a zero row stays zero through the elimination: the product of the diagonal is exactly zero
      out.detTol = 0;
      vrt::expect(d == 0.0, "det.value", cls + ",zero-row", [&] { return head + " has a zero row but det()=" + num(d); });
    }
    else
    {
      LD slack = expl(logH) * expm1l(rel);
      out.detTol = 2 * slack + 8 * static_cast<LD>(n) * EPS * fabsl(ref) + TINYABS;
      if (resOk)
        vrt::expect(fabsl(static_cast<LD>(d) - ref) <= out.detTol, "det.value", cls + (sp.haveExact ? ",exact-reference" : ",long-double-reference") + (moved ? ",rows-exchanged" : ",no-exchange"), [&] {
            return head + " => det()=" + num(d) + " reference " + numL(ref) + " |difference| " + numL(fabsl(static_cast<LD>(d) - ref)) + " > tolerance " + numL(out.detTol) + " (pivot " + vrt::vecStr(piv) + ")";
          });
    }
  }
  out.ok = resOk;

  // ---- the singularity decision, a-posteriori on the returned pivots
  const double SMALL = NumConstants::SMALL();
  const int expectSolve = minU < SMALL ? -1 : minU > SMALL ? +1 : 0; // exactly on the threshold: left open
  string band = minU < SMALL / 4 ? "minpivot<SMALL/4" : minU < SMALL ? "SMALL/4<=minpivot<SMALL" : minU < 4 * SMALL ? "SMALL<=minpivot<4SMALL" : "minpivot>=4SMALL";
  if (sp.designed != 0)
    vrt::expect(sp.designed == expectSolve, "designed.min-pivot-side", dcls, [&] {
        return head + " was built with its smallest pivot " + (sp.designed > 0 ? "above" : "below") + " the threshold " + num(SMALL) + " but min|u_ii|=" + numL(minU) + " U=" + dump(U);
      });
  vrt::cover(sp.gen + ":n" + str(n) + ":" + band + ":exch" + str(min<size_t>(moved, 3)));

  auto judgeOutcome = [&](const vrt::Outcome& o, double indicator, const string& route, const string& callText) -> bool {
      // returns true when the call returned and the result has to be checked
      if (expectSolve < 0)
      {
        vrt::expect(!o.returned() && o.type == "bpp::ZeroDivisionException", "singular.zero-division", cls + "," + route + (o.returned() ? ",returned" : ",raised-other"), [&] {
            return head + " has min|u_ii|=" + numL(minU) + " < " + num(SMALL) + " but " + callText + " " + o.text();
          });
        return false;
      }
      if (expectSolve > 0)
      {
        if (!vrt::expect(o.returned(), "regular.returns", cls + "," + route, [&] { return head + " has min|u_ii|=" + numL(minU) + " > " + num(SMALL) + " but " + callText + " " + o.text(); }))
          return false;
      }
      else
      {
        vrt::counted("threshold.exactly-on-SMALL-unjudged");
        if (!o.returned())
        {
          vrt::expect(o.raisedBpp(), "singular.zero-division", cls + "," + route + ",on-threshold,raised-other", [&] { return head + ": " + callText + " " + o.text(); });
          return false;
        }
      }
      vrt::expect(static_cast<LD>(indicator) == minU, "indicator.min-pivot", cls + "," + route, [&] { return head + " => " + callText + " returned " + num(indicator) + " but min|u_ii|=" + numL(minU) + " diag(U) of " + dump(U); });
      return true;
    };
  // |B - A.X| <= 24 n eps P^T |L||U||X|
  auto judgeSolution = [&](const Dense& B, const Dense& X, const string& route, const string& callText) {
      size_t k = B.c;
      if (!vrt::expect(X.r == n && X.c == k, "solve.dims", cls + "," + route, [&] { return head + ": " + callText + " with B " + str(B.r) + "x" + str(k) + " => X is " + str(X.r) + "x" + str(X.c); }))
        return;
      bool ok = true;
      size_t bi = 0, bj = 0;
      LD bres = 0, btol = 0;
      for (size_t j = 0; j < k && ok; ++j)
        for (size_t i = 0; i < n && ok; ++i)
        {
          size_t row = piv[i];
          LD s = B(row, j), mag = fabsl(static_cast<LD>(B(row, j))), t = 0;
          for (size_t q = 0; q < n; ++q)
          {
            s -= static_cast<LD>(A(row, q)) * X(q, j);
            mag += fabsl(static_cast<LD>(A(row, q)) * X(q, j));
            t += M[i * n + q] * fabsl(static_cast<LD>(X(q, j)));
          }
          LD tol = 24 * static_cast<LD>(n) * EPS * t + 1e-18L * mag + TINYABS;
          if (!(fabsl(s) <= tol)) { ok = false; bi = row; bj = j; bres = fabsl(s); btol = tol; }
        }
      vrt::expect(ok, "solve.residual", cls + "," + route, [&] {
          return head + ": " + callText + " B=" + dump(B) + " => X=" + dump(X) + ": |(B-A.X)(" + str(bi) + "," + str(bj) + ")|=" + numL(bres) + " > 24.n.eps.(P^T|L||U||X|)=" + numL(btol) + " (pivot " + vrt::vecStr(piv) + ")";
        });
    };
  auto randomRhs = [&](size_t rows, size_t k) {
      Dense B(rows, k);
      for (size_t i = 0; i < rows; ++i)
        for (size_t j = 0; j < k; ++j)
          B(i, j) = sp.intRhs ? static_cast<double>(c.rng.range(-9, 9)) : c.rng.chance(0.1) ? 0.0 : c.rng.real(-1, 1) * (c.rng.chance(0.2) ? 100.0 : 1.0);
      return B;
    };

  // ---- matrix right-hand side, every storage class for B and X
  {
    size_t k = 1 + c.rng.below(4);
    int kB = static_cast<int>(c.rng.below(3)), kX = static_cast<int>(c.rng.below(3)), pre = static_cast<int>(c.rng.below(4));
    Dense B = randomRhs(n, k);
    unique_ptr<Matrix<double>> mB = fromDense(kB, B), mX = preState(kX, pre, n, k);
    string callText = string("solve(B(") + KN[kB] + "," + str(n) + "x" + str(k) + "), X(" + KN[kX] + ",pre-state " + str(pre) + "))";
    vrt::step(callText);
    double ind = 0;
    vrt::Outcome o = vrt::capture([&] { ind = lu.solve(*mB, *mX); });
    vrt::cover(string("solve:B") + KN[kB] + ":X" + KN[kX] + ":pre" + str(pre) + ":k" + str(k) + ":" + (o.returned() ? "returned" : "raised"));
    if (judgeOutcome(o, ind, "matrix-solve", callText)) judgeSolution(B, toDense(*mX), "matrix-solve", callText);
    Dense B2 = toDense(*mB);
    vrt::expect(B2.a == B.a, "solve.rhs-unchanged", cls, [&] { return head + ": " + callText + " changed B from " + dump(B) + " to " + dump(B2); });
  }
  // ---- vector right-hand side
  {
    Dense B = randomRhs(n, 1);
    vector<double> b(n), x;
    for (size_t i = 0; i < n; ++i) b[i] = B(i, 0);
    int pre = static_cast<int>(c.rng.below(3));
    if (pre == 1) x.assign(n, 55.5);
    if (pre == 2) x.assign(n + 3, -7.0);
    string callText = "solve(vector b, vector x pre-state " + str(pre) + ")";
    vrt::step(callText);
    double ind = 0;
    vrt::Outcome o = vrt::capture([&] { ind = lu.solve(b, x); });
    vrt::cover(string("vector-solve:pre") + str(pre) + ":" + (o.returned() ? "returned" : "raised"));
    if (judgeOutcome(o, ind, "vector-solve", callText))
    {
      Dense X(x.size(), 1);
      for (size_t i = 0; i < x.size(); ++i) X(i, 0) = x[i];
      judgeSolution(B, X, "vector-solve", callText);
    }
  }
  // ---- inverse
  {
    int kO = static_cast<int>(c.rng.below(3)), pre = static_cast<int>(c.rng.below(4));
    unique_ptr<Matrix<double>> mO = preState(kO, pre, n, n);
    string callText = string("MatrixTools::inv(A, O(") + KN[kO] + ",pre-state " + str(pre) + "))";
    vrt::step(callText);
    double ind = 0;
    vrt::Outcome o = vrt::capture([&] { ind = MatrixTools::inv(*mA, *mO); });
    vrt::cover(string("inv:A") + KN[kA] + ":O" + KN[kO] + ":pre" + str(pre) + ":" + (o.returned() ? "returned" : "raised"));
    if (judgeOutcome(o, ind, "inv", callText))
    {
      Dense I(n, n);
      for (size_t i = 0; i < n; ++i) I(i, i) = 1.0;
      judgeSolution(I, toDense(*mO), "inv", callText);
    }
  }
  // ---- accessor histories.  The statement speaks of "the factorisation" of A: what getL / getU / getPivot / det / solve give must not
  // depend on which members of the same decomposition object were called before, in which order or how often, nor on whether the object is
  // the original, a copy of a partly queried object or the target of an assignment that had already served another matrix.  The audit above
  // always asks getL, getU, getPivot, det, solve in that one order; here a second decomposition of the same A goes through a random history
  // (1..4 operations drawn from all members, then the four accessors in a random order), and the first object is asked again after its solves.
  // Every factor that comes back is judged by the statement itself (shape, unit lower / upper triangular exactly, P.A = L.U within the same
  // bound as above) and against the first answer (the elimination is deterministic: the same factorisation is the same bits); solves are
  // judged by the clauses above on a fresh right-hand side.
  {
    auto factorResidualOk = [&](const Dense& Lx, const Dense& Ux, const vector<size_t>& px) {
        for (size_t i = 0; i < n; ++i)
          for (size_t j = 0; j < n; ++j)
          {
            LD s = 0, ab = 0;
            for (size_t k = 0; k < n; ++k) { LD t = static_cast<LD>(Lx(i, k)) * Ux(k, j); s += t; ab += fabsl(t); }
            if (!(fabsl(static_cast<LD>(A(px[i], j)) - s) <= 8 * static_cast<LD>(n) * EPS * ab + TINYABS)) return false;
          }
        return true;
      };
    // what = 0 getL, 1 getU, 2 getPivot, 3 det.  tag = first-call / repeated-call of that accessor in the life of the object (and of the objects it was copied from)
    auto judgeAccessor = [&](LUDecomposition<double>& x, int what, const string& tag, const string& hist) {
        const string hcls = cls + "," + tag;
        if (what == 0 || what == 1)
        {
          const char* nm = what == 0 ? "getL" : "getU";
          Dense F = toDense(what == 0 ? x.getL() : x.getU());
          const Dense& F0 = what == 0 ? L : U;
          if (!vrt::expect(F.r == n && F.c == n, "history.shape", hcls, [&] { return head + ": " + hist + " => " + nm + "() is " + str(F.r) + "x" + str(F.c); }))
            return;
          bool tri = true, fin = true;
          for (size_t i = 0; i < n; ++i)
            for (size_t j = 0; j < n; ++j)
            {
              if (!std::isfinite(F(i, j))) fin = false;
              if (what == 0 && ((i == j && F(i, j) != 1.0) || (i < j && F(i, j) != 0.0))) tri = false;
              if (what == 1 && i > j && F(i, j) != 0.0) tri = false;
            }
          if (!vrt::expect(tri && fin, what == 0 ? "history.L-unit-lower" : "history.U-upper", hcls, [&] {
                return head + ": " + hist + " => " + nm + "()=" + dump(F) + " is not " + (what == 0 ? "unit lower" : "upper") + " triangular (the first decomposition gave " + dump(F0) + ")";
              }))
            return;
          bool same = F.a == F0.a; // finite, so == on the values is the bit pattern up to the sign of zero
          // identical factors satisfy P.A = L.U because the first ones were verified above; different ones are judged by the equation first
          bool eq = same ? resOk : factorResidualOk(what == 0 ? F : L, what == 1 ? F : U, piv);
          if (resOk && !vrt::expect(eq, "history.PA=LU", hcls, [&] {
                return head + ": " + hist + " => " + nm + "()=" + dump(F) + " does not satisfy P.A=L.U within 8.n.eps.|L||U| with pivot " + vrt::vecStr(piv) + (what == 0 ? " U=" + dump(U) : " L=" + dump(L));
              }))
            return;
          vrt::expect(same, "history.same-factors", hcls, [&] { return head + ": " + hist + " => " + nm + "()=" + dump(F) + " but the first decomposition of the same matrix gave " + dump(F0); });
        }
        else if (what == 2)
        {
          vector<size_t> px = x.getPivot();
          vrt::expect(px == piv, "history.same-pivot", hcls, [&] { return head + ": " + hist + " => getPivot()=" + vrt::vecStr(px) + " but the first decomposition of the same matrix gave " + vrt::vecStr(piv); });
        }
        else
        {
          double dx = x.det();
          vrt::expect(vrt::sameDouble(dx, out.det), "history.same-determinant", hcls + (moved ? ",rows-exchanged" : ",no-exchange"), [&] {
              return head + ": " + hist + " => det()=" + num(dx) + " but the first decomposition of the same matrix gave " + num(out.det) + " (pivot " + vrt::vecStr(piv) + ")";
            });
        }
      };
    static const char* const accName[] = { "getL", "getU", "getPivot", "det" };
    static const char* const opName[] = { "getL", "getU", "getPivot", "det", "solve(B)", "solve(b)", "copy", "assign", "MatrixTools::det", "MatrixTools::inv" };
    // weights: the two lazily computable factors most often
    static const int opDraw[] = { 0, 0, 0, 1, 1, 1, 2, 3, 4, 4, 5, 6, 6, 7, 7, 8, 9 };

    unique_ptr<LUDecomposition<double>> h(new LUDecomposition<double>(*mA));
    bool seen[4] = { false, false, false, false };
    string hist = "LUDecomposition(A)", prev = "ctor";
    bool uBeforeL = false, lBeforeU = false;
    auto accessor = [&](int what) {
        hist += string(", ") + accName[what] + "()";
        vrt::step("history: " + hist);
        if (what == 0 && !seen[0]) (seen[1] ? uBeforeL : lBeforeU) = true;
        vrt::cover(string("history:") + accName[what] + (seen[what] ? ":repeated" : ":first") + ":after-" + prev);
        judgeAccessor(*h, what, seen[what] ? "repeated-call" : "first-call", hist);
        seen[what] = true;
        prev = accName[what];
      };
    const size_t nPrefix = 1 + c.rng.below(4);
    for (size_t q = 0; q < nPrefix; ++q)
    {
      const int op = opDraw[c.rng.below(sizeof(opDraw) / sizeof(opDraw[0]))];
      if (op <= 3) { accessor(op); continue; }
      switch (op)
      {
      case 4:
      {
        size_t k = 1 + c.rng.below(4);
        int kB = static_cast<int>(c.rng.below(3)), kX = static_cast<int>(c.rng.below(3)), pre = static_cast<int>(c.rng.below(4));
        Dense B = randomRhs(n, k);
        unique_ptr<Matrix<double>> mB = fromDense(kB, B), mX = preState(kX, pre, n, k);
        hist += string(", solve(B(") + KN[kB] + "," + str(n) + "x" + str(k) + "), X(" + KN[kX] + ",pre-state " + str(pre) + "))";
        vrt::step("history: " + hist);
        double ind = 0;
        vrt::Outcome o = vrt::capture([&] { ind = h->solve(*mB, *mX); });
        if (judgeOutcome(o, ind, "history-matrix-solve", hist)) judgeSolution(B, toDense(*mX), "history-matrix-solve", hist);
        break;
      }
      case 5:
      {
        Dense B = randomRhs(n, 1);
        vector<double> b(n), x;
        for (size_t i = 0; i < n; ++i) b[i] = B(i, 0);
        if (c.rng.chance(0.5)) x.assign(n + c.rng.below(3), 55.5);
        hist += ", solve(vector b, vector x of length " + str(x.size()) + ")";
        vrt::step("history: " + hist);
        double ind = 0;
        vrt::Outcome o = vrt::capture([&] { ind = h->solve(b, x); });
        if (judgeOutcome(o, ind, "history-vector-solve", hist))
        {
          Dense X(x.size(), 1);
          for (size_t i = 0; i < x.size(); ++i) X(i, 0) = x[i];
          judgeSolution(B, X, "history-vector-solve", hist);
        }
        break;
      }
      case 6:
      {
        hist += ", copy-construct and go on with the copy";
        vrt::step("history: " + hist);
        unique_ptr<LUDecomposition<double>> nh(new LUDecomposition<double>(*h));
        h = std::move(nh);
        break;
      }
      case 7:
      {
        // the target has already served another matrix (other size when n != 2) and, half of the time, handed out its own factors
        RowMatrix<double> other(2, 2);
        other(0, 0) = 1.; other(0, 1) = 2.; other(1, 0) = 3.; other(1, 1) = 4.;
        unique_ptr<LUDecomposition<double>> nh(new LUDecomposition<double>(other));
        bool used = c.rng.chance(0.5);
        if (used) { nh->getU(); nh->getL(); nh->getPivot(); nh->det(); }
        hist += string(", assign to a decomposition of a 2x2 matrix") + (used ? " whose accessors had been called" : "") + " and go on with the target";
        vrt::step("history: " + hist);
        *nh = *h;
        h = std::move(nh);
        break;
      }
      case 8:
      {
        hist += ", MatrixTools::det(A)";
        vrt::step("history: " + hist);
        double dw = 0;
        vrt::Outcome o = vrt::capture([&] { dw = MatrixTools::det(*mA); });
        vrt::expect(o.returned() && vrt::close(dw, out.det, static_cast<double>(8 * static_cast<LD>(n) * EPS), 1e-290), "det.wrapper", cls + ",history", [&] {
            return head + ": " + hist + " => MatrixTools::det " + (o.returned() ? num(dw) : o.text()) + " but LUDecomposition::det " + num(out.det);
          });
        break;
      }
      default:
      {
        int kO = static_cast<int>(c.rng.below(3)), pre = static_cast<int>(c.rng.below(4));
        unique_ptr<Matrix<double>> mO = preState(kO, pre, n, n);
        hist += string(", MatrixTools::inv(A, O(") + KN[kO] + ",pre-state " + str(pre) + "))";
        vrt::step("history: " + hist);
        double ind = 0;
        vrt::Outcome o = vrt::capture([&] { ind = MatrixTools::inv(*mA, *mO); });
        if (judgeOutcome(o, ind, "history-inv", hist))
        {
          Dense I(n, n);
          for (size_t i = 0; i < n; ++i) I(i, i) = 1.0;
          judgeSolution(I, toDense(*mO), "history-inv", hist);
        }
        break;
      }
      }
      vrt::cover(string("history:op=") + opName[op] + ":after-" + prev);
      prev = opName[op];
    }
    // every history ends with the four accessors, in a random order
    vector<int> fin = { 0, 1, 2, 3 };
    c.rng.shuffle(fin);
    for (int what : fin) accessor(what);
    vrt::cover(string("history:") + (uBeforeL ? "getU-before-first-getL" : lBeforeU ? "getL-before-first-getU" : "getL-only-before"));

    // the first object once more, after its determinant, its copies and its three solves
    c.rng.shuffle(fin);
    string hist0 = "LUDecomposition(A), getL(), getU(), getPivot(), det(), copies, solve(B), solve(b)";
    for (int what : fin)
    {
      hist0 += string(", ") + accName[what] + "()";
      vrt::step("history: " + hist0);
      judgeAccessor(lu, what, "repeated-call", hist0);
    }
  }
  Dense A2 = toDense(*mA);
  vrt::expect(A2.a == A.a, "input-unchanged", cls, [&] { return head + " was modified: " + dump(A2); });
  return out;
}

// ---------------------------------------------------------------- generators
Dense intMatrix(vrt::Rng& g, size_t n, string& flavour)
{
  Dense A(n, n);
  int f = static_cast<int>(g.below(6));
  switch (f)
  {
  case 0: flavour = "dense"; for (double& x : A.a) x = static_cast<double>(g.range(-9, 9)); break;
  case 1: flavour = "sparse"; for (double& x : A.a) x = g.chance(0.55) ? 0.0 : static_cast<double>(g.range(-9, 9)); break;
  case 2: flavour = "signs"; for (double& x : A.a) x = static_cast<double>(g.range(-1, 1)); break;
  case 3: // leading zeros: every leading principal entry forces a row exchange
    flavour = "zero-diagonal";
    for (size_t i = 0; i < n; ++i) for (size_t j = 0; j < n; ++j) A(i, j) = i == j ? 0.0 : static_cast<double>(g.range(-9, 9));
    break;
  case 4: // ties in the pivot column
    flavour = "ties";
    for (double& x : A.a) x = static_cast<double>(g.chance(0.5) ? 3 : -3) * static_cast<double>(g.range(0, 3));
    break;
  default: // permutation matrix times small integers
  {
    flavour = "scaled-permutation";
    vector<size_t> p(n);
    iota(p.begin(), p.end(), 0);
    g.shuffle(p);
    for (size_t i = 0; i < n; ++i) A(i, p[i]) = static_cast<double>(g.chance(0.5) ? g.range(1, 9) : -g.range(1, 9));
    if (n > 1 && g.chance(0.5)) A(g.below(n), g.below(n)) = static_cast<double>(g.range(-9, 9));
  }
  }
  return A;
}
// random orthogonal matrix: product of n Householder reflections
vector<LD> randomOrthogonal(vrt::Rng& g, size_t n)
{
  vector<LD> Q(n * n, 0);
  for (size_t i = 0; i < n; ++i) Q[i * n + i] = 1;
  for (size_t h = 0; h < n; ++h)
  {
    vector<LD> v(n);
    LD nv = 0;
    for (size_t i = 0; i < n; ++i) { v[i] = g.gauss(); nv += v[i] * v[i]; }
    if (nv == 0) continue;
    // Q <- Q (I - 2 v v^T / nv)
    for (size_t i = 0; i < n; ++i)
    {
      LD s = 0;
      for (size_t j = 0; j < n; ++j) s += Q[i * n + j] * v[j];
      s = 2 * s / nv;
      for (size_t j = 0; j < n; ++j) Q[i * n + j] -= s * v[j];
    }
  }
  return Q;
}
// A = Q1 diag(sigma) Q2^T, rounded to double
Dense fromSingularValues(vrt::Rng& g, const vector<LD>& sigma)
{
  size_t n = sigma.size();
  vector<LD> Q1 = randomOrthogonal(g, n), Q2 = randomOrthogonal(g, n);
  Dense A(n, n);
  for (size_t i = 0; i < n; ++i)
    for (size_t j = 0; j < n; ++j)
    {
      LD s = 0;
      for (size_t k = 0; k < n; ++k) s += Q1[i * n + k] * sigma[k] * Q2[j * n + k];
      A(i, j) = static_cast<double>(s);
    }
  return A;
}
vector<size_t> randomPerm(vrt::Rng& g, size_t n)
{
  vector<size_t> p(n);
  iota(p.begin(), p.end(), 0);
  g.shuffle(p);
  return p;
}

// ---------------------------------------------------------------- groups
// integer matrices with entries in [-9,9]: exact determinant; det(A^T) and det(A.B)
void caseInt(vrt::Case& c)
{
  size_t n = 1 + c.index % 10;
  Spec sp;
  string fl;
  sp.A = intMatrix(c.rng, n, fl);
  sp.gen = "int-" + fl;
  sp.intRhs = c.rng.chance(0.5);
  vrt::describe(sp.gen + ":n=" + str(n), "integer matrix " + dump(sp.A));
  I128 d;
  if (bareiss(sp.A, d)) { sp.haveExact = true; sp.exactDet = static_cast<LD>(d); }
  else vrt::tally("bareiss-overflow");
  if (sp.haveExact && d == 0) sp.designed = -1; // exactly singular: the zero pivot is reproduced up to n.eps.growth.|A| << SMALL/4
  vrt::cover(string("int:") + fl + ":n" + str(n) + (sp.haveExact ? (d == 0 ? ":singular" : ":regular") : ":nooracle"));
  Audit a = audit(c, sp);

  // det(A) = det(A^T)
  Spec st;
  st.gen = "int-transpose";
  st.A = transposed(sp.A);
  st.haveExact = sp.haveExact;
  st.exactDet = sp.exactDet;
  st.designed = sp.designed;
  st.intRhs = sp.intRhs;
  Audit t = audit(c, st);
  if (a.ok && t.ok)
    vrt::expect(fabsl(static_cast<LD>(a.det) - t.det) <= a.detTol + t.detTol, "det.transpose", nClass(n), [&] {
        return "A=" + dump(sp.A) + ": det(A)=" + num(a.det) + " det(A^T)=" + num(t.det) + " differ by more than " + numL(a.detTol + t.detTol);
      });
}

void caseProduct(vrt::Case& c)
{
  size_t n = 1 + c.index % 10;
  string f1, f2;
  Dense A = intMatrix(c.rng, n, f1), B = intMatrix(c.rng, n, f2);
  vrt::describe("product:n=" + str(n), "A=" + dump(A) + " B=" + dump(B));
  I128 da, db;
  if (!bareiss(A, da) || !bareiss(B, db)) { vrt::tally("bareiss-overflow"); return; }
  Spec sa, sb, sc;
  sa.gen = sb.gen = "int-factor";
  sa.A = A; sb.A = B;
  sa.haveExact = sb.haveExact = sc.haveExact = true;
  sa.exactDet = static_cast<LD>(da);
  sb.exactDet = static_cast<LD>(db);
  sa.intRhs = sb.intRhs = sc.intRhs = true;
  if (da == 0) sa.designed = -1;
  if (db == 0) sb.designed = -1;
  // C = A.B exactly (entries <= 81 n: exact in double)
  sc.gen = "int-product";
  sc.A = Dense(n, n);
  for (size_t i = 0; i < n; ++i)
    for (size_t j = 0; j < n; ++j)
    {
      long long s = 0;
      for (size_t k = 0; k < n; ++k) s += static_cast<long long>(A(i, k)) * static_cast<long long>(B(k, j));
      sc.A(i, j) = static_cast<double>(s);
    }
  sc.exactDet = sa.exactDet * sb.exactDet; // |det| <= (9 sqrt 10)^20 < 2^98: the product of two 64-bit mantissas may round, 2^-64 relative
  if (da == 0 || db == 0) sc.designed = -1;
  Audit ra = audit(c, sa), rb = audit(c, sb), rc = audit(c, sc);
  vrt::cover(string("product:n") + str(n) + (da == 0 || db == 0 ? ":singular" : ":regular"));
  if (ra.ok && rb.ok && rc.ok)
  {
    LD tol = rc.detTol + fabsl(static_cast<LD>(rb.det)) * ra.detTol + fabsl(static_cast<LD>(ra.det)) * rb.detTol + ra.detTol * rb.detTol
      + 4 * EPS * fabsl(static_cast<LD>(ra.det) * rb.det);
    vrt::expect(fabsl(static_cast<LD>(rc.det) - static_cast<LD>(ra.det) * rb.det) <= tol, "det.product", nClass(n), [&] {
        return "A=" + dump(A) + " B=" + dump(B) + ": det(A)=" + num(ra.det) + " det(B)=" + num(rb.det) + " det(A.B)=" + num(rc.det) + " tolerance " + numL(tol);
      });
  }
}

// prescribed singular values, condition number 1..1e6 (and beyond, for the refusal side), optional power-of-two scale
void caseSvd(vrt::Case& c)
{
  size_t n = 1 + c.index % 10;
  Spec sp;
  int mode = static_cast<int>(c.rng.below(5));
  LD kappa = powl(10.0L, mode == 0 ? 0.0L : static_cast<LD>(c.rng.real(0, 6)));
  vector<LD> sigma(n);
  string fl;
  switch (mode)
  {
  case 0: fl = "orthogonal"; for (LD& s : sigma) s = 1; break;
  case 1: fl = "geometric"; for (size_t i = 0; i < n; ++i) sigma[i] = n == 1 ? 1 : powl(kappa, -static_cast<LD>(i) / static_cast<LD>(n - 1)); break;
  case 2: fl = "one-small"; for (size_t i = 0; i < n; ++i) sigma[i] = i + 1 == n && n > 1 ? 1 / kappa : 1; break;
  case 3: fl = "one-large"; for (size_t i = 0; i < n; ++i) sigma[i] = i == 0 ? 1 : (n > 1 ? 1 / kappa : 1); break;
  default: fl = "random"; for (size_t i = 0; i < n; ++i) sigma[i] = powl(kappa, -static_cast<LD>(c.rng.unit())); break;
  }
  sp.gen = "svd-" + fl;
  sp.A = fromSingularValues(c.rng, sigma);
  int sh = c.rng.chance(0.3) ? static_cast<int>(c.rng.range(-12, 12)) : 0;
  if (sh != 0) for (double& x : sp.A.a) x = ldexp(x, sh);
  vrt::describe(sp.gen + ":n=" + str(n), "kappa=" + numL(kappa) + " scale=2^" + str(sh) + " A=" + dump(sp.A));
  vrt::cover("svd:" + fl + ":n" + str(n) + ":kappa1e" + str(static_cast<int>(floorl(log10l(kappa)))) + (sh ? ":scaled" : ""));
  Audit a = audit(c, sp);
  // det(A) = det(A^T) for real matrices: both values lie within their own a-posteriori tolerance of det A
  Spec st;
  st.gen = "svd-transpose";
  st.A = transposed(sp.A);
  Audit t = audit(c, st);
  if (a.ok && t.ok)
    vrt::expect(fabsl(static_cast<LD>(a.det) - t.det) <= a.detTol + t.detTol, "det.transpose", nClass(n) + ",real", [&] {
        return "A=" + dump(sp.A) + ": det(A)=" + num(a.det) + " det(A^T)=" + num(t.det) + " differ by more than " + numL(a.detTol + t.detTol);
      });
}

// row-permuted triangular matrices with a designed smallest pivot
void caseTriangular(vrt::Case& c)
{
  size_t n = 1 + c.index % 10;
  int kind = static_cast<int>((c.index / 10) % 4); // 0,1 row-permuted upper (U known exactly), 2 row-permuted lower, 3 column-permuted upper
  // probes: magnitude of the special diagonal entry.  Below SMALL: 0, 1e-12, 1e-7, SMALL/4, 2^-20; above: 2^-19, 4 SMALL, 1e-5, 1e-3
  static const double probes[] = { 0.0, 1e-12, 1e-7, 2.5e-7, 9.5367431640625e-07, 1.9073486328125e-06, 4e-6, 1e-5, 1e-3 };
  static const char* probeName[] = { "0", "1e-12", "1e-7", "SMALL/4", "2^-20", "2^-19", "4SMALL", "1e-5", "1e-3" };
  size_t pi = c.rng.below(9 + 3);
  bool hasProbe = pi < 9;
  Dense T(n, n);
  for (size_t i = 0; i < n; ++i)
    for (size_t j = i; j < n; ++j)
      T(i, j) = i == j ? (c.rng.chance(0.5) ? 1 : -1) * c.rng.logReal(1e-2, 1e2) : (c.rng.chance(0.25) ? 0.0 : c.rng.real(-2, 2));
  size_t pos = c.rng.below(n);
  if (hasProbe) T(pos, pos) = (c.rng.chance(0.5) ? 1 : -1) * probes[pi];
  vector<size_t> p = randomPerm(c.rng, n);
  Spec sp;
  sp.A = Dense(n, n);
  string pname = hasProbe ? probeName[pi] : "none";
  if (kind <= 1)
  {
    sp.gen = "perm-upper";
    for (size_t i = 0; i < n; ++i) for (size_t j = 0; j < n; ++j) sp.A(p[i], j) = T(i, j);
    sp.designed = hasProbe && probes[pi] < 1e-6 ? -1 : +1;
    if (!(hasProbe && probes[pi] == 0.0)) { sp.haveU = true; sp.designedU = T; }
    // the determinant is the product of the diagonal up to the sign of the permutation; long double reference is used
  }
  else if (kind == 2)
  {
    sp.gen = "perm-lower";
    for (size_t i = 0; i < n; ++i) for (size_t j = 0; j < n; ++j) sp.A(p[i], j) = T(j, i);
  }
  else
  {
    sp.gen = "colperm-upper";
    for (size_t i = 0; i < n; ++i) for (size_t j = 0; j < n; ++j) sp.A(i, p[j]) = T(i, j);
  }
  vrt::describe(sp.gen + ":n=" + str(n), "probe pivot " + pname + " at " + str(pos) + " A=" + dump(sp.A));
  vrt::cover(sp.gen + ":n" + str(n) + ":probe=" + pname);
  audit(c, sp);
}

// rank-deficient matrices: integer (exactly singular) and real (trailing singular values 0 or tiny)
void caseSingular(vrt::Case& c)
{
  size_t n = 1 + c.index % 10;
  Spec sp;
  int mode = static_cast<int>((c.index / 10) % 4);
  if (mode <= 1)
  {
    // integer, entries stay in [-9,9]: dependent rows/columns are copies, negations, sums of two rows with small entries, or zero
    size_t rank = n == 1 ? 0 : c.rng.below(n);
    Dense A(n, n);
    for (size_t i = 0; i < rank; ++i) for (size_t j = 0; j < n; ++j) A(i, j) = static_cast<double>(c.rng.range(-4, 4));
    for (size_t i = rank; i < n; ++i)
    {
      int how = rank == 0 ? 0 : static_cast<int>(c.rng.below(4));
      size_t r1 = rank ? c.rng.below(rank) : 0, r2 = rank ? c.rng.below(rank) : 0;
      for (size_t j = 0; j < n; ++j)
        A(i, j) = how == 0 ? 0.0 : how == 1 ? A(r1, j) : how == 2 ? -A(r1, j) : A(r1, j) + A(r2, j);
    }
    vector<size_t> p = randomPerm(c.rng, n);
    sp.A = Dense(n, n);
    bool cols = mode == 1;
    for (size_t i = 0; i < n; ++i) for (size_t j = 0; j < n; ++j) { if (cols) sp.A(j, p[i]) = A(i, j); else sp.A(p[i], j) = A(i, j); }
    sp.gen = cols ? "int-dependent-columns" : "int-dependent-rows";
    sp.haveExact = true;
    sp.exactDet = 0;
    sp.designed = -1;
    sp.intRhs = true;
    vrt::describe(sp.gen + ":n=" + str(n), "rank<=" + str(rank) + " A=" + dump(sp.A));
    vrt::cover(sp.gen + ":n" + str(n) + ":rank" + str(rank));
  }
  else
  {
    size_t rank = n == 1 ? 0 : c.rng.below(n);
    vector<LD> sigma(n);
    LD tail = mode == 2 ? 0.0L : powl(10.0L, static_cast<LD>(c.rng.real(-14, -9)));
    for (size_t i = 0; i < n; ++i) sigma[i] = i < rank ? static_cast<LD>(c.rng.logReal(0.1, 1.0)) : tail;
    if (rank == 0 && n == 1) sigma[0] = tail;
    sp.A = fromSingularValues(c.rng, sigma);
    sp.gen = mode == 2 ? "svd-rank-deficient" : "svd-tiny-tail";
    vrt::describe(sp.gen + ":n=" + str(n), "rank " + str(rank) + " tail " + numL(tail) + " A=" + dump(sp.A));
    vrt::cover(sp.gen + ":n" + str(n) + ":rank" + str(rank));
  }
  audit(c, sp);
}

// scaled copies s.A, s = 2^k: pivots scale with s, so the same matrix is taken across the threshold
void caseScaled(vrt::Case& c)
{
  size_t n = 1 + c.index % 10;
  string fl;
  Dense A0 = intMatrix(c.rng, n, fl);
  I128 d;
  bool ex = bareiss(A0, d);
  int k = static_cast<int>(c.rng.range(-30, 30));
  Spec sp;
  sp.gen = "scaled-int";
  sp.A = A0;
  for (double& x : sp.A.a) x = ldexp(x, k);
  if (ex)
  {
    sp.haveExact = true;
    sp.exactDet = ldexpl(static_cast<LD>(d), k * static_cast<int>(n)); // exact: |d| < 2^63
    // the rounding noise that replaces the zero pivot of a singular matrix scales with the matrix (<= 5e-11 . 2^k here), and the
    // threshold is absolute: only for k <= 8 is the refusal certain (noise < SMALL/4); above, the returned pivots decide
    if (d == 0 && k <= 8) sp.designed = -1;
  }
  vrt::describe(sp.gen + ":n=" + str(n), "2^" + str(k) + " times " + dump(A0));
  vrt::cover(string("scaled:n") + str(n) + ":k" + (k < -19 ? "<-19" : k < 0 ? "<0" : k == 0 ? "=0" : ">0"));
  audit(c, sp);
}

// refusals: right-hand side of the wrong height; inverse / determinant of a non-square matrix
void caseRefuse(vrt::Case& c)
{
  size_t n = 1 + c.index % 10;
  string fl;
  Dense A = intMatrix(c.rng, n, fl);
  for (size_t i = 0; i < n; ++i) A(i, i) += 40.0; // diagonally dominant: regular, so only the height decides
  int kA = static_cast<int>(c.rng.below(3)), kB = static_cast<int>(c.rng.below(3)), kX = static_cast<int>(c.rng.below(3));
  unique_ptr<Matrix<double>> mA = fromDense(kA, A);
  LUDecomposition<double> lu(*mA);
  size_t k = 1 + c.rng.below(4);
  size_t h;
  string rel;
  switch (c.rng.below(4))
  {
  case 0: h = n + 1; rel = "one-more"; break;
  case 1: h = n - 1; rel = "one-less"; break;
  case 2: h = n + 2 + c.rng.below(5); rel = "taller"; break;
  default: h = c.rng.below(n); rel = "shorter"; break;
  }
  if (h == 0 && kB == 0) k = 0; // RowMatrix cannot hold 0 x k
  vrt::describe("refuse:n=" + str(n), "A " + str(n) + "x" + str(n) + ", right-hand side of height " + str(h));
  {
    Dense B(h, h == 0 ? 0 : k);
    for (double& x : B.a) x = c.rng.real(-1, 1);
    unique_ptr<Matrix<double>> mB = h == 0 ? newM(kB) : fromDense(kB, B), mX = preState(kX, static_cast<int>(c.rng.below(4)), n, k ? k : 1);
    string callText = string("solve(B(") + KN[kB] + "," + str(h) + "x" + str(k) + "), X(" + KN[kX] + "))";
    vrt::step(callText);
    vrt::Outcome o = vrt::capture([&] { lu.solve(*mB, *mX); });
    vrt::expect(o.raisedBpp(), "refuse.rhs-height", "matrix-solve," + rel + (h == 0 ? ",empty" : ""), [&] { return "A is " + str(n) + "x" + str(n) + ": " + callText + " " + o.text(); });
    vrt::cover("refuse:matrix:" + rel + ":B" + KN[kB] + (h == 0 ? ":empty" : ""));
  }
  {
    vector<double> b(h), x;
    for (double& v : b) v = c.rng.real(-1, 1);
    string callText = "solve(vector b of length " + str(h) + ", x)";
    vrt::step(callText);
    vrt::Outcome o = vrt::capture([&] { lu.solve(b, x); });
    vrt::expect(o.raisedBpp(), "refuse.rhs-height", "vector-solve," + rel + (h == 0 ? ",empty" : ""), [&] { return "A is " + str(n) + "x" + str(n) + ": " + callText + " " + o.text(); });
    vrt::cover("refuse:vector:" + rel + (h == 0 ? ":empty" : ""));
  }
  // documented: inv / det raise DimensionException when A is not square
  {
    size_t r = 1 + c.rng.below(6), cc = 1 + c.rng.below(6);
    if (r == cc) cc = r + 1;
    Dense R(r, cc);
    for (double& x : R.a) x = c.rng.real(-1, 1);
    for (size_t i = 0; i < min(r, cc); ++i) R(i, i) += 8.0;
    unique_ptr<Matrix<double>> mR = fromDense(kA, R), mO = newM(kX);
    string shape = r < cc ? "wide" : "tall";
    vrt::step("inv/det of a " + str(r) + "x" + str(cc) + " matrix");
    vrt::Outcome o1 = vrt::capture([&] { MatrixTools::inv(*mR, *mO); });
    vrt::expect(o1.raisedBpp(), "refuse.non-square", "inv," + shape, [&] { return "MatrixTools::inv of " + dump(R) + " " + o1.text(); });
    vrt::Outcome o2 = vrt::capture([&] { MatrixTools::det(*mR); });
    vrt::expect(o2.raisedBpp(), "refuse.non-square", "det," + shape, [&] { return "MatrixTools::det of " + dump(R) + " " + o2.text(); });
    vrt::cover("refuse:non-square:" + shape);
  }
}
} // namespace

int main(int argc, char** argv)
{
  vector<vrt::Group> groups = {
    { "int", 10000, 480000, caseInt, 300, false },
    { "product", 4000, 180000, caseProduct, 300, false },
    { "svd", 10000, 480000, caseSvd, 300, false },
    { "triangular", 12000, 576000, caseTriangular, 300, false },
    { "singular", 8000, 360000, caseSingular, 300, false },
    { "scaled", 6000, 240000, caseScaled, 300, false },
    { "refuse", 2000, 24000, caseRefuse, 300, false },
  };
  vrt::Meta meta;
  meta.rule = "One case = one square matrix, n = 1 + index mod 10, from the generator of its group: int (entries in [-9,9]: dense, sparse, {-1,0,1}, zero diagonal, ties, "
      "scaled permutation; exact Bareiss determinant; transposed copy), product (A, B and the exact integer product A.B), svd (Q1.diag(sigma).Q2^T with condition number 1..1e6, "
      "five spectra, optional 2^k scale), triangular (row-permuted upper / lower, column-permuted upper triangular with one diagonal entry set to a probe value 0, 1e-12, 1e-7, "
      "SMALL/4, 2^-20 | 2^-19, 4.SMALL, 1e-5, 1e-3 on either side of the singularity threshold SMALL=1e-6), singular (integer matrices with dependent rows/columns, singular values "
      "with a zero or tiny tail), scaled (2^k times an integer matrix, k in -30..30), refuse (wrong right-hand side heights, non-square inv/det). Every matrix goes through "
      "LUDecomposition (getL, getU, getPivot, det, solve with a 1..4 column matrix and with a vector) and MatrixTools::det / inv with random storage classes "
      "(Row/Col/Linear) for A, B, X and 4 pre-states of the result. Then a second decomposition of the same matrix goes through a random accessor history (1..4 operations "
      "drawn from getL, getU, getPivot, det, both solves, copy-construct, assign into a used decomposition of another matrix, MatrixTools::det / inv, followed by the four accessors "
      "in a random order) and the first one is asked again after its solves: every answer is judged by the statement and against the first answer. A class key = (generator flavour, n, band of the smallest returned pivot relative to SMALL, number of exchanged rows) "
      "resp. (storage classes, pre-state, columns, outcome): all involve a real factorisation.";
  meta.assumptions = {
    "tolerances: |PA-LU| <= 8 n eps |L||U|; |B-AX| <= 24 n eps P^T|L||U||X| (+1e-18 of the terms for the long double evaluation); |det()-det A| <= 2(prod(|a_i|+|g_i|)-prod|a_i|) + 8 n eps |det A| with g the rows of the first bound; eps=2^-52",
    "partial pivoting (anchors: 'factorisation with partial pivoting') is observed as |l_ij| <= 1; which of several rows of equal magnitude is taken is left open",
    "singularity is judged on the returned pivots: min|u_ii| < SMALL must raise ZeroDivisionException, > SMALL must return, == SMALL is left open; designed matrices keep the smallest pivot a factor 4 away from SMALL or on an exact power of two (row-permuted upper triangular: no rounding)",
    "reference determinant: exact (__int128 Bareiss) for integer matrices, long double elimination with complete pivoting otherwise",
    "accessor histories: the elimination is deterministic, so getL / getU / getPivot / det of one decomposition object, of its copies and of a second decomposition of the same matrix are required to be the same values whatever was called before; a factor that differs is first judged by the statement (triangular shape, P.A = L.U bound)",
    "n = 1..10, finite entries of moderate magnitude (no overflow / underflow); right-hand sides with 1..4 columns; a right-hand side without columns and a 0x0 matrix are outside the quantifier",
    "the vector overload of solve is compiled with dim1/clean mapped to size/clear so that the harness builds on a header where that overload cannot be instantiated",
  };
  meta.requiredClauses = { "lu.PA=LU", "lu.L-unit-lower", "lu.U-upper", "lu.pivot-permutation", "lu.partial-pivoting", "det.sign-times-diagonal", "det.value", "det.transpose", "det.product",
                           "solve.residual", "indicator.min-pivot", "singular.zero-division", "regular.returns", "refuse.rhs-height", "designed.min-pivot-side",
                           "history.L-unit-lower", "history.U-upper", "history.PA=LU", "history.same-factors", "history.same-pivot", "history.same-determinant" };
  return vrt::run(argc, argv, "C05", groups, meta);
}
