// C10 - Optimisers never end worse than they start, converge when convex, respect bounds.
//
// The objective is a harness test double (random SPD quadratic / smooth convex non-quadratic family)
// implementing Function / FirstOrderDerivable / SecondOrderDerivable.  It RECORDS every evaluation:
// the monitor counts evaluations, checks each evaluation point against the constraints of the
// parameters handed to the optimiser, and remembers whether any evaluation came close to a bound.
// Every optimiser of the statement is run on it and judged at the client boundary only
// (optimize() return value, getParameters, getFunctionValue, getNumberOfEvaluations,
// isToleranceReached, the recorded evaluation points, the Bracket triple).
#include "vrt.h"

#include <Bpp/Numeric/AbstractParametrizable.h>
#include <Bpp/Numeric/AutoParameter.h>
#include <Bpp/Numeric/Function/BfgsMultiDimensions.h>
#include <Bpp/Numeric/Function/BrentOneDimension.h>
#include <Bpp/Numeric/Function/ConjugateGradientMultiDimensions.h>
#include <Bpp/Numeric/Function/DirectionFunction.h>
#include <Bpp/Numeric/Function/DownhillSimplexMethod.h>
#include <Bpp/Numeric/Function/Functions.h>
#include <Bpp/Numeric/Function/GoldenSectionSearch.h>
#include <Bpp/Numeric/Function/MetaOptimizer.h>
#include <Bpp/Numeric/Function/NewtonBacktrackOneDimension.h>
#include <Bpp/Numeric/Function/NewtonOneDimension.h>
#include <Bpp/Numeric/Function/OneDimensionOptimizationTools.h>
#include <Bpp/Numeric/Function/PowellMultiDimensions.h>
#include <Bpp/Numeric/Function/SimpleMultiDimensions.h>
#include <Bpp/Numeric/Function/SimpleNewtonMultiDimensions.h>

#include <algorithm>
#include <functional>
#include <iostream>
#include <map>
#include <memory>

using namespace bpp;
using namespace std;
using vrt::str;

namespace
{
const double INF = numeric_limits<double>::infinity();

// ------------------------------------------------------------------------------------------------
// The mathematical objective (pure: no state, no recording)
// ------------------------------------------------------------------------------------------------
enum Phi { LOGCOSH = 0, SQRT1, QUARTIC, CUBICPLUS };
const char* phiName(Phi p) { return p == LOGCOSH ? "logcosh" : p == SQRT1 ? "sqrt1" : p == QUARTIC ? "quartic" : "cubicplus"; }

double phi0(Phi p, double t)
{
  switch (p)
  {
  case LOGCOSH: { double a = fabs(t); return a + log1p(exp(-2 * a)) - log(2.0); }
  case SQRT1: return sqrt(1 + t * t) - 1;
  case QUARTIC: return 0.5 * t * t + 0.25 * t * t * t * t;
  default: return 0.5 * t * t + (t > 0 ? t * t * t : 0.0);
  }
}
double phi1(Phi p, double t)
{
  switch (p)
  {
  case LOGCOSH: return tanh(t);
  case SQRT1: return t / sqrt(1 + t * t);
  case QUARTIC: return t + t * t * t;
  default: return t + (t > 0 ? 3 * t * t : 0.0);
  }
}
double phi2(Phi p, double t)
{
  switch (p)
  {
  case LOGCOSH: { double h = tanh(t); return 1 - h * h; }
  case SQRT1: { double s = 1 + t * t; return 1 / (s * sqrt(s)); }
  case QUARTIC: return 1 + 3 * t * t;
  default: return 1 + (t > 0 ? 6 * t : 0.0);
  }
}

struct Problem
{
  size_t n;
  bool quad;
  Phi phi;
  vector<double> m;   // unique minimiser
  double c;           // minimum value, in [1,10]
  vector<double> Q;   // n*n, SPD (quad)
  double lmin, lmax, kappa;
  vector<double> W;   // n*n rows w_i (non quadratic)
  vector<double> a;   // weights
  double mu;          // ridge

  string family() const { return quad ? "quad" : string("convex-") + phiName(phi); }

  double eval(const vector<double>& x) const
  {
    double s = 0;
    if (quad)
    {
      for (size_t i = 0; i < n; ++i)
      {
        double r = 0;
        for (size_t j = 0; j < n; ++j) r += Q[i * n + j] * (x[j] - m[j]);
        s += (x[i] - m[i]) * r;
      }
      return c + 0.5 * s;
    }
    for (size_t i = 0; i < n; ++i)
    {
      double t = 0;
      for (size_t j = 0; j < n; ++j) t += W[i * n + j] * (x[j] - m[j]);
      s += a[i] * phi0(phi, t);
    }
    double r = 0;
    for (size_t j = 0; j < n; ++j) r += (x[j] - m[j]) * (x[j] - m[j]);
    return c + s + 0.5 * mu * r;
  }
  double d1(const vector<double>& x, size_t k) const
  {
    double s = 0;
    if (quad)
    {
      for (size_t j = 0; j < n; ++j) s += Q[k * n + j] * (x[j] - m[j]);
      return s;
    }
    for (size_t i = 0; i < n; ++i)
    {
      double t = 0;
      for (size_t j = 0; j < n; ++j) t += W[i * n + j] * (x[j] - m[j]);
      s += a[i] * phi1(phi, t) * W[i * n + k];
    }
    return s + mu * (x[k] - m[k]);
  }
  double d2(const vector<double>& x, size_t k, size_t l) const
  {
    if (quad) return Q[k * n + l];
    double s = 0;
    for (size_t i = 0; i < n; ++i)
    {
      double t = 0;
      for (size_t j = 0; j < n; ++j) t += W[i * n + j] * (x[j] - m[j]);
      s += a[i] * phi2(phi, t) * W[i * n + k] * W[i * n + l];
    }
    return s + (k == l ? mu : 0.0);
  }
  // minimiser of the 1-D slice along coordinate k through x (other coordinates fixed)
  double sliceMin(const vector<double>& x, size_t k) const
  {
    if (quad)
    {
      double s = 0;
      for (size_t j = 0; j < n; ++j) if (j != k) s += Q[k * n + j] * (x[j] - m[j]);
      return m[k] - s / Q[k * n + k];
    }
    // derivative along k is strictly increasing: bisection on a wide interval
    vector<double> y(x);
    double lo = m[k] - 1, hi = m[k] + 1;
    for (int it = 0; it < 200; ++it) { y[k] = lo; if (d1(y, k) < 0) break; lo = m[k] - 2 * (m[k] - lo) - 1; }
    for (int it = 0; it < 200; ++it) { y[k] = hi; if (d1(y, k) > 0) break; hi = m[k] + 2 * (hi - m[k]) + 1; }
    for (int it = 0; it < 200; ++it)
    {
      double mid = 0.5 * (lo + hi);
      y[k] = mid;
      if (d1(y, k) > 0) hi = mid; else lo = mid;
    }
    return 0.5 * (lo + hi);
  }
};

void randomOrthogonal(vrt::Rng& rng, size_t n, vector<double>& R)
{
  R.assign(n * n, 0);
  for (size_t i = 0; i < n; ++i)
  {
    for (;;)
    {
      vector<double> v(n);
      for (size_t j = 0; j < n; ++j) v[j] = rng.gauss();
      for (size_t p = 0; p < i; ++p)
      {
        double d = 0;
        for (size_t j = 0; j < n; ++j) d += v[j] * R[p * n + j];
        for (size_t j = 0; j < n; ++j) v[j] -= d * R[p * n + j];
      }
      double nn = 0;
      for (size_t j = 0; j < n; ++j) nn += v[j] * v[j];
      if (nn < 1e-6) continue;
      nn = sqrt(nn);
      for (size_t j = 0; j < n; ++j) R[i * n + j] = v[j] / nn;
      break;
    }
  }
}

Problem genProblem(vrt::Rng& rng, size_t n, bool quad, bool wellConditioned)
{
  Problem p;
  p.n = n;
  p.quad = quad;
  p.phi = static_cast<Phi>(rng.below(4));
  p.c = rng.real(1, 10);
  static const double scales[3] = { 0.5, 5, 50 };
  double S = scales[rng.below(3)];
  p.m.resize(n);
  for (size_t i = 0; i < n; ++i) p.m[i] = rng.real(-S, S);
  vector<double> R;
  randomOrthogonal(rng, n, R);
  p.lmin = p.lmax = p.kappa = 1;
  p.mu = 0;
  if (quad)
  {
    double kap = n == 1 ? 1.0 : rng.logReal(1, wellConditioned ? 10 : 1000);
    double s = rng.logReal(0.1, 10);
    vector<double> lam(n);
    for (size_t i = 0; i < n; ++i) lam[i] = s * (i == 0 ? 1.0 : i == n - 1 ? kap : rng.logReal(1, kap));
    p.lmin = s;
    p.lmax = n == 1 ? s : s * kap;
    p.kappa = kap;
    p.Q.assign(n * n, 0);
    for (size_t i = 0; i < n; ++i)
      for (size_t j = i; j < n; ++j)
      {
        double v = 0;
        for (size_t k = 0; k < n; ++k) v += R[k * n + i] * lam[k] * R[k * n + j];
        p.Q[i * n + j] = p.Q[j * n + i] = v;
      }
  }
  else
  {
    p.W.assign(n * n, 0);
    p.a.resize(n);
    for (size_t i = 0; i < n; ++i)
    {
      double sg = rng.logReal(0.3, 3);
      for (size_t j = 0; j < n; ++j) p.W[i * n + j] = sg * R[i * n + j];
      p.a[i] = rng.logReal(0.5, 5);
    }
    p.mu = rng.logReal(0.01, 1);
  }
  return p;
}

// start point: not already optimal, f(start)-fmin >= 1e-3 (1+|fmin|)
vector<double> genStart(vrt::Rng& rng, const Problem& pb)
{
  vector<double> u(pb.n), x(pb.n);
  double nn = 0;
  for (size_t i = 0; i < pb.n; ++i) { u[i] = rng.gauss(); nn += u[i] * u[i]; }
  nn = sqrt(nn);
  if (nn == 0) { u[0] = 1; nn = 1; }
  double r = rng.logReal(0.05, 10);
  for (int it = 0; it < 60; ++it)
  {
    for (size_t i = 0; i < pb.n; ++i) x[i] = pb.m[i] + r * u[i] / nn;
    if (pb.eval(x) - pb.c >= 1e-3 * (1 + fabs(pb.c))) break;
    r *= 2;
  }
  return x;
}

// ------------------------------------------------------------------------------------------------
// Variants of (objective, start), all inside the stated quantifier ("random positive-definite quadratics", "smooth non-quadratic
// convex functions", "random starts" - neither the level nor the scale of the objective nor the distance of the start is restricted):
//  * level: the minimum value c is lowered to [1e-3,1) - objective values below 1 (the meta-optimiser derives its precision schedule
//    from log10 of the starting value; relative stop rules depend on |f|);
//  * scale: the whole objective is multiplied by a factor in [1e-3,1) (values, gradients and curvatures all small);
//  * flat/far (non-quadratic only): the ridge mu is reduced by a factor 1e-7..1e-1 and the start is moved away from the minimiser
//    by a factor 1..30: log cosh / sqrt(1+t^2)-1 are then nearly linear around the start (curvature ~ 0), a raw Newton step overshoots by
//    orders of magnitude and one-dimensional searches give up / fail - "the optimiser stays where it was" must still hold.
// The variant is drawn from a side stream derived from (VERIF_SEED, group, case index): deterministic, and the draws of the main
// stream (hence all cases without a variant) are exactly as before.
// ------------------------------------------------------------------------------------------------
struct Variant
{
  double level, scale, flat, far;
  Variant() : level(1), scale(1), flat(1), far(1) {}
  bool any() const { return level != 1 || scale != 1 || flat != 1 || far != 1; }
  string cls() const { return string(level != 1 ? ":level<1" : "") + (scale != 1 ? ":scaled-down" : "") + (flat != 1 || far != 1 ? ":flat-far" : ""); }
  string text() const
  {
    if (!any()) return "";
    return " variant{" + string(level != 1 ? " fmin*" + str(level) : "") + (scale != 1 ? " objective*" + str(scale) : "") + (flat != 1 ? " ridge*" + str(flat) : "") + (far != 1 ? " (start-m)*" + str(far) : "") + " }";
  }
};

// pLevel / pScale: percentages of the level and of the scale variant (exclusive; independent of each other when `both`), lo: smallest factor
Variant pickVariant(const vrt::Case& cs, const Problem& pb, size_t pLevel = 25, size_t pScale = 15, double lo = 1e-3, bool both = false)
{
  vrt::Rng side(vrt::mix(vrt::mix(cs.seed, vrt::hashStr("C10/variant/" + cs.group)), cs.index));
  Variant v;
  size_t r = side.below(100), r2 = side.below(100);
  double f = side.logReal(lo, 1), f2 = side.logReal(lo, 1);
  if (r < pLevel) v.level = f;
  if (both ? r2 < pScale : (r >= pLevel && r < pLevel + pScale)) v.scale = f2;
  bool ff = side.chance(0.35);
  double flat = side.logReal(1e-7, 1e-1), far = side.logReal(1, 30);
  if (ff && !pb.quad) { v.flat = flat; v.far = far; }
  return v;
}

void applyVariant(const Variant& v, Problem& pb, vector<double>& start)
{
  pb.c *= v.level;
  if (v.scale != 1)
  {
    pb.c *= v.scale;
    for (size_t i = 0; i < pb.Q.size(); ++i) pb.Q[i] *= v.scale;
    for (size_t i = 0; i < pb.a.size(); ++i) pb.a[i] *= v.scale;
    pb.mu *= v.scale;
    if (pb.quad) { pb.lmin *= v.scale; pb.lmax *= v.scale; }
  }
  pb.mu *= v.flat;
  if (v.far != 1)
    for (size_t i = 0; i < pb.n; ++i) start[i] = pb.m[i] + v.far * (start[i] - pb.m[i]);
}

// ------------------------------------------------------------------------------------------------
// Interval constraints containing start and minimiser
// ------------------------------------------------------------------------------------------------
struct Box
{
  vector<shared_ptr<IntervalConstraint>> c; // null = unconstrained coordinate
  vector<double> lo, hi;
  bool any;
  bool startOnBound;
  bool outward;   // ... and the objective decreases towards the outside of that bound at the start (after C10-s14)
  Box() : c(), lo(), hi(), any(false), startOnBound(false), outward(false) {}
  string text() const
  {
    string s;
    for (size_t i = 0; i < c.size(); ++i) s += (i ? " " : "") + (c[i] ? c[i]->getDescription() : string("free"));
    return s;
  }
};

// refLo/refHi: per coordinate the smallest interval that must be inside (start and relevant minimiser)
// grad (optional): the gradient at the start.  Where the objective decreases towards the outside of a bound that may carry the start
// (correlated objectives: the minimiser is on the inside, the steepest descent leaves the box), the start is put on that bound in
// half of the cases instead of 12 %: the first direction of a gradient method is then blocked by the bound (after C10-s14).
Box genBox(vrt::Rng& rng, const vector<double>& start, const vector<double>& minim, bool none, const vector<bool>* only = nullptr, const vector<double>* grad = nullptr)
{
  Box b;
  size_t n = start.size();
  b.c.resize(n);
  b.lo.assign(n, -INF);
  b.hi.assign(n, INF);
  b.any = false;
  b.startOnBound = false;
  if (none) return b;
  for (size_t i = 0; i < n; ++i)
  {
    if (only && !(*only)[i]) continue;
    size_t r = rng.below(100);
    if (r < 25) continue;
    bool lower = r < 65 || (r >= 65 && r < 82);
    bool upper = r < 65 || r >= 82;
    double a = min(start[i], minim[i]), z = max(start[i], minim[i]);
    double dl = rng.logReal(1e-3, 20), du = rng.logReal(1e-3, 20);
    bool il = rng.chance(0.5), iu = rng.chance(0.5);
    // start exactly on a closed bound (the minimiser always stays strictly inside)
    const bool out = grad && ((start[i] <= minim[i] && lower && (*grad)[i] > 0) || (start[i] > minim[i] && upper && (*grad)[i] < 0));
    if (rng.chance(out ? 0.5 : 0.12))
    {
      if (start[i] <= minim[i] && lower) { dl = 0; il = true; b.startOnBound = true; }
      else if (start[i] > minim[i] && upper) { du = 0; iu = true; b.startOnBound = true; }
      if (out) b.outward = true;
    }
    double lo = a - dl, hi = z + du;
    if (lower && upper) b.c[i] = make_shared<IntervalConstraint>(lo, hi, il, iu);
    else if (lower) b.c[i] = make_shared<IntervalConstraint>(true, lo, il);
    else b.c[i] = make_shared<IntervalConstraint>(false, hi, iu);
    if (lower) b.lo[i] = lo;
    if (upper) b.hi[i] = hi;
    b.any = true;
  }
  return b;
}

// ------------------------------------------------------------------------------------------------
// Evaluation monitor + the Function test double
// ------------------------------------------------------------------------------------------------
struct Monitor
{
  const Box* box;
  unsigned long long nEval;
  unsigned long long nInfeasible;
  unsigned long long firstBadAt;
  vector<double> firstBad;
  bool touched;     // some evaluation within 1e-9 (relative) of a finite bound, or outside
  bool nonFinite;
  vector<double> last;
  vector<double> vals; // objective value of every evaluation, in order
  vector<double> extraRef; // values of the objective's extra parameters (never handed to the judged run) when the judged run starts
  unsigned long long nExtraMoved; // evaluations of the judged run made with an extra parameter away from that value (evidence only)
  Monitor() : box(nullptr), nEval(0), nInfeasible(0), firstBadAt(0), touched(false), nonFinite(false), nExtraMoved(0) {}
  void reset(const Box* b) { box = b; nEval = 0; nInfeasible = 0; firstBadAt = 0; firstBad.clear(); touched = false; nonFinite = false; last.clear(); vals.clear(); extraRef.clear(); nExtraMoved = 0; }
  void recordExtra(const vector<double>& q)
  {
    if (extraRef.size() == q.size() && extraRef != q) ++nExtraMoved;
  }
  void record(const vector<double>& x, double value)
  {
    ++nEval;
    last = x;
    vals.push_back(value);
    if (vrt::replaying()) vrt::note("eval #" + str(nEval) + " " + vrt::vecStr(x) + " -> " + str(value));
    for (size_t i = 0; i < x.size(); ++i)
      if (!std::isfinite(x[i])) nonFinite = true;
    if (!box) return;
    bool bad = false;
    for (size_t i = 0; i < x.size(); ++i)
    {
      if (!box->c[i]) continue;
      if (!box->c[i]->isCorrect(x[i])) bad = true;
      if (x[i] <= box->lo[i] + 1e-9 * (1 + fabs(box->lo[i])) || x[i] >= box->hi[i] - 1e-9 * (1 + fabs(box->hi[i]))) touched = true;
    }
    if (bad)
    {
      if (!nInfeasible) { firstBad = x; firstBadAt = nEval; }
      ++nInfeasible;
    }
  }
};

class Objective :
  public virtual SecondOrderDerivable,
  public AbstractParametrizable
{
public:
  const Problem* pb_;
  vector<string> names_;
  map<string, size_t> index_;
  vector<double> x_;
  // Optional second, independent group of parameters q0..q(k-1): the objective is f(p) + g(q), g(q) = sum w_j (q_j - t_j)^2 / 2
  // (block separable, strictly convex).  Used by the re-use histories: the optimiser object first works on the q group, then on the
  // p group; for the judged run over p the q's are parameters of the function that are not optimised, g(q) is a constant.
  vector<string> qnames_;
  vector<double> xq_, qt_, qw_;
  double val_;
  bool d1_, d2_;
  bool recorded_;
  Monitor* mon_;

  Objective(const Problem* pb, const vector<double>& start, Monitor* mon,
            const vector<double>& qStart = vector<double>(), const vector<double>& qTarget = vector<double>(), const vector<double>& qWeight = vector<double>()) :
    AbstractParametrizable(""), pb_(pb), names_(), index_(), x_(start), qnames_(), xq_(qStart), qt_(qTarget), qw_(qWeight), val_(0), d1_(true), d2_(true), recorded_(false), mon_(mon)
  {
    for (size_t i = 0; i < pb->n; ++i)
    {
      names_.push_back("p" + str(i));
      index_[names_[i]] = i;
      addParameter_(new Parameter(names_[i], start[i])); // the function's own parameters carry no constraint: it records, it does not police
    }
    for (size_t j = 0; j < xq_.size(); ++j)
    {
      qnames_.push_back("q" + str(j));
      index_[qnames_[j]] = pb->n + j;
      addParameter_(new Parameter(qnames_[j], xq_[j]));
    }
    val_ = pb_->eval(x_);
    if (!xq_.empty()) val_ += extraValue();
  }
  double extraValue() const
  {
    double g = 0;
    for (size_t j = 0; j < xq_.size(); ++j) g += 0.5 * qw_[j] * (xq_[j] - qt_[j]) * (xq_[j] - qt_[j]);
    return g;
  }
  Objective* clone() const override { return new Objective(*this); }

  void setParameters(const ParameterList& pl) override
  {
    recorded_ = false;
    matchParametersValues(pl);
    if (!recorded_) evaluate(); // an evaluation request at an unchanged point is still an evaluation
  }
  double getValue() const override { return val_; }
  void fireParameterChanged(const ParameterList&) override { evaluate(); }

  void enableFirstOrderDerivatives(bool yn) override { d1_ = yn; }
  bool enableFirstOrderDerivatives() const override { return d1_; }
  void enableSecondOrderDerivatives(bool yn) override { d2_ = yn; }
  bool enableSecondOrderDerivatives() const override { return d2_; }
  double getFirstOrderDerivative(const string& v) const override
  {
    size_t k = idx(v), n = pb_->n;
    return k < n ? pb_->d1(x_, k) : qw_[k - n] * (xq_[k - n] - qt_[k - n]);
  }
  double getSecondOrderDerivative(const string& v) const override
  {
    size_t k = idx(v), n = pb_->n;
    return k < n ? pb_->d2(x_, k, k) : qw_[k - n];
  }
  double getSecondOrderDerivative(const string& v1, const string& v2) const override
  {
    size_t k = idx(v1), l = idx(v2), n = pb_->n;
    if (k < n && l < n) return pb_->d2(x_, k, l);
    return k == l ? qw_[k - n] : 0.0; // the two groups are separable
  }

private:
  size_t idx(const string& v) const
  {
    map<string, size_t>::const_iterator it = index_.find(v);
    if (it == index_.end()) throw Exception("C10 objective: unknown variable " + v);
    return it->second;
  }
  void evaluate()
  {
    const ParameterList& pl = getParameters();
    for (size_t i = 0; i < x_.size(); ++i) x_[i] = pl[i].getValue();
    for (size_t j = 0; j < xq_.size(); ++j) xq_[j] = pl[x_.size() + j].getValue();
    val_ = pb_->eval(x_);
    if (!xq_.empty()) val_ += extraValue();
    recorded_ = true;
    if (mon_)
    {
      mon_->record(x_, val_);
      if (!xq_.empty()) mon_->recordExtra(xq_);
    }
  }
};

// step boundaries of the top-level optimiser (fired after every doStep)
class StepListener : public OptimizationListener
{
public:
  const Monitor* mon_;
  vector<unsigned long long> marks_;
  vector<unsigned> counters_; // the optimiser's own evaluation counter at the end of every step
  // (runs with a user-installed stop condition only) the iterates as a client sees them: getParameters() / getFunctionValue() when
  // init() has finished (entry 0) and at the end of every iteration - exactly what a stop condition on parameters / function values compares
  bool track_;
  vector<vector<double>> pts_;
  vector<double> fvals_;
  StepListener(const Monitor* mon) : mon_(mon), marks_(), counters_(), track_(false), pts_(), fvals_() {}
  void snapshot(const OptimizerInterface* o)
  {
    const ParameterList& pl = o->getParameters();
    vector<double> x(pl.size());
    for (size_t i = 0; i < pl.size(); ++i) x[i] = pl[i].getValue();
    pts_.push_back(x);
    fvals_.push_back(o->getFunctionValue());
  }
  void optimizationInitializationPerformed(const OptimizationEvent& ev) override
  {
    if (track_) { pts_.clear(); fvals_.clear(); snapshot(ev.getOptimizer()); }
  }
  void optimizationStepPerformed(const OptimizationEvent& ev) override
  {
    marks_.push_back(mon_->nEval);
    counters_.push_back(ev.getOptimizer()->getNumberOfEvaluations());
    if (track_) snapshot(ev.getOptimizer());
  }
  bool listenerModifiesParameters() const override { return false; }
};

// ------------------------------------------------------------------------------------------------
// Optimiser zoo
// ------------------------------------------------------------------------------------------------
enum Kind { BFGS = 0, CG, POWELL, DOWNHILL, SIMPLE, SIMPLENEWTON, BRENT_OUT, BRENT_IN, GOLDEN, NEWTON1D, META };
const char* kindName(Kind k)
{
  static const char* n[] = { "bfgs", "cg", "powell", "downhill", "simple", "simplenewton", "brent-outward", "brent-inward", "golden", "newton1d", "meta" };
  return n[k];
}
bool isOneD(Kind k) { return k == BRENT_OUT || k == BRENT_IN || k == GOLDEN || k == NEWTON1D; }

const string& policyOf(size_t i) { return i == 0 ? AutoParameter::CONSTRAINTS_AUTO : i == 1 ? AutoParameter::CONSTRAINTS_KEEP : AutoParameter::CONSTRAINTS_IGNORE; }

struct MetaPart
{
  Kind kind;
  vector<size_t> coords;
  bool full;
};

struct Ctx
{
  Kind kind;
  Problem pb;
  vector<double> start;
  Box box;
  string policy;
  double tol;
  bool generous;
  unsigned cap;
  bool clone;
  bool reuse;       // the optimiser object first runs a warm-up optimisation (not judged), then is re-initialised for the judged run
  // what the warm-up run of a re-used optimiser object works on:
  //  0 the same parameter list from another start; 1 another group of parameters of the function, same number; 2 another group, another number;
  //  3 the same parameters carrying other constraints
  int reuseMode;
  vector<double> qStart, qTarget, qWeight; // the other group (modes 1, 2): start, minimiser, curvature per parameter
  Box qBox;                                 // its constraints
  Box warmBox;                              // mode 3: the constraints of the warm-up run
  Variant variant;                          // level / scale / flat-far variant of (objective, start)
  // How the optimiser object that is run got its configuration (budget, tolerance, stop condition, constraint policy, verbosity, handlers,
  // initial interval ...): 0 configured directly; 1 clone() of a configured source; 2 copy construction from it; 3 assignment `target = source`
  // to a separately constructed object.  The source is destroyed before the copy is used.  `clone` == (copyMode != 0).
  int copyMode;
  bool decoy;       // assignment: the target carried a configuration of its own (other policy, tolerance 0.01, budget 1000000, own stop condition) before
  // Stop condition: 0 the optimiser's default one; 1 user-installed ParametersStopCondition(tol); 2 user-installed FunctionStopCondition(tol)
  int stopKind;
  bool stopAfterInit; // installed on the initialised optimiser (after init() of the judged run) rather than at configuration time
  string shape;       // decoupled / already optimal coordinates (text)
  Ctx() : kind(BFGS), tol(0), generous(true), cap(0), clone(false), reuse(false), reuseMode(0), copyMode(0), decoy(false), stopKind(0), stopAfterInit(false), coord(0), xinf(0), xsup(0), smin(0), q(0), metaN(1) {}
  // 1-D
  size_t coord;
  double xinf, xsup;
  double smin;      // minimiser of the slice
  double q;         // curvature of the slice (quadratic)
  string startPos;  // where the start sits in the initial interval
  // meta
  vector<MetaPart> parts;
  unsigned metaN;

  string optName() const
  {
    string s = kindName(kind);
    if (kind == META)
    {
      s += "[";
      for (size_t i = 0; i < parts.size(); ++i) s += string(i ? "+" : "") + kindName(parts[i].kind) + (parts[i].full ? "/full" : "/step") + (parts[i].coords.empty() ? "/empty" : "");
      s += "]";
    }
    return s;
  }
  // structural name used in violation signatures (the meta-optimiser: iteration types only)
  string sigName() const
  {
    if (kind != META) return kindName(kind);
    bool anyStep = false, anyFull = false;
    for (size_t i = 0; i < parts.size(); ++i)
      if (!parts[i].coords.empty()) { if (parts[i].full) anyFull = true; else anyStep = true; }
    bool dhStep = false;
    for (size_t i = 0; i < parts.size(); ++i)
      if (!parts[i].coords.empty() && parts[i].kind == DOWNHILL && !parts[i].full) dhStep = true;
    return string("meta(") + (anyStep && anyFull ? "mixed" : anyStep ? "step" : "full") + (dhStep ? ",dh-step" : "") + (hasDownhillFull() ? ",downhill-full" : "") + ")";
  }
  bool hasDownhillFull() const
  {
    for (size_t i = 0; i < parts.size(); ++i)
      if (!parts[i].coords.empty() && parts[i].kind == DOWNHILL && parts[i].full) return true;
    return false;
  }
  // a downhill simplex (stand-alone, or a 'full' part of the meta-optimiser) working on one or two parameters
  bool simplexLowDim() const
  {
    if (kind == DOWNHILL) return pb.n <= 2;
    if (kind != META) return false;
    for (size_t i = 0; i < parts.size(); ++i)
      if (!parts[i].coords.empty() && parts[i].kind == DOWNHILL && parts[i].full && parts[i].coords.size() <= 2) return true;
    return false;
  }
  string consClass() const { return !box.any ? "cons=none" : box.outward ? "cons=start-on-bound-descent-outward" : box.startOnBound ? "cons=start-on-bound" : "cons=some"; }
  string copyClass() const { return copyMode == 1 ? ":clone" : copyMode == 2 ? ":copy-constructed" : copyMode == 3 ? (decoy ? ":assigned-over-configured" : ":assigned") : ""; }
  string copyText() const
  {
    return copyMode == 1 ? " (cloned optimiser)" : copyMode == 2 ? " (copy-constructed optimiser)" :
           copyMode == 3 ? string(" (optimiser configured by assignment from a configured source") + (decoy ? "; the target had policy/tolerance 0.01/budget 1000000/FunctionStopCondition of its own before)" : ")") : "";
  }
  string stopClass() const { return stopKind == 1 ? "user-parameters-stop" : stopKind == 2 ? "user-function-stop" : "default-stop"; }
  string stopText() const
  {
    if (!stopKind) return "";
    return string(" stop-condition=") + (stopKind == 1 ? "ParametersStopCondition" : "FunctionStopCondition") + "(tol) installed " + (stopAfterInit ? "after init()" : "before init()");
  }
  string reuseClass() const
  {
    if (!reuse) return "";
    return reuseMode == 0 ? ":reuse" : reuseMode == 1 ? ":reuse-other-group" : reuseMode == 2 ? ":reuse-other-group-size" : ":reuse-other-constraints";
  }
  string reuseText() const
  {
    if (!reuse) return "";
    if (reuseMode == 0) return " (re-used optimiser: warm-up on the same parameter list from the point half way to the minimiser)";
    if (reuseMode == 3) return " (re-used optimiser: warm-up on the same parameters from the point half way to the minimiser with constraints {" + warmBox.text() + "})";
    return " (re-used optimiser: warm-up on the " + str(qStart.size()) + " other parameters q of the objective f(p)+sum w_j(q_j-t_j)^2/2, q=" + vrt::vecStr(qStart) + " t=" + vrt::vecStr(qTarget) + " w=" + vrt::vecStr(qWeight) +
           " constraints {" + qBox.text() + "}; judged run on the p group)";
  }
  string text() const
  {
    string s = optName() + " policy=" + policy + " " + pb.family() + " n=" + str(pb.n) + " kappa=" + str(pb.kappa) + " lmin=" + str(pb.lmin) + " fmin=" + str(pb.c) + (pb.quad ? string() : " ridge=" + str(pb.mu)) +
        " tol=" + str(tol) + " maxEval=" + str(cap) + stopText() + copyText() + reuseText() + variant.text() + " m=" + vrt::vecStr(pb.m) + " start=" + vrt::vecStr(start) + " f(start)=" + str(pb.eval(start)) +
        " constraints={" + box.text() + "}" + shape;
    if (isOneD(kind)) s += " coord=" + str(coord) + " interval=[" + str(xinf) + "," + str(xsup) + "] slice-min=" + str(smin) + " start@" + startPos;
    if (kind == META)
    {
      s += " metaN=" + str(metaN) + " parts:";
      for (size_t i = 0; i < parts.size(); ++i) s += " " + string(kindName(parts[i].kind)) + vrt::vecStr(parts[i].coords);
    }
    return s;
  }
};

ParameterList makeInitList(const Objective& obj, const Ctx& c, const vector<size_t>& coords)
{
  ParameterList pl;
  for (size_t k = 0; k < coords.size(); ++k)
  {
    size_t i = coords[k];
    shared_ptr<ConstraintInterface> cc = c.box.c[i];
    pl.addParameter(Parameter(obj.names_[i], c.start[i], cc));
  }
  return pl;
}

vector<size_t> allCoords(size_t n)
{
  vector<size_t> v;
  for (size_t i = 0; i < n; ++i) v.push_back(i);
  return v;
}

shared_ptr<OptimizerInterface> makeBasic(Kind k, shared_ptr<Objective> obj)
{
  switch (k)
  {
  case BFGS: return make_shared<BfgsMultiDimensions>(obj);
  case CG: return make_shared<ConjugateGradientMultiDimensions>(obj);
  case POWELL: return make_shared<PowellMultiDimensions>(obj);
  case DOWNHILL: return make_shared<DownhillSimplexMethod>(obj);
  case SIMPLE: return make_shared<SimpleMultiDimensions>(obj);
  case SIMPLENEWTON: return make_shared<SimpleNewtonMultiDimensions>(obj);
  case BRENT_OUT: case BRENT_IN: return make_shared<BrentOneDimension>(obj);
  case GOLDEN: return make_shared<GoldenSectionSearch>(obj);
  case NEWTON1D: return make_shared<NewtonOneDimension>(obj);
  default: return nullptr;
  }
}

void silence(OptimizerInterface& o)
{
  o.setMessageHandler(nullptr);
  o.setProfiler(nullptr);
  o.setVerbose(0);
}

// ParametersStopCondition's constructors write a "DEBUG: WARNING" line to std::cout when the optimiser is not initialised yet
// (installing the condition at configuration time is nevertheless the order every client uses, init() initialises the condition):
// std::cout is muted while the condition is constructed.
struct CoutMute
{
  streambuf* old_;
  CoutMute() : old_(cout.rdbuf(nullptr)) {}
  ~CoutMute() { cout.rdbuf(old_); }
};

// user-installed stop condition (general conditions of OptimizationStopCondition.h) with the tolerance of the case
void installStop(const Ctx& c, OptimizerInterface& o)
{
  if (c.stopKind == 1)
  {
    CoutMute mute;
    o.setStopCondition(make_shared<ParametersStopCondition>(&o, c.tol));
  }
  else if (c.stopKind == 2)
    o.setStopCondition(make_shared<FunctionStopCondition>(&o, c.tol));
}

// the constructed, not yet configured optimiser
shared_ptr<OptimizerInterface> makeRaw(const Ctx& c, shared_ptr<Objective> obj)
{
  if (c.kind != META) return makeBasic(c.kind, obj);
  unique_ptr<MetaOptimizerInfos> desc(new MetaOptimizerInfos());
  for (size_t i = 0; i < c.parts.size(); ++i)
  {
    shared_ptr<OptimizerInterface> in = makeBasic(c.parts[i].kind, obj);
    silence(*in);
    vector<string> names;
    for (size_t k = 0; k < c.parts[i].coords.size(); ++k) names.push_back(obj->names_[c.parts[i].coords[k]]);
    unsigned short der = (c.parts[i].kind == BFGS || c.parts[i].kind == CG) ? 1 : (c.parts[i].kind == SIMPLENEWTON || c.parts[i].kind == NEWTON1D) ? 2 : 0;
    desc->addOptimizer(string(kindName(c.parts[i].kind)) + str(i), in, names, der, c.parts[i].full ? MetaOptimizerInfos::IT_TYPE_FULL : MetaOptimizerInfos::IT_TYPE_STEP);
  }
  return make_shared<MetaOptimizer>(obj, std::move(desc), c.metaN);
}

// copy construction / assignment need the static type
template<class T>
shared_ptr<OptimizerInterface> copyTyped(const OptimizerInterface& src, int mode, const function<shared_ptr<OptimizerInterface>()>& target)
{
  const T& s = dynamic_cast<const T&>(src);
  if (mode == 2) return make_shared<T>(s);
  shared_ptr<OptimizerInterface> t = target();
  dynamic_cast<T&>(*t) = s;
  return t;
}

shared_ptr<OptimizerInterface> copyOptimizer(Kind k, const OptimizerInterface& src, int mode, const function<shared_ptr<OptimizerInterface>()>& target)
{
  switch (k)
  {
  case BFGS: return copyTyped<BfgsMultiDimensions>(src, mode, target);
  case CG: return copyTyped<ConjugateGradientMultiDimensions>(src, mode, target);
  case POWELL: return copyTyped<PowellMultiDimensions>(src, mode, target);
  case DOWNHILL: return copyTyped<DownhillSimplexMethod>(src, mode, target);
  case SIMPLE: return copyTyped<SimpleMultiDimensions>(src, mode, target);
  case SIMPLENEWTON: return copyTyped<SimpleNewtonMultiDimensions>(src, mode, target);
  case BRENT_OUT: case BRENT_IN: return copyTyped<BrentOneDimension>(src, mode, target);
  case GOLDEN: return copyTyped<GoldenSectionSearch>(src, mode, target);
  case NEWTON1D: return copyTyped<NewtonOneDimension>(src, mode, target);
  default: return copyTyped<MetaOptimizer>(src, mode, target);
  }
}

shared_ptr<OptimizerInterface> makeOptimizer(const Ctx& c, shared_ptr<Objective> obj)
{
  shared_ptr<OptimizerInterface> o = makeRaw(c, obj);
  silence(*o);
  o->setConstraintPolicy(c.policy);
  o->getStopCondition()->setTolerance(c.tol);
  o->setMaximumNumberOfEvaluations(c.cap);
  if (c.kind == BRENT_OUT || c.kind == BRENT_IN)
  {
    BrentOneDimension& b = dynamic_cast<BrentOneDimension&>(*o);
    b.setInitialInterval(c.xinf, c.xsup);
    b.setBracketing(c.kind == BRENT_IN ? BrentOneDimension::BRACKET_INWARD : BrentOneDimension::BRACKET_OUTWARD);
  }
  if (c.kind == GOLDEN) dynamic_cast<GoldenSectionSearch&>(*o).setInitialInterval(c.xinf, c.xsup);
  if (c.stopKind && !c.stopAfterInit) installStop(c, *o);
  if (c.copyMode == 1)
  {
    // a configured optimiser is copied and the original destroyed before the copy is used
    shared_ptr<OptimizerInterface> cp(o->clone());
    o.reset();
    o = cp;
  }
  else if (c.copyMode == 2 || c.copyMode == 3)
  {
    // ... copy-constructed, or assigned to a separately constructed object: a copy has the whole configuration of its source
    // (evaluation budget, tolerance, stop condition, constraint policy, verbosity, handlers, initial interval, sub-optimisers)
    shared_ptr<OptimizerInterface> cp = copyOptimizer(c.kind, *o, c.copyMode, [&]() {
          shared_ptr<OptimizerInterface> t = makeRaw(c, obj);
          silence(*t);
          if (c.decoy)
          {
            // the target was in use with another configuration: all of it is replaced by the assignment
            t->setConstraintPolicy(c.policy == AutoParameter::CONSTRAINTS_AUTO ? AutoParameter::CONSTRAINTS_KEEP : AutoParameter::CONSTRAINTS_AUTO);
            t->setStopCondition(make_shared<FunctionStopCondition>(t.get(), 0.01));
            t->setMaximumNumberOfEvaluations(1000000);
          }
          return t;
        });
    o.reset();
    o = cp;
  }
  return o;
}

struct RunResult
{
  vrt::Outcome init, opt;
  double ret, fval;
  vector<double> x;          // reported point (all coordinates of the objective)
  bool tolReached;
  unsigned nbEval;
  unsigned long long eInit, eTotal, eBeforeLastStep, maxStep;
  unsigned counterBeforeLastStep;
  size_t steps;
  bool touched;
  unsigned long long nInfeasible, firstBadAt;
  vector<double> firstBad;
  bool reportedFeasible;
  string infeasibleCoord;
  vector<double> valsToLastStep; // values of the evaluations made by init() and by the iterations (not by the final re-evaluation)
  double offset;                 // g(q): contribution of the parameters that are not handed to the judged run (constant during that run)
  unsigned long long nExtraMoved;
  vector<vector<double>> pts;    // user-installed stop condition: getParameters() after init() and after every iteration
  vector<double> fvals;          // ... and getFunctionValue()
};

const double F_SLACK = 1e-10;     // descent slack, relative to 1+|f(start)|
const double CONSIST_REL = 1e-12; // returned value vs objective at the reported point

// Runs the optimiser of ctx on coordinates `coords`; every library call that may raise is captured.
RunResult runOptimizer(const Ctx& c, const vector<size_t>& coords, Monitor& mon, shared_ptr<Objective>& objOut)
{
  RunResult r;
  r.ret = r.fval = 0;
  r.tolReached = false;
  r.nbEval = 0;
  r.eInit = r.eTotal = r.eBeforeLastStep = r.maxStep = 0;
  r.counterBeforeLastStep = 0;
  r.steps = 0;
  r.touched = false;
  r.nInfeasible = r.firstBadAt = 0;
  r.reportedFeasible = true;
  r.offset = 0;
  r.nExtraMoved = 0;
  mon.reset(&c.box);
  shared_ptr<Objective> obj = make_shared<Objective>(&c.pb, c.start, &mon, c.qStart, c.qTarget, c.qWeight);
  objOut = obj;
  shared_ptr<OptimizerInterface> opt;
  shared_ptr<StepListener> lis = make_shared<StepListener>(&mon);
  ParameterList pl = makeInitList(*obj, c, coords);
  r.init = vrt::capture([&] {
        opt = makeOptimizer(c, obj);
        if (c.reuse)
        {
          // warm-up run from the point half way between start and minimiser (inside every constraint), not judged
          ParameterList warm;
          if (c.reuseMode == 1 || c.reuseMode == 2)
          {
            // ... on another group of parameters of the same function (same or different number of parameters, own constraints)
            for (size_t j = 0; j < c.qStart.size(); ++j)
            {
              shared_ptr<ConstraintInterface> cc = c.qBox.c[j];
              warm.addParameter(Parameter(obj->qnames_[j], 0.5 * (c.qStart[j] + c.qTarget[j]), cc));
            }
          }
          else
          {
            // ... on the same parameters, with the constraints of the judged run (mode 0) or with other constraints (mode 3)
            for (size_t k = 0; k < coords.size(); ++k)
            {
              double target = isOneD(c.kind) ? c.smin : c.pb.m[coords[k]];
              shared_ptr<ConstraintInterface> cc = c.reuseMode == 3 ? c.warmBox.c[coords[k]] : c.box.c[coords[k]];
              warm.addParameter(Parameter(obj->names_[coords[k]], 0.5 * (c.start[coords[k]] + target), cc));
            }
          }
          // other constraints: the function itself is moved to the warm-up start first (the MetaOptimizer starts from the function's
          // current point, which has to be admissible for the constraints handed to init())
          if (c.reuseMode == 3) obj->setParameters(warm);
          opt->init(warm);
          opt->optimize();
          obj->setParameters(makeInitList(*obj, c, allCoords(c.pb.n))); // back to the start, also for coordinates that are not optimised
          mon.reset(&c.box);
          // the other group stays where the warm-up left it: for the judged run it is a constant term of the objective
          r.offset = obj->extraValue();
          mon.extraRef = obj->xq_;
        }
        lis->track_ = c.stopKind != 0;
        opt->addOptimizationListener(lis);
        opt->init(pl);
        if (c.stopKind && c.stopAfterInit) installStop(c, *opt);
      });
  r.eInit = mon.nEval;
  if (!r.init.returned()) { r.opt = r.init; r.eTotal = mon.nEval; r.touched = mon.touched; r.nInfeasible = mon.nInfeasible; r.firstBad = mon.firstBad; r.firstBadAt = mon.firstBadAt; return r; }
  r.opt = vrt::capture([&] { r.ret = opt->optimize(); });
  r.eTotal = mon.nEval;
  r.touched = mon.touched;
  r.nInfeasible = mon.nInfeasible;
  r.firstBad = mon.firstBad;
  r.firstBadAt = mon.firstBadAt;
  r.nExtraMoved = mon.nExtraMoved;
  r.steps = lis->marks_.size();
  if (c.kind == DOWNHILL)
    r.valsToLastStep.assign(mon.vals.begin(), mon.vals.begin() + static_cast<long>(lis->marks_.empty() ? r.eInit : lis->marks_.back()));
  {
    unsigned long long prev = r.eInit;
    for (size_t i = 0; i < lis->marks_.size(); ++i) { r.maxStep = max(r.maxStep, lis->marks_[i] - prev); prev = lis->marks_[i]; }
    r.eBeforeLastStep = lis->marks_.size() >= 2 ? lis->marks_[lis->marks_.size() - 2] - r.eInit : 0;
    r.counterBeforeLastStep = lis->counters_.size() >= 2 ? lis->counters_[lis->counters_.size() - 2] : 0;
  }
  r.pts = lis->pts_;
  r.fvals = lis->fvals_;
  if (!r.opt.returned()) return r;
  vrt::Outcome q = vrt::capture([&] {
        r.fval = opt->getFunctionValue();
        r.tolReached = opt->isToleranceReached();
        r.nbEval = opt->getNumberOfEvaluations();
        r.x = c.start;
        const ParameterList& res = opt->getParameters();
        for (size_t k = 0; k < coords.size(); ++k)
        {
          double v = res.getParameterValue(obj->names_[coords[k]]);
          r.x[coords[k]] = v;
          if (c.box.c[coords[k]] && !c.box.c[coords[k]]->isCorrect(v)) { r.reportedFeasible = false; r.infeasibleCoord = obj->names_[coords[k]] + "=" + str(v); }
        }
      });
  if (!q.returned()) r.opt = q;
  return r;
}

string outcomeClass(const vrt::Outcome& o)
{
  if (o.returned()) return "returned";
  return (o.raisedBpp() ? "bpp:" : "foreign:") + o.type;
}

// ------------------------------------------------------------------------------------------------
// Oracles shared by all optimiser groups
// ------------------------------------------------------------------------------------------------
// Bound on f(reported)-fmin when the optimiser says its tolerance is reached on a quadratic whose constraints
// were never approached.  Derivations (notes/C10.md):
//  * Brent: at stop b-a <= 4 tol1, tol1 = tol|x|+1e-10, the minimiser is inside [a,b]  => |x-m| <= 4 (tol|x|+1e-10)
//  * golden section: at stop |x3-x0| <= tol (|x1|+|x2|), minimiser inside [x0,x3]      => |x-m| <= 2 tol max|x|
//  * Newton 1-D on a quadratic: the step is exact, the function-difference rule stops one step later
//  * multi-dimensional, stop rule = decrease of one iteration below tol (absolute or relative to |f|): for exact cyclic
//    coordinate minimisation on a quadratic gap <= n kappa^2 decrease; exact-line-search CG gap <= kappa decrease.
// All with K = 100 and a floor for the resolution of f in double precision.
const double KCONV = 100;
double floorF(const Problem& pb) { return 1e-12 * (1 + fabs(pb.c)); }

bool usesBfgs(const Ctx& c)
{
  if (c.kind == BFGS) return true;
  for (size_t i = 0; i < c.parts.size(); ++i) if (c.parts[i].kind == BFGS && !c.parts[i].coords.empty()) return true;
  return false;
}
// BFGS has a second, fixed stop rule: its backtracking line search (lineSearch, tolerance 1e-4 as in NRC's TOLX test)
// declares convergence when the proposed quasi-Newton step is below 1e-4 relative to max(|x_i|,1) in every coordinate.
// The step is s = -H Q (x-m) with the inverse-Hessian estimate H between I (initial) and Q^-1 (converged), hence
// |x-m| <= |Q^-1| |H^-1| |s| <= max(1,lmax)/min(1,lmin) |s|.
double gapBoundMulti(const Ctx& c, const vector<double>& x)
{
  double b = KCONV * static_cast<double>(c.pb.n) * c.pb.kappa * c.pb.kappa * c.tol * (1 + fabs(c.pb.c)) + KCONV * floorF(c.pb);
  if (usesBfgs(c))
  {
    double ax = 1;
    for (size_t i = 0; i < x.size(); ++i) ax = max(ax, fabs(x[i]));
    double phi = max(1.0, c.pb.lmax) / min(1.0, c.pb.lmin);
    b += KCONV * 0.5 * c.pb.lmax * static_cast<double>(c.pb.n) * (phi * 1e-4 * ax) * (phi * 1e-4 * ax);
    // The backtracking search accepts a step on sufficient decrease only (f_new <= f_old + 1e-4 lambda slope), so an accepted
    // step can decrease f by as little as 1e-4 lambda g'Hg; when that is below tol the function-difference rule stops the run:
    // |g|^2 <= decrease / (1e-4 lambda lmin(H)) and gap <= |g|^2 / (2 lmin(Q)).  (Seen: 1-D, Q ~ 2, first step with H = I lands
    // on the mirror image of the start.)  lambda lmin(H) >= 1/phi^2 generously; constant 10.
    b += 10 * 1e4 * c.tol * phi * phi / (2 * c.pb.lmin);
  }
  return b;
}
double dxBoundOneD(const Ctx& c, double x)
{
  double ax = max(fabs(x), fabs(c.smin));
  return KCONV * (c.tol * ax + 1e-10) + sqrt(2 * KCONV * floorF(c.pb) / c.q);
}

// histogram of observed/allowed ratios (evidence only): bucket = decimal exponent of the ratio
void margin(const string& what, double observed, double allowed)
{
  double r = allowed > 0 ? observed / allowed : (observed > 0 ? 1e9 : 0);
  int e = r <= 1e-9 ? -9 : static_cast<int>(floor(log10(r)));
  vrt::tally("margin:" + what + ":1e" + str(e));
}

string budgetClass(const Ctx& c) { return c.generous ? "budget=generous" : c.cap <= 2 ? "budget=0-2" : "budget=small"; }

void judgeRunImpl(const Ctx& c, const vector<size_t>& coords, const RunResult& r, const string& grp);

// Re-use history with another parameter group: during the judged run the objective is f(p) + g(q) with q not handed to the
// optimiser, i.e. the same family of objective with its minimum value raised by the constant g(q) (q as the warm-up left it).
// Everything is judged against that function: start value, value at the reported point, minimum.
void judgeRun(const Ctx& c, const vector<size_t>& coords, const RunResult& r, const string& grp)
{
  if (c.reuse && (c.reuseMode == 1 || c.reuseMode == 2))
  {
    Ctx cj = c;
    cj.pb.c += r.offset;
    if (r.nExtraMoved) vrt::tally("reuse:evaluations-with-unoptimised-parameters-moved:" + c.sigName());
    judgeRunImpl(cj, coords, r, grp);
  }
  else
    judgeRunImpl(c, coords, r, grp);
}

void judgeRunImpl(const Ctx& c, const vector<size_t>& coords, const RunResult& r, const string& grp)
{
  const string on = c.sigName();
  const string base = on + ":" + c.policy;
  const bool constrained = c.box.any;
  const double f0 = c.pb.eval(c.start);

  vrt::tally("outcome:" + base + ":" + (constrained ? "cons" : "free") + ":init=" + outcomeClass(r.init) + ":opt=" + outcomeClass(r.opt));

  // feasibility of every evaluation made so far (also when the run raised afterwards)
  if (c.policy == AutoParameter::CONSTRAINTS_AUTO && constrained)
  {
    vrt::expect(r.nInfeasible == 0, "feasible.evaluations", base, [&] {
          return c.text() + " => evaluation #" + str(r.firstBadAt) + " of " + str(r.eTotal) + " at " + vrt::vecStr(r.firstBad) + " is outside the constraints (" + str(r.nInfeasible) + " infeasible evaluations)";
        });
  }

  if (!r.opt.returned())
  {
    // A raise under KEEP next to a bound is legitimate (tabulated).  Without constraints in force
    // (none given / IGNORE) or with AUTO no constraint can be the cause: the run must report a point.
    bool excused = c.policy == AutoParameter::CONSTRAINTS_KEEP && constrained && r.opt.type == "bpp::ConstraintException";
    if (excused)
    {
      vrt::counted("run.raise-under-keep-unjudged");
      vrt::cover(grp + ":" + base + ":raised-under-keep");
    }
    else
      vrt::expect(false, "run.returns", base + ":" + (r.init.returned() ? "optimize" : "init") + ":" + outcomeClass(r.opt), [&] { return c.text() + " => " + r.opt.text(); });
    return;
  }
  vrt::counted("run.returns");

  const double fr = c.pb.eval(r.x);
  const string stop = r.tolReached ? "stop=tol" : "stop=cap";
  vrt::cover(grp + ":" + base + ":" + c.pb.family() + ":" + (c.pb.n == 1 ? "n1" : c.pb.n <= 3 ? "n2-3" : "n4-6") + ":" + c.consClass() + (constrained && r.touched ? "+touched" : "") + ":" + budgetClass(c) + ":" + stop + c.copyClass() + (c.stopKind ? ":" + c.stopClass() + (c.stopAfterInit ? "@init" : "") : "") + c.reuseClass() + c.variant.cls() + (f0 < 1 ? ":f(start)<1" : ""));

  // (1) descent
  vrt::expect(fr <= f0 + F_SLACK * (1 + fabs(f0)), "descent", base + ":" + stop, [&] {
        return c.text() + " => reported " + vrt::vecStr(r.x) + " f=" + str(fr) + " > f(start)=" + str(f0) + " (" + str(r.eTotal) + " evaluations, " + str(r.steps) + " steps)";
      });
  // (2) consistency
  vrt::expect(vrt::close(r.ret, fr, CONSIST_REL, 0), "consistent.returned", base + ":" + stop, [&] {
        return c.text() + " => optimize() returned " + str(r.ret) + " but the objective at getParameters() " + vrt::vecStr(r.x) + " is " + str(fr);
      });
  vrt::expect(vrt::close(r.fval, fr, CONSIST_REL, 0), "consistent.getFunctionValue", base + ":" + stop, [&] {
        return c.text() + " => getFunctionValue() = " + str(r.fval) + " but the objective at getParameters() " + vrt::vecStr(r.x) + " is " + str(fr) + " (optimize() returned " + str(r.ret) + ")";
      });
  // (3) budget.  The library accounts evaluations with its own counter (getNumberOfEvaluations); by its documented
  // convention the evaluations spent inside init() - also the init() of nested one-dimensional optimisers, i.e. their
  // bracketing - are not counted.  (a) exact: no iteration starts once the counter has reached the budget;
  // (b) literal reading with a generous factor for the uncounted nested initialisations: every nested Brent run counts
  // at least 5 evaluations (burn-in 3) and brackets a convex function in at most ~40 evaluations (interval growth >= 1.618
  // per evaluation from a width >= 1e-6 to a distance <= 1e3)  => recorded <= (1 + 40/5) counted, F = 10;
  // (c) the counter is honest within the same factor.
  {
    const double F = 10, A = 20.0 * static_cast<double>(c.pb.n + 1);
    vrt::expect(r.counterBeforeLastStep <= c.cap, "budget.counter", base, [&] {
          return c.text() + " => getNumberOfEvaluations() was " + str(r.counterBeforeLastStep) + " when the last of " + str(r.steps) + " iterations started, budget " + str(c.cap);
        });
    if (r.steps >= 2 && c.cap > 0) margin("budget.evaluations:" + on, static_cast<double>(r.eBeforeLastStep), static_cast<double>(c.cap));
    if (r.nbEval > 0) margin("budget.counter-honest:" + on, static_cast<double>(r.eTotal - r.eInit), static_cast<double>(r.nbEval));
    vrt::expect(static_cast<double>(r.eBeforeLastStep) <= F * c.cap + A, "budget.evaluations", base, [&] {
          return c.text() + " => " + str(r.eBeforeLastStep) + " evaluations had been made by optimize() when its last iteration started, budget " + str(c.cap) + " (total " + str(r.eTotal - r.eInit) +
          ", largest iteration " + str(r.maxStep) + ", getNumberOfEvaluations=" + str(r.nbEval) + ")";
        });
    vrt::expect(static_cast<double>(r.eTotal - r.eInit) <= F * r.nbEval + A, "budget.counter-honest", base, [&] {
          return c.text() + " => optimize() made " + str(r.eTotal - r.eInit) + " evaluations in " + str(r.steps) + " iterations but getNumberOfEvaluations() = " + str(r.nbEval);
        });
    if (!c.generous && r.steps >= 2) vrt::cover(grp + ":" + on + ":budget-binding:" + (r.tolReached ? "tol-first" : "cap-first"));
  }
  // (4) feasibility of the reported point
  if (c.policy == AutoParameter::CONSTRAINTS_AUTO && constrained)
    vrt::expect(r.reportedFeasible, "feasible.reported", base, [&] { return c.text() + " => reported " + r.infeasibleCoord + " outside its constraint"; });

  // (5a) downhill simplex: what its stop rule does certify.  When the tolerance is reported as reached, the n+1 vertices are
  // evaluated points whose values have a relative spread 2|yhi-ylo|/(|yhi|+|ylo|) below the tolerance, and the best point ever
  // evaluated is a vertex (a trial point better than the worst vertex always enters the simplex).  Hence at least n+1 of the
  // recorded evaluations lie within that spread of the lowest recorded value, and so does the reported value.
  if (c.kind == DOWNHILL && c.stopKind == 0 && r.tolReached && r.steps >= 1)
  {
    double ymin = INF;
    for (size_t i = 0; i < r.valsToLastStep.size(); ++i) ymin = min(ymin, r.valsToLastStep[i]);
    size_t within = 0;
    const double lim = c.tol * (1 + 1e-9);
    for (size_t i = 0; i < r.valsToLastStep.size(); ++i)
    {
      double y = r.valsToLastStep[i];
      if (2 * fabs(y - ymin) <= lim * (fabs(y) + fabs(ymin))) ++within;
    }
    bool repOk = 2 * fabs(fr - ymin) <= lim * (fabs(fr) + fabs(ymin));
    vrt::expect(within >= coords.size() + 1 && repOk, "converge.simplex-stop-rule", base, [&] {
          return c.text() + " => isToleranceReached() but only " + str(within) + " of the " + str(r.valsToLastStep.size()) + " evaluated points are within the relative spread " + str(c.tol) + " of the lowest evaluated value " + str(ymin) +
          " (a simplex needs " + str(coords.size() + 1) + "); reported value " + str(fr);
        });
  }

  // (5b) user-installed general stop condition: what "tolerance reached" certifies, as documented in OptimizationStopCondition.h.
  // ParametersStopCondition: "stops the optimization when for all i |lambda_i,t - lambda_i,t-1| <= tolerance" (every parameter, not some);
  // FunctionStopCondition: "... when |f(lambda_t) - f(lambda_t-1)| <= tolerance".  The iterates are those a client sees (getParameters() /
  // getFunctionValue() after init() and at the end of every iteration).  Any objective, any policy, any budget.  Not judged where the
  // optimiser ends a run by a rule of its own: the coordinate-wise optimisers over a single parameter (one 1-D optimisation is the whole
  // work), BFGS when an iteration increased the function (it gives up with a message).
  if (c.stopKind != 0 && r.tolReached && r.steps >= 1 && r.pts.size() == r.steps + 1)
  {
    const vector<double>& xa = r.pts[r.steps - 1];
    const vector<double>& xb = r.pts[r.steps];
    const double va = r.fvals[r.steps - 1], vb = r.fvals[r.steps];
    bool ownRule = ((c.kind == SIMPLE || c.kind == SIMPLENEWTON) && coords.size() <= 1) || (c.kind == BFGS && vb > va);
    if (ownRule) vrt::counted("converge.user-stop-own-rule-unjudged");
    else if (c.stopKind == 1)
    {
      size_t worst = 0;
      double dmax = -1;
      for (size_t i = 0; i < xb.size() && i < xa.size(); ++i)
        if (fabs(xb[i] - xa[i]) > dmax) { dmax = fabs(xb[i] - xa[i]); worst = i; }
      const string pos = xb.size() <= 1 ? "single" : worst + 1 == xb.size() ? "last" : "not-last";
      vrt::expect(xa.size() == xb.size() && dmax <= c.tol * (1 + 1e-12), "converge.user-stop-rule", base + ":parameters:mover=" + pos, [&] {
            return c.text() + " => isToleranceReached() after " + str(r.steps) + " iterations, but during the last one parameter #" + str(worst) + " of " + str(xb.size()) + " moved by " + str(dmax) + " > tolerance " + str(c.tol) +
            ": " + vrt::vecStr(xa) + " -> " + vrt::vecStr(xb) + " (reported f-fmin=" + str(fr - c.pb.c) + ")";
          });
    }
    else
      vrt::expect(fabs(vb - va) <= c.tol * (1 + 1e-12), "converge.user-stop-rule", base + ":function", [&] {
            return c.text() + " => isToleranceReached() after " + str(r.steps) + " iterations, but the last one changed the function value by " + str(fabs(vb - va)) + " > tolerance " + str(c.tol) + " (" + str(va) + " -> " + str(vb) + ")";
          });
  }

  // (5) convergence: quadratic, constraints absent / removed / never approached, tolerance reported as reached
  bool inactive = !constrained || c.policy == AutoParameter::CONSTRAINTS_IGNORE || !r.touched
    // BFGS is the one optimiser with bound handling of its own (its direction is projected onto the box, Lo_/Up_): started on a bound with the
    // minimiser strictly inside it must still arrive (after C10-s14).  The others rely on AutoParameter clipping and may stall along a bound.
    || (c.kind == BFGS && c.box.startOnBound && c.policy == AutoParameter::CONSTRAINTS_AUTO); // keep: a blocked step raises and ends the run (thorough seed 1: one such bfgs:keep run)
  if (c.pb.quad && inactive && c.generous)
  {
    if (!r.tolReached)
    {
      vrt::counted("converge.cap-exhausted-unjudged");
      vrt::tally("cap-exhausted:" + base);
    }
    else if (c.stopKind != 0 && (c.kind == DOWNHILL || (c.stopKind == 1 && c.kind != SIMPLE && c.kind != SIMPLENEWTON)))
    {
      // User-installed condition for which no distance to the minimiser follows from the rule: the simplex reports its best vertex,
      // which stays where it is (same point, same value) during every iteration that only replaces another vertex; for the direction-set /
      // gradient methods "no parameter moved by more than tol" bounds the step, not the gradient.  Judged by (5b) only.
      vrt::counted("converge.user-stop-gap-unjudged");
    }
    else if (c.stopKind == 1 && coords.size() >= 2)
    {
      // ParametersStopCondition on the coordinate-wise optimisers (SimpleMultiDimensions: Brent per coordinate at relative tolerance tol,
      // SimpleNewtonMultiDimensions: exact Newton step per coordinate).  When no coordinate moved by more than tol during a sweep: coordinate k
      // was left within e = 4 (tol |x_k| + 1e-10) of its slice minimiser (Brent's stop rule, see dxBoundOneD), so df/dx_k <= Q_kk e then, and the
      // later moves of the sweep (|d_j| <= tol) change it by at most |Q_k.| |d| <= lmax sqrt(n) tol.  Hence |grad|^2 <= n lmax^2 (e + n tol)^2 and
      // gap <= |grad|^2 / (2 lmin) = n lmax kappa (e + n tol)^2 / 2; K = 100 and the resolution floor as everywhere.
      double ax = 1;
      for (size_t i = 0; i < r.x.size(); ++i) ax = max(ax, fabs(r.x[i]));
      const double nn = static_cast<double>(c.pb.n);
      const double e = (4 * ax + nn) * c.tol + 4e-10;
      const double bound = KCONV * 0.5 * nn * c.pb.lmax * c.pb.kappa * e * e + KCONV * floorF(c.pb);
      margin("converge:" + on + ":user-parameters-stop", fr - c.pb.c, bound);
      vrt::expect(fr - c.pb.c <= bound, "converge.quadratic", base + ":user-parameters-stop", [&] {
            return c.text() + " => reported " + vrt::vecStr(r.x) + " f-fmin=" + str(fr - c.pb.c) + " > bound " + str(bound) + " although isToleranceReached() (" + str(r.eTotal) + " evaluations, " + str(r.steps) + " steps)";
          });
    }
    else if (c.simplexLowDim() && grp != "known" && vrt::known("C10-downhill-stop-rule"))
    {
      // known finding: the simplex stop rule (relative spread of the vertex values) does not bound the distance to the minimiser
      vrt::counted("converge.downhill-known-unjudged");
      margin("converge-unjudged:" + on, fr - c.pb.c, gapBoundMulti(c, r.x));
    }
    else if (isOneD(c.kind) && c.kind != NEWTON1D)
    {
      double x = r.x[coords[0]];
      double bound = dxBoundOneD(c, x);
      margin("converge:" + on, fabs(x - c.smin), bound);
      vrt::expect(fabs(x - c.smin) <= bound, "converge.quadratic", base + ":" + c.startPos, [&] {
            return c.text() + " => reported x=" + str(x) + ", |x-min|=" + str(fabs(x - c.smin)) + " > bound " + str(bound) + " (f gap " + str(fr - c.pb.eval([&] { vector<double> y(c.start); y[coords[0]] = c.smin; return y; } ())) + ", " + str(r.eTotal) + " evaluations)";
          });
    }
    else
    {
      double fmin = c.pb.c;
      double bound = gapBoundMulti(c, r.x);
      if (isOneD(c.kind))
      {
        vector<double> y(c.start);
        y[coords[0]] = c.smin;
        fmin = c.pb.eval(y);
        bound = KCONV * c.tol * (1 + fabs(fmin)) + KCONV * floorF(c.pb);
      }
      margin("converge:" + (grp == "metaprec" ? c.optName() + ":steps=" + str(c.metaN) + (f0 < 1 ? ":f(start)<1" : ":f(start)>=1") : on), fr - fmin, bound);
      // a downhill simplex over one or two parameters is the class of known finding C10-downhill-stop-rule
      const string ccls = base + ((c.kind == DOWNHILL || (c.kind == META && c.hasDownhillFull())) ? (c.simplexLowDim() ? ":dim<=2" : ":dim>=3") : "");
      vrt::expect(fr - fmin <= bound, "converge.quadratic", ccls, [&] {
            return c.text() + " => reported " + vrt::vecStr(r.x) + " f-fmin=" + str(fr - fmin) + " > bound " + str(bound) + " although isToleranceReached() (" + str(r.eTotal) + " evaluations, " + str(r.steps) + " steps)";
          });
    }
  }
}

double pickTol(vrt::Rng& rng) { return rng.chance(0.5) ? pow(10.0, -static_cast<double>(rng.range(4, 10))) : rng.logReal(1e-10, 1e-4); }

void pickBudget(vrt::Rng& rng, Ctx& c)
{
  c.generous = rng.chance(0.6);
  if (c.generous) c.cap = 100000;
  else c.cap = rng.chance(0.15) ? static_cast<unsigned>(rng.range(0, 2)) : static_cast<unsigned>(rng.logReal(3, 400));
}

// What the warm-up run of a re-used optimiser object works on (drawn after everything else of the case).
void pickReuse(vrt::Rng& rng, Ctx& c, const vector<size_t>& coords)
{
  c.reuseMode = 0;
  if (!c.reuse) return;
  const size_t r = rng.below(100);
  // the sub-optimisers of a MetaOptimizer are bound to parameter names at construction: same parameters only
  if (c.kind == META) c.reuseMode = r < 50 ? 0 : 3;
  else c.reuseMode = r < 25 ? 0 : r < 65 ? 1 : r < 80 ? 2 : 3;
  if (c.reuseMode == 2 && isOneD(c.kind)) c.reuseMode = 1; // a one-dimensional optimiser takes one parameter
  const size_t sz = coords.size(), n = c.pb.n;
  if (c.reuseMode == 1 || c.reuseMode == 2)
  {
    size_t k = sz;
    if (c.reuseMode == 2) k = (sz > 1 && rng.chance(0.5)) ? sz - 1 : sz + 1;
    // the other group mirrors the geometry of the judged one (same starts / minimisers, so that initial intervals make sense), own curvatures
    for (size_t j = 0; j < k; ++j)
    {
      size_t i = coords[j % sz];
      c.qStart.push_back(c.start[i]);
      c.qTarget.push_back(isOneD(c.kind) ? c.smin : c.pb.m[i]);
      c.qWeight.push_back(rng.logReal(0.1, 10));
    }
    // own constraints containing start and minimiser; not under the keep policy (a warm-up that raises is not part of the history wanted here)
    c.qBox = genBox(rng, c.qStart, c.qTarget, c.policy == AutoParameter::CONSTRAINTS_KEEP || rng.chance(0.3));
  }
  else if (c.reuseMode == 3)
  {
    // other constraints for the same parameters: they contain the warm-up start and the minimiser, not necessarily the start of the judged run
    vector<double> warm(c.start), target(c.start);
    vector<bool> only(n, false);
    for (size_t k = 0; k < sz; ++k)
    {
      size_t i = coords[k];
      target[i] = isOneD(c.kind) ? c.smin : c.pb.m[i];
      warm[i] = 0.5 * (c.start[i] + target[i]);
      only[i] = true;
    }
    c.warmBox = genBox(rng, warm, target, c.policy == AutoParameter::CONSTRAINTS_KEEP || rng.chance(0.3), &only);
  }
}

// How the optimiser object got its configuration (side stream derived from (VERIF_SEED, group, case index): the draws of the main stream are
// unchanged).  The cases that used clone() are split between clone(), copy construction and assignment; one fresh case in ten becomes a
// copy-constructed or an assigned one.  A copy is a configured optimiser like any other: every clause applies unchanged, in particular the
// evaluation budget and the tolerance set on the source are those of the run.
void pickCopy(const vrt::Case& cs, Ctx& c)
{
  vrt::Rng side(vrt::mix(vrt::mix(cs.seed, vrt::hashStr("C10/copy/" + cs.group)), cs.index));
  const size_t r = side.below(100);
  const bool d = side.chance(0.5);
  if (c.clone) c.copyMode = r < 34 ? 1 : r < 60 ? 2 : 3;
  else if (r < 10) c.copyMode = r < 4 ? 2 : 3;
  c.decoy = c.copyMode == 3 && d;
  c.clone = c.copyMode != 0;
}

// ------------------------------------------------------------------------------------------------
// group "multi": BFGS, CG, Powell, downhill simplex, SimpleMultiDimensions, SimpleNewtonMultiDimensions
// ------------------------------------------------------------------------------------------------
void caseMulti(vrt::Case& cs)
{
  vrt::Rng& rng = cs.rng;
  Ctx c;
  c.kind = static_cast<Kind>(cs.index % 6);
  size_t n = 1 + (cs.index / 6) % 6;
  bool quad = rng.chance(0.6);
  c.pb = genProblem(rng, n, quad, rng.chance(0.5));
  c.start = genStart(rng, c.pb);
  c.variant = pickVariant(cs, c.pb);
  applyVariant(c.variant, c.pb, c.start);
  {
    vector<double> g0(c.pb.n);
    for (size_t i = 0; i < c.pb.n; ++i) g0[i] = c.pb.d1(c.start, i);
    const bool none = rng.chance(0.35);
    c.box = genBox(rng, c.start, c.pb.m, none, nullptr, &g0);
  }
  c.policy = policyOf(rng.below(3));
  c.tol = pickTol(rng);
  pickBudget(rng, c);
  c.clone = rng.chance(0.1);
  c.reuse = rng.chance(0.12);
  c.coord = 0; c.xinf = c.xsup = c.smin = c.q = 0; c.metaN = 1;
  vector<size_t> coords;
  for (size_t i = 0; i < n; ++i) coords.push_back(i);
  pickReuse(rng, c, coords);
  pickCopy(cs, c);
  vrt::describe(c.sigName() + ":" + c.policy + ":" + c.pb.family(), c.text());
  Monitor mon;
  shared_ptr<Objective> obj;
  RunResult r = runOptimizer(c, coords, mon, obj);
  judgeRun(c, coords, r, "multi");
}

// ------------------------------------------------------------------------------------------------
// group "oned": Brent (outward / inward bracketing), golden section, Newton 1-D on 1-D objectives and 1-D slices
// ------------------------------------------------------------------------------------------------
void caseOneD(vrt::Case& cs)
{
  vrt::Rng& rng = cs.rng;
  Ctx c;
  static const Kind kinds[4] = { BRENT_OUT, BRENT_IN, GOLDEN, NEWTON1D };
  c.kind = kinds[cs.index % 4];
  size_t n = rng.chance(0.5) ? 1 : static_cast<size_t>(rng.range(2, 6));
  bool quad = rng.chance(0.6);
  c.pb = genProblem(rng, n, quad, rng.chance(0.5));
  c.start = genStart(rng, c.pb);
  c.variant = pickVariant(cs, c.pb);
  applyVariant(c.variant, c.pb, c.start);
  c.coord = rng.below(n);
  c.smin = c.pb.sliceMin(c.start, c.coord);
  c.q = c.pb.d2(c.start, c.coord, c.coord);
  // the start must not already be optimal along the slice
  {
    vector<double> y(c.start);
    y[c.coord] = c.smin;
    double fs = c.pb.eval(y);
    for (int it = 0; it < 60 && c.pb.eval(c.start) - fs < 1e-3 * (1 + fabs(fs)); ++it)
      c.start[c.coord] += (c.start[c.coord] >= c.smin ? 1 : -1) * (0.05 + fabs(c.start[c.coord] - c.smin));
  }
  double s = c.start[c.coord];
  // initial interval
  c.startPos = "n/a";
  c.xinf = c.xsup = 0;
  if (c.kind != NEWTON1D)
  {
    size_t pos = c.kind == GOLDEN ? rng.below(2) : rng.below(3); // golden section ignores the parameter value: the start is an end point
    double w = rng.logReal(1e-3, 5);
    if (c.kind == BRENT_IN)
    {
      // inward bracketing scans the interval: it has to contain the minimiser of the slice
      double far = fabs(c.smin - s) + rng.logReal(1e-3, 5);
      if (pos == 0) { c.xinf = s; c.xsup = s + (c.smin >= s ? far : w); if (c.smin < s) pos = 2; }
      if (pos == 1) { c.xsup = s; c.xinf = s - (c.smin <= s ? far : w); if (c.smin > s) pos = 2; }
      if (pos == 2) { c.xinf = min(s, c.smin) - rng.logReal(1e-3, 5); c.xsup = max(s, c.smin) + rng.logReal(1e-3, 5); }
    }
    else
    {
      if (pos == 0) { c.xinf = s; c.xsup = s + w; }
      else if (pos == 1) { c.xinf = s - w; c.xsup = s; }
      else { c.xinf = s - w * rng.real(0.05, 0.95); c.xsup = c.xinf + w; }
    }
    c.startPos = pos == 0 ? "lower-end" : pos == 1 ? "upper-end" : "inside";
  }
  // constraint on the optimised coordinate only; it contains start, slice minimiser and (mostly) the initial interval
  {
    vector<double> mn(c.start);
    mn[c.coord] = c.smin;
    vector<bool> only(n, false);
    only[c.coord] = true;
    vector<double> ref(c.start);
    c.box = genBox(rng, ref, mn, rng.chance(0.35), &only);
    if (c.box.c[c.coord] && c.kind != NEWTON1D && rng.chance(0.9))
    {
      // widen so that the initial interval is inside
      double lo = c.box.lo[c.coord], hi = c.box.hi[c.coord];
      bool il = c.box.c[c.coord]->isCorrect(lo), iu = c.box.c[c.coord]->isCorrect(hi);
      if (lo > -INF && c.xinf < lo) lo = c.xinf - (il ? 0 : 1e-3);
      if (hi < INF && c.xsup > hi) hi = c.xsup + (iu ? 0 : 1e-3);
      if (lo != c.box.lo[c.coord] || hi != c.box.hi[c.coord])
      {
        if (lo > -INF && hi < INF) c.box.c[c.coord] = make_shared<IntervalConstraint>(lo, hi, il, iu);
        else if (lo > -INF) c.box.c[c.coord] = make_shared<IntervalConstraint>(true, lo, il);
        else c.box.c[c.coord] = make_shared<IntervalConstraint>(false, hi, iu);
        c.box.lo[c.coord] = lo;
        c.box.hi[c.coord] = hi;
      }
    }
  }
  c.policy = policyOf(rng.below(3));
  c.tol = pickTol(rng);
  pickBudget(rng, c);
  c.clone = rng.chance(0.1);
  c.reuse = rng.chance(0.12);
  c.metaN = 1;
  vector<size_t> coords(1, c.coord);
  pickReuse(rng, c, coords);
  pickCopy(cs, c);
  vrt::describe(c.sigName() + ":" + c.policy + ":" + c.pb.family(), c.text());
  Monitor mon;
  shared_ptr<Objective> obj;
  RunResult r = runOptimizer(c, coords, mon, obj);
  judgeRun(c, coords, r, "oned");
}

// ------------------------------------------------------------------------------------------------
// group "meta": MetaOptimizer over one or two sub-optimisers on disjoint parameter subsets
// ------------------------------------------------------------------------------------------------
void caseMeta(vrt::Case& cs)
{
  vrt::Rng& rng = cs.rng;
  Ctx c;
  c.kind = META;
  size_t n = 1 + cs.index % 6;
  bool quad = rng.chance(0.6);
  c.pb = genProblem(rng, n, quad, rng.chance(0.5));
  c.start = genStart(rng, c.pb);
  c.variant = pickVariant(cs, c.pb);
  applyVariant(c.variant, c.pb, c.start);
  {
    vector<double> g0(c.pb.n);
    for (size_t i = 0; i < c.pb.n; ++i) g0[i] = c.pb.d1(c.start, i);
    const bool none = rng.chance(0.35);
    c.box = genBox(rng, c.start, c.pb.m, none, nullptr, &g0);
  }
  c.policy = policyOf(rng.below(3));
  c.tol = pickTol(rng);
  pickBudget(rng, c);
  c.clone = rng.chance(0.1);
  c.reuse = rng.chance(0.12);
  c.coord = 0; c.xinf = c.xsup = c.smin = c.q = 0;
  c.metaN = static_cast<unsigned>(rng.range(1, 4));
  // partition of the coordinates into 1..3 parts (one of them may be empty, or name no optimised parameter)
  size_t nparts = 1 + rng.below(3);
  c.parts.resize(nparts);
  vector<size_t> perm;
  for (size_t i = 0; i < n; ++i) perm.push_back(i);
  rng.shuffle(perm);
  for (size_t i = 0; i < n; ++i) c.parts[rng.below(nparts)].coords.push_back(perm[i]);
  static const Kind inner[7] = { BFGS, CG, POWELL, DOWNHILL, SIMPLE, SIMPLENEWTON, NEWTON1D };
  for (size_t i = 0; i < nparts; ++i)
  {
    sort(c.parts[i].coords.begin(), c.parts[i].coords.end());
    do c.parts[i].kind = inner[rng.below(7)];
    while (c.parts[i].kind == NEWTON1D && c.parts[i].coords.size() != 1);
    c.parts[i].full = rng.chance(0.5);
    // known finding C10-meta-downhill-step: that configuration is run by its own group only
    if (vrt::known("C10-meta-downhill-step") && c.parts[i].kind == DOWNHILL && !c.parts[i].full) c.parts[i].full = true;
  }
  if (rng.chance(0.08))
  {
    // the restarted simplex: a single downhill sub-optimiser of type 'full' over all parameters
    c.parts.resize(1);
    c.parts[0].kind = DOWNHILL; c.parts[0].full = true; c.parts[0].coords.clear();
    for (size_t i = 0; i < n; ++i) c.parts[0].coords.push_back(i);
    nparts = 1;
    // With 4 precision steps the first stages run at so coarse a tolerance that a restarted simplex may not move at
    // all and the meta-optimiser's own stop rule fires (about 1e-4 of such runs; the mechanism of the recorded
    // finding C10-meta-downhill-step): that sub-class is left to the finding's witness group.
    if (vrt::known("C10-meta-downhill-step") && c.metaN > 3) c.metaN = 3;
  }
  for (size_t i = 0; i < nparts; ++i)
    if (!c.parts[i].coords.empty()) vrt::cover(string("meta:inner:") + kindName(c.parts[i].kind) + (c.parts[i].full ? "/full" : "/step") + ":" + c.policy);
  vector<size_t> coords;
  for (size_t i = 0; i < n; ++i) coords.push_back(i);
  pickReuse(rng, c, coords);
  pickCopy(cs, c);
  vrt::describe(c.sigName() + ":" + c.policy + ":" + c.pb.family(), c.text());
  Monitor mon;
  shared_ptr<Objective> obj;
  RunResult r = runOptimizer(c, coords, mon, obj);
  judgeRun(c, coords, r, "meta");
}

// ------------------------------------------------------------------------------------------------
// group "metaprec": the progressive-precision schedule of the MetaOptimizer.  Documented: with n precision steps the sub-optimisers
// run at increasing precisions "until precision eps at step n and later" (eps = the requested tolerance); the schedule is computed by
// init() from the tolerance, n and the value of the objective at the start.  Whatever n and whatever the magnitude of the starting
// value, a run that reports its tolerance as reached has therefore been finished at the requested tolerance, and the convergence
// clause applies with that tolerance.  One sub-optimiser over all parameters (every kind but the simplex; mostly iteration type 'full', where the
// meta-optimiser itself declares convergence after the n-th precision), n = 2..4 (index driven; more steps are not generated: with 8
// steps the unchanged library was seen to end runs through the function-difference rule of the meta-optimiser while the sub-optimiser
// still worked at a coarse precision and made no move - notes/C10.md), objectives whose starting value spans about 1e-9 .. 1e5 (minimum
// value lowered and / or whole objective scaled down, independently, or unchanged), fresh, cloned and re-initialised optimiser objects.
// No new clause: the runs are judged by judgeRun() like every other run.
// ------------------------------------------------------------------------------------------------
void caseMetaPrecision(vrt::Case& cs)
{
  vrt::Rng& rng = cs.rng;
  Ctx c;
  c.kind = META;
  // The downhill simplex is not run here (it is in group "meta", 1..4 steps): a re-initialised simplex (fixed size 0.2, relative-spread
  // stop rule) whose first, coarse precision is already met by the initial simplex makes no move, and the function-difference rule of
  // the meta-optimiser then ends the run at once - seen on the unchanged library at a rate of ~1e-4 per run (notes/C10.md).
  static const Kind inner[6] = { BFGS, CG, POWELL, SIMPLE, SIMPLENEWTON, NEWTON1D };
  Kind ik = inner[cs.index % 6];
  c.metaN = 2 + static_cast<unsigned>((cs.index / 6) % 3); // 2..4 (one step = no schedule: group "meta")
  size_t n = ik == NEWTON1D ? 1 : static_cast<size_t>(rng.range(1, 6)); // Newton 1-D takes one parameter
  bool quad = rng.chance(0.85);
  c.pb = genProblem(rng, n, quad, rng.chance(0.5));
  c.start = genStart(rng, c.pb);
  c.variant = pickVariant(cs, c.pb, 60, 60, 1e-6, true);
  applyVariant(c.variant, c.pb, c.start);
  c.box = genBox(rng, c.start, c.pb.m, rng.chance(0.6));
  c.policy = policyOf(rng.below(3));
  c.tol = pickTol(rng);
  c.generous = rng.chance(0.85);
  c.cap = c.generous ? 100000 : static_cast<unsigned>(rng.logReal(3, 400));
  c.clone = rng.chance(0.1);
  c.reuse = rng.chance(0.15);
  c.coord = 0; c.xinf = c.xsup = c.smin = c.q = 0;
  c.parts.resize(1);
  c.parts[0].kind = ik;
  c.parts[0].coords = allCoords(n);
  c.parts[0].full = rng.chance(0.8);
  vector<size_t> coords = allCoords(n);
  pickReuse(rng, c, coords);
  pickCopy(cs, c);
  vrt::cover(string("metaprec:inner:") + kindName(ik) + (c.parts[0].full ? "/full" : "/step") + ":steps=" + str(c.metaN) + (c.pb.eval(c.start) < 1 ? ":f(start)<1" : ":f(start)>=1"));
  vrt::describe(c.sigName() + ":" + c.policy + ":" + c.pb.family(), c.text());
  Monitor mon;
  shared_ptr<Objective> obj;
  RunResult r = runOptimizer(c, coords, mon, obj);
  judgeRun(c, coords, r, "metaprec");
}

// ------------------------------------------------------------------------------------------------
// group "stopcond": user-installed general stop conditions and copied configurations.
// The six multi-dimensional optimisers (index driven) x 1..6 parameters (index driven) with setStopCondition(ParametersStopCondition(tol))
// (60 %) or setStopCondition(FunctionStopCondition(tol)), installed at configuration time (before init(), carried over by copies) or on the
// initialised optimiser.  Quadratics (75 %) may have decoupled parameters (rows / columns of Q reduced to their diagonal entry: a principal
// sub-matrix plus diagonal entries of an SPD matrix, eigenvalues stay inside [lmin,lmax]), some of which start at their optimum: parameters
// that do not move, or stop moving long before the others, at any position of the list.  Optimiser object configured directly (40 %), or
// obtained by clone() / copy construction / assignment from the configured source (20 % each; half of the assignment targets had another
// configuration before).  Judged by judgeRun(): all clauses, plus the documented meaning of the installed condition (5b).
// ------------------------------------------------------------------------------------------------
void caseStopCond(vrt::Case& cs)
{
  vrt::Rng& rng = cs.rng;
  Ctx c;
  c.kind = static_cast<Kind>(cs.index % 6);
  size_t n = 1 + (cs.index / 6) % 6;
  bool quad = rng.chance(0.75);
  c.pb = genProblem(rng, n, quad, rng.chance(0.5));
  c.start = genStart(rng, c.pb);
  // decoupled / already optimal parameters
  if (quad && n >= 2 && rng.chance(0.65))
  {
    vector<bool> dec(n, false);
    size_t nd = 0;
    for (size_t i = 0; i < n; ++i) if (rng.chance(0.4)) { dec[i] = true; ++nd; }
    if (rng.chance(0.3) && !dec[n - 1]) { dec[n - 1] = true; ++nd; }
    if (nd == 0) { dec[rng.below(n)] = true; nd = 1; }
    if (nd == n) { dec[rng.below(n)] = false; --nd; }
    string sh = " decoupled={";
    for (size_t i = 0; i < n; ++i)
    {
      if (!dec[i]) continue;
      for (size_t j = 0; j < n; ++j) if (j != i) c.pb.Q[i * n + j] = c.pb.Q[j * n + i] = 0;
      bool opt = rng.chance(0.6);
      if (opt) c.start[i] = c.pb.m[i];
      sh += "p" + str(i) + (opt ? "@optimum " : " ");
    }
    c.shape = sh + "}";
    // the start stays non-optimal: the remaining displacement is enlarged if necessary
    for (int it = 0; it < 60 && c.pb.eval(c.start) - c.pb.c < 1e-3 * (1 + fabs(c.pb.c)); ++it)
      for (size_t i = 0; i < n; ++i)
        if (!dec[i]) c.start[i] = c.pb.m[i] + 2 * (c.start[i] - c.pb.m[i]) + (c.start[i] == c.pb.m[i] ? 0.05 : 0.0);
    vrt::cover(string("stopcond:shape:decoupled") + (dec[n - 1] ? ":last" : "") + (dec[0] ? ":first" : ""));
  }
  c.box = genBox(rng, c.start, c.pb.m, rng.chance(0.4));
  c.policy = policyOf(rng.below(3));
  c.tol = pickTol(rng);
  pickBudget(rng, c);
  c.stopKind = rng.chance(0.6) ? 1 : 2;
  c.stopAfterInit = rng.chance(0.3);
  {
    size_t r = rng.below(10);
    c.copyMode = r < 4 ? 0 : r < 6 ? 1 : r < 8 ? 2 : 3;
    c.decoy = rng.chance(0.5) && c.copyMode == 3;
    c.clone = c.copyMode != 0;
  }
  c.reuse = rng.chance(0.1);
  c.coord = 0; c.xinf = c.xsup = c.smin = c.q = 0; c.metaN = 1;
  vector<size_t> coords = allCoords(n);
  pickReuse(rng, c, coords);
  vrt::cover(string("stopcond:") + kindName(c.kind) + ":" + c.stopClass() + (c.stopAfterInit ? "@init" : "") + c.copyClass());
  vrt::describe(c.sigName() + ":" + c.policy + ":" + c.pb.family(), c.text());
  Monitor mon;
  shared_ptr<Objective> obj;
  RunResult r = runOptimizer(c, coords, mon, obj);
  judgeRun(c, coords, r, "stopcond");
}

// ------------------------------------------------------------------------------------------------
// group "known-meta-downhill-step": stored witness of known finding C10-meta-downhill-step.
// The meta-optimiser re-initialises a step-type sub-optimiser at every iteration; for the downhill simplex this
// rebuilds a simplex of fixed size 0.2 around the current point, so the iteration stalls as soon as no +0.2 probe
// improves and the function-difference stop rule then reports convergence far from the minimiser.
// ------------------------------------------------------------------------------------------------
void caseKnownMetaDownhillStep(vrt::Case& cs)
{
  Ctx c;
  c.kind = META;
  Problem& p = c.pb;
  p.n = 2; p.quad = true; p.phi = LOGCOSH; p.c = 2.0;
  p.m = { 0.05, 0.07 };
  p.Q = { 1.0, 0.0, 0.0, 1.0 };
  p.lmin = p.lmax = p.kappa = 1; p.mu = 0;
  c.start = { 0.10, 0.10 + 0.01 * static_cast<double>(cs.index) };
  c.box = genBox(cs.rng, c.start, p.m, true);
  c.policy = policyOf(cs.index % 3);
  c.tol = 1e-8;
  c.generous = true; c.cap = 100000; c.clone = false; c.reuse = false;
  c.coord = 0; c.xinf = c.xsup = c.smin = c.q = 0; c.metaN = 1;
  c.parts.resize(1);
  c.parts[0].kind = DOWNHILL; c.parts[0].full = false; c.parts[0].coords = { 0, 1 };
  vrt::describe(c.sigName() + ":" + c.policy + ":" + c.pb.family(), c.text());
  vector<size_t> coords = { 0, 1 };
  Monitor mon;
  shared_ptr<Objective> obj;
  RunResult r = runOptimizer(c, coords, mon, obj);
  judgeRun(c, coords, r, "known");
}

// ------------------------------------------------------------------------------------------------
// group "known-downhill-stop-rule": stored witness of known finding C10-downhill-stop-rule.
// The stop rule of the downhill simplex is 2|yhi-ylo|/(|yhi|+|ylo|) < tol.  A simplex whose vertices lie on (nearly) the
// same level set - in one dimension: two points at equal distance on both sides of the minimiser - meets it at any size.
// ------------------------------------------------------------------------------------------------
void caseKnownDownhillStop(vrt::Case& cs)
{
  Ctx c;
  c.kind = DOWNHILL;
  Problem& p = c.pb;
  p.n = 1; p.quad = true; p.phi = LOGCOSH; p.c = 3.0;
  p.m = { 0.5 };
  p.Q = { 2.0 };
  p.lmin = p.lmax = 2; p.kappa = 1; p.mu = 0;
  // initial simplex {0.375, 0.575}, minimiser 0.425: the reflection of 0.575 fails, the contraction gives 0.475 and the
  // simplex {0.375, 0.475} is symmetric around the minimiser: zero spread of the values, half-width 0.05
  c.start = { 0.375 };
  p.m[0] = 0.425;
  c.box = genBox(cs.rng, c.start, p.m, true);
  c.policy = policyOf(cs.index % 3);
  c.tol = 1e-8;
  c.generous = true; c.cap = 100000; c.clone = false; c.reuse = false;
  c.coord = 0; c.xinf = c.xsup = c.smin = c.q = 0; c.metaN = 1;
  vrt::describe(c.sigName() + ":" + c.policy + ":" + c.pb.family(), c.text());
  vector<size_t> coords = { 0 };
  Monitor mon;
  shared_ptr<Objective> obj;
  RunResult r = runOptimizer(c, coords, mon, obj);
  judgeRun(c, coords, r, "known");
}

// ------------------------------------------------------------------------------------------------
// group "line": Newton backtracking along a direction, lineSearch / lineMinimization tools
// ------------------------------------------------------------------------------------------------
struct LineCtx
{
  Problem pb;
  vector<double> p, xi, g;
  Box box;
  string policy;
  string dirKind;
  double slope, tol;
  string text() const
  {
    return string("policy=") + policy + " " + pb.family() + " n=" + str(pb.n) + " kappa=" + str(pb.kappa) + " fmin=" + str(pb.c) + " m=" + vrt::vecStr(pb.m) + " p=" + vrt::vecStr(p) + " f(p)=" + str(pb.eval(p)) +
           " direction(" + dirKind + ")=" + vrt::vecStr(xi) + " slope=" + str(slope) + " tol=" + str(tol) + " constraints={" + box.text() + "}";
  }
};

ParameterList policyList(const Objective& obj, const LineCtx& c)
{
  // what AbstractOptimizer::init hands to the line tools under each policy
  ParameterList pl;
  for (size_t i = 0; i < c.pb.n; ++i)
  {
    shared_ptr<ConstraintInterface> cc = c.box.c[i];
    Parameter prm(obj.names_[i], c.p[i], cc);
    if (c.policy == AutoParameter::CONSTRAINTS_AUTO)
    {
      AutoParameter ap(prm);
      ap.setMessageHandler(nullptr);
      pl.addParameter(ap);
    }
    else
    {
      if (c.policy == AutoParameter::CONSTRAINTS_IGNORE) prm.removeConstraint();
      pl.addParameter(prm);
    }
  }
  return pl;
}

void caseLine(vrt::Case& cs)
{
  vrt::Rng& rng = cs.rng;
  LineCtx c;
  size_t mode = cs.index % 3; // 0 NewtonBacktrackOneDimension, 1 lineSearch, 2 lineMinimization
  size_t n = 1 + (cs.index / 3) % 6;
  bool quad = rng.chance(0.6);
  c.pb = genProblem(rng, n, quad, rng.chance(0.5));
  c.p = genStart(rng, c.pb);
  c.g.resize(n);
  for (size_t i = 0; i < n; ++i) c.g[i] = c.pb.d1(c.p, i);
  // descent direction
  size_t dk = rng.below(3);
  c.xi.resize(n);
  if (dk == 0 && quad) { c.dirKind = "newton"; for (size_t i = 0; i < n; ++i) c.xi[i] = c.pb.m[i] - c.p[i]; }
  else if (dk <= 1)
  {
    c.dirKind = "steepest";
    double sc = rng.logReal(0.01, 100);
    for (size_t i = 0; i < n; ++i) c.xi[i] = -sc * c.g[i];
  }
  else
  {
    c.dirKind = "random-descent";
    double sc = rng.logReal(0.01, 10), d = 0;
    for (size_t i = 0; i < n; ++i) { c.xi[i] = sc * rng.gauss(); d += c.xi[i] * c.g[i]; }
    if (d > 0) for (size_t i = 0; i < n; ++i) c.xi[i] = -c.xi[i];
  }
  c.slope = 0;
  for (size_t i = 0; i < n; ++i) c.slope += c.xi[i] * c.g[i];
  c.box = genBox(rng, c.p, c.pb.m, rng.chance(0.4));
  c.policy = policyOf(rng.below(3));
  c.tol = mode == 0 ? pickTol(rng) : 0.0001;
  const string op = mode == 0 ? "newtonbacktrack" : mode == 1 ? "lineSearch" : "lineMinimization";
  const string base = op + ":" + c.policy;
  vrt::describe(base + ":" + c.pb.family(), op + " " + c.text());
  if (!(c.slope < 0)) { vrt::tally("line:degenerate-direction"); return; }

  Box noBox;
  Monitor mon;
  mon.reset(&c.box);
  shared_ptr<Objective> obj = make_shared<Objective>(&c.pb, c.p, &mon);
  const double f0 = c.pb.eval(c.p);
  const bool constrained = c.box.any;
  vector<double> rep;
  double ret = 0, fval = 0, lambda = 0;
  bool tolReached = false;
  vrt::Outcome o;
  vector<double> xi(c.xi), grad(c.g);
  shared_ptr<DirectionFunction> f1 = make_shared<DirectionFunction>(obj);
  if (mode == 0)
  {
    // the optimiser is driven exactly as OneDimensionOptimizationTools::lineSearch drives it, but with the policy under test
    o = vrt::capture([&] {
          ParameterList pl;
          for (size_t i = 0; i < n; ++i) { shared_ptr<ConstraintInterface> cc = c.box.c[i]; pl.addParameter(Parameter(obj->names_[i], c.p[i], cc)); }
          f1->setConstraintPolicy(c.policy);
          f1->setMessageHandler(nullptr);
          f1->init(pl, xi);
          double test = 0;
          for (size_t i = 0; i < n; ++i)
          {
            double x = fabs(c.p[i]), t = fabs(xi[i]);
            if (x > 1.0) t /= x;
            if (t > test) test = t;
          }
          NewtonBacktrackOneDimension nb(f1, c.slope, test);
          silence(nb);
          nb.getStopCondition()->setTolerance(c.tol);
          nb.setConstraintPolicy(AutoParameter::CONSTRAINTS_KEEP);
          ParameterList single;
          single.addParameter(Parameter("x", 0.0));
          nb.init(single);
          ret = nb.optimize();
          fval = nb.getFunctionValue();
          tolReached = nb.isToleranceReached();
          lambda = nb.getParameters()[0].getValue();
          // where is the reported abscissa in the space of the objective?
          f1->setParameters(nb.getParameters());
          rep = mon.last;
        });
  }
  else
  {
    ParameterList pl;
    o = vrt::capture([&] {
          pl = policyList(*obj, c);
          obj->setParameters(pl);
          unsigned nev = 0;
          if (mode == 1) nev = OneDimensionOptimizationTools::lineSearch(f1, pl, xi, grad, nullptr, nullptr, 0);
          else nev = OneDimensionOptimizationTools::lineMinimization(f1, pl, xi, c.tol, nullptr, nullptr, 0);
          (void)nev;
          rep.resize(n);
          for (size_t i = 0; i < n; ++i) rep[i] = pl[i].getValue();
        });
  }
  vrt::tally("outcome:" + base + ":" + (constrained ? "cons" : "free") + ":" + outcomeClass(o));
  if (c.policy == AutoParameter::CONSTRAINTS_AUTO && constrained)
    vrt::expect(mon.nInfeasible == 0, "feasible.evaluations", base, [&] { return op + " " + c.text() + " => evaluation #" + str(mon.firstBadAt) + " at " + vrt::vecStr(mon.firstBad) + " is outside the constraints"; });
  if (!o.returned())
  {
    if (c.policy == AutoParameter::CONSTRAINTS_KEEP && constrained && o.type == "bpp::ConstraintException") { vrt::counted("run.raise-under-keep-unjudged"); vrt::cover("line:" + base + ":raised-under-keep"); }
    else vrt::expect(false, "run.returns", base + ":" + outcomeClass(o), [&] { return op + " " + c.text() + " => " + o.text(); });
    return;
  }
  vrt::counted("run.returns");
  const double fr = c.pb.eval(rep);
  vrt::cover("line:" + base + ":" + c.pb.family() + ":" + c.dirKind + ":" + (constrained ? (mon.touched ? "cons+touched" : "cons") : "free") + (mode == 0 ? (lambda == 0 ? ":lambda0" : lambda == 1 ? ":lambda1" : ":backtracked") : ""));
  vrt::expect(fr <= f0 + F_SLACK * (1 + fabs(f0)), "descent", base, [&] { return op + " " + c.text() + " => ends at " + vrt::vecStr(rep) + " f=" + str(fr) + " > f(p)=" + str(f0); });
  if (c.policy == AutoParameter::CONSTRAINTS_AUTO && constrained)
  {
    bool ok = true;
    for (size_t i = 0; i < n; ++i) if (c.box.c[i] && !c.box.c[i]->isCorrect(rep[i])) ok = false;
    vrt::expect(ok, "feasible.reported", base, [&] { return op + " " + c.text() + " => ends at " + vrt::vecStr(rep) + " outside the constraints"; });
  }
  bool inactive = !constrained || c.policy == AutoParameter::CONSTRAINTS_IGNORE || !mon.touched;
  if (mode == 0)
  {
    vrt::expect(vrt::close(ret, fr, CONSIST_REL, 0) && vrt::close(fval, fr, CONSIST_REL, 0), "consistent.returned", base, [&] {
          return op + " " + c.text() + " => optimize() returned " + str(ret) + ", getFunctionValue() " + str(fval) + ", objective at the reported abscissa " + str(lambda) + " (point " + vrt::vecStr(rep) + ") is " + str(fr);
        });
    // the documented stop rule (NRC lnsrch, ALF = 1e-4): a positive abscissa is returned only with sufficient decrease
    if (inactive && tolReached && lambda > 0)
      vrt::expect(fr <= f0 + 1e-4 * lambda * c.slope + 1e-9 * (1 + fabs(f0)), "converge.sufficient-decrease", base, [&] {
            return op + " " + c.text() + " => abscissa " + str(lambda) + " f=" + str(fr) + " > f(p)+1e-4*lambda*slope=" + str(f0 + 1e-4 * lambda * c.slope);
          });
    // Newton direction on a quadratic: the full step is the minimiser and must be accepted
    if (inactive && c.dirKind == "newton")
      vrt::expect(fr - c.pb.c <= KCONV * floorF(c.pb) + 1e-9 * (f0 - c.pb.c), "converge.quadratic", base, [&] {
            return op + " " + c.text() + " => abscissa " + str(lambda) + " f-fmin=" + str(fr - c.pb.c) + " although the full Newton step is the minimiser";
          });
  }
  if (mode == 2 && c.pb.quad && inactive)
  {
    // Brent on the line with relative tolerance 0.01: |l - l*| <= 4 (0.01 |l| + 1e-10); K = 10
    double dQd = 0;
    for (size_t i = 0; i < n; ++i)
      for (size_t j = 0; j < n; ++j) dQd += c.xi[i] * c.pb.Q[i * n + j] * c.xi[j];
    double lstar = -c.slope / dQd;
    double xx = 0, num = 0;
    for (size_t i = 0; i < n; ++i) { xx += c.xi[i] * c.xi[i]; num += (rep[i] - c.p[i]) * c.xi[i]; }
    double l = num / xx;
    double dl = 40 * (0.01 * max(fabs(l), fabs(lstar)) + 1e-10) + sqrt(2 * KCONV * floorF(c.pb) / dQd);
    double flstar = f0 - 0.5 * dQd * lstar * lstar;
    vrt::expect(fr - flstar <= 0.5 * dQd * dl * dl, "converge.line-minimum", base, [&] {
          return op + " " + c.text() + " => ends at abscissa " + str(l) + " f=" + str(fr) + ", line minimum at " + str(lstar) + " f=" + str(flstar) + ", allowed gap " + str(0.5 * dQd * dl * dl);
        });
  }
}

// ------------------------------------------------------------------------------------------------
// group "bracket": bracketMinimum / inwardBracketMinimum
// ------------------------------------------------------------------------------------------------
void caseBracket(vrt::Case& cs)
{
  vrt::Rng& rng = cs.rng;
  bool inward = cs.index % 2 == 1;
  size_t n = rng.chance(0.6) ? 1 : static_cast<size_t>(rng.range(2, 6));
  Problem pb = genProblem(rng, n, rng.chance(0.5), rng.chance(0.5));
  vector<double> start = genStart(rng, pb);
  size_t k = rng.below(n);
  double smin = pb.sliceMin(start, k);
  double a, b;
  string rel;
  if (inward)
  {
    size_t r = rng.below(10);
    if (r < 7) { a = smin - rng.logReal(1e-3, 20); b = smin + rng.logReal(1e-3, 20); rel = "min-inside"; }
    else if (r < 8) { a = smin + rng.logReal(1e-3, 5); b = a + rng.logReal(1e-3, 20); rel = "min-below"; }
    else if (r < 9) { b = smin - rng.logReal(1e-3, 5); a = b - rng.logReal(1e-3, 20); rel = "min-above"; }
    else { a = smin - rng.logReal(1e-3, 20); b = smin + rng.logReal(1e-3, 20); swap(a, b); rel = "min-inside-reversed"; }
  }
  else
  {
    a = start[k] + (rng.chance(0.3) ? 0.0 : rng.real(-3, 3));
    double w = rng.logReal(1e-4, 10) * (rng.chance(0.5) ? 1 : -1);
    b = a + w;
    double lo = min(a, b), hi = max(a, b);
    rel = smin < lo ? "min-outside" : smin > hi ? "min-outside" : "min-inside";
    rel += fabs(w) < 0.01 * fabs(smin - a) ? ":far" : ":near";
  }
  unsigned nint = static_cast<unsigned>(rng.range(2, 25));
  bool defaultN = rng.chance(0.5);
  const string op = inward ? "inwardBracketMinimum" : "bracketMinimum";
  string txt = op + "(" + str(a) + "," + str(b) + (inward && !defaultN ? "," + str(nint) : "") + ") " + pb.family() + " n=" + str(n) + " coord=" + str(k) + " slice-min=" + str(smin) + " point=" + vrt::vecStr(start);
  vrt::describe(op + ":" + pb.family(), txt);
  Monitor mon;
  mon.reset(nullptr);
  shared_ptr<Objective> obj = make_shared<Objective>(&pb, start, &mon);
  ParameterList pl;
  pl.addParameter(Parameter(obj->names_[k], start[k]));
  Bracket br;
  vrt::Outcome o = vrt::capture([&] {
        if (inward) br = defaultN ? OneDimensionOptimizationTools::inwardBracketMinimum(a, b, *obj, pl) : OneDimensionOptimizationTools::inwardBracketMinimum(a, b, *obj, pl, nint);
        else br = OneDimensionOptimizationTools::bracketMinimum(a, b, *obj, pl);
      });
  if (!vrt::expect(o.returned(), "bracket.returns", op, [&] { return txt + " => " + o.text(); })) return;
  vrt::cover("bracket:" + op + ":" + pb.family() + ":" + rel);
  struct P { double x, f; char name; };
  P pts[3] = { { br.a.x, br.a.f, 'a' }, { br.b.x, br.b.f, 'b' }, { br.c.x, br.c.f, 'c' } };
  string got = " => a=(" + str(br.a.x) + "," + str(br.a.f) + ") b=(" + str(br.b.x) + "," + str(br.b.f) + ") c=(" + str(br.c.x) + "," + str(br.c.f) + "), " + str(mon.nEval) + " evaluations";
  // the values of the triple are the objective at its abscissas
  bool valOk = true;
  for (int i = 0; i < 3; ++i)
  {
    vector<double> y(start);
    y[k] = pts[i].x;
    if (!vrt::close(pts[i].f, pb.eval(y), CONSIST_REL, 0)) valOk = false;
  }
  vrt::expect(valOk, "bracket.values", op, [&] { return txt + got + " : a value of the triple is not the objective at its abscissa"; });
  stable_sort(pts, pts + 3, [](const P& u, const P& v) { return u.x < v.x; });
  vrt::expect(pts[1].f <= pts[0].f && pts[1].f <= pts[2].f, "bracket.middle-lowest", op + ":" + (inward ? rel : string("middle=") + pts[1].name), [&] {
        return txt + got + " : the point with the middle abscissa (" + pts[1].name + ") does not have the lowest value";
      });
}
} // namespace

int main(int argc, char** argv)
{
  vector<vrt::Group> groups = {
    { "multi", 6000, 180000, caseMulti, 600, false },
    { "oned", 4000, 120000, caseOneD, 600, false },
    { "meta", 2000, 60000, caseMeta, 600, false },
    { "metaprec", 4200, 63000, caseMetaPrecision, 600, false },
    { "stopcond", 3000, 60000, caseStopCond, 600, false },
    { "line", 3000, 90000, caseLine, 600, false },
    { "bracket", 3000, 90000, caseBracket, 600, false },
    { "known-meta-downhill-step", 3, 3, caseKnownMetaDownhillStep, 600, false },
    { "known-downhill-stop-rule", 3, 3, caseKnownDownhillStop, 600, false },
  };
  vrt::Meta meta;
  meta.rule = "Objective = harness test double recording every evaluation: random SPD quadratic c + (x-m)'Q(x-m)/2 (condition <= 1e3, half of them <= 10, smallest eigenvalue in [0.1,10], "
      "c in [1,10], |m| <= 0.5/5/50) or smooth strictly convex non-quadratic sum a_i phi(w_i.(x-m)) + mu|x-m|^2/2, phi in {log cosh, sqrt(1+t^2)-1, t^2/2+t^4/4, t^2/2+max(t,0)^3}; start = m + r u, "
      "r log-uniform in [0.05,10], not already optimal; per coordinate no / two-sided / one-sided interval constraint (open or closed ends) containing start and minimiser, sometimes with the start on a closed end; "
      "policy auto/keep/ignore; tolerance 1e-4..1e-10; evaluation budget 100000 (convergence judged) or 0..400 (budget judged); optimiser object fresh, cloned (original destroyed) or re-used after a warm-up run (on the same parameter list from another start; on another group of "
      "parameters q of the block-separable objective f(p)+g(q), same or different number of parameters, own constraints; on the same parameters with other constraints). "
      "multi: BFGS, conjugate gradient, Powell, downhill simplex, SimpleMultiDimensions, SimpleNewtonMultiDimensions x dimension 1..6 (index-driven). oned: Brent with outward / inward bracketing, golden section, Newton 1-D on 1-D "
      "objectives and on 1-D slices of n-D ones; initial interval with the start at an end or inside. meta: MetaOptimizer over 1..3 sub-optimisers (7 kinds, iteration type step/full) on a random partition of the parameters "
      "(a part may be empty), 1..4 progressive-precision steps. metaprec: MetaOptimizer with one sub-optimiser (6 kinds - not the simplex -, index-driven; type full 80 %) over all parameters, 2..4 progressive-precision steps (index-driven), "
      "minimum value and / or whole objective scaled down by factors in [1e-6,1] (60 % each, independently). Variants (side stream derived from seed, group, index): multi / oned / meta: 25 % minimum value lowered by a factor in [1e-3,1), "
      "15 % whole objective scaled down by such a factor; non-quadratic objectives 35 %: ridge reduced by 1e-7..1e-1 and start moved away from the minimiser by a factor 1..30 (nearly flat far start). "
      "stopcond: the six multi-dimensional optimisers (index-driven) x 1..6 parameters (index-driven) with a user-installed ParametersStopCondition(tol) (60 %) or FunctionStopCondition(tol), installed before init() or on the initialised optimiser; "
      "quadratics (75 %) with, in 65 % of the cases with >= 2 parameters, a random non-empty proper subset of decoupled parameters (60 % of them starting at their optimum); optimiser configured directly (40 %) or obtained by clone() / copy construction / assignment "
      "from the configured source (20 % each; half of the assignment targets carried another configuration before). Copies in the other optimiser groups (side stream): the former clone() cases are split between clone(), copy construction and assignment, "
      "and one fresh case in ten becomes copy-constructed or assigned. "
      "line: NewtonBacktrackOneDimension on a DirectionFunction, lineSearch, lineMinimization along Newton / steepest / random descent directions. "
      "bracket: bracketMinimum / inwardBracketMinimum on convex slices. A class key = (group, optimiser, policy, objective family, dimension class, constraint class incl. whether a bound was approached, budget class, "
      "stop by tolerance or by budget, clone / kind of re-use, objective variant, starting value below 1) resp. (line tool, policy, family, direction kind, constraint class, accepted abscissa class) resp. (bracketing routine, family, position of the minimiser); each key is a complete optimisation run.";
  meta.assumptions = {
    "descent: f(reported) <= f(start) + 1e-10 (1+|f(start)|), both computed by the pure objective; the start of Brent / golden section is the initial value of the parameter, placed at an end of the initial interval (Brent also inside)",
    "consistency: optimize() and getFunctionValue() equal the objective at getParameters() within 1e-12 relative",
    "a run that raises is accepted only under the keep policy with constraints present and a bpp::ConstraintException (tabulated); with no constraint in force (none / ignore) or under auto a run has to report a point",
    "budget is judged on the optimiser's own evaluation counter (exact: no iteration starts once it exceeds the budget) and, for the recorded evaluations, with a factor 10 + 20(n+1) because the library by convention "
    "does not count evaluations made inside (nested) init() calls, i.e. the bracketing of nested one-dimensional searches",
    "convergence is judged on quadratics when the tolerance is reported as reached and the constraints are absent, removed (ignore) or were never approached by any evaluation (within 1e-9 relative of a bound): "
    "Brent / golden section |x-min| <= 100 (tol max|x| + 1e-10) + resolution floor; Newton 1-D gap <= 100 tol (1+|fmin|); multi-dimensional gap <= 100 n kappa^2 tol (1+|fmin|) (+ for BFGS the two fixed rules of its backtracking line search: 1e-4 relative step size, sufficient decrease 1e-4 lambda slope)",
    "downhill simplex: its stop rule does not bound the distance to the minimiser; with one or two parameters false stops are frequent (known finding C10-downhill-stop-rule: convergence unjudged there), "
    "with three or more they need n+1 nearly equal values and the generic bound is applied; always judged: n+1 recorded evaluations and the reported value lie within the relative spread tol of the lowest recorded value",
    "feasibility under auto: every recorded evaluation point and the reported point satisfy isCorrect() of the constraints handed to init()",
    "bracketing: after sorting the triple by abscissa the middle point has a value <= both others, and the three values are the objective at the three abscissas",
    "re-used optimiser object: the warm-up run is never judged; when it works on another parameter group q of the objective f(p)+g(q), the judged run over p is judged against f(p)+g(q) with q as the warm-up left it "
    "(a constant: the parameters not handed to init() are parameters of the function that are not optimised), i.e. start value, value at the reported point and minimum all include that constant; "
    "warm-up constraints are absent under the keep policy (a raising warm-up is not wanted), arbitrary intervals containing warm-up start and minimiser otherwise",
    "objective variants stay inside the quantifier (any level / scale of the objective, any convex non-quadratic function, any start): the objective is only ever scaled DOWN (every convergence bound is either scale-free or "
    "contains the absolute term tol (1+|fmin|) and explicit curvatures, so it only gets more generous); a lowered ridge / far start is judged for descent, consistency, budget and feasibility only (non-quadratic)",
    "an optimiser obtained by clone(), copy construction or assignment from a configured source (source destroyed before use) is a configured optimiser like any other: budget, tolerance, stop condition, policy of the source are those of the run, every clause applies unchanged",
    "user-installed general stop condition (documented: ParametersStopCondition stops when EVERY parameter moved by <= tol during the last iteration, FunctionStopCondition when the function value changed by <= tol): when isToleranceReached() "
    "the last two iterates seen by a client (getParameters() / getFunctionValue() after init() resp. after each iteration) satisfy that rule; not judged where the optimiser ends by a rule of its own (coordinate-wise optimisers over one parameter, BFGS after a function increase). "
    "Distance to the minimiser: FunctionStopCondition is the default rule of BFGS / CG / Simple / SimpleNewton and a stricter (absolute) form of Powell's, the existing bounds apply; ParametersStopCondition on the coordinate-wise optimisers: "
    "gap <= 100 n lmax kappa ((4 max(1,|x|) + n) tol + 4e-10)^2 / 2 (+ floor); simplex and, under ParametersStopCondition, BFGS / CG / Powell: no distance follows from the rule, unjudged",
    "the objective's own parameters carry no constraint (it records, it does not police); AutoParameter / IntervalConstraint themselves are trusted here (property C01)",
  };
  meta.requiredClauses = { "run.returns", "descent", "consistent.returned", "consistent.getFunctionValue", "budget.counter", "budget.evaluations", "budget.counter-honest", "feasible.evaluations", "feasible.reported",
                           "converge.quadratic", "converge.user-stop-rule", "converge.simplex-stop-rule", "converge.sufficient-decrease", "converge.line-minimum", "bracket.middle-lowest", "bracket.values" };
  return vrt::run(argc, argv, "C10", groups, meta);
}
