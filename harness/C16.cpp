// C16 - Text and option parsing never crashes, corrupts memory or hangs on any input.
// Deterministic part of the check: the committed grammar-aware seeds, seeded structural mutations of
// them, and the corpus the libFuzzer stage (lib/extra_C16.py) has accumulated, all pushed through the
// same entry-point groups (fuzz/targets.h) in the gcc ASan+UBSan+hardened-STL build, one journalled
// case per input so that an abort or hang is attributed to its input.
#include "vrt.h"
#include "../fuzz/targets.h"

#include <dirent.h>
#include <fstream>
#include <iostream>
#include <cxxabi.h>

using namespace std;

namespace
{
string verifDir()
{
  const char* e = getenv("VERIF_DIR");
  return e ? e : "/verif";
}
string corpusDir()
{
  const char* e = getenv("VERIF_CACHE_DIR");
  return string(e ? e : "/verif/.cache") + "/fuzz-corpus";
}
string unhex(const string& h)
{
  string r;
  for (size_t i = 0; i + 1 < h.size(); i += 2) r += static_cast<char>(stoi(h.substr(i, 2), 0, 16));
  return r;
}
string hex(const string& s, size_t maxn = 400)
{
  static const char* d = "0123456789abcdef";
  string r;
  for (size_t i = 0; i < s.size() && i < maxn; ++i) { r += d[(static_cast<unsigned char>(s[i]) >> 4) & 15]; r += d[static_cast<unsigned char>(s[i]) & 15]; }
  if (s.size() > maxn) r += "...";
  return r;
}
string printable(const string& s, size_t maxn = 120)
{
  string r;
  for (size_t i = 0; i < s.size() && i < maxn; ++i) { unsigned char c = static_cast<unsigned char>(s[i]); if (c >= 0x20 && c < 0x7f) r += static_cast<char>(c); else { char b[8]; snprintf(b, sizeof b, "\\x%02x", c); r += b; } }
  return r;
}

struct Seeds
{
  vector<vector<string>> byTarget; // index = target index
  vector<pair<size_t, size_t>> flat;
  Seeds()
  {
    byTarget.resize(fz::targets().size());
    for (size_t t = 0; t < fz::targets().size(); ++t)
    {
      ifstream f(verifDir() + "/fuzz/seeds/" + fz::targets()[t].name + ".hex");
      string line;
      while (getline(f, line)) { byTarget[t].push_back(unhex(line)); flat.push_back(make_pair(t, byTarget[t].size() - 1)); }
      if (byTarget[t].empty()) byTarget[t].push_back("");
    }
  }
};
const Seeds& seeds() { static Seeds s; return s; }

struct Corpus
{
  vector<pair<size_t, string>> files; // (target, path)
  Corpus()
  {
    for (size_t t = 0; t < fz::targets().size(); ++t)
    {
      string d = corpusDir() + "/" + fz::targets()[t].name;
      DIR* dir = opendir(d.c_str());
      if (!dir) continue;
      vector<string> names;
      while (dirent* e = readdir(dir)) { if (e->d_name[0] != '.') names.push_back(e->d_name); }
      closedir(dir);
      sort(names.begin(), names.end());
      for (auto& n : names) files.push_back(make_pair(t, d + "/" + n));
    }
  }
};
const Corpus& corpus() { static Corpus c; return c; }

const vector<string>& dict()
{
  static const vector<string> d = { "(", ")", "=", ",", ";", "[", "]", "$(", "\\\n", "\n", "\t", "#", "//", "/*", "*/", "seq(", "from=", "to=", "step=", "size=", "scale=", "log", "exp", "10^",
                                    "Gamma(", "Beta(", "Simple(", "Mixture(", "Invariant(", "Constant(", "Uniform(", "Gaussian(", "Exponential(", "TruncExponential(", "n=", "alpha=", "beta=", "mu=", "sigma=",
                                    "lambda=", "tp=", "value=", "values=", "probas=", "ranges=", "dist=", "dist1=", "p=", "begin=", "end=", "-inf", "+inf", "inf", "exp(", "log(", "*", "+", "-", "/", "\x1f", "e", "E",
                                    ".", "1e-3", "0.5", "::", " ", "0", "1", "-1", "a", "\\", "\"", "\xff", string(1, '\0') };
  return d;
}

string mutate(const string& base, vrt::Rng& r, const vector<string>& pool)
{
  string s = base;
  size_t k = 1 + r.below(4);
  for (size_t i = 0; i < k; ++i)
  {
    switch (r.below(9))
    {
    case 0: if (!s.empty()) s[r.below(s.size())] = static_cast<char>(r.below(256)); break;
    case 1: s.insert(r.below(s.size() + 1), r.pick(dict())); break;
    case 2: if (!s.empty()) { size_t a = r.below(s.size()); s.erase(a, 1 + r.below(min<size_t>(8, s.size() - a))); } break;
    case 3: if (!s.empty()) { size_t a = r.below(s.size()); size_t l = 1 + r.below(min<size_t>(16, s.size() - a)); string part = s.substr(a, l); size_t reps = 1 + r.below(6); size_t at = r.below(s.size() + 1); for (size_t q = 0; q < reps; ++q) s.insert(at, part); } break;
    case 4: { const string& o = r.pick(pool); if (!o.empty()) { size_t a = r.below(o.size()); s.insert(r.below(s.size() + 1), o.substr(a, 1 + r.below(o.size() - a))); } break; }
    case 5: if (!s.empty()) s.resize(r.below(s.size() + 1)); break;
    case 6: if (!s.empty()) s[0] = static_cast<char>(r.below(256)); break; // the option byte
    case 7: if (s.size() > 1) swap(s[r.below(s.size())], s[r.below(s.size())]); break;
    default: if (!s.empty()) { size_t a = r.below(s.size()); s[a] = static_cast<char>(s[a] ^ (1 << r.below(8))); }
    }
  }
  if (s.size() > 4096) s.resize(4096);
  return s;
}

void runOne(size_t t, const string& input, const char* how)
{
  static bool muted = false;
  if (!muted) { cout.setstate(ios_base::badbit); muted = true; } // library code prints "Parsing file ..." to cout
  const fz::Target& tg = fz::targets()[t];
  string opcls = string("target=") + tg.name;
  unsigned op = input.empty() ? 0 : static_cast<unsigned char>(input[0]);
  vrt::describe(opcls, string(tg.name) + " " + how + " len=" + vrt::str(input.size()) + " hex=" + hex(input) + " text='" + printable(input) + "'");
  fz::In in(reinterpret_cast<const uint8_t*>(input.data()), input.size());
  string outcome = "returned";
  try { tg.fn(in); }
  catch (bpp::Exception& e) { outcome = "bpp-exception"; }
  catch (std::exception& e)
  {
    outcome = "foreign";
    vrt::violation((string(tg.name) + ".foreign-exception").c_str(), "type=" + vrt::typeName(typeid(e)) + ",op=" + vrt::str((op & tg.opMask) % tg.opMod),
        string("non-library exception ") + vrt::typeName(typeid(e)) + ": " + e.what() + " for input hex=" + hex(input, 2000));
  }
  catch (...)
  {
    outcome = "foreign";
    std::type_info* ti = abi::__cxa_current_exception_type();
    vrt::violation((string(tg.name) + ".foreign-exception").c_str(), "type=" + (ti ? vrt::typeName(*ti) : string("unknown")) + ",op=" + vrt::str((op & tg.opMask) % tg.opMod),
        "non-standard exception for input hex=" + hex(input, 2000));
  }
  vrt::counted((string(tg.name) + ".outcome-classified").c_str());
  vrt::tally(string("outcome:") + tg.name + ":" + outcome);
  // class key: target x option byte class x outcome (which entry point / option combination ended how)
  vrt::cover(string(tg.name) + ":op" + vrt::str(op % 32) + ":" + outcome);
}

void caseSeed(vrt::Case& c)
{
  const auto& f = seeds().flat;
  if (c.index >= f.size()) return;
  runOne(f[c.index].first, seeds().byTarget[f[c.index].first][f[c.index].second], "seed");
}

void caseCorpus(vrt::Case& c)
{
  const auto& f = corpus().files;
  if (c.index >= f.size()) return;
  ifstream in(f[c.index].second, ios::binary);
  string s((istreambuf_iterator<char>(in)), istreambuf_iterator<char>());
  runOne(f[c.index].first, s, "corpus");
}

// one explicit input (replay of a libFuzzer artifact): VERIF_HEX_INPUT=<target>:<hex>
void caseHex(vrt::Case&)
{
  const char* e = getenv("VERIF_HEX_INPUT");
  if (!e) return;
  string v = e;
  size_t c = v.find(':');
  if (c == string::npos) return;
  for (size_t t = 0; t < fz::targets().size(); ++t)
    if (v.substr(0, c) == fz::targets()[t].name) runOne(t, unhex(v.substr(c + 1)), "explicit");
}

template<size_t T> void caseGen(vrt::Case& c)
{
  const vector<string>& pool = seeds().byTarget[T];
  // each case = 8 mutated inputs of one target (keeps the journal small; an abort names the input in its descriptor)
  for (int i = 0; i < 8; ++i)
  {
    string s = mutate(c.rng.pick(pool), c.rng, pool);
    if (c.rng.chance(0.15)) s = mutate(s, c.rng, pool);
    runOne(T, s, "mutant");
  }
}
} // namespace

int main(int argc, char** argv)
{
  vector<vrt::Group> groups;
  groups.push_back({ "seeds", seeds().flat.size(), seeds().flat.size(), caseSeed, 120, true });
  groups.push_back({ "corpus", corpus().files.size(), corpus().files.size(), caseCorpus, 180, false });
  groups.push_back({ "hexinput", getenv("VERIF_HEX_INPUT") ? 1u : 0u, getenv("VERIF_HEX_INPUT") ? 1u : 0u, caseHex, 120, false });
  const vrt::u64 q = 4000, th = 80000;
  groups.push_back({ "gen-text", q, th, caseGen<0>, 120, false });
  groups.push_back({ "gen-tokenizer", q, th, caseGen<1>, 120, false });
  groups.push_back({ "gen-keyval", q, th, caseGen<2>, 120, false });
  groups.push_back({ "gen-options", q, th, caseGen<3>, 120, false });
  groups.push_back({ "gen-path", q / 2, th / 2, caseGen<4>, 120, false });
  groups.push_back({ "gen-table", q, th, caseGen<5>, 120, false });
  groups.push_back({ "gen-dist", q, th, caseGen<6>, 180, false });
  groups.push_back({ "gen-interval", q / 2, th / 2, caseGen<7>, 120, false });
  groups.push_back({ "gen-formula", q, th, caseGen<8>, 120, false });
  groups.push_back({ "gen-numcalc", q, th, caseGen<9>, 120, false });
  vrt::Meta meta;
  meta.rule = "inputs: every committed grammar-aware seed (fuzz/seeds/*.hex), 8 structural mutants per generated case (byte/bit flips, dictionary token insertion, block deletion/duplication, "
      "splicing with another seed, truncation, option-byte change; <= 4 KiB), and every file of the corpus accumulated by the libFuzzer stage; the first input bytes select the entry point inside "
      "the group and every boolean/character option. A class key = (entry-point group, option byte mod 32, outcome returned/bpp-exception/foreign); the libFuzzer stage adds coverage-guided inputs "
      "and reports its own counters (executions, coverage edges, corpus size) in the evidence.";
  meta.assumptions = {
    "inputs whose numeric literals legitimately size the output (class counts, seq(from,to,step), a-b ranges) are rejected by a pre-filter when a literal has more than 3 consecutive digits or an exponent, and distribution descriptions when a class count n= exceeds 16 (each class costs quantile evaluations), so a time-out or allocation ceiling can only mean non-termination / unbounded growth",
    "parseOptions is never given a 'param=' argument (it would open arbitrary files)",
    "termination is decided by bounded wall-clock watchdogs (libFuzzer -timeout, chunk watchdog re-run alone), not proved",
    "bytes >= 0x80 passed to <cctype> classification inside the library are not flagged (no sanitizer observes it)",
  };
  meta.requiredClauses = { "text.outcome-classified", "tokenizer.outcome-classified", "keyval.outcome-classified", "options.outcome-classified", "path.outcome-classified", "table.outcome-classified",
                           "dist.outcome-classified", "interval.outcome-classified", "formula.outcome-classified", "numcalc.outcome-classified" };
  return vrt::run(argc, argv, "C16", groups, meta);
}
