// C16 - Text and option parsing never crashes, corrupts memory or hangs on any input.
// Deterministic part of the check: the committed grammar-aware seeds, seeded structural mutations of
// them, and the corpus the libFuzzer stage (lib/extra_C16.py) has accumulated, all pushed through the
// same entry-point groups (fuzz/targets.h) in the gcc ASan+UBSan+hardened-STL build, one journalled
// case per input so that an abort or hang is attributed to its input.
#include "vrt.h"
#include "../fuzz/targets.h"

#include <dirent.h>
#include <fstream>
#include <iostream>
#include <cxxabi.h>

using namespace std;

namespace
{
string verifDir()
{
  const char* e = getenv("VERIF_DIR");
  return e ? e : "/verif";
}
string corpusDir()
{
  const char* e = getenv("VERIF_CACHE_DIR");
  return string(e ? e : "/verif/.cache") + "/fuzz-corpus";
}
string unhex(const string& h)
{
  string r;
  for (size_t i = 0; i + 1 < h.size(); i += 2) r += static_cast<char>(stoi(h.substr(i, 2), 0, 16));
  return r;
}
string hex(const string& s, size_t maxn = 400)
{
  static const char* d = "0123456789abcdef";
  string r;
  for (size_t i = 0; i < s.size() && i < maxn; ++i) { r += d[(static_cast<unsigned char>(s[i]) >> 4) & 15]; r += d[static_cast<unsigned char>(s[i]) & 15]; }
  if (s.size() > maxn) r += "...";
  return r;
}
string printable(const string& s, size_t maxn = 120)
{
  string r;
  for (size_t i = 0; i < s.size() && i < maxn; ++i) { unsigned char c = static_cast<unsigned char>(s[i]); if (c >= 0x20 && c < 0x7f) r += static_cast<char>(c); else { char b[8]; snprintf(b, sizeof b, "\\x%02x", c); r += b; } }
  return r;
}

struct Seeds
{
  vector<vector<string>> byTarget; // index = target index
  vector<pair<size_t, size_t>> flat;
  Seeds()
  {
    byTarget.resize(fz::targets().size());
    for (size_t t = 0; t < fz::targets().size(); ++t)
    {
      ifstream f(verifDir() + "/fuzz/seeds/" + fz::targets()[t].name + ".hex");
      string line;
      while (getline(f, line)) { byTarget[t].push_back(unhex(line)); flat.push_back(make_pair(t, byTarget[t].size() - 1)); }
      if (byTarget[t].empty()) byTarget[t].push_back("");
    }
  }
};
const Seeds& seeds() { static Seeds s; return s; }

struct Corpus
{
  vector<pair<size_t, string>> files; // (target, path)
  Corpus()
  {
    for (size_t t = 0; t < fz::targets().size(); ++t)
    {
      string d = corpusDir() + "/" + fz::targets()[t].name;
      DIR* dir = opendir(d.c_str());
      if (!dir) continue;
      vector<string> names;
      while (dirent* e = readdir(dir)) { if (e->d_name[0] != '.') names.push_back(e->d_name); }
      closedir(dir);
      sort(names.begin(), names.end());
      for (auto& n : names) files.push_back(make_pair(t, d + "/" + n));
    }
  }
};
const Corpus& corpus() { static Corpus c; return c; }

const vector<string>& dict()
{
  static const vector<string> d = { "(", ")", "=", ",", ";", "[", "]", "$(", "\\\n", "\n", "\t", "#", "//", "/*", "*/", "seq(", "from=", "to=", "step=", "size=", "scale=", "log", "exp", "10^",
                                    "Gamma(", "Beta(", "Simple(", "Mixture(", "Invariant(", "Constant(", "Uniform(", "Gaussian(", "Exponential(", "TruncExponential(", "n=", "alpha=", "beta=", "mu=", "sigma=",
                                    "lambda=", "tp=", "value=", "values=", "probas=", "ranges=", "dist=", "dist1=", "p=", "begin=", "end=", "-inf", "+inf", "inf", "exp(", "log(", "*", "+", "-", "/", "\x1f", "e", "E",
                                    ".", "1e-3", "0.5", "::", " ", "0", "1", "-1", "a", "\\", "\"", "\xff", string(1, '\0'),
                                    // integers at the int / unsigned / long bounds and the notations that reach them; named / invalid table edits (bytes >= 0x80)
                                    "2147483647", "2147483648", "-2147483648", "-2147483649", "4294967295", "4294967296", "9223372036854775807", "9223372036854775808", "e0", "e+0", "E00", ".0", "e1", "214748364",
                                    "\xc0", "\x81", "\x88\xc8", "\xc0\x86\xd8\xc2", "\x84\xc4\x85\xc5" };
  return d;
}

string mutate(const string& base, vrt::Rng& r, const vector<string>& pool)
{
  string s = base;
  size_t k = 1 + r.below(4);
  for (size_t i = 0; i < k; ++i)
  {
    switch (r.below(9))
    {
    case 0: if (!s.empty()) s[r.below(s.size())] = static_cast<char>(r.below(256)); break;
    case 1: s.insert(r.below(s.size() + 1), r.pick(dict())); break;
    case 2: if (!s.empty()) { size_t a = r.below(s.size()); s.erase(a, 1 + r.below(min<size_t>(8, s.size() - a))); } break;
    case 3: if (!s.empty()) { size_t a = r.below(s.size()); size_t l = 1 + r.below(min<size_t>(16, s.size() - a)); string part = s.substr(a, l); size_t reps = 1 + r.below(6); size_t at = r.below(s.size() + 1); for (size_t q = 0; q < reps; ++q) s.insert(at, part); } break;
    case 4: { const string& o = r.pick(pool); if (!o.empty()) { size_t a = r.below(o.size()); s.insert(r.below(s.size() + 1), o.substr(a, 1 + r.below(o.size() - a))); } break; }
    case 5: if (!s.empty()) s.resize(r.below(s.size() + 1)); break;
    case 6: if (!s.empty()) s[0] = static_cast<char>(r.below(256)); break; // the option byte
    case 7: if (s.size() > 1) swap(s[r.below(s.size())], s[r.below(s.size())]); break;
    default: if (!s.empty()) { size_t a = r.below(s.size()); s[a] = static_cast<char>(s[a] ^ (1 << r.below(8))); }
    }
  }
  if (s.size() > 4096) s.resize(4096);
  return s;
}

void runOne(size_t t, const string& input, const char* how)
{
  static bool muted = false;
  if (!muted) { cout.setstate(ios_base::badbit); muted = true; } // library code prints "Parsing file ..." to cout
  const fz::Target& tg = fz::targets()[t];
  string opcls = string("target=") + tg.name;
  unsigned op = input.empty() ? 0 : static_cast<unsigned char>(input[0]);
  vrt::describe(opcls, string(tg.name) + " " + how + " len=" + vrt::str(input.size()) + " hex=" + hex(input) + " text='" + printable(input) + "'");
  fz::In in(reinterpret_cast<const uint8_t*>(input.data()), input.size());
  string outcome = "returned";
  try { tg.fn(in); }
  catch (bpp::Exception& e) { outcome = "bpp-exception"; }
  catch (std::exception& e)
  {
    outcome = "foreign";
    vrt::violation((string(tg.name) + ".foreign-exception").c_str(), "type=" + vrt::typeName(typeid(e)) + ",op=" + vrt::str((op & tg.opMask) % tg.opMod),
        string("non-library exception ") + vrt::typeName(typeid(e)) + ": " + e.what() + " for input hex=" + hex(input, 2000));
  }
  catch (...)
  {
    outcome = "foreign";
    std::type_info* ti = abi::__cxa_current_exception_type();
    vrt::violation((string(tg.name) + ".foreign-exception").c_str(), "type=" + (ti ? vrt::typeName(*ti) : string("unknown")) + ",op=" + vrt::str((op & tg.opMask) % tg.opMod),
        "non-standard exception for input hex=" + hex(input, 2000));
  }
  vrt::counted((string(tg.name) + ".outcome-classified").c_str());
  vrt::tally(string("outcome:") + tg.name + ":" + outcome);
  // class key: target x option byte class x outcome (which entry point / option combination ended how)
  vrt::cover(string(tg.name) + ":op" + vrt::str(op % 32) + ":" + outcome);
}

void caseSeed(vrt::Case& c)
{
  const auto& f = seeds().flat;
  if (c.index >= f.size()) return;
  runOne(f[c.index].first, seeds().byTarget[f[c.index].first][f[c.index].second], "seed");
}

void caseCorpus(vrt::Case& c)
{
  const auto& f = corpus().files;
  if (c.index >= f.size()) return;
  ifstream in(f[c.index].second, ios::binary);
  string s((istreambuf_iterator<char>(in)), istreambuf_iterator<char>());
  runOne(f[c.index].first, s, "corpus");
}

// one explicit input (replay of a libFuzzer artifact): VERIF_HEX_INPUT=<target>:<hex>
void caseHex(vrt::Case&)
{
  const char* e = getenv("VERIF_HEX_INPUT");
  if (!e) return;
  string v = e;
  size_t c = v.find(':');
  if (c == string::npos) return;
  for (size_t t = 0; t < fz::targets().size(); ++t)
    if (v.substr(0, c) == fz::targets()[t].name) runOne(t, unhex(v.substr(c + 1)), "explicit");
}

template<size_t T> void caseGen(vrt::Case& c)
{
  const vector<string>& pool = seeds().byTarget[T];
  // each case = 8 mutated inputs of one target (keeps the journal small; an abort names the input in its descriptor)
  for (int i = 0; i < 8; ++i)
  {
    string s = mutate(c.rng.pick(pool), c.rng, pool);
    if (c.rng.chance(0.15)) s = mutate(s, c.rng, pool);
    runOne(T, s, "mutant");
  }
}

// Directed generator 1: "editing a delimited table continues after a rejected edit".  A small table (0-4 rows, 0-4 columns, with or
// without header / row names, names from a small pool so that duplicates and unknown names both occur) and a sequence of 3-16 edits
// mixing the plain edits (bytes < 0x40) with the named / invalid ones (bytes >= 0x80: addRow(name, row) and addColumn(name, column) of
// the right or a wrong size, deleteRow/deleteColumn by existing or unknown name, setRowNames/setColumnNames of the right or a wrong
// length, setRowName, setRow, by-name and by-index reads).  The target catches every bpp::Exception, goes on, and checks the table
// invariants after every step (fz::checkTable): a broken invariant is reported as table.foreign-exception|type=fz::InvariantBroken.
void caseTableEdits(vrt::Case& c)
{
  const size_t T = 5; // "table"
  for (int rep = 0; rep < 8; ++rep)
  {
    vrt::Rng& r = c.rng;
    size_t nr = r.below(5), nc = r.below(5);
    bool header = r.chance(0.7);
    int rowNameMode = static_cast<int>(r.below(3)); // 0: none, 1: header one field shorter (automatic), 2: explicit column
    string in;
    unsigned char op = 4 | (header ? 1 : 0);
    if (rowNameMode == 2) op |= 2;
    in += static_cast<char>(op);
    if (rowNameMode == 2) in += static_cast<char>(r.below(3));
    // edits
    size_t ne = 3 + r.below(14);
    for (size_t i = 0; i < ne; ++i)
    {
      unsigned char e;
      do
      {
        if (r.chance(0.7)) e = static_cast<unsigned char>(128 + 64 * r.below(2) + 8 * r.below(r.chance(0.7) ? 5 : 8) + r.below(8));
        else e = static_cast<unsigned char>(r.below(64));
      } while (e == 0x1f);
      in += static_cast<char>(e);
    }
    in += '\x1f';
    bool dupNames = r.chance(0.1);
    if (header)
    {
      for (size_t j = 0; j < nc; ++j) { if (j) in += '\t'; in += "c" + vrt::str(dupNames ? r.below(2) : j); }
      in += '\n';
    }
    bool namedRows = (rowNameMode == 1 && header) || rowNameMode == 2;
    for (size_t i = 0; i < nr; ++i)
    {
      string line;
      if (namedRows) line += "r" + vrt::str(dupNames ? r.below(2) : i);
      for (size_t j = 0; j < nc; ++j) { if (!line.empty() || j) line += '\t'; line += vrt::str(i * 10 + j); }
      in += line + "\n";
    }
    runOne(T, in, "table-edits");
  }
}

// Directed generator 2: integers at and next to the bounds of int / unsigned / long (and the 16-bit ones), written in every notation
// the number recognisers accept: plain, with an exponent (e0, e+0, e00, a scaled mantissa with e1..e3), with leading zeros, with each
// scientific-notation character option; pushed through toInt (checked against the value the digits denote, fz::checkedToInt),
// toDouble, fromString<>/to<> and the recognise-then-convert route.
void caseIntBoundary(vrt::Case& c)
{
  const size_t T = 0; // "text"
  static const char* centers[] = { "2147483648", "2147483648", "2147483648", "4294967296", "9223372036854775808", "32768", "65536", "1000000000", "10000000000" };
  for (int rep = 0; rep < 8; ++rep)
  {
    vrt::Rng& r = c.rng;
    // value = center + delta, |delta| <= 3, as a decimal string (string arithmetic on the last digits: all centers end far from a carry chain except powers of ten)
    string cs = centers[r.below(sizeof(centers) / sizeof(centers[0]))];
    int delta = static_cast<int>(r.below(7)) - 3;
    bool neg = r.chance(0.4);
    string mant;
    {
      // big-number add of a small delta
      vector<int> d; for (char ch : cs) d.push_back(ch - '0');
      int carry = delta;
      for (size_t i = d.size(); i-- > 0 && carry != 0;) { int v = d[i] + carry; carry = 0; while (v < 0) { v += 10; --carry; } while (v > 9) { v -= 10; ++carry; } d[i] = v; }
      size_t b = 0; while (b + 1 < d.size() && d[b] == 0) ++b;
      for (size_t i = b; i < d.size(); ++i) mant += static_cast<char>('0' + d[i]);
    }
    // notation
    size_t shift = 0;
    while (shift < 3 && mant.size() > 1 && mant[mant.size() - 1] == '0' && r.chance(0.7)) { mant.resize(mant.size() - 1); ++shift; }
    size_t notation = r.below(6);
    char sciChar = 'e';
    unsigned char sciByte = 0;
    size_t route = r.below(8);
    if (route < 4) { static const char set[] = "eE.d"; size_t k = r.below(r.chance(0.7) ? 1 : 4); sciChar = set[k]; sciByte = static_cast<unsigned char>(k == 2 ? 2 : k == 3 ? 3 : k); }
    string text = string(neg ? "-" : "") + string(r.chance(0.15) ? "00" : "") + mant;
    string ex = vrt::str(shift);
    if (shift > 0 && notation == 0) notation = 1; // the scaled mantissa needs its exponent
    switch (notation)
    {
    case 0: break;
    case 1: text += string(1, sciChar) + ex; break;
    case 2: text += string(1, sciChar) + "+" + ex; break;
    case 3: text += string(1, sciChar) + "0" + ex; break;
    case 4: text += string(1, sciChar) + "+00" + ex; break;
    default: if (shift == 0) text += ".0"; else text += string(1, sciChar) + ex;
    }
    string in;
    switch (route)
    {
    case 0: case 1: case 2: case 3: in = string(1, '\x05') + string(1, static_cast<char>(sciByte)) + text; break;      // toInt(s, sci)
    case 4: in = string(1, '\x04') + string(2, '\0') + text; break;                                                       // toDouble
    case 5: in = string(1, '\x06') + text; break;                                                                         // fromString<double/int>, to<unsigned>
    case 6: in = string(1, '\x03') + string(2, '\0') + text; break;                                                       // recognisers
    default: in = string(1, '\x10') + (r.chance(0.5) ? " " : "") + text + (r.chance(0.5) ? "\n" : "");                    // recognise, then convert
    }
    runOne(T, in, "int-boundary");
  }
}
} // namespace

int main(int argc, char** argv)
{
  vector<vrt::Group> groups;
  groups.push_back({ "seeds", seeds().flat.size(), seeds().flat.size(), caseSeed, 120, true });
  groups.push_back({ "corpus", corpus().files.size(), corpus().files.size(), caseCorpus, 180, false });
  groups.push_back({ "hexinput", getenv("VERIF_HEX_INPUT") ? 1u : 0u, getenv("VERIF_HEX_INPUT") ? 1u : 0u, caseHex, 120, false });
  const vrt::u64 q = 4000, th = 80000;
  groups.push_back({ "gen-text", q, th, caseGen<0>, 120, false });
  groups.push_back({ "gen-tokenizer", q, th, caseGen<1>, 120, false });
  groups.push_back({ "gen-keyval", q, th, caseGen<2>, 120, false });
  groups.push_back({ "gen-options", q, th, caseGen<3>, 120, false });
  groups.push_back({ "gen-path", q / 2, th / 2, caseGen<4>, 120, false });
  groups.push_back({ "gen-table", q, th, caseGen<5>, 120, false });
  groups.push_back({ "gen-dist", q, th, caseGen<6>, 180, false });
  groups.push_back({ "gen-interval", q / 2, th / 2, caseGen<7>, 120, false });
  groups.push_back({ "gen-formula", q, th, caseGen<8>, 120, false });
  groups.push_back({ "gen-numcalc", q, th, caseGen<9>, 120, false });
  groups.push_back({ "gen-table-edits", 1500, 30000, caseTableEdits, 120, false });
  groups.push_back({ "gen-int-boundary", 500, 10000, caseIntBoundary, 120, false });
  vrt::Meta meta;
  meta.rule = "inputs: every committed grammar-aware seed (fuzz/seeds/*.hex), 8 structural mutants per generated case (byte/bit flips, dictionary token insertion, block deletion/duplication, "
      "splicing with another seed, truncation, option-byte change; <= 4 KiB), and every file of the corpus accumulated by the libFuzzer stage; plus two directed generators: gen-table-edits (a small table and 3-16 edits, valid and invalid ones mixed - wrong width, duplicate/unknown name, index out of range - "
      "the target goes on after every rejected edit and checks after each step: row-name count == row count, column-name count == column count, column length == row count, by-name reads of every reported name) "
      "and gen-int-boundary (integers within 3 of 2^15, 2^16, 2^31, 2^32, 2^63, 10^9, 10^10, either sign, plain / exponent / scaled mantissa / leading zeros / each scientific-notation character; "
      "toInt results are compared with the value the digits denote); the first input bytes select the entry point inside "
      "the group and every boolean/character option. A class key = (entry-point group, option byte mod 32, outcome returned/bpp-exception/foreign); the libFuzzer stage adds coverage-guided inputs "
      "and reports its own counters (executions, coverage edges, corpus size) in the evidence.";
  meta.assumptions = {
    "inputs whose numeric literals legitimately size the output (class counts, seq(from,to,step), a-b ranges) are rejected by a pre-filter when a literal has more than 3 consecutive digits or an exponent, and distribution descriptions when a class count n= exceeds 16 (each class costs quantile evaluations), so a time-out or allocation ceiling can only mean non-termination / unbounded growth",
    "parseOptions is never given a 'param=' argument (it would open arbitrary files)",
    "termination is decided by bounded wall-clock watchdogs (libFuzzer -timeout, chunk watchdog re-run alone), not proved",
    "bytes >= 0x80 passed to <cctype> classification inside the library are not flagged (no sanitizer observes it)",
  };
  meta.requiredClauses = { "text.outcome-classified", "tokenizer.outcome-classified", "keyval.outcome-classified", "options.outcome-classified", "path.outcome-classified", "table.outcome-classified",
                           "dist.outcome-classified", "interval.outcome-classified", "formula.outcome-classified", "numcalc.outcome-classified" };
  return vrt::run(argc, argv, "C16", groups, meta);
}
