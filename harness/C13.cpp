// C13 - All HMM likelihood algorithms compute the same, correct probability of the data.
// Test doubles (state alphabet, emission table with scalar parameters a,b, transition matrix with an exactly
// stationary start and a "stay" parameter s) are supplied by the harness.  References: brute-force path enumeration and a
// scaled forward/backward pass, both in long double; derivatives by second-order forward-mode jets through the same
// references (self-checked against 4th-order central finite differences of the reference log-likelihood).
#include "vrt.h"

#include <Bpp/Numeric/Hmm/HmmLikelihood.h>
#include <Bpp/Numeric/Hmm/RescaledHmmLikelihood.h>
#include <Bpp/Numeric/Hmm/LowMemoryRescaledHmmLikelihood.h>
#include <Bpp/Numeric/Hmm/LogsumHmmLikelihood.h>
#include <Bpp/Numeric/Hmm/FullHmmTransitionMatrix.h>
#include <Bpp/Numeric/Hmm/AutoCorrelationTransitionMatrix.h>
#include <Bpp/Numeric/AbstractParametrizable.h>
#include <Bpp/Numeric/Matrix/Matrix.h>
#include <Bpp/Numeric/Random/RandomTools.h>

#include <algorithm>
#include <cmath>
#include <map>
#include <memory>

using namespace bpp;
using namespace std;
using vrt::str;

namespace
{
typedef long double LD;
const LD EPS = 1.1102230246251565e-16L; // 2^-53

// ------------------------------------------------------------------ second-order jets (value, d/dx, d2/dx2)
struct Jet
{
  LD v, d, dd;
  Jet(LD x = 0) : v(x), d(0), dd(0) {}
  Jet(LD x, LD y, LD z) : v(x), d(y), dd(z) {}
};
inline Jet operator+(const Jet& a, const Jet& b) { return Jet(a.v + b.v, a.d + b.d, a.dd + b.dd); }
inline Jet operator*(const Jet& a, const Jet& b) { return Jet(a.v * b.v, a.d * b.v + a.v * b.d, a.dd * b.v + 2 * a.d * b.d + a.v * b.dd); }
inline Jet operator/(const Jet& a, const Jet& b)
{
  Jet inv(1 / b.v, -b.d / (b.v * b.v), 2 * b.d * b.d / (b.v * b.v * b.v) - b.dd / (b.v * b.v));
  return a * inv;
}
inline Jet& operator+=(Jet& a, const Jet& b) { a = a + b; return a; }
inline Jet jlog(const Jet& a) { return Jet(logl(a.v), a.d / a.v, a.dd / a.v - (a.d / a.v) * (a.d / a.v)); }
inline LD jlog(LD a) { return logl(a); }
inline LD val(LD a) { return a; }
inline LD val(const Jet& a) { return a.v; }

// ------------------------------------------------------------------ shadow model
const char* PCLASS[] = { "dense", "sparse", "cycle", "transient", "slow", "tiny" };
const char* ECLASS[] = { "mild", "extreme", "mixed" };

struct Spec
{
  size_t n, L;
  int pclass, eclass;
  vector<vector<double>> P0;
  vector<double> pi;
  vector<vector<double>> c, v, w, z; // L x n
  string prefix;
  bool alphaParam;
};
struct State
{
  double a, b, s, q;
  vector<size_t> bp;
  State() : a(0), b(0), s(0), q(0.5), bp() {}
};

inline double emisVal(double c, double v, double w, double z, double a, double b) { return c * std::exp(-(a * v + b * w + 0.5 * a * a * z)); }
// emissions of state 0 depend on the alphabet's parameter q (when it has one): factor 0.5 + 0.5 q in [0.5,1]
inline double alphaFactor(bool has, double q, size_t state) { return has && state == 0 ? 0.5 + 0.5 * q : 1.0; }
inline double transVal(double p0, double s, bool diag) { return s == 0 ? p0 : (1 - s) * p0 + (diag ? s : 0.0); }

// Grassmann-Taksar-Heyman stationary vector of an irreducible stochastic matrix (long double, no subtraction)
vector<LD> gth(vector<vector<LD>> a)
{
  size_t m = a.size();
  for (size_t k = m - 1; k > 0; --k)
  {
    LD s = 0;
    for (size_t j = 0; j < k; ++j) s += a[k][j];
    for (size_t i = 0; i < k; ++i) a[i][k] /= s;
    for (size_t i = 0; i < k; ++i)
      for (size_t j = 0; j < k; ++j) a[i][j] += a[i][k] * a[k][j];
  }
  vector<LD> x(m);
  x[0] = 1;
  LD tot = 1;
  for (size_t k = 1; k < m; ++k)
  {
    x[k] = 0;
    for (size_t i = 0; i < k; ++i) x[k] += x[i] * a[i][k];
    tot += x[k];
  }
  for (size_t k = 0; k < m; ++k) x[k] /= tot;
  return x;
}

void normaliseRows(vector<vector<double>>& P)
{
  for (auto& r : P)
  {
    double s = 0;
    for (double x : r) s += x;
    for (double& x : r) x /= s;
  }
}

// irreducible sparse block on the index set idx (cycle through a random permutation + random extra entries)
void sparseBlock(vrt::Rng& rng, vector<vector<double>>& P, vector<size_t> idx, double extra)
{
  rng.shuffle(idx);
  size_t m = idx.size();
  for (size_t t = 0; t < m; ++t)
  {
    size_t i = idx[t], nx = idx[(t + 1) % m];
    for (size_t u = 0; u < m; ++u)
      if (rng.chance(extra)) P[i][idx[u]] = rng.unit() + 0.02;
    P[i][nx] = rng.unit() + 0.02;
  }
}

// P0 (rows sum to 1 up to rounding) and a stationary vector pi of it; closed class = all states except for "transient"
void genP(vrt::Rng& rng, size_t n, int pclass, vector<vector<double>>& P, vector<double>& pi)
{
  P.assign(n, vector<double>(n, 0.0));
  vector<size_t> closed;
  for (size_t i = 0; i < n; ++i) closed.push_back(i);
  if (n == 1) { P[0][0] = 1; pi.assign(1, 1.0); return; }
  switch (pclass)
  {
  case 0:
    for (auto& r : P) for (double& x : r) x = rng.unit() + 0.02;
    break;
  case 1:
    sparseBlock(rng, P, closed, 0.3);
    break;
  case 2:
  {
    vector<size_t> idx = closed;
    rng.shuffle(idx);
    for (size_t t = 0; t < n; ++t) P[idx[t]][idx[(t + 1) % n]] = 1;
    break;
  }
  case 3:
  {
    vector<size_t> idx = closed;
    rng.shuffle(idx);
    size_t m = static_cast<size_t>(rng.range(1, static_cast<long long>(n) - 1));
    closed.assign(idx.begin(), idx.begin() + static_cast<ptrdiff_t>(m));
    vector<size_t> trans(idx.begin() + static_cast<ptrdiff_t>(m), idx.end());
    if (m == 1) P[closed[0]][closed[0]] = 1;
    else sparseBlock(rng, P, closed, 0.3);
    for (size_t t : trans)
    {
      for (size_t j = 0; j < n; ++j)
        if (rng.chance(0.4)) P[t][j] = rng.unit() + 0.02;
      P[t][closed[rng.below(m)]] = rng.unit() + 0.02;
    }
    sort(closed.begin(), closed.end());
    break;
  }
  case 4:
  {
    double e = rng.logReal(1e-6, 1e-2);
    for (size_t i = 0; i < n; ++i)
    {
      double s = 0;
      for (size_t j = 0; j < n; ++j) { P[i][j] = rng.unit() + 0.02; s += P[i][j]; }
      for (size_t j = 0; j < n; ++j) P[i][j] = e * P[i][j] / s + (i == j ? 1 - e : 0.0);
    }
    break;
  }
  default:
    for (auto& r : P) for (double& x : r) { x = rng.unit() + 0.02; if (rng.chance(0.35)) x *= rng.logReal(1e-12, 1e-3); }
    break;
  }
  normaliseRows(P);
  vector<vector<LD>> sub(closed.size(), vector<LD>(closed.size()));
  for (size_t i = 0; i < closed.size(); ++i)
    for (size_t j = 0; j < closed.size(); ++j) sub[i][j] = P[closed[i]][closed[j]];
  vector<LD> x = closed.size() == 1 ? vector<LD>(1, 1.0L) : gth(sub);
  pi.assign(n, 0.0);
  for (size_t i = 0; i < closed.size(); ++i) pi[closed[i]] = static_cast<double>(x[i]);
}

void genEmis(vrt::Rng& rng, Spec& sp)
{
  size_t n = sp.n, L = sp.L;
  sp.c.assign(L, vector<double>(n));
  sp.v = sp.w = sp.z = sp.c;
  for (size_t i = 0; i < L; ++i)
  {
    double siteScale = sp.eclass == 2 ? std::pow(10.0, -static_cast<double>(rng.range(0, 192))) : 1.0;
    for (size_t j = 0; j < n; ++j)
    {
      double c;
      if (sp.eclass == 0) c = rng.real(0.01, 1);
      else if (sp.eclass == 1) c = rng.logReal(1e-195, 1);
      else c = (rng.chance(0.15) ? 1.0 : rng.real(0.001, 1)) * siteScale;
      sp.c[i][j] = c;
      sp.v[i][j] = rng.chance(0.15) ? 0.0 : rng.real(0, 1.5);
      sp.w[i][j] = rng.chance(0.15) ? 0.0 : rng.real(0, 1.5);
      sp.z[i][j] = rng.chance(0.3) ? 0.0 : rng.real(0, 1);
    }
  }
}

Spec genSpec(vrt::Rng& rng, size_t n, size_t L, int pclass, int eclass)
{
  Spec sp;
  sp.n = n; sp.L = L;
  if (n == 1) pclass = 0;
  if (n == 2 && pclass == 3 && false) pclass = 1;
  sp.pclass = pclass; sp.eclass = eclass;
  genP(rng, n, pclass, sp.P0, sp.pi);
  genEmis(rng, sp);
  sp.prefix = rng.chance(0.25) ? "hmm." : "";
  sp.alphaParam = rng.chance(0.3);
  return sp;
}

string specText(const Spec& sp)
{
  string s = "n=" + str(sp.n) + " L=" + str(sp.L) + " P0=[";
  for (size_t i = 0; i < sp.n; ++i) s += (i ? ";" : "") + vrt::vecStr(sp.P0[i]);
  s += "] pi=" + vrt::vecStr(sp.pi) + " prefix='" + sp.prefix + "'";
  if (sp.L <= 6)
  {
    s += " c=[";
    for (size_t i = 0; i < sp.L; ++i) s += (i ? ";" : "") + vrt::vecStr(sp.c[i]);
    s += "] v=[";
    for (size_t i = 0; i < sp.L; ++i) s += (i ? ";" : "") + vrt::vecStr(sp.v[i]);
    s += "] w=[";
    for (size_t i = 0; i < sp.L; ++i) s += (i ? ";" : "") + vrt::vecStr(sp.w[i]);
    s += "] z=[";
    for (size_t i = 0; i < sp.L; ++i) s += (i ? ";" : "") + vrt::vecStr(sp.z[i]);
    s += "]";
  }
  return s;
}
string stateText(const State& st)
{
  return "a=" + str(st.a) + " b=" + str(st.b) + " s=" + str(st.s) + " q=" + str(st.q) + " bp=" + vrt::vecStr(st.bp);
}

// ------------------------------------------------------------------ reference computations
struct Snap
{
  size_t n, L;
  vector<vector<double>> P; // current transition matrix, as the library sees it
  vector<double> pi;
  vector<vector<double>> E; // current emission table, as the library sees it
  vector<vector<LD>> dE[2], d2E[2]; // derivatives w.r.t. a (0) and b (1)
  vector<char> start;       // start[i] != 0 : position i begins a segment
  LD M;                     // magnitude of the log-space intermediates
  LD S1[2], S2[2];          // derivative magnitudes
  size_t nseg;
};

void finishSnap(Snap& sn, const vector<size_t>& bp)
{
  sn.start.assign(sn.L, 0);
  sn.start[0] = 1;
  for (size_t b : bp) if (b < sn.L) sn.start[b] = 1;
  sn.nseg = 0;
  for (char c : sn.start) sn.nseg += c ? 1 : 0;
  LD lam = 0;
  for (size_t i = 0; i < sn.n; ++i)
  {
    if (sn.pi[i] > 0) lam = max(lam, fabsl(logl(sn.pi[i])));
    for (size_t j = 0; j < sn.n; ++j) if (sn.P[i][j] > 0) lam = max(lam, fabsl(logl(sn.P[i][j])));
  }
  sn.M = static_cast<LD>(sn.L) * lam;
  for (size_t i = 0; i < sn.L; ++i)
  {
    LD m = 0;
    for (size_t j = 0; j < sn.n; ++j) m = max(m, fabsl(logl(sn.E[i][j])));
    sn.M += m;
  }
  for (int k = 0; k < 2; ++k)
  {
    sn.S1[k] = sn.S2[k] = 0;
    if (sn.dE[k].empty()) continue;
    for (size_t i = 0; i < sn.L; ++i)
    {
      LD m1 = 0, m2 = 0;
      for (size_t j = 0; j < sn.n; ++j)
      {
        LD r = sn.dE[k][i][j] / sn.E[i][j], q = sn.d2E[k][i][j] / sn.E[i][j];
        m1 = max(m1, fabsl(r));
        m2 = max(m2, fabsl(q - r * r));
      }
      sn.S1[k] += m1;
      sn.S2[k] += m2;
    }
  }
}

Snap makeSnap(const Spec& sp, const State& st)
{
  Snap sn;
  sn.n = sp.n; sn.L = sp.L;
  sn.P.assign(sp.n, vector<double>(sp.n));
  for (size_t i = 0; i < sp.n; ++i)
    for (size_t j = 0; j < sp.n; ++j) sn.P[i][j] = transVal(sp.P0[i][j], st.s, i == j);
  sn.pi = sp.pi;
  sn.E.assign(sp.L, vector<double>(sp.n));
  for (int k = 0; k < 2; ++k) { sn.dE[k].assign(sp.L, vector<LD>(sp.n)); sn.d2E[k] = sn.dE[k]; }
  for (size_t i = 0; i < sp.L; ++i)
    for (size_t j = 0; j < sp.n; ++j)
    {
      double e = emisVal(sp.c[i][j], sp.v[i][j], sp.w[i][j], sp.z[i][j], st.a, st.b) * alphaFactor(sp.alphaParam, st.q, j);
      sn.E[i][j] = e;
      LD g = static_cast<LD>(sp.v[i][j]) + static_cast<LD>(st.a) * sp.z[i][j];
      sn.dE[0][i][j] = -g * e;
      sn.d2E[0][i][j] = (g * g - sp.z[i][j]) * e;
      sn.dE[1][i][j] = -static_cast<LD>(sp.w[i][j]) * e;
      sn.d2E[1][i][j] = static_cast<LD>(sp.w[i][j]) * sp.w[i][j] * e;
    }
  finishSnap(sn, st.bp);
  return sn;
}

struct Ref
{
  LD logL;
  vector<vector<LD>> post;
  vector<LD> siteLik;
  LD d1[2], d2[2];
  bool hasDeriv;
  bool unreliable; // the long double reference itself left its range (a reachable state's scaled forward value underflowed)
  bool risk; // a scaled forward value (non zero) below 1e-290 or a scaled backward value above 1e290: outside the double range
};

// scaled forward pass; T = LD or Jet (emissions E as T)
template<class T> T forwardLog(const Snap& sn, const vector<vector<T>>& E, vector<vector<T>>* fOut, vector<T>* sOut)
{
  size_t n = sn.n;
  vector<T> f(n), g(n);
  T logL(0);
  for (size_t i = 0; i < sn.L; ++i)
  {
    T s(0);
    for (size_t j = 0; j < n; ++j)
    {
      T x(0);
      if (sn.start[i]) x = T(static_cast<LD>(sn.pi[j]));
      else
        for (size_t k = 0; k < n; ++k) if (sn.P[k][j] != 0) x += f[k] * T(static_cast<LD>(sn.P[k][j]));
      g[j] = x * E[i][j];
      s += g[j];
    }
    for (size_t j = 0; j < n; ++j) f[j] = g[j] / s;
    logL += jlog(s);
    if (fOut) (*fOut)[i] = f;
    if (sOut) (*sOut)[i] = s;
  }
  return logL;
}

vector<vector<Jet>> jetTable(const Snap& sn, int var)
{
  vector<vector<Jet>> E(sn.L, vector<Jet>(sn.n));
  for (size_t i = 0; i < sn.L; ++i)
    for (size_t j = 0; j < sn.n; ++j) E[i][j] = Jet(sn.E[i][j], sn.dE[var][i][j], sn.d2E[var][i][j]);
  return E;
}
vector<vector<LD>> ldTable(const Snap& sn)
{
  vector<vector<LD>> E(sn.L, vector<LD>(sn.n));
  for (size_t i = 0; i < sn.L; ++i)
    for (size_t j = 0; j < sn.n; ++j) E[i][j] = sn.E[i][j];
  return E;
}

Ref forwardRef(const Snap& sn, bool wantDeriv)
{
  Ref r;
  size_t n = sn.n, L = sn.L;
  vector<vector<LD>> E = ldTable(sn), f(L, vector<LD>(n)), b(L, vector<LD>(n, 1.0L));
  vector<LD> s(L);
  r.logL = forwardLog<LD>(sn, E, &f, &s);
  r.risk = false;
  for (size_t i = 0; i < L; ++i)
    for (size_t j = 0; j < n; ++j)
      if (f[i][j] > 0 && f[i][j] * s[i] < 1e-290L) r.risk = true; // f*s = e_j * x_j, the product the scaled recursion forms in double
  r.unreliable = false;
  {
    vector<char> reach(n), nx(n);
    for (size_t i = 0; i < L; ++i)
    {
      for (size_t j = 0; j < n; ++j)
      {
        nx[j] = 0;
        if (sn.start[i]) nx[j] = sn.pi[j] > 0;
        else
          for (size_t k = 0; k < n; ++k) if (reach[k] && sn.P[k][j] > 0) nx[j] = 1;
        if (nx[j] && !(f[i][j] > 1e-4000L)) r.unreliable = true;
      }
      reach = nx;
    }
  }
  // backward values are only needed (and only kept) for states with a positive forward value
  vector<vector<LD>> bz(L, vector<LD>(n, 1.0L));
  for (size_t j = 0; j < n; ++j) if (f[L - 1][j] == 0) b[L - 1][j] = 0;
  for (size_t i = L - 1; i > 0; --i)
  {
    for (size_t j = 0; j < n; ++j)
    {
      if (f[i - 1][j] == 0)
      {
        // the library computes a backward value for impossible states too: follow its magnitude to see whether it leaves the double range
        LD y = 0;
        if (sn.start[i]) y = 1;
        else
          for (size_t k = 0; k < n; ++k) if (sn.P[j][k] != 0) y += static_cast<LD>(sn.P[j][k]) * E[i][k] * (f[i][k] != 0 ? b[i][k] : bz[i][k]);
        if (!sn.start[i]) y /= s[i];
        bz[i - 1][j] = y;
        if (!(y < 1e290L)) r.risk = true;
        b[i - 1][j] = 0;
        continue;
      }
      if (sn.start[i]) { b[i - 1][j] = 1; continue; }
      LD x = 0;
      for (size_t k = 0; k < n; ++k) if (sn.P[j][k] != 0 && f[i][k] != 0) x += static_cast<LD>(sn.P[j][k]) * E[i][k] * b[i][k];
      b[i - 1][j] = x / s[i];
    }
  }
  r.post.assign(L, vector<LD>(n));
  r.siteLik.assign(L, 0);
  for (size_t i = 0; i < L; ++i)
    for (size_t j = 0; j < n; ++j)
    {
      r.post[i][j] = f[i][j] * b[i][j];
      if (b[i][j] > 1e290L) r.risk = true;
      r.siteLik[i] += r.post[i][j] * E[i][j];
    }
  r.hasDeriv = wantDeriv && !sn.dE[0].empty();
  for (int k = 0; k < 2; ++k)
  {
    r.d1[k] = r.d2[k] = 0;
    if (!r.hasDeriv) continue;
    Jet lj = forwardLog<Jet>(sn, jetTable(sn, k), nullptr, nullptr);
    r.d1[k] = lj.d;
    r.d2[k] = lj.dd;
  }
  return r;
}

// sum over all hidden paths (chain restarted from pi at each segment start); mass[i][j] = total weight of paths with y_i=j
template<class T> T bruteTotal(const Snap& sn, const vector<vector<T>>& E, vector<vector<T>>* mass)
{
  size_t n = sn.n, L = sn.L;
  vector<size_t> y(L, 0);
  vector<T> pre(L + 1);
  pre[0] = T(1.0L);
  T total(0);
  size_t from = 0; // first position whose prefix product must be recomputed
  for (;;)
  {
    for (size_t i = from; i < L; ++i)
    {
      LD t = sn.start[i] ? static_cast<LD>(sn.pi[y[i]]) : static_cast<LD>(sn.P[y[i - 1]][y[i]]);
      pre[i + 1] = pre[i] * T(t) * E[i][y[i]];
    }
    total += pre[L];
    if (mass && val(pre[L]) != 0)
      for (size_t i = 0; i < L; ++i) (*mass)[i][y[i]] += pre[L];
    // odometer, last position fastest
    size_t k = L;
    while (k > 0)
    {
      --k;
      if (++y[k] < n) break;
      y[k] = 0;
      if (k == 0) return total;
    }
    from = k;
  }
}

LD tolBase(const Snap& sn) { return 64 * static_cast<LD>(sn.n) * EPS * sn.L * (static_cast<LD>(sn.L) + 1 + sn.M) + 1e-13L; }
LD tolD1(const Snap& sn, int k) { return tolBase(sn) * (1 + sn.S1[k]); }
LD tolD2(const Snap& sn, int k) { return tolBase(sn) * (1 + sn.S2[k] + sn.S1[k] * sn.S1[k]); }

bool closeLD(LD got, LD ref, LD tol) { return !std::isnan(static_cast<double>(got)) && fabsl(got - ref) <= tol; }
string ld(LD x) { return str(static_cast<double>(x)); }

// ------------------------------------------------------------------ test doubles implementing the library's interfaces
class HState : public Clonable
{
public:
  size_t id;
  HState(size_t i = 0) : id(i) {}
  HState* clone() const override { return new HState(*this); }
};

class Alpha : public virtual HmmStateAlphabet, public AbstractParametrizable
{
  vector<HState> states_;

public:
  Alpha(size_t n, const string& prefix, bool withParam) : AbstractParametrizable(prefix), states_()
  {
    for (size_t i = 0; i < n; ++i) states_.push_back(HState(i));
    if (withParam) addParameter_(new Parameter(prefix + "q", 0.5, make_shared<IntervalConstraint>(0., 1., true, true)));
  }
  Alpha* clone() const override { return new Alpha(*this); }
  const Clonable& getState(size_t i) const override { return states_[i]; }
  size_t getNumberOfStates() const override { return states_.size(); }
  bool worksWith(const HmmStateAlphabet& a) const override { return &a == this; }
  bool hasQ() const { return hasParameter("q"); }
  double q() const { return getParameterValue("q"); }
};

class Trans : public virtual HmmTransitionMatrix, public AbstractParametrizable
{
  shared_ptr<const HmmStateAlphabet> alpha_;
  vector<vector<double>> p0_;
  vector<double> pi_;
  RowMatrix<double> p_;

  void rebuild()
  {
    double s = getParameterValue("s");
    size_t n = p0_.size();
    for (size_t i = 0; i < n; ++i)
      for (size_t j = 0; j < n; ++j) p_(i, j) = transVal(p0_[i][j], s, i == j);
  }

public:
  Trans(shared_ptr<const HmmStateAlphabet> alpha, const Spec& sp, double s) :
    AbstractParametrizable(sp.prefix), alpha_(alpha), p0_(sp.P0), pi_(sp.pi), p_(sp.n, sp.n)
  {
    addParameter_(new Parameter(sp.prefix + "s", s, make_shared<IntervalConstraint>(0., 0.9, true, true)));
    rebuild();
  }
  Trans* clone() const override { return new Trans(*this); }
  const HmmStateAlphabet& hmmStateAlphabet() const override { return *alpha_; }
  shared_ptr<const HmmStateAlphabet> getHmmStateAlphabet() const override { return alpha_; }
  void setHmmStateAlphabet(shared_ptr<const HmmStateAlphabet> a) override
  {
    if (!a) throw HmmUnvalidAlphabetException("null alphabet");
    alpha_ = a;
  }
  size_t getNumberOfStates() const override { return p0_.size(); }
  double Pij(size_t i, size_t j) const override { return p_(i, j); }
  const Matrix<double>& getPij() const override { return p_; }
  const vector<double>& getEquilibriumFrequencies() const override { return pi_; }
  void fireParameterChanged(const ParameterList&) override { rebuild(); }
};

// Emission table e_i(j) = c_ij exp(-(a v_ij + b w_ij + a^2 z_ij / 2)).  Derivative tables are lazy: they are valid only
// between a computeD(2)EmissionProbabilities(variable) call and the next parameter change (poisoned with NaN otherwise).
class Emis : public virtual HmmEmissionProbabilities, public AbstractParametrizable
{
  shared_ptr<const HmmStateAlphabet> alpha_;
  vector<vector<double>> c_, v_, w_, z_;
  vector<vector<double>> e_;
  mutable vector<vector<double>> d_, d2_;

  void poison() const
  {
    double nan = std::numeric_limits<double>::quiet_NaN();
    for (auto& r : d_) for (double& x : r) x = nan;
    for (auto& r : d2_) for (double& x : r) x = nan;
  }
  void rebuild()
  {
    double a = getParameterValue("a"), b = getParameterValue("b");
    const Alpha* al = dynamic_cast<const Alpha*>(alpha_.get());
    bool hasq = al && al->hasQ();
    double q = hasq ? al->q() : 0;
    for (size_t i = 0; i < e_.size(); ++i)
      for (size_t j = 0; j < e_[i].size(); ++j) e_[i][j] = emisVal(c_[i][j], v_[i][j], w_[i][j], z_[i][j], a, b) * alphaFactor(hasq, q, j);
    poison();
  }
  int which(const string& variable) const
  {
    if (variable == getNamespace() + "a") return 0;
    if (variable == getNamespace() + "b") return 1;
    return -1;
  }

public:
  mutable size_t dCalls, d2Calls;
  Emis(shared_ptr<const HmmStateAlphabet> alpha, const Spec& sp, double a, double b) :
    AbstractParametrizable(sp.prefix), alpha_(alpha), c_(sp.c), v_(sp.v), w_(sp.w), z_(sp.z), e_(sp.c), d_(sp.c), d2_(sp.c), dCalls(0), d2Calls(0)
  {
    addParameter_(new Parameter(sp.prefix + "a", a, make_shared<IntervalConstraint>(0., 3., true, true)));
    addParameter_(new Parameter(sp.prefix + "b", b, make_shared<IntervalConstraint>(0., 3., true, true)));
    rebuild();
  }
  Emis* clone() const override { return new Emis(*this); }
  const HmmStateAlphabet& hmmStateAlphabet() const override { return *alpha_; }
  shared_ptr<const HmmStateAlphabet> getHmmStateAlphabet() const override { return alpha_; }
  void setHmmStateAlphabet(shared_ptr<const HmmStateAlphabet> a) override
  {
    if (!a) throw HmmUnvalidAlphabetException("null alphabet");
    alpha_ = a;
  }
  double operator()(size_t pos, size_t state) const override { return e_[pos][state]; }
  const vector<double>& operator()(size_t pos) const override { return e_[pos]; }
  size_t getNumberOfPositions() const override { return e_.size(); }
  void fireParameterChanged(const ParameterList&) override { rebuild(); }

  void computeDEmissionProbabilities(string& variable) const override
  {
    ++dCalls;
    int k = which(variable);
    double a = getParameterValue("a");
    for (size_t i = 0; i < e_.size(); ++i)
      for (size_t j = 0; j < e_[i].size(); ++j)
        d_[i][j] = k == 0 ? -(v_[i][j] + a * z_[i][j]) * e_[i][j] : k == 1 ? -w_[i][j] * e_[i][j] : 0.0;
  }
  void computeD2EmissionProbabilities(string& variable) const override
  {
    ++d2Calls;
    int k = which(variable);
    double a = getParameterValue("a");
    for (size_t i = 0; i < e_.size(); ++i)
      for (size_t j = 0; j < e_[i].size(); ++j)
      {
        double g = v_[i][j] + a * z_[i][j];
        d2_[i][j] = k == 0 ? (g * g - z_[i][j]) * e_[i][j] : k == 1 ? w_[i][j] * w_[i][j] * e_[i][j] : 0.0;
      }
  }
  const vector<double>& getDEmissionProbabilities(size_t pos) const override { return d_[pos]; }
  const vector<double>& getD2EmissionProbabilities(size_t pos) const override { return d2_[pos]; }
};

// plain emission table without parameters (used with the built-in transition matrices)
class PlainEmis : public virtual HmmEmissionProbabilities, public AbstractParametrizable
{
  shared_ptr<const HmmStateAlphabet> alpha_;
  vector<vector<double>> e_;

public:
  PlainEmis(shared_ptr<const HmmStateAlphabet> alpha, const vector<vector<double>>& e) : AbstractParametrizable(""), alpha_(alpha), e_(e) {}
  PlainEmis* clone() const override { return new PlainEmis(*this); }
  const HmmStateAlphabet& hmmStateAlphabet() const override { return *alpha_; }
  shared_ptr<const HmmStateAlphabet> getHmmStateAlphabet() const override { return alpha_; }
  void setHmmStateAlphabet(shared_ptr<const HmmStateAlphabet> a) override { alpha_ = a; }
  double operator()(size_t pos, size_t state) const override { return e_[pos][state]; }
  const vector<double>& operator()(size_t pos) const override { return e_[pos]; }
  size_t getNumberOfPositions() const override { return e_.size(); }
};

enum Algo { RESCALED = 0, LOWMEM = 1, LOGSUM = 2 };
const char* ALGO[] = { "rescaled", "lowmem", "logsum" };

struct Rig
{
  shared_ptr<Alpha> alpha;
  shared_ptr<Trans> trans;
  shared_ptr<Emis> emis;
  unique_ptr<HmmLikelihood> lik;
};

unique_ptr<HmmLikelihood> makeLik(int algo, shared_ptr<HmmStateAlphabet> al, shared_ptr<HmmTransitionMatrix> tr, shared_ptr<HmmEmissionProbabilities> em, const string& prefix, size_t chunk)
{
  if (algo == RESCALED) return unique_ptr<HmmLikelihood>(new RescaledHmmLikelihood(al, tr, em, prefix));
  if (algo == LOWMEM) return unique_ptr<HmmLikelihood>(new LowMemoryRescaledHmmLikelihood(al, tr, em, prefix, chunk));
  return unique_ptr<HmmLikelihood>(new LogsumHmmLikelihood(al, tr, em, prefix));
}

Rig makeRig(const Spec& sp, const State& st, int algo, size_t chunk)
{
  Rig r;
  r.alpha = make_shared<Alpha>(sp.n, sp.prefix, sp.alphaParam);
  r.trans = make_shared<Trans>(r.alpha, sp, st.s);
  r.emis = make_shared<Emis>(r.alpha, sp, st.a, st.b);
  r.lik = makeLik(algo, r.alpha, r.trans, r.emis, sp.prefix, chunk);
  if (!st.bp.empty()) r.lik->setBreakPoints(st.bp);
  return r;
}

// ------------------------------------------------------------------ queries on a likelihood object and their oracles
enum Q { Q_LOGL, Q_POST_ALL, Q_POST_APPEND, Q_POST_SITE, Q_SITE_LIK, Q_EACH_SITE, Q_D1A, Q_D1B, Q_D2A, Q_D2B, NQ };
const char* QNAME[] = { "logL", "postAll", "postAppend", "postSite", "siteLik", "eachSiteLik", "d1(a)", "d1(b)", "d2(a)", "d2(b)" };

typedef function<string ()> Where;
bool g_judgeRisk = false;

bool checkPosteriorRow(const vector<double>& got, const vector<LD>& ref, const Snap& sn, const string& cls, size_t site, const Where& where)
{
  LD tol = tolBase(sn);
  bool ok = true;
  if (!vrt::expect(got.size() == sn.n, "lik.posterior-range", cls + ":size", [&] { return where() + " => posterior row of site " + str(site) + " has " + str(got.size()) + " entries"; })) return false;
  LD sum = 0;
  bool neg = false;
  for (double x : got) { sum += x; if (!(x >= 0)) neg = true; }
  ok &= vrt::expect(!neg, "lik.posterior-range", cls + ":negative-or-nan", [&] { return where() + " => posterior at site " + str(site) + " = " + vrt::vecStr(got); });
  ok &= vrt::expect(closeLD(sum, 1, tol * sn.n), "lik.posterior-sum", cls, [&] { return where() + " => posterior at site " + str(site) + " = " + vrt::vecStr(got) + " sums to " + ld(sum); });
  bool same = true;
  for (size_t j = 0; j < sn.n; ++j) same &= closeLD(got[j], ref[j], tol);
  ok &= vrt::expect(same, "lik.posterior-value", cls, [&] {
        vector<double> r;
        for (LD x : ref) r.push_back(static_cast<double>(x));
        return where() + " => posterior at site " + str(site) + " = " + vrt::vecStr(got) + " expected " + vrt::vecStr(r) + " tol " + ld(tol);
      });
  return ok;
}

LD maxE(const Snap& sn, size_t site)
{
  LD m = 0;
  for (double e : sn.E[site]) m = max<LD>(m, e);
  return m;
}

// Run one query and judge the answer against the reference of the CURRENT state.  ctx = structural context (part of the class).
bool runQuery(HmmLikelihood& lik, int algo, int q, size_t site, const Spec& sp, const Snap& sn, const Ref& ref, const string& ctx, const Where& where0)
{
  if (ref.unreliable) { vrt::counted("ref.unreliable-skipped"); return true; }
  if (ref.risk && algo != LOGSUM && !g_judgeRisk && vrt::known("C13-rescaled-dynamic-range")) { vrt::counted("lik.skipped-dynamic-range"); return true; }
  const string cls = string(ALGO[algo]) + ":" + ctx + (ref.risk && algo != LOGSUM ? ":double-range-exceeded" : "");
  Where where = [&] { return where0() + " ; query " + QNAME[q] + (q == Q_POST_SITE || q == Q_SITE_LIK ? "(" + str(site) + ")" : ""); };
  double scalar = 0, scalar2 = 0;
  vector<vector<double>> vv;
  vector<double> v1;
  string var = sp.prefix + ((q == Q_D1A || q == Q_D2A) ? "a" : "b");
  vrt::Outcome o = vrt::capture([&] {
        switch (q)
        {
        case Q_LOGL: scalar = lik.getLogLikelihood(); scalar2 = lik.getValue(); break;
        case Q_POST_ALL: vv.assign(1, vector<double>(1, 9.)); lik.getHiddenStatesPosteriorProbabilities(vv, false); break;
        case Q_POST_APPEND: vv.assign(2, vector<double>(2, 7.)); lik.getHiddenStatesPosteriorProbabilities(vv, true); break;
        case Q_POST_SITE: v1 = lik.getHiddenStatesPosteriorProbabilitiesForASite(site); break;
        case Q_SITE_LIK: scalar = lik.getLikelihoodForASite(site); break;
        case Q_EACH_SITE: v1 = lik.getLikelihoodForEachSite(); break;
        case Q_D1A: case Q_D1B: scalar = lik.getFirstOrderDerivative(var); scalar2 = lik.getDLogLikelihood(); break;
        default: scalar = lik.getSecondOrderDerivative(var); scalar2 = lik.getD2LogLikelihood(); break;
        }
      });
  if (!o.returned())
  {
    if (algo == LOWMEM && q != Q_LOGL && o.raisedBpp()) { vrt::counted("lik.lowmem-declines"); return true; }
    vrt::violation("lik.raises", cls + ":" + QNAME[q], where() + " => " + o.text());
    return false;
  }
  bool ok = true;
  switch (q)
  {
  case Q_LOGL:
    ok &= vrt::expect(closeLD(scalar, ref.logL, tolBase(sn)), "lik.loglik", cls, [&] { return where() + " => getLogLikelihood " + str(scalar) + " expected " + ld(ref.logL) + " tol " + ld(tolBase(sn)); });
    ok &= vrt::expect(vrt::sameDouble(scalar2, -scalar), "lik.value-is-minus-loglik", cls, [&] { return where() + " => getValue " + str(scalar2) + " getLogLikelihood " + str(scalar); });
    break;
  case Q_POST_ALL:
  case Q_POST_APPEND:
  {
    size_t off = q == Q_POST_APPEND ? 2 : 0;
    if (!vrt::expect(vv.size() == off + sn.L, "lik.posterior-range", cls + ":rows", [&] { return where() + " => " + str(vv.size()) + " rows, expected " + str(off + sn.L); })) return false;
    if (off)
      ok &= vrt::expect(vv[0] == vector<double>(2, 7.) && vv[1] == vector<double>(2, 7.), "lik.posterior-append", cls, [&] { return where() + " => rows present before the call were modified"; });
    for (size_t i = 0; i < sn.L && ok; ++i) ok &= checkPosteriorRow(vv[off + i], ref.post[i], sn, cls, i, where);
    break;
  }
  case Q_POST_SITE:
    ok &= checkPosteriorRow(v1, ref.post[site], sn, cls, site, where);
    break;
  case Q_SITE_LIK:
    ok &= vrt::expect(closeLD(scalar, ref.siteLik[site], tolBase(sn) * maxE(sn, site)), "lik.site-likelihood", cls, [&] { return where() + " => " + str(scalar) + " expected sum_j post_j e_j = " + ld(ref.siteLik[site]); });
    break;
  case Q_EACH_SITE:
    if (!vrt::expect(v1.size() == sn.L, "lik.site-likelihood", cls + ":size", [&] { return where() + " => " + str(v1.size()) + " entries"; })) return false;
    for (size_t i = 0; i < sn.L && ok; ++i)
      ok &= vrt::expect(closeLD(v1[i], ref.siteLik[i], tolBase(sn) * maxE(sn, i)), "lik.site-likelihood", cls, [&] { return where() + " => site " + str(i) + ": " + str(v1[i]) + " expected " + ld(ref.siteLik[i]); });
    break;
  case Q_D1A: case Q_D1B:
  {
    int k = q == Q_D1A ? 0 : 1;
    ok &= vrt::expect(vrt::sameDouble(scalar2, -scalar), "lik.dloglik-accessor", cls, [&] { return where() + " => getDLogLikelihood " + str(scalar2) + " after getFirstOrderDerivative returned " + str(scalar); });
    ok &= vrt::expect(closeLD(scalar, -ref.d1[k], tolD1(sn, k)), "lik.d1", cls, [&] { return where() + " => getFirstOrderDerivative(" + var + ") = " + str(scalar) + " expected -dlogL = " + ld(-ref.d1[k]) + " tol " + ld(tolD1(sn, k)); });
    break;
  }
  default:
  {
    int k = q == Q_D2A ? 0 : 1;
    ok &= vrt::expect(vrt::sameDouble(scalar2, -scalar), "lik.dloglik-accessor", cls, [&] { return where() + " => getD2LogLikelihood " + str(scalar2) + " after getSecondOrderDerivative returned " + str(scalar); });
    ok &= vrt::expect(closeLD(scalar, -ref.d2[k], tolD2(sn, k)), "lik.d2", cls, [&] { return where() + " => getSecondOrderDerivative(" + var + ") = " + str(scalar) + " expected -d2logL = " + ld(-ref.d2[k]) + " tol " + ld(tolD2(sn, k)); });
    break;
  }
  }
  return ok;
}

// harness self-checks: forward reference against enumeration, jets against finite differences of the reference logL
void selfCheckJets(const Spec& sp, const State& st, const Ref& ref, const Snap& sn)
{
  for (int k = 0; k < 2; ++k)
  {
    LD h = 1e-3L;
    LD f[5];
    for (int t = -2; t <= 2; ++t)
    {
      // evaluate the reference logL at parameter + t*h using long double emissions (exact shift of the analytic table)
      Snap s2 = sn;
      vector<vector<LD>> E(sn.L, vector<LD>(sn.n));
      for (size_t i = 0; i < sn.L; ++i)
        for (size_t j = 0; j < sn.n; ++j)
        {
          LD a = st.a, b = st.b, d = t * h;
          LD a2 = k == 0 ? a + d : a, b2 = k == 1 ? b + d : b;
          LD ex = -(a2 * sp.v[i][j] + b2 * sp.w[i][j] + 0.5L * a2 * a2 * sp.z[i][j]) + (a * sp.v[i][j] + b * sp.w[i][j] + 0.5L * a * a * sp.z[i][j]);
          E[i][j] = static_cast<LD>(sn.E[i][j]) * expl(ex);
        }
      f[t + 2] = forwardLog<LD>(s2, E, nullptr, nullptr);
    }
    LD fd1 = (-f[4] + 8 * f[3] - 8 * f[1] + f[0]) / (12 * h);
    LD fd2 = (-f[4] + 16 * f[3] - 30 * f[2] + 16 * f[1] - f[0]) / (12 * h * h);
    LD sc1 = 1 + sn.S1[k], sc2 = 1 + sn.S2[k] + sn.S1[k] * sn.S1[k];
    // truncation h^4 f^(5)/30 resp. h^4 f^(6)/90 with derivatives bounded by powers of the scale; roundoff eps_ld*|logL|/h^2
    LD slack1 = 1e-7L * sc1 * sc1 + 1e-15L * fabsl(ref.logL), slack2 = 1e-6L * sc2 + 1e-12L * fabsl(ref.logL);
    vrt::expect(fabsl(fd1 - ref.d1[k]) <= slack1, "harness.jet-vs-fd", "d1", [&] { return stateText(st) + " var " + str(k) + " jet d1 " + ld(ref.d1[k]) + " fd " + ld(fd1) + " | " + specText(sp); });
    vrt::expect(fabsl(fd2 - ref.d2[k]) <= slack2, "harness.jet-vs-fd", "d2", [&] { return stateText(st) + " var " + str(k) + " jet d2 " + ld(ref.d2[k]) + " fd " + ld(fd2) + " | " + specText(sp); });
  }
}

void selfCheckPi(const Spec& sp)
{
  LD worst = 0, sum = 0;
  for (size_t j = 0; j < sp.n; ++j)
  {
    LD x = 0;
    for (size_t k = 0; k < sp.n; ++k) x += static_cast<LD>(sp.pi[k]) * sp.P0[k][j];
    worst = max(worst, fabsl(x - sp.pi[j]));
    sum += sp.pi[j];
  }
  vrt::expect(worst <= 1e-15L && fabsl(sum - 1) <= 1e-15L, "harness.pi-stationary", PCLASS[sp.pclass], [&] { return "resid " + ld(worst) + " sum-1 " + ld(sum - 1) + " | " + specText(sp); });
}

// ------------------------------------------------------------------ group enum: every algorithm against path enumeration
struct NL { size_t n, L; };
vector<NL> enumPairs(double cap)
{
  vector<NL> v;
  for (size_t n = 1; n <= 5; ++n)
    for (size_t L = 1; L <= 12; ++L)
      if (std::pow(static_cast<double>(n), static_cast<double>(L)) <= cap) v.push_back(NL{ n, L });
  return v;
}

string bpKind(const Snap& sn) { return sn.nseg == 1 ? "nobreak" : sn.nseg == sn.L ? "allbreaks" : "breaks"; }
string chunkKind(size_t chunk, size_t L) { return chunk == 1 ? "chunk=1" : chunk < L ? "chunk<L" : chunk == L ? "chunk=L" : "chunk>L"; }

State randomState(vrt::Rng& rng)
{
  State st;
  st.a = rng.chance(0.1) ? 0.0 : rng.real(0, 2);
  st.b = rng.chance(0.1) ? 0.0 : rng.real(0, 2);
  st.s = rng.chance(0.5) ? 0.0 : rng.real(0, 0.8);
  return st;
}

// all queries on freshly built objects of the three algorithms for one (spec, state)
bool freshObjectsAgainst(const Spec& sp, const State& st, const Snap& sn, const Ref& ref, vrt::Rng& rng, const vector<size_t>& chunks, bool derivs)
{
  bool ok = true;
  Where where = [&] { return specText(sp) + " | " + stateText(st); };
  for (int algo = 0; algo < 3; ++algo)
  {
    vector<size_t> cl = algo == LOWMEM ? chunks : vector<size_t>(1, 0);
    for (size_t chunk : cl)
    {
      string ctx = "fresh:" + bpKind(sn) + ":" + PCLASS[sp.pclass] + (algo == LOWMEM ? ":" + chunkKind(chunk, sn.L) : "");
      Rig r;
      vrt::Outcome o = vrt::capture([&] { r = makeRig(sp, st, algo, chunk); });
      if (!o.returned())
      {
        vrt::violation("lik.raises", string(ALGO[algo]) + ":" + ctx + ":construct", where() + " chunk " + str(chunk) + " => " + o.text());
        ok = false;
        break;
      }
      Where w2 = [&] { return where() + (algo == LOWMEM ? " chunk " + str(chunk) : ""); };
      ok &= runQuery(*r.lik, algo, Q_LOGL, 0, sp, sn, ref, ctx, w2);
      if (algo == LOWMEM)
      {
        vrt::cover("lowmem:" + chunkKind(chunk, sn.L) + ":" + bpKind(sn));
        if (chunk == cl[0])
        {
          ok &= runQuery(*r.lik, algo, Q_D1A, 0, sp, sn, ref, ctx, w2);
          ok &= runQuery(*r.lik, algo, Q_D1A, 0, sp, sn, ref, ctx + ":again", w2);
          ok &= runQuery(*r.lik, algo, Q_POST_ALL, 0, sp, sn, ref, ctx, w2);
          ok &= runQuery(*r.lik, algo, Q_LOGL, 0, sp, sn, ref, ctx + ":after-declined", w2);
        }
        continue;
      }
      ok &= runQuery(*r.lik, algo, Q_POST_ALL, 0, sp, sn, ref, ctx, w2);
      ok &= runQuery(*r.lik, algo, Q_EACH_SITE, 0, sp, sn, ref, ctx, w2);
      ok &= runQuery(*r.lik, algo, Q_POST_SITE, 0, sp, sn, ref, ctx, w2);
      ok &= runQuery(*r.lik, algo, Q_POST_SITE, sn.L - 1, sp, sn, ref, ctx, w2);
      for (int t = 0; t < 2; ++t) ok &= runQuery(*r.lik, algo, Q_POST_SITE, rng.below(sn.L), sp, sn, ref, ctx, w2);
      ok &= runQuery(*r.lik, algo, Q_SITE_LIK, rng.below(sn.L), sp, sn, ref, ctx, w2);
      ok &= runQuery(*r.lik, algo, Q_POST_APPEND, 0, sp, sn, ref, ctx, w2);
      if (derivs && ok)
      {
        ok &= runQuery(*r.lik, algo, Q_D1A, 0, sp, sn, ref, ctx, w2);
        ok &= runQuery(*r.lik, algo, Q_D2A, 0, sp, sn, ref, ctx, w2);
        // a second object for the other variable, so that this group judges fresh objects only (histories: group history)
        Rig r2;
        vrt::Outcome o2 = vrt::capture([&] { r2 = makeRig(sp, st, algo, chunk); });
        if (o2.returned())
        {
          ok &= runQuery(*r2.lik, algo, Q_D1B, 0, sp, sn, ref, ctx, w2);
          ok &= runQuery(*r2.lik, algo, Q_D2B, 0, sp, sn, ref, ctx, w2);
        }
      }
    }
  }
  return ok;
}

void caseEnum(vrt::Case& c)
{
  static const vector<NL> pairsQ = enumPairs(2e5), pairsT = enumPairs(2e6);
  const vector<NL>& pairs = c.tier ? pairsT : pairsQ;
  NL nl = pairs[c.index % pairs.size()];
  int pclass = static_cast<int>(c.rng.below(6)), eclass = static_cast<int>(c.rng.below(3));
  Spec sp = genSpec(c.rng, nl.n, nl.L, pclass, eclass);
  vrt::describe(string("enum:") + PCLASS[sp.pclass] + ":" + ECLASS[sp.eclass], specText(sp));
  selfCheckPi(sp);
  State st = randomState(c.rng);
  size_t n = sp.n, L = sp.L;
  double paths = std::pow(static_cast<double>(n), static_cast<double>(L));
  double work = paths * static_cast<double>(L);
  size_t total = static_cast<size_t>(1) << (L - 1);
  double budget = c.tier ? 1e7 : 3e6;
  size_t nsub = static_cast<size_t>(min<double>(static_cast<double>(total), max(3.0, budget / work)));
  nsub = min<size_t>(nsub, 128);
  vector<size_t> masks;
  if (nsub >= total) for (size_t m = 0; m < total; ++m) masks.push_back(m);
  else
  {
    masks.push_back(0);
    masks.push_back(total - 1);
    while (masks.size() < nsub) masks.push_back(c.rng.below(total));
  }
  vrt::cover("enum:n" + str(n) + ":L" + str(L) + ":" + PCLASS[sp.pclass] + ":" + ECLASS[sp.eclass]);
  vector<size_t> chunks;
  for (size_t k = 1; k <= L + 1; ++k) chunks.push_back(k);
  bool first = true;
  for (size_t mask : masks)
  {
    st.bp.clear();
    for (size_t i = 1; i < L; ++i) if (mask & (static_cast<size_t>(1) << (i - 1))) st.bp.push_back(i);
    vrt::step("break points " + vrt::vecStr(st.bp));
    Snap sn = makeSnap(sp, st);
    Ref ref = forwardRef(sn, true);
    // enumeration
    vector<vector<LD>> E = ldTable(sn), mass(L, vector<LD>(n, 0.0L));
    LD tot = bruteTotal<LD>(sn, E, &mass);
    LD logB = logl(tot);
    bool same = fabsl(logB - ref.logL) <= 1e-12L + 1e-17L * fabsl(logB);
    for (size_t i = 0; i < L; ++i)
      for (size_t j = 0; j < n; ++j) same &= fabsl(mass[i][j] / tot - ref.post[i][j]) <= 1e-12L;
    vrt::expect(same, "harness.forward-vs-enumeration", "value", [&] { return "enumeration logL " + ld(logB) + " forward " + ld(ref.logL) + " | " + specText(sp) + " | " + stateText(st); });
    ref.logL = logB;
    for (size_t i = 0; i < L; ++i)
    {
      ref.siteLik[i] = 0;
      for (size_t j = 0; j < n; ++j) { ref.post[i][j] = mass[i][j] / tot; ref.siteLik[i] += ref.post[i][j] * E[i][j]; }
    }
    vrt::counted("ref.enumerated-paths", static_cast<vrt::u64>(paths));
    if (first && work <= 5e4)
    {
      for (int k = 0; k < 2; ++k)
      {
        Jet t = jlog(bruteTotal<Jet>(sn, jetTable(sn, k), nullptr));
        vrt::expect(fabsl(t.d - ref.d1[k]) <= 1e-12L * (1 + sn.S1[k]) && fabsl(t.dd - ref.d2[k]) <= 1e-12L * (1 + sn.S2[k] + sn.S1[k] * sn.S1[k]), "harness.forward-vs-enumeration", "jets",
            [&] { return "enumeration d1 " + ld(t.d) + " d2 " + ld(t.dd) + " forward " + ld(ref.d1[k]) + " " + ld(ref.d2[k]) + " | " + specText(sp) + " | " + stateText(st); });
      }
      if (L <= 8) selfCheckJets(sp, st, ref, sn);
    }
    first = false;
    vrt::cover("bp:" + bpKind(sn) + ":" + PCLASS[sp.pclass]);
    if (!freshObjectsAgainst(sp, st, sn, ref, c.rng, chunks, true) && vrt::violationsInCase() > 6) return;
  }
}

// ------------------------------------------------------------------ group long: L up to 5000 against the long double forward pass
void caseLong(vrt::Case& c)
{
  size_t n = static_cast<size_t>(c.rng.range(1, 5));
  double u = c.rng.unit();
  size_t L = u < 0.5 ? static_cast<size_t>(c.rng.range(13, 120)) : u < 0.8 ? static_cast<size_t>(c.rng.range(121, 800)) : u < 0.95 ? static_cast<size_t>(c.rng.range(801, 3000)) : 5000;
  int pclass = static_cast<int>(c.rng.below(6)), eclass = static_cast<int>(c.rng.below(3));
  Spec sp = genSpec(c.rng, n, L, pclass, eclass);
  vrt::describe(string("long:") + PCLASS[sp.pclass] + ":" + ECLASS[sp.eclass], "n=" + str(n) + " L=" + str(L) + " (spec from the case rng)");
  selfCheckPi(sp);
  State st = randomState(c.rng);
  int bk = static_cast<int>(c.rng.below(4));
  if (bk == 1) for (int t = 0; t < 3; ++t) st.bp.push_back(static_cast<size_t>(c.rng.range(1, static_cast<long long>(L) - 1)));
  if (bk == 2) for (size_t i = 1; i < L; ++i) if (c.rng.chance(0.3)) st.bp.push_back(i);
  if (bk == 3) for (size_t i = 1; i < L; ++i) if (c.rng.chance(0.97)) st.bp.push_back(i);
  sort(st.bp.begin(), st.bp.end());
  st.bp.erase(unique(st.bp.begin(), st.bp.end()), st.bp.end());
  Snap sn = makeSnap(sp, st);
  Ref ref = forwardRef(sn, true);
  vector<size_t> chunks = { 1, 2, 3, static_cast<size_t>(c.rng.range(4, static_cast<long long>(L) - 2)), L - 1, L, L + 1, L + 1000 };
  vrt::cover("long:n" + str(n) + ":L" + (L <= 120 ? "<=120" : L <= 800 ? "<=800" : L <= 3000 ? "<=3000" : "5000") + ":" + PCLASS[sp.pclass] + ":" + ECLASS[sp.eclass] + ":" + bpKind(sn));
  freshObjectsAgainst(sp, st, sn, ref, c.rng, chunks, true);
}

// ------------------------------------------------------------------ group history: answers depend on the current parameters only
struct Op
{
  int kind;    // 0 query, 1 parameter update, 2 setBreakPoints, 3 continue on a clone (the original is updated, then destroyed)
  int q;
  size_t site;
  int param;   // 0 a, 1 b, 2 s, 3 alphabet q, 4 a and s together
  double val, val2;
  int route;
  vector<size_t> bp;
  string text() const
  {
    static const char* PN[] = { "a", "b", "s", "q", "a&s" };
    static const char* RN[] = { "setParameterValue", "setParametersValues", "matchParametersValues", "setAllParametersValues", "setParameters" };
    if (kind == 0) return string(QNAME[q]) + ((q == Q_POST_SITE || q == Q_SITE_LIK) ? "(" + str(site) + ")" : "");
    if (kind == 1) return string(RN[route]) + " " + PN[param] + ":=" + str(val) + (param == 4 ? "," + str(val2) : "");
    if (kind == 2) return "setBreakPoints " + vrt::vecStr(bp);
    if (kind == 4) return "assign to an object built with a:=" + str(val) + " s:=" + str(val2) + " bp " + vrt::vecStr(bp) + " (already queried), continue on the assigned object";
    return "clone, update original a:=" + str(val) + ", continue on the clone";
  }
};

void applyUpdate(HmmLikelihood& lik, const Spec& sp, const vector<pair<string, double>>& nv, int route)
{
  ParameterList pl;
  for (auto& x : nv) pl.addParameter(Parameter(sp.prefix + x.first, x.second));
  switch (route)
  {
  case 0:
    for (auto& x : nv) lik.setParameterValue(x.first, x.second);
    break;
  case 1: lik.setParametersValues(pl); break;
  case 2:
    pl.addParameter(Parameter(sp.prefix + "unrelated", 3.));
    lik.matchParametersValues(pl);
    break;
  case 3:
  {
    ParameterList all(lik.getParameters());
    for (auto& x : nv) all.setParameterValue(sp.prefix + x.first, x.second);
    lik.setAllParametersValues(all);
    break;
  }
  default: lik.setParameters(pl); break;
  }
}

void runHistory(vrt::Case& c, const Spec& sp, State st, int algo, size_t chunk, const vector<Op>& ops, const string& mode)
{
  (void)c;
  Rig r;
  Where where0 = [&] { return specText(sp) + (algo == LOWMEM ? " chunk " + str(chunk) : ""); };
  string hist = "init " + stateText(st);
  vrt::Outcome o = vrt::capture([&] { r = makeRig(sp, st, algo, chunk); });
  if (!o.returned()) { vrt::violation("lik.raises", string(ALGO[algo]) + ":" + mode + ":construct", where0() + " | " + hist + " => " + o.text()); return; }
  map<string, pair<Snap, Ref>> cache;
  string lastUpdate = "initial";
  string lastDeriv = "";
  bool updateSinceDeriv = false;
  for (const Op& op : ops)
  {
    vrt::step(op.text());
    hist += " ; " + op.text();
    Where where = [&] { return where0() + " | " + hist + " | now " + stateText(st); };
    if (op.kind == 0)
    {
      string key = stateText(st);
      auto it = cache.find(key);
      if (it == cache.end())
      {
        Snap sn = makeSnap(sp, st);
        it = cache.insert(make_pair(key, make_pair(sn, forwardRef(sn, true)))).first;
      }
      bool isD = op.q >= Q_D1A;
      string ctx = mode + ":" + QNAME[op.q] + ":";
      if (isD) ctx += lastDeriv.empty() ? "first-derivative-query" : updateSinceDeriv ? "after-update" : "after-" + lastDeriv;
      else ctx += lastUpdate;
      vrt::cover("hist:" + string(ALGO[algo]) + ":" + ctx);
      bool ok = runQuery(*r.lik, algo, op.q, op.site, sp, it->second.first, it->second.second, ctx, where);
      if (isD) { lastDeriv = QNAME[op.q]; updateSinceDeriv = false; }
      if (!ok && vrt::violationsInCase() > 4) return;
      continue;
    }
    vrt::Outcome u;
    u.kind = vrt::Outcome::Returned;
    if (op.kind == 1)
    {
      vector<pair<string, double>> nv;
      if (op.param == 0 || op.param == 4) { nv.push_back(make_pair("a", op.val)); st.a = op.val; }
      if (op.param == 1) { nv.push_back(make_pair("b", op.val)); st.b = op.val; }
      if (op.param == 2) { nv.push_back(make_pair("s", op.val)); st.s = op.val; }
      if (op.param == 4) { nv.push_back(make_pair("s", op.val2)); st.s = op.val2; }
      if (op.param == 3) { nv.push_back(make_pair("q", op.val)); st.q = op.val; }
      u = vrt::capture([&] { applyUpdate(*r.lik, sp, nv, op.route); });
      lastUpdate = "after-param-update";
    }
    else if (op.kind == 2)
    {
      st.bp = op.bp;
      u = vrt::capture([&] { r.lik->setBreakPoints(op.bp); });
      lastUpdate = "after-setBreakPoints";
    }
    else if (op.kind == 4)
    {
      u = vrt::capture([&] {
            State st2 = st;
            st2.a = op.val; st2.s = op.val2; st2.bp = op.bp; st2.q = 0.5;
            Rig o2 = makeRig(sp, st2, algo, chunk);
            (void)o2.lik->getLogLikelihood();
            if (algo != LOWMEM)
            {
              vector<vector<double>> vv;
              o2.lik->getHiddenStatesPosteriorProbabilities(vv, false);
              (void)o2.lik->getSecondOrderDerivative(sp.prefix + "a");
            }
            if (algo == RESCALED) *dynamic_cast<RescaledHmmLikelihood*>(o2.lik.get()) = *dynamic_cast<RescaledHmmLikelihood*>(r.lik.get());
            else if (algo == LOWMEM) *dynamic_cast<LowMemoryRescaledHmmLikelihood*>(o2.lik.get()) = *dynamic_cast<LowMemoryRescaledHmmLikelihood*>(r.lik.get());
            else *dynamic_cast<LogsumHmmLikelihood*>(o2.lik.get()) = *dynamic_cast<LogsumHmmLikelihood*>(r.lik.get());
            r = std::move(o2);
          });
      lastUpdate = "after-assignment";
    }
    else
    {
      u = vrt::capture([&] {
            unique_ptr<HmmLikelihood> cl(r.lik->clone());
            r.lik->setParameterValue("a", op.val);
            r.lik = std::move(cl);
          });
      lastUpdate = "after-clone";
    }
    updateSinceDeriv = true;
    if (!u.returned())
    {
      vrt::violation("history.update-raises", string(ALGO[algo]) + ":" + mode + ":" + (op.kind == 1 ? "param" : op.kind == 2 ? "bp" : op.kind == 3 ? "clone" : "assign"), where() + " => " + u.text());
      return;
    }
  }
}

vector<size_t> randomBp(vrt::Rng& rng, size_t L)
{
  vector<size_t> bp;
  if (L < 2) return bp;
  int k = static_cast<int>(rng.below(3));
  for (size_t i = 1; i < L; ++i) if (k == 2 || (k == 1 && rng.chance(0.4))) bp.push_back(i);
  return bp;
}

// exhaustive: every sequence of length len over a 14 letter alphabet (9 queries, 5 updates), then a final sweep of all queries
void caseHistoryExhaustive(vrt::Case& c)
{
  const size_t A = 14;
  size_t len = c.tier ? 4 : 3;
  size_t idx = c.index;
  int algo = static_cast<int>(idx % 3);
  idx /= 3;
  vrt::Rng srng(vrt::mix(c.seed, 4711 + idx % 5)); // five different small models per seed
  size_t n = static_cast<size_t>(srng.range(1, 3)), L = static_cast<size_t>(srng.range(2, 4));
  Spec sp = genSpec(srng, n, L, static_cast<int>(srng.below(6)), static_cast<int>(srng.below(3)));
  sp.alphaParam = false;
  State st = randomState(srng);
  double va = srng.real(0, 2), vb = srng.real(0, 2), vs = srng.real(0.05, 0.8);
  vector<size_t> B1;
  for (size_t i = 1; i < L; ++i) if (i == 1 || srng.chance(0.5)) B1.push_back(i);
  vector<Op> ops;
  string word;
  for (size_t t = 0; t < len; ++t)
  {
    size_t l = idx % A;
    idx /= A;
    Op op;
    op.kind = 0; op.q = 0; op.site = 0; op.param = 0; op.val = op.val2 = 0; op.route = static_cast<int>((c.index + t) % 5);
    static const int QS[] = { Q_LOGL, Q_POST_ALL, Q_POST_SITE, Q_SITE_LIK, Q_EACH_SITE, Q_D1A, Q_D1B, Q_D2A, Q_D2B };
    if (l < 9) { op.q = QS[l]; op.site = op.q == Q_SITE_LIK ? L - 1 : 0; }
    else if (l < 12) { op.kind = 1; op.param = static_cast<int>(l - 9); op.val = l == 9 ? va : l == 10 ? vb : vs; }
    else { op.kind = 2; if (l == 12) op.bp = B1; }
    ops.push_back(op);
  }
  for (int q : { Q_LOGL, Q_POST_ALL, Q_D1A, Q_D2A, Q_D2B, Q_D1B, Q_EACH_SITE })
  {
    Op op;
    op.kind = 0; op.q = q; op.site = 0; op.param = 0; op.val = op.val2 = 0; op.route = 0;
    ops.push_back(op);
  }
  vrt::describe(string("history-exhaustive:") + ALGO[algo], "sequence index " + str(c.index) + " on " + specText(sp));
  size_t chunk = 1 + (c.index / 3) % (L + 1);
  runHistory(c, sp, st, algo, chunk, ops, "hist");
}

void caseHistoryRandom(vrt::Case& c)
{
  int algo = static_cast<int>(c.index % 3);
  size_t n = static_cast<size_t>(c.rng.range(1, 4)), L = static_cast<size_t>(c.rng.range(1, 10));
  Spec sp = genSpec(c.rng, n, L, static_cast<int>(c.rng.below(6)), static_cast<int>(c.rng.below(3)));
  State st = randomState(c.rng);
  if (c.rng.chance(0.3)) st.bp = randomBp(c.rng, L);
  size_t len = static_cast<size_t>(c.rng.range(5, 40));
  vector<Op> ops;
  for (size_t t = 0; t < len; ++t)
  {
    Op op;
    op.kind = 0; op.q = 0; op.site = 0; op.param = 0; op.val = op.val2 = 0; op.route = static_cast<int>(c.rng.below(5));
    double u = c.rng.unit();
    if (u < 0.6) { op.q = static_cast<int>(c.rng.below(NQ)); op.site = c.rng.below(L); }
    else if (u < 0.85)
    {
      op.kind = 1;
      op.param = static_cast<int>(c.rng.below(5));
      if (op.param == 3 && !sp.alphaParam) op.param = 0;
      op.val = op.param == 2 ? (c.rng.chance(0.3) ? 0.0 : c.rng.real(0, 0.8)) : op.param == 3 ? c.rng.unit() : c.rng.real(0, 2);
      op.val2 = c.rng.real(0, 0.8);
    }
    else if (u < 0.95) { op.kind = 2; op.bp = randomBp(c.rng, L); }
    else if (u < 0.975) { op.kind = 3; op.val = c.rng.real(0, 2); }
    else { op.kind = 4; op.val = c.rng.real(0, 2); op.val2 = c.rng.real(0, 0.8); op.bp = randomBp(c.rng, L); }
    ops.push_back(op);
  }
  vrt::describe(string("history-random:") + ALGO[algo], "history of " + str(len) + " operations on " + specText(sp));
  runHistory(c, sp, st, algo, static_cast<size_t>(c.rng.range(1, static_cast<long long>(L) + 1)), ops, "hist");
}

// ------------------------------------------------------------------ group copies: a copy and its source are independent objects
// Both objects stay alive after clone() / copy construction / assignment and are updated and queried in turn; every answer of
// either object is judged against the reference for ITS OWN current (a,b,s,q,break points).
const char* CROUTE[] = { "clone", "copy-ctor", "assign-queried", "assign-fresh" };

unique_ptr<HmmLikelihood> copyConstructLik(int algo, const HmmLikelihood& src)
{
  if (algo == RESCALED) return unique_ptr<HmmLikelihood>(new RescaledHmmLikelihood(dynamic_cast<const RescaledHmmLikelihood&>(src)));
  if (algo == LOWMEM) return unique_ptr<HmmLikelihood>(new LowMemoryRescaledHmmLikelihood(dynamic_cast<const LowMemoryRescaledHmmLikelihood&>(src)));
  return unique_ptr<HmmLikelihood>(new LogsumHmmLikelihood(dynamic_cast<const LogsumHmmLikelihood&>(src)));
}
void assignLik(int algo, HmmLikelihood& dst, const HmmLikelihood& src)
{
  if (algo == RESCALED) dynamic_cast<RescaledHmmLikelihood&>(dst) = dynamic_cast<const RescaledHmmLikelihood&>(src);
  else if (algo == LOWMEM) dynamic_cast<LowMemoryRescaledHmmLikelihood&>(dst) = dynamic_cast<const LowMemoryRescaledHmmLikelihood&>(src);
  else dynamic_cast<LogsumHmmLikelihood&>(dst) = dynamic_cast<const LogsumHmmLikelihood&>(src);
}

struct Twin
{
  Rig rig;
  State st;
  bool own, twin, alone; // updated itself / its twin was updated / its twin was destroyed (all since the copy was made)
  const char* name;
  string label() const
  {
    string s = own && twin ? "after-both-updated" : own ? "after-own-update" : twin ? "after-twin-update" : "after-copy";
    return alone ? s + ":twin-destroyed" : s;
  }
};

vector<size_t> otherBp(vrt::Rng& rng, size_t L, const vector<size_t>& cur)
{
  for (int t = 0; t < 50; ++t)
  {
    vector<size_t> bp = randomBp(rng, L);
    if (bp != cur) return bp;
  }
  vector<size_t> bp;
  if (cur.empty()) for (size_t i = 1; i < L; ++i) bp.push_back(i);
  return bp;
}

// param: 0 a, 1 b, 2 s, 3 alphabet q, 4 a and s together, 5 break points
Op makeUpdateOp(vrt::Rng& rng, int param, size_t L, const State& cur)
{
  Op op;
  op.kind = 1; op.q = 0; op.site = 0; op.param = param; op.val = op.val2 = 0; op.route = static_cast<int>(rng.below(5));
  if (param == 5) { op.kind = 2; op.param = 0; op.bp = otherBp(rng, L, cur.bp); return op; }
  op.val = param == 2 ? rng.real(0.05, 0.8) : param == 3 ? rng.unit() : rng.real(0, 2);
  op.val2 = rng.real(0.05, 0.8);
  return op;
}

void caseCopies(vrt::Case& c)
{
  // index -> algorithm (3) x copy route (4) x what the source had answered before (3) x first update after the copy (5) x who receives it (2)
  size_t idx = c.index;
  int algo = static_cast<int>(idx % 3); idx /= 3;
  int route = static_cast<int>(idx % 4); idx /= 4;
  int pre = static_cast<int>(idx % 3); idx /= 3;
  int upd = static_cast<int>(idx % 5); idx /= 5;
  int side = static_cast<int>(idx % 2);
  static const int UPD[] = { 0, 1, 2, 3, 5 }; // a, b, s, alphabet q, break points
  static const char* UPDN[] = { "a", "b", "s", "q", "bp" };
  // a transition update is only observable with >= 2 states and a position that is not a segment start
  size_t n = static_cast<size_t>(c.rng.range(upd == 2 ? 2 : 1, 4)), L = static_cast<size_t>(c.rng.range(2, 8));
  Spec sp = genSpec(c.rng, n, L, static_cast<int>(c.rng.below(6)), static_cast<int>(c.rng.below(3)));
  if (upd == 3) sp.alphaParam = true;
  size_t chunk = static_cast<size_t>(c.rng.range(1, static_cast<long long>(L) + 1));
  vrt::describe(string("copies:") + ALGO[algo] + ":" + CROUTE[route], string(CROUTE[route]) + ", source queried " + str(pre) + ", then " + UPDN[upd] + " of the " + (side ? "copy" : "source") + " updated, on " + specText(sp));
  vrt::cover(string("copies:") + ALGO[algo] + ":" + CROUTE[route] + ":pre" + str(pre) + ":" + UPDN[upd] + ":" + (side ? "copy" : "source") + "-updated");
  Twin tw[2];
  tw[0].name = "source"; tw[1].name = "copy";
  for (Twin& t : tw) t.own = t.twin = t.alone = false;
  State st = randomState(c.rng);
  if (c.rng.chance(0.4))
  {
    st.bp = randomBp(c.rng, L);
    if (upd == 2 && st.bp.size() == L - 1) st.bp.erase(st.bp.begin() + static_cast<ptrdiff_t>(c.rng.below(st.bp.size())));
  }
  tw[0].st = st;
  Where where0 = [&] { return specText(sp) + (algo == LOWMEM ? " chunk " + str(chunk) : ""); };
  string hist = "source: init " + stateText(st);
  const string base = string("copy:") + CROUTE[route] + ":";
  vrt::Outcome o = vrt::capture([&] { tw[0].rig = makeRig(sp, st, algo, chunk); });
  if (!o.returned()) { vrt::violation("lik.raises", string(ALGO[algo]) + ":" + base + "construct", where0() + " | " + hist + " => " + o.text()); return; }

  map<string, pair<Snap, Ref>> cache;
  auto query = [&](int who, int q, size_t site, const string& label) -> bool {
      Twin& x = tw[who];
      string key = stateText(x.st);
      auto it = cache.find(key);
      if (it == cache.end())
      {
        Snap sn = makeSnap(sp, x.st);
        it = cache.insert(make_pair(key, make_pair(sn, forwardRef(sn, true)))).first;
      }
      string text = string(x.name) + ": " + QNAME[q] + ((q == Q_POST_SITE || q == Q_SITE_LIK) ? "(" + str(site) + ")" : "");
      vrt::step(text);
      hist += " ; " + text;
      Where where = [&] { return where0() + " | " + hist + " | " + x.name + " now " + stateText(x.st); };
      return runQuery(*x.rig.lik, algo, q, site, sp, it->second.first, it->second.second, base + x.name + ":" + QNAME[q] + ":" + label, where);
    };
  // lazily computed answers first, the cached log-likelihood after them
  auto sweep = [&](int who) -> bool {
      bool ok = true;
      const string label = tw[who].label();
      ok &= query(who, Q_POST_ALL, 0, label);
      ok &= query(who, Q_EACH_SITE, 0, label);
      ok &= query(who, Q_LOGL, 0, label);
      ok &= query(who, Q_D1A, 0, label);
      ok &= query(who, Q_D2A, 0, label);
      ok &= query(who, Q_POST_SITE, c.rng.below(L), label);
      ok &= query(who, Q_SITE_LIK, c.rng.below(L), label);
      ok &= query(who, Q_D2B, 0, label);
      ok &= query(who, Q_D1B, 0, label);
      return ok;
    };
  auto update = [&](int who, const Op& op) -> bool {
      Twin& x = tw[who];
      string text = string(x.name) + ": " + op.text();
      vrt::step(text);
      hist += " ; " + text;
      vrt::Outcome u;
      if (op.kind == 1)
      {
        vector<pair<string, double>> nv;
        if (op.param == 0 || op.param == 4) { nv.push_back(make_pair("a", op.val)); x.st.a = op.val; }
        if (op.param == 1) { nv.push_back(make_pair("b", op.val)); x.st.b = op.val; }
        if (op.param == 2) { nv.push_back(make_pair("s", op.val)); x.st.s = op.val; }
        if (op.param == 4) { nv.push_back(make_pair("s", op.val2)); x.st.s = op.val2; }
        if (op.param == 3) { nv.push_back(make_pair("q", op.val)); x.st.q = op.val; }
        u = vrt::capture([&] { applyUpdate(*x.rig.lik, sp, nv, op.route); });
      }
      else
      {
        x.st.bp = op.bp;
        u = vrt::capture([&] { x.rig.lik->setBreakPoints(op.bp); });
      }
      x.own = true;
      tw[1 - who].twin = true;
      if (u.returned()) return true;
      vrt::violation("history.update-raises", string(ALGO[algo]) + ":" + base + x.name + ":" + (op.kind == 1 ? "param" : "bp"), where0() + " | " + hist + " => " + u.text());
      return false;
    };

  // what the source has answered (and therefore cached) when it is copied
  if (pre >= 1) query(0, Q_LOGL, 0, "before-copy");
  if (pre == 2)
  {
    query(0, Q_POST_ALL, 0, "before-copy");
    query(0, Q_D1A, 0, "before-copy");
    query(0, Q_D2A, 0, "before-copy");
    query(0, Q_EACH_SITE, 0, "before-copy");
  }
  if (vrt::violationsInCase() > 0) return; // judged by the history groups

  // the copy
  {
    State st2 = st;
    st2.a = c.rng.real(0, 2); st2.s = c.rng.real(0, 0.8); st2.bp = randomBp(c.rng, L);
    string text = string("copy := ") + CROUTE[route] + " of source" + (route >= 2 ? " (target built with " + stateText(st2) + ")" : "");
    vrt::step(text);
    hist += " ; " + text;
    vrt::Outcome u = vrt::capture([&] {
          if (route == 0) tw[1].rig.lik.reset(tw[0].rig.lik->clone());
          else if (route == 1) tw[1].rig.lik = copyConstructLik(algo, *tw[0].rig.lik);
          else
          {
            tw[1].rig = makeRig(sp, st2, algo, chunk);
            if (route == 2)
            {
              (void)tw[1].rig.lik->getLogLikelihood();
              if (algo != LOWMEM)
              {
                vector<vector<double>> vv;
                tw[1].rig.lik->getHiddenStatesPosteriorProbabilities(vv, false);
                (void)tw[1].rig.lik->getSecondOrderDerivative(sp.prefix + "a");
              }
            }
            assignLik(algo, *tw[1].rig.lik, *tw[0].rig.lik);
          }
        });
    if (!u.returned()) { vrt::violation("history.update-raises", string(ALGO[algo]) + ":" + base + "copy", where0() + " | " + hist + " => " + u.text()); return; }
    tw[1].st = tw[0].st;
  }
  if (c.rng.chance(0.5) && !sweep(1) && vrt::violationsInCase() > 4) return;

  // first update on one object: the other one must not notice, the updated one must follow
  int X = side, Y = 1 - side;
  if (!update(X, makeUpdateOp(c.rng, UPD[upd], L, tw[X].st))) return;
  if (!sweep(Y) && vrt::violationsInCase() > 4) return;
  if (!sweep(X) && vrt::violationsInCase() > 4) return;
  // an update of the other object makes it recompute from its own components
  static const int SECOND[] = { 0, 1, 2, 5 };
  if (!update(Y, makeUpdateOp(c.rng, SECOND[c.rng.below(4)], L, tw[Y].st))) return;
  if (!sweep(Y) && vrt::violationsInCase() > 4) return;
  if (!sweep(X) && vrt::violationsInCase() > 4) return;
  // random tail on both objects
  size_t tail = c.rng.below(9);
  for (size_t t = 0; t < tail; ++t)
  {
    int who = static_cast<int>(c.rng.below(2));
    bool ok = true;
    if (c.rng.chance(0.6)) ok = query(who, static_cast<int>(c.rng.below(NQ)), c.rng.below(L), tw[who].label());
    else
    {
      int p = static_cast<int>(c.rng.below(6));
      if (p == 3 && !sp.alphaParam) p = 2;
      if (!update(who, makeUpdateOp(c.rng, p, L, tw[who].st))) return;
    }
    if (!ok && vrt::violationsInCase() > 4) return;
  }
  // one object is destroyed, the other one lives on
  {
    int d = static_cast<int>(c.rng.below(2));
    string text = string(tw[d].name) + " destroyed";
    vrt::step(text);
    hist += " ; " + text;
    tw[d].rig = Rig();
    tw[1 - d].alone = true;
    if (!sweep(1 - d) && vrt::violationsInCase() > 4) return;
    if (!update(1 - d, makeUpdateOp(c.rng, static_cast<int>(c.rng.below(3)), L, tw[1 - d].st))) return;
    sweep(1 - d);
  }
}

// ------------------------------------------------------------------ group builtin: FullHmmTransitionMatrix / AutoCorrelationTransitionMatrix
enum BK { FULL = 0, AUTOC = 1 };
const char* BKN[] = { "full", "autocorr" };

typedef vector<vector<LD>> MatLD;

string thetaName(size_t row, size_t k) { return str(row + 1) + ".theta" + str(k + 1); }
string lambdaName(size_t i) { return "lambda" + str(i + 1); }

// the transition matrix defined by the CURRENT parameter values of tm (documented parametrisations)
bool expectedFromParams(const HmmTransitionMatrix& tm, int kind, size_t n, MatLD& P, string& err)
{
  P.assign(n, vector<LD>(n, 0.0L));
  try
  {
    for (size_t i = 0; i < n; ++i)
    {
      if (kind == FULL)
      {
        LD rest = 1;
        for (size_t k = 0; k + 1 < n; ++k)
        {
          LD th = tm.getParameterValue(thetaName(i, k));
          P[i][k] = th * rest;
          rest *= 1 - th;
        }
        P[i][n - 1] = rest;
      }
      else
      {
        LD lam = tm.getParameterValue(lambdaName(i));
        for (size_t j = 0; j < n; ++j) P[i][j] = i == j ? lam : (1 - lam) / static_cast<LD>(n - 1);
      }
    }
  }
  catch (std::exception& e) { err = e.what(); return false; }
  return true;
}

bool slowMixing(const MatLD& P)
{
  size_t n = P.size();
  MatLD a = P, t(n, vector<LD>(n));
  for (int s = 0; s < 8; ++s)
  {
    for (size_t i = 0; i < n; ++i)
      for (size_t j = 0; j < n; ++j) { t[i][j] = 0; for (size_t k = 0; k < n; ++k) t[i][j] += a[i][k] * a[k][j]; }
    a = t;
  }
  LD worst = 0;
  for (size_t j = 0; j < n; ++j)
  {
    LD x = 0;
    for (size_t k = 0; k < n; ++k) x += a[0][k] * P[k][j];
    worst = max(worst, fabsl(x - a[0][j]));
  }
  return worst > 1e-10L;
}

// queries in the given order (0 getPij, 1 Pij(i,j), 2 getEquilibriumFrequencies), judged against the current parameters
bool auditMatrix(const HmmTransitionMatrix& tm, int kind, size_t n, const int order[3], const string& after, const Where& where)
{
  MatLD P;
  string err;
  if (!expectedFromParams(tm, kind, n, P, err)) { vrt::violation("builtin.parameters", string(BKN[kind]) + ":names", where() + " => " + err); return false; }
  bool slow = n > 1 && slowMixing(P);
  vector<vector<double>> viaGet, viaPij(n, vector<double>(n));
  vector<double> eq;
  string ord;
  int posEq = 0, posGet = 0;
  vrt::Outcome o = vrt::capture([&] {
        for (int t = 0; t < 3; ++t)
        {
          if (order[t] == 0)
          {
            const Matrix<double>& m = tm.getPij();
            viaGet.assign(m.getNumberOfRows(), vector<double>(m.getNumberOfColumns()));
            for (size_t i = 0; i < m.getNumberOfRows(); ++i)
              for (size_t j = 0; j < m.getNumberOfColumns(); ++j) viaGet[i][j] = m(i, j);
            posGet = t;
          }
          else if (order[t] == 1)
          {
            for (size_t i = 0; i < n; ++i)
              for (size_t j = 0; j < n; ++j) viaPij[i][j] = tm.Pij(i, j);
          }
          else { eq = tm.getEquilibriumFrequencies(); posEq = t; }
        }
      });
  const string base = string(BKN[kind]) + (n == 1 ? ":n=1" : "") + ":" + after;
  if (!o.returned()) { vrt::violation("builtin.raises", base, where() + " => " + o.text()); return false; }
  bool ok = true;
  ok &= vrt::expect(viaGet.size() == n && viaGet[0].size() == n, "builtin.pij-value", base + ":shape", [&] { return where() + " => getPij() is not n x n"; });
  if (!ok) return false;
  auto judge = [&](const vector<vector<double>>& M, const char* route) {
      bool val = true, sto = true;
      for (size_t i = 0; i < n; ++i)
      {
        LD s = 0;
        for (size_t j = 0; j < n; ++j)
        {
          val &= closeLD(M[i][j], P[i][j], 1e-12L);
          sto &= M[i][j] >= 0;
          s += M[i][j];
        }
        sto &= closeLD(s, 1, 1e-12L * n);
      }
      bool r = vrt::expect(sto, "builtin.row-stochastic", base + ":" + route, [&] {
            string s;
            for (auto& row : M) s += vrt::vecStr(row) + ";";
            return where() + " => " + route + " = " + s;
          });
      r &= vrt::expect(val, "builtin.pij-value", base + ":" + route, [&] {
            string s, e;
            for (auto& row : M) s += vrt::vecStr(row) + ";";
            for (auto& row : P) { vector<double> d(row.begin(), row.end()); e += vrt::vecStr(d) + ";"; }
            return where() + " => " + route + " = " + s + " but the current parameters define " + e;
          });
      return r;
    };
  ok &= judge(viaGet, "getPij");
  ok &= judge(viaPij, "Pij");
  // stationary distribution of the matrix defined by the current parameters
  string ecls = base + ":" + (posEq < posGet ? "eq-before-getPij" : "getPij-before-eq") + (slow ? ":slow-mixing" : "");
  if (!vrt::expect(eq.size() == n, "builtin.stationary", ecls + ":size", [&] { return where() + " => " + str(eq.size()) + " equilibrium frequencies"; })) return false;
  LD sum = 0, resid = 0;
  bool nonneg = true;
  for (size_t j = 0; j < n; ++j)
  {
    sum += eq[j];
    nonneg &= eq[j] >= 0;
    LD x = 0;
    for (size_t k = 0; k < n; ++k) x += static_cast<LD>(eq[k]) * P[k][j];
    resid = max(resid, fabsl(x - eq[j]));
  }
  ok &= vrt::expect(nonneg && closeLD(sum, 1, 1e-8L) && closeLD(resid, 0, 1e-8L), "builtin.stationary", ecls, [&] {
        string e;
        for (auto& row : P) { vector<double> d(row.begin(), row.end()); e += vrt::vecStr(d) + ";"; }
        return where() + " => equilibrium " + vrt::vecStr(eq) + " sum " + ld(sum) + " max|piP-pi| " + ld(resid) + " for P = " + e;
      });
  vrt::cover(string("builtin:") + ecls);
  return ok;
}

// a target row-stochastic matrix with strictly positive entries; slow = strongly diagonal
vector<vector<double>> targetMatrix(vrt::Rng& rng, size_t n, bool slow)
{
  vector<vector<double>> P(n, vector<double>(n));
  double e = slow ? rng.logReal(1e-7, 3e-2) : 1.0;
  for (size_t i = 0; i < n; ++i)
  {
    double s = 0;
    for (size_t j = 0; j < n; ++j) { P[i][j] = rng.unit() + 0.02; s += P[i][j]; }
    for (size_t j = 0; j < n; ++j) P[i][j] = slow && n > 1 ? e * P[i][j] / s * (i == j ? 0 : 1) : P[i][j] / s;
    if (slow && n > 1)
    {
      double off = 0;
      for (size_t j = 0; j < n; ++j) if (j != i) off += P[i][j];
      P[i][i] = 1 - off;
    }
  }
  return P;
}

// parameter values realising P (Full: global ratio; AutoCorrelation: the diagonal)
vector<pair<string, double>> paramsFor(int kind, const vector<vector<double>>& P)
{
  vector<pair<string, double>> nv;
  size_t n = P.size();
  for (size_t i = 0; i < n; ++i)
  {
    if (kind == AUTOC) { nv.push_back(make_pair(lambdaName(i), min(max(P[i][i], 1e-9), 1 - 1e-9))); continue; }
    double rest = 1;
    for (size_t k = 0; k + 1 < n; ++k)
    {
      double th = min(max(P[i][k] / rest, 1e-12), 1 - 1e-12);
      nv.push_back(make_pair(thetaName(i, k), th));
      rest -= P[i][k];
    }
  }
  return nv;
}

shared_ptr<HmmTransitionMatrix> makeBuiltin(int kind, shared_ptr<const HmmStateAlphabet> al, const string& prefix)
{
  if (kind == FULL) return make_shared<FullHmmTransitionMatrix>(al, prefix);
  return make_shared<AutoCorrelationTransitionMatrix>(al, prefix);
}

const int PERMS[6][3] = { { 0, 1, 2 }, { 0, 2, 1 }, { 1, 0, 2 }, { 1, 2, 0 }, { 2, 0, 1 }, { 2, 1, 0 } };

void builtinCase(vrt::Case& c, int kind, size_t n, const vector<int>& perms, const vector<int>& updates, bool withLik)
{
  string prefix = c.rng.chance(0.3) ? "tm." : "";
  auto al = make_shared<Alpha>(n, "", false);
  shared_ptr<HmmTransitionMatrix> tm;
  string hist = string(BKN[kind]) + "(n=" + str(n) + ",prefix='" + prefix + "')";
  Where where = [&] { return hist; };
  vrt::Outcome o = vrt::capture([&] { tm = makeBuiltin(kind, al, prefix); });
  if (!o.returned()) { vrt::violation("builtin.raises", string(BKN[kind]) + ":construct", hist + " => " + o.text()); return; }
  string after = "initial";
  for (size_t stepNo = 0; stepNo < perms.size(); ++stepNo)
  {
    int upd = updates[stepNo];
    if (upd != 0)
    {
      bool slow = c.rng.chance(0.4);
      vector<vector<double>> T = targetMatrix(c.rng, n, slow);
      vector<pair<string, double>> nv = paramsFor(kind, T);
      string text;
      vrt::Outcome u;
      u.kind = vrt::Outcome::Returned;
      switch (upd)
      {
      case 1: // one parameter
      {
        if (nv.empty()) break;
        auto x = nv[c.rng.below(nv.size())];
        text = "setParameterValue(" + x.first + "," + str(x.second) + ")";
        vrt::step(text);
        u = vrt::capture([&] { tm->setParameterValue(x.first, x.second); });
        after = "after-setParameterValue";
        break;
      }
      case 2: case 3:
      {
        ParameterList pl;
        for (auto& x : nv) pl.addParameter(Parameter(prefix + x.first, x.second));
        text = string(upd == 2 ? "setParametersValues" : "matchParametersValues") + "(all, target " + (slow ? "slow" : "dense") + ")";
        for (auto& x : nv) text += " " + x.first + "=" + str(x.second);
        vrt::step(text);
        u = vrt::capture([&] { if (upd == 2) tm->setParametersValues(pl); else tm->matchParametersValues(pl); });
        after = upd == 2 ? "after-setParametersValues" : "after-matchParametersValues";
        break;
      }
      case 4: // Full only: setTransitionProbabilities
      {
        if (kind != FULL) break;
        RowMatrix<double> M(n, n);
        text = "setTransitionProbabilities(";
        for (size_t i = 0; i < n; ++i) { for (size_t j = 0; j < n; ++j) M(i, j) = T[i][j]; text += vrt::vecStr(T[i]) + ";"; }
        text += ")";
        vrt::step(text);
        auto* full = dynamic_cast<FullHmmTransitionMatrix*>(tm.get());
        u = vrt::capture([&] { full->setTransitionProbabilities(M); });
        after = "after-setTransitionProbabilities";
        hist += " ; " + text;
        text = "";
        if (u.returned())
        {
          bool same = true;
          for (size_t i = 0; i < n; ++i)
            for (size_t j = 0; j < n; ++j) same &= vrt::close(tm->Pij(i, j), T[i][j], 0, 1e-9);
          vrt::expect(same, "builtin.setTransitionProbabilities", "full:Pij-differs-from-argument", [&] { return hist + " => Pij(0,0)=" + str(tm->Pij(0, 0)) + " ..."; });
        }
        break;
      }
      case 5: // continue on a clone, the original is changed and destroyed
      {
        text = "clone, change the original, continue on the clone";
        vrt::step(text);
        u = vrt::capture([&] {
              shared_ptr<HmmTransitionMatrix> cl(tm->clone());
              ParameterList pl;
              for (auto& x : nv) pl.addParameter(Parameter(prefix + x.first, x.second));
              tm->matchParametersValues(pl);
              tm = cl;
            });
        after = "after-clone";
        break;
      }
      default: // assignment from another object of the same type
      {
        text = "assign to an object that held other parameters, continue on the assigned object";
        vrt::step(text);
        u = vrt::capture([&] {
              shared_ptr<HmmTransitionMatrix> other = makeBuiltin(kind, al, prefix);
              ParameterList pl;
              for (auto& x : nv) pl.addParameter(Parameter(prefix + x.first, x.second));
              other->matchParametersValues(pl);
              int ord[3] = { 0, 1, 2 };
              (void)other->getPij(); (void)other->getEquilibriumFrequencies(); (void)ord;
              if (kind == FULL) *dynamic_cast<FullHmmTransitionMatrix*>(other.get()) = *dynamic_cast<FullHmmTransitionMatrix*>(tm.get());
              else *dynamic_cast<AutoCorrelationTransitionMatrix*>(other.get()) = *dynamic_cast<AutoCorrelationTransitionMatrix*>(tm.get());
              tm = other;
            });
        after = "after-assignment";
        break;
      }
      }
      if (!text.empty()) hist += " ; " + text;
      if (!u.returned()) { vrt::violation("builtin.raises", string(BKN[kind]) + ":" + after, hist + " => " + u.text()); return; }
    }
    const int* ord = PERMS[perms[stepNo]];
    static const char* QN[] = { "getPij", "Pij(i,j)", "getEquilibriumFrequencies" };
    hist += string(" ; ") + QN[ord[0]] + "," + QN[ord[1]] + "," + QN[ord[2]];
    vrt::step(string(QN[ord[0]]) + "," + QN[ord[1]] + "," + QN[ord[2]]);
    if (!auditMatrix(*tm, kind, n, ord, after, where) && vrt::violationsInCase() > 4) return;
  }
  if (vrt::violationsInCase() > 0) return;
  // sample(): length and range
  {
    RandomTools::setSeed(static_cast<long>(c.rng.below(1000000000)));
    auto* atm = dynamic_cast<AbstractHmmTransitionMatrix*>(tm.get());
    size_t k = c.rng.below(30);
    vector<size_t> smp;
    vrt::Outcome so = vrt::capture([&] { smp = atm->sample(k); });
    bool good = so.returned() && smp.size() == k;
    for (size_t x : smp) good &= x < n;
    vrt::expect(good, "builtin.sample-range", BKN[kind], [&] { return hist + " ; sample(" + str(k) + ") => " + so.text() + " " + vrt::vecStr(smp); });
  }
  if (!withLik) return;
  // the three algorithms on top of the built-in matrix, before and after an update made through the likelihood object
  size_t L = static_cast<size_t>(c.rng.range(1, 30));
  vector<vector<double>> E(L, vector<double>(n));
  for (auto& r : E) for (double& x : r) x = c.rng.real(0.01, 1);
  vector<size_t> bp = randomBp(c.rng, L);
  for (int algo = 0; algo < 3; ++algo)
  {
    shared_ptr<HmmTransitionMatrix> mine(tm->clone());
    auto al2 = make_shared<Alpha>(n, "", false);
    mine->setHmmStateAlphabet(al2);
    auto em = make_shared<PlainEmis>(al2, E);
    unique_ptr<HmmLikelihood> lik;
    size_t chunk = static_cast<size_t>(c.rng.range(1, static_cast<long long>(L) + 1));
    vrt::Outcome lo = vrt::capture([&] { lik = makeLik(algo, al2, mine, em, "", chunk); lik->setBreakPoints(bp); });
    if (!lo.returned()) { vrt::violation("lik.raises", string(ALGO[algo]) + ":builtin:construct", hist + " => " + lo.text()); continue; }
    for (int round = 0; round < 2; ++round)
    {
      if (round == 1)
      {
        vector<pair<string, double>> nv = paramsFor(kind, targetMatrix(c.rng, n, c.rng.chance(0.3)));
        if (nv.empty()) break;
        auto x = nv[c.rng.below(nv.size())];
        string text = "likelihood.setParametersValues(" + prefix + x.first + "=" + str(x.second) + ")";
        vrt::step(text);
        hist += " ; " + text;
        ParameterList pl;
        pl.addParameter(Parameter(prefix + x.first, x.second));
        vrt::Outcome u = vrt::capture([&] { lik->setParametersValues(pl); });
        if (!u.returned()) { vrt::violation("history.update-raises", string(ALGO[algo]) + ":builtin:param", hist + " => " + u.text()); break; }
      }
      Snap sn;
      sn.n = n; sn.L = L;
      MatLD PL;
      string err;
      if (!expectedFromParams(lik->hmmTransitionMatrix(), kind, n, PL, err)) break;
      sn.P.assign(n, vector<double>(n));
      for (size_t i = 0; i < n; ++i) for (size_t j = 0; j < n; ++j) sn.P[i][j] = static_cast<double>(PL[i][j]);
      sn.pi = lik->hmmTransitionMatrix().getEquilibriumFrequencies();
      sn.E = E;
      bool usable = true;
      LD slack = 0;
      for (size_t j = 0; j < n; ++j)
      {
        LD x = 0;
        for (size_t k = 0; k < n; ++k) x += static_cast<LD>(sn.pi[k]) * sn.P[k][j];
        if (!(sn.pi[j] > 0)) usable = false;
        else slack = max(slack, fabsl(x - sn.pi[j]) / sn.pi[j]);
      }
      if (!usable || slack > 1e-6L) break; // judged by builtin.stationary, not here
      finishSnap(sn, bp);
      Ref ref = forwardRef(sn, false);
      LD tol = tolBase(sn) + 2 * sn.nseg * slack + 1e-11L * L;
      double got = lik->getLogLikelihood();
      vrt::expect(closeLD(got, ref.logL, tol), "lik.loglik", string(ALGO[algo]) + ":builtin:" + BKN[kind] + (round ? ":after-update-through-likelihood" : ":initial"),
          [&] { return hist + " ; L=" + str(L) + " bp=" + vrt::vecStr(bp) + " " + ALGO[algo] + " logL " + str(got) + " expected " + ld(ref.logL) + " tol " + ld(tol); });
    }
  }
}

void caseBuiltinExhaustive(vrt::Case& c)
{
  // index -> kind (2) x n (1..5) x first order (6) x update kind (7) x second order (6)
  size_t i = c.index;
  int kind = static_cast<int>(i % 2); i /= 2;
  size_t n = 1 + i % 5; i /= 5;
  int p1 = static_cast<int>(i % 6); i /= 6;
  int upd = static_cast<int>(i % 7); i /= 7;
  int p2 = static_cast<int>(i % 6);
  if (kind == AUTOC && n == 1 && vrt::known("C13-autocorr-single-state")) n = 2;
  vrt::describe(string("builtin-exhaustive:") + BKN[kind], string(BKN[kind]) + " n=" + str(n) + " orders " + str(p1) + "," + str(p2) + " update kind " + str(upd));
  builtinCase(c, kind, n, { p1, p2, static_cast<int>(c.rng.below(6)) }, { 0, upd, static_cast<int>(c.rng.below(7)) }, false);
}

void caseBuiltinRandom(vrt::Case& c)
{
  int kind = static_cast<int>(c.index % 2);
  size_t n = static_cast<size_t>(c.rng.range(1, 5));
  if (kind == AUTOC && n == 1 && vrt::known("C13-autocorr-single-state")) n = 2;
  size_t len = static_cast<size_t>(c.rng.range(1, 8));
  vector<int> perms, upds;
  for (size_t t = 0; t < len; ++t) { perms.push_back(static_cast<int>(c.rng.below(6))); upds.push_back(static_cast<int>(c.rng.below(7))); }
  vrt::describe(string("builtin-random:") + BKN[kind], string(BKN[kind]) + " n=" + str(n) + " history of " + str(len) + " update/query rounds");
  builtinCase(c, kind, n, perms, upds, true);
}

// stored witnesses of the known findings
void caseKnown(vrt::Case& c)
{
  if (c.index == 0)
  {
    vrt::describe("known:autocorr-single-state", "AutoCorrelationTransitionMatrix over a one-state alphabet");
    builtinCase(c, AUTOC, 1, { 0 }, { 0 }, false);
  }
  else
  {
    // two deterministic paths; the one that is 1e-360 times less likely after two positions wins in the end
    vrt::describe("known:rescaled-dynamic-range", "n=2 swap chain, emissions spanning 180 decades between the states");
    Spec sp;
    sp.n = 2; sp.L = 5; sp.pclass = 2; sp.eclass = 1;
    sp.P0 = { { 0, 1 }, { 1, 0 } };
    sp.pi = { 0.5, 0.5 };
    sp.c = { { 1, 1e-180 }, { 1e-180, 1 }, { 1e-190, 1 }, { 1, 1e-190 }, { 1e-190, 1 } };
    sp.v.assign(5, vector<double>(2, 0.0));
    sp.w = sp.z = sp.v;
    sp.prefix = ""; sp.alphaParam = false;
    State st;
    Snap sn = makeSnap(sp, st);
    Ref ref = forwardRef(sn, true);
    g_judgeRisk = true;
    freshObjectsAgainst(sp, st, sn, ref, c.rng, { 2 }, false);
    g_judgeRisk = false;
  }
}
} // namespace

int main(int argc, char** argv)
{
  vector<vrt::Group> groups = {
    { "enum", 1100, 3300, caseEnum, 900, false },
    { "long", 320, 3200, caseLong, 600, false },
    { "history-exhaustive", 3 * 14 * 14 * 14, 3 * 14 * 14 * 14 * 14, caseHistoryExhaustive, 600, true },
    { "history-random", 10000, 100000, caseHistoryRandom, 600, false },
    { "copies", 3 * 360, 30 * 360, caseCopies, 600, false },
    { "builtin-exhaustive", 2 * 5 * 6 * 7 * 6, 2 * 5 * 6 * 7 * 6, caseBuiltinExhaustive, 600, true },
    { "builtin-random", 5000, 60000, caseBuiltinRandom, 600, false },
    { "known-witness", 2, 2, caseKnown, 300, false },
  };
  vrt::Meta meta;
  meta.rule = "enum: (n,L) cycles over all pairs with n^L <= 2e5 (quick) / 2e6 (thorough), transition class in {dense, sparse irreducible, deterministic cycle, transient states, "
      "slow mixing, tiny entries}, emission class in {mild, extreme 1e-195..1, mixed per-site scales}; every break-point subset when the enumeration budget allows (else none, all, random), "
      "LowMemory chunk sizes 1..L+1, all queries on fresh objects against path enumeration. long: L in 13..5000 against the long double forward/backward pass. history-exhaustive: every "
      "sequence of length 3 (quick) / 4 (thorough) over 9 queries + 5 updates for each algorithm followed by a sweep of all queries; history-random: 5..40 operations including clone and "
      "five update routes. copies: algorithm x copy route (clone, copy constructor, assignment into a queried / fresh object) x what the source had cached x first update "
      "(a, b, s, alphabet q, break points) x receiver (source / copy): both objects stay alive, are updated and queried in turn (sweeps of all queries, a random tail, then one of them is "
      "destroyed) and each answer is judged against the reference for that object's own current state. builtin-*: every order of getPij/Pij/getEquilibriumFrequencies before and after each update route of the two built-in matrices, then the three algorithms on top. "
      "A class key = (group, n, L bucket, transition class, emission class, break kind) resp. (algorithm, query, what preceded it) resp. (matrix kind, preceding update, order, mixing class).";
  meta.assumptions = {
    "break points are strictly increasing positions in 1..L-1",
    "derivatives are taken w.r.t. parameters of the emission table only (the library delegates d/dx of the emissions to the emission object and treats transitions as constant)",
    "the emission test double's derivative tables are valid only between compute(D|D2)EmissionProbabilities and the next parameter change",
    "reference derivatives are second-order jets through the long double reference, self-checked against 4th-order central differences of the reference log-likelihood",
    "tolerance 64*n*eps*L*(L+1+M) (+1e-13) on logL and posteriors, M = sum_i max_j|log e_ij| + L*max|log p|; times (1+S1) resp. (1+S2+S1^2) for derivatives",
    "LowMemoryRescaledHmmLikelihood may decline posteriors/derivatives with a bpp::Exception, but a returned value must be right",
    "built-in matrices: |sum(pi)-1| <= 1e-8, max|piP-pi| <= 1e-8, rows within 1e-12 of the documented parametrisation evaluated at the current parameter values",
    "chains with several closed classes (no unique stationary distribution) are not generated",
  };
  meta.requiredClauses = { "lik.loglik", "lik.posterior-sum", "lik.posterior-value", "lik.posterior-range", "lik.site-likelihood", "lik.d1", "lik.d2", "lik.dloglik-accessor", "lik.lowmem-declines",
                           "builtin.row-stochastic", "builtin.pij-value", "builtin.stationary", "harness.forward-vs-enumeration", "harness.jet-vs-fd" };
  return vrt::run(argc, argv, "C13", groups, meta);
}
