// C01 - A constrained parameter never holds a value its constraint rejects.
// Oracles: a 4-line interval model (membership, intersection, emptiness), a description parser model
// (strtod), a shadow (value, constraint) state per parameter executed next to every operation of a
// generated history, a closed-form model of the auto-correcting parameter, and the guarded audit hook of
// Parameter.cpp for parameters the library creates internally.
#include "vrt.h"

#include <Bpp/Numeric/Parameter.h>
#include <Bpp/Numeric/AutoParameter.h>
#include <Bpp/Numeric/ParameterList.h>
#include <Bpp/Numeric/AbstractParametrizable.h>
#include <Bpp/Numeric/Constraints.h>
#include <Bpp/Numeric/TransformedParameter.h>
#include <Bpp/Numeric/Prob/GammaDiscreteDistribution.h>
#include <Bpp/Numeric/Prob/BetaDiscreteDistribution.h>
#include <Bpp/Numeric/Prob/ExponentialDiscreteDistribution.h>
#include <Bpp/Numeric/Prob/GaussianDiscreteDistribution.h>
#include <Bpp/Numeric/Prob/TruncatedExponentialDiscreteDistribution.h>
#include <Bpp/Numeric/Prob/UniformDiscreteDistribution.h>
#include <Bpp/Numeric/Prob/ConstantDistribution.h>
#include <Bpp/Numeric/Prob/SimpleDiscreteDistribution.h>
#include <Bpp/Numeric/Prob/InvariantMixedDiscreteDistribution.h>
#include <Bpp/Numeric/Prob/MixtureOfDiscreteDistributions.h>
#include <Bpp/Numeric/Prob/Simplex.h>
#include <Bpp/Numeric/Hmm/HmmStateAlphabet.h>
#include <Bpp/Numeric/Hmm/FullHmmTransitionMatrix.h>
#include <Bpp/Numeric/Matrix/Matrix.h>
#include <Bpp/Numeric/Function/Functions.h>
#include <Bpp/Numeric/Function/ReparametrizationFunctionWrapper.h>
#include <Bpp/Numeric/Function/PowellMultiDimensions.h>
#include <Bpp/Numeric/Function/DownhillSimplexMethod.h>
#include <Bpp/Numeric/Function/SimpleMultiDimensions.h>
#include <Bpp/Numeric/Function/SimpleNewtonMultiDimensions.h>
#include <Bpp/Numeric/Function/BfgsMultiDimensions.h>
#include <Bpp/Numeric/Function/ConjugateGradientMultiDimensions.h>
#include <Bpp/Numeric/Function/BrentOneDimension.h>
#include <Bpp/Numeric/Function/GoldenSectionSearch.h>
#include <Bpp/Numeric/Function/NewtonOneDimension.h>

#include <algorithm>
#include <cstdlib>
#include <map>
#include <memory>

using namespace bpp;
using namespace std;
using vrt::str;

namespace
{
const double INF = numeric_limits<double>::infinity();

// ------------------------------------------------------------------ the interval model
struct MI
{
  double l, u;
  bool il, iu;
};
bool macc(const MI& m, double v) { return (m.il ? v >= m.l : v > m.l) && (m.iu ? v <= m.u : v < m.u); }
string flagsOf(const MI& m) { return string(1, m.il ? '[' : ']') + string(1, m.iu ? ']' : '['); }
string showMI(const MI& m) { return string(1, m.il ? '[' : ']') + str(m.l) + ";" + str(m.u) + string(1, m.iu ? ']' : '['); }
// "no real accepted"; second = false when the answer on reals and on doubles differ (equal infinite bounds)
bool mEmpty(const MI& m, bool& judged)
{
  judged = !(m.l == m.u && std::isinf(m.l));
  return m.l > m.u || (m.l == m.u && !(m.il && m.iu));
}
MI mInter(const MI& a, const MI& b)
{
  MI r;
  r.l = max(a.l, b.l);
  r.il = a.l > b.l ? a.il : a.l < b.l ? b.il : (a.il && b.il);
  r.u = min(a.u, b.u);
  r.iu = a.u < b.u ? a.iu : a.u > b.u ? b.iu : (a.iu && b.iu);
  return r;
}
MI readMI(const IntervalConstraint& c)
{
  MI m;
  m.l = c.getLowerBound();
  m.u = c.getUpperBound();
  m.il = !c.strictLowerBound();
  m.iu = !c.strictUpperBound();
  return m;
}
bool sameMI(const MI& a, const MI& b) { return a.l == b.l && a.u == b.u && a.il == b.il && a.iu == b.iu; }

// order type of v relative to the bounds
string posOf(const MI& m, double v)
{
  if (m.l > m.u) return "inverted";
  if (v == m.l && v == m.u) return "eqLU";
  if (v == m.l) return "eqL";
  if (v == m.u) return "eqU";
  if (v < m.l) return nextafter(v, INF) == m.l ? "adjBelowL" : "belowL";
  if (v > m.u) return nextafter(v, -INF) == m.u ? "adjAboveU" : "aboveU";
  if (nextafter(v, -INF) == m.l) return "adjAboveL";
  if (nextafter(v, INF) == m.u) return "adjBelowU";
  return "in";
}
string shapeOf(const MI& m)
{
  return flagsOf(m) + (std::isinf(m.l) ? (m.l < 0 ? ":L-inf" : ":L+inf") : "") + (std::isinf(m.u) ? (m.u < 0 ? ":U-inf" : ":U+inf") : "") + (m.l == m.u ? ":L=U" : "");
}

const vector<double>& grid()
{
  static const vector<double> g = { -INF, -1e3, -1, -1e-9, 0, 1e-9, 1, nextafter(1.0, 2.0), 2, 1e3, INF };
  return g;
}
// finite test values: grid, midpoints, both neighbours of every finite grid value, two far values
const vector<double>& testValues()
{
  static vector<double> t;
  if (t.empty())
  {
    vector<double> f;
    for (double x : grid()) if (std::isfinite(x)) f.push_back(x);
    for (size_t i = 0; i < f.size(); ++i)
    {
      t.push_back(f[i]);
      t.push_back(nextafter(f[i], -INF));
      t.push_back(nextafter(f[i], INF));
      if (i + 1 < f.size()) t.push_back(f[i] + (f[i + 1] - f[i]) / 2);
    }
    t.push_back(-2e3);
    t.push_back(2e3);
    for (double& x : t) if (x == 0) x = 0.0;
    sort(t.begin(), t.end());
    t.erase(unique(t.begin(), t.end()), t.end());
  }
  return t;
}

MI gridInterval(size_t idx) // idx in [0, 484)
{
  const vector<double>& g = grid();
  size_t n = g.size();
  MI m;
  m.l = g[(idx / 4) / n];
  m.u = g[(idx / 4) % n];
  m.il = (idx & 2) != 0;
  m.iu = (idx & 1) != 0;
  return m;
}
size_t nGridIntervals() { return grid().size() * grid().size() * 4; }

// membership of a real constraint against the model on all test values; returns first failing value through `bad`
bool membershipAgrees(const ConstraintInterface& c, const MI& m, double& bad)
{
  for (double v : testValues())
    if (c.isCorrect(v) != macc(m, v)) { bad = v; return false; }
  return true;
}

// ------------------------------------------------------------------ group: interval membership (enumerated)
void caseMembership(vrt::Case& c)
{
  MI m = gridInterval(c.index);
  vrt::describe("membership:" + shapeOf(m), "IntervalConstraint" + showMI(m) + " against all test values");
  IntervalConstraint ic(m.l, m.u, m.il, m.iu);
  const string what = "IntervalConstraint" + showMI(m);
  vrt::expect(sameMI(readMI(ic), m), "interval.accessors", shapeOf(m), [&] { return what + " reports " + showMI(readMI(ic)); });
  vrt::expect(ic.finiteLowerBound() == (m.l > -INF) && ic.finiteUpperBound() == (m.u < INF), "interval.accessors", "finite:" + shapeOf(m),
      [&] { return what + " finiteLowerBound=" + str(ic.finiteLowerBound()) + " finiteUpperBound=" + str(ic.finiteUpperBound()); });
  const vector<double>& T = testValues();
  for (double v : T)
  {
    string pos = posOf(m, v);
    vrt::cover("isCorrect:" + pos + ":" + shapeOf(m));
    vrt::expect(ic.isCorrect(v) == macc(m, v), "interval.isCorrect", pos + ":" + flagsOf(m),
        [&] { return what + ".isCorrect(" + str(v) + " = " + vrt::hexd(v) + ") = " + str(ic.isCorrect(v)) + " expected " + str(macc(m, v)); });
  }
  for (size_t i = 0; i < T.size(); ++i)
    for (size_t j = i; j < T.size(); ++j)
    {
      bool e = macc(m, T[i]) && macc(m, T[j]);
      vrt::expect(ic.includes(T[i], T[j]) == e, "interval.includes", posOf(m, T[i]) + "," + posOf(m, T[j]) + ":" + flagsOf(m),
          [&] { return what + ".includes(" + str(T[i]) + "," + str(T[j]) + ") = " + str(ic.includes(T[i], T[j])) + " expected " + str(e); });
    }
  bool judged;
  bool e = mEmpty(m, judged);
  if (judged)
  {
    vrt::cover(string("isEmpty:") + (e ? "empty:" : "nonempty:") + (m.l == m.u ? "L=U:" : m.l < m.u ? "L<U:" : "L>U:") + flagsOf(m));
    vrt::expect(ic.isEmpty() == e, "interval.isEmpty", string(m.l == m.u ? "L=U" : m.l < m.u ? "L<U" : "L>U") + ":" + flagsOf(m),
        [&] { return what + ".isEmpty() = " + str(ic.isEmpty()) + " expected " + str(e); });
  }
  else
    vrt::counted("interval.isEmpty-equal-infinite-bounds-unjudged");
  {
    unique_ptr<IntervalConstraint> cl(ic.clone());
    double bad = 0;
    vrt::expect(sameMI(readMI(*cl), m) && membershipAgrees(*cl, m, bad), "interval.clone", shapeOf(m), [&] { return what + " clone is " + showMI(readMI(*cl)); });
    IntervalConstraint cp(ic), as;
    as = ic;
    vrt::expect(sameMI(readMI(cp), m) && sameMI(readMI(as), m), "interval.clone", "copy:" + shapeOf(m), [&] { return what + " copy is " + showMI(readMI(cp)) + " assigned " + showMI(readMI(as)); });
  }
  // getDescription: executed only (its output "[ 0; 1] " is not in the syntax readDescription documents; the statement does not relate them)
  {
    string dsc;
    vrt::Outcome o = vrt::capture([&] { dsc = ic.getDescription(); });
    vrt::counted("interval.getDescription-executed");
    IntervalConstraint back;
    vrt::Outcome o2 = vrt::capture([&] { back.readDescription(dsc); });
    vrt::tally(string("getDescription-reread:") + (!o.returned() ? "getDescription-raised" : !o2.returned() ? "raised" : sameMI(readMI(back), m) ? "same-interval" : "other-interval"));
  }
  // setLowerBound / setUpperBound reach the same interval from the default one
  {
    IntervalConstraint d;
    double bad = 0;
    MI all = { -INF, INF, true, true };
    vrt::expect(membershipAgrees(d, all, bad), "interval.isCorrect", "default-ctor", [&] { return "IntervalConstraint() rejects " + str(bad); });
    d.setLowerBound(m.l, !m.il);
    d.setUpperBound(m.u, !m.iu);
    vrt::expect(sameMI(readMI(d), m) && membershipAgrees(d, m, bad), "interval.isCorrect", "setBounds:" + flagsOf(m), [&] { return "setLowerBound/setUpperBound to " + showMI(m) + " gives " + showMI(readMI(d)) + " wrong at " + str(bad); });
  }
  // half-line constructor (one case per finite bound and flag)
  if (std::isfinite(m.l) && m.u == INF && !m.iu)
  {
    IntervalConstraint h(true, m.l, m.il);
    double bad = 0;
    vrt::cover("halfline:positive:" + flagsOf(m));
    vrt::expect(membershipAgrees(h, m, bad), "interval.isCorrect", "halfline-ctor:positive:" + flagsOf(m), [&] { return "IntervalConstraint(true," + str(m.l) + "," + str(m.il) + ") = " + showMI(readMI(h)) + " wrong at " + str(bad); });
  }
  if (std::isfinite(m.u) && m.l == -INF && !m.il)
  {
    IntervalConstraint h(false, m.u, m.iu);
    double bad = 0;
    vrt::cover("halfline:negative:" + flagsOf(m));
    vrt::expect(membershipAgrees(h, m, bad), "interval.isCorrect", "halfline-ctor:negative:" + flagsOf(m), [&] { return "IntervalConstraint(false," + str(m.u) + "," + str(m.iu) + ") = " + showMI(readMI(h)) + " wrong at " + str(bad); });
  }
}

// ------------------------------------------------------------------ group: intersections (enumerated pairs)
string relOf(double x, double y, bool fx, bool fy) { return x < y ? "lt" : x > y ? "gt" : (fx == fy ? "eq-same-flag" : "eq-diff-flag"); }

void judgeIntersection(const IntervalConstraint& r, const MI& a, const MI& b, const string& op)
{
  MI e = mInter(a, b);
  const string what = showMI(a) + " " + op + " " + showMI(b);
  for (double v : testValues())
  {
    bool exp = macc(a, v) && macc(b, v);
    if (r.isCorrect(v) != exp)
    {
      // which side of the result is wrong: structural class = operator, side, relation of the two bounds on that side
      MI got = readMI(r);
      bool lowerWrong = !(got.l == e.l && got.il == e.il), upperWrong = !(got.u == e.u && got.iu == e.iu);
      bool lowerSide = lowerWrong != upperWrong ? lowerWrong : (v <= e.l ? true : v >= e.u ? false : (v - e.l < e.u - v));
      string cls = "op=" + op + (lowerSide ? ",side=lower,rel=" + relOf(a.l, b.l, a.il, b.il) : ",side=upper,rel=" + relOf(a.u, b.u, a.iu, b.iu));
      vrt::expect(false, "interval.intersection", cls, [&] { return what + " = " + showMI(readMI(r)) + " ; isCorrect(" + str(v) + ") = " + str(r.isCorrect(v)) + " but both operands " + (exp ? "accept" : "do not accept") + " it"; });
      return;
    }
  }
  vrt::expect(true, "interval.intersection", "", "");
  bool judged;
  bool em = mEmpty(e, judged);
  if (judged)
    vrt::expect(r.isEmpty() == em, "interval.intersection-isEmpty", "op=" + op + (e.l == e.u ? ",L=U:" : e.l < e.u ? ",L<U:" : ",L>U:") + flagsOf(e),
        [&] { return what + " = " + showMI(readMI(r)) + " ; isEmpty() = " + str(r.isEmpty()) + " expected " + str(em); });
}

void caseIntersection(vrt::Case& c)
{
  MI a = gridInterval(c.index);
  vrt::describe("intersection:" + shapeOf(a), "IntervalConstraint" + showMI(a) + " intersected with every grid interval, both operators, both orders");
  const IntervalConstraint A(a.l, a.u, a.il, a.iu);
  for (size_t j = 0; j < nGridIntervals(); ++j)
  {
    MI b = gridInterval(j);
    const IntervalConstraint B(b.l, b.u, b.il, b.iu);
    vrt::cover("inter:lower=" + relOf(a.l, b.l, a.il, b.il) + ":upper=" + relOf(a.u, b.u, a.iu, b.iu));
    {
      unique_ptr<ConstraintInterface> r(A & B);
      const IntervalConstraint* ri = dynamic_cast<const IntervalConstraint*>(r.get());
      if (vrt::expect(ri != nullptr, "interval.intersection", "op=&,null-result", [&] { return showMI(a) + " & " + showMI(b) + " returned no interval"; }))
        judgeIntersection(*ri, a, b, "&");
    }
    {
      IntervalConstraint x(A);
      IntervalConstraint& ref = (x &= B);
      vrt::expect(&ref == &x, "interval.intersection", "op=&=,returns-self", [&] { return string("operator&= does not return *this"); });
      judgeIntersection(x, a, b, "&=");
      // the right operand must not change
      vrt::expect(sameMI(readMI(B), b), "interval.intersection", "op=&=,operand-modified", [&] { return showMI(a) + " &= " + showMI(b) + " changed the right operand to " + showMI(readMI(B)); });
    }
    if (vrt::violationsInCase() > 12) return;
  }
}

// ------------------------------------------------------------------ group: descriptions
struct Num
{
  string text;
  double v;
};
vector<Num> lowerTexts()
{
  vector<Num> r;
  r.push_back(Num{ "-inf", -INF });
  for (const char* s : { "0", "1", "-1", "0.5", "-2.75", "1000", "-1000", "1e-9", "-1e-9", "2.5e-1", "1e3", "12.125", "3", "-0.001", "1.5e2" })
    r.push_back(Num{ s, strtod(s, nullptr) });
  return r;
}
vector<Num> upperTexts()
{
  vector<Num> r;
  r.push_back(Num{ "inf", INF });
  r.push_back(Num{ "+inf", INF });
  for (const char* s : { "0", "1", "-1", "0.5", "-2.75", "1000", "-1000", "1e-9", "-1e-9", "7.5e-1", "1e3", "12.125", "4", "0.001", "2.5e2" })
    r.push_back(Num{ s, strtod(s, nullptr) });
  return r;
}
// random decimal with an exactly representable value: m / 2^k printed with k fixed decimals
Num randomDecimal(vrt::Rng& r)
{
  int k = static_cast<int>(r.range(0, 4));
  long long m = r.range(-40000, 40000);
  double v = static_cast<double>(m) / static_cast<double>(1 << k);
  char buf[64];
  snprintf(buf, sizeof buf, "%.*f", k, v);
  Num n{ buf, strtod(buf, nullptr) };
  if (n.text == "-0" || n.text == "-0.0" || n.text == "-0.00" || n.text == "-0.000" || n.text == "-0.0000") { n.text = "0"; n.v = 0; }
  return n;
}

void judgeDescription(const string& text, const MI& e, const string& cls)
{
  // (a) into a default-constructed interval, (b) into one whose four fields all differ, (c) the string constructor
  for (int route = 0; route < 3; ++route)
  {
    string d = text;
    unique_ptr<IntervalConstraint> ic;
    vrt::Outcome o = vrt::capture([&] {
          if (route == 0) { ic.reset(new IntervalConstraint()); ic->readDescription(d); }
          else if (route == 1) { ic.reset(new IntervalConstraint(-77.5, 88.25, !e.il, !e.iu)); ic->readDescription(d); }
          else ic.reset(new IntervalConstraint(d));
        });
    string rn = route == 0 ? "read-into-default" : route == 1 ? "read-into-other" : "string-ctor";
    if (!vrt::expect(o.returned(), "description.parse", rn + ":" + cls + ":raised", [&] { return "'" + text + "' " + o.text(); })) continue;
    MI got = readMI(*ic);
    double bad = 0;
    vrt::expect(sameMI(got, e) && membershipAgrees(*ic, e, bad), "description.parse", rn + ":" + cls,
        [&] { return "'" + text + "' parsed to " + showMI(got) + " (" + vrt::hexd(got.l) + ";" + vrt::hexd(got.u) + ") expected " + showMI(e); });
    vrt::expect(d == text, "description.parse", rn + ":argument-modified", [&] { return "'" + text + "' argument changed to '" + d + "'"; });
  }
}

void caseDescription(vrt::Case& c)
{
  static const vector<Num> lows = lowerTexts(), ups = upperTexts();
  const size_t nEnum = lows.size() * 4;
  if (c.index < nEnum)
  {
    const Num& lo = lows[c.index / 4];
    bool il = (c.index & 2) != 0, iu = (c.index & 1) != 0;
    vrt::describe("description:enumerated", string(il ? "[" : "]") + lo.text + ";*" + (iu ? "]" : "[") + " with every upper text");
    for (const Num& up : ups)
    {
      string text = string(il ? "[" : "]") + lo.text + ";" + up.text + (iu ? "]" : "[");
      MI e = { lo.v, up.v, il, iu };
      string cls = string("lower=") + (std::isinf(lo.v) ? "-inf" : "finite") + ",upper=" + (std::isinf(up.v) ? up.text : "finite") + ",brackets=" + flagsOf(e);
      vrt::cover("description:" + cls + (lo.v > up.v ? ":L>U" : lo.v == up.v ? ":L=U" : ""));
      judgeDescription(text, e, cls);
    }
    return;
  }
  size_t k = c.index - nEnum;
  if (k % 4 == 3)
  {
    // malformed text: the statement only speaks about the documented syntax; any exception or value is accepted, an abort is not
    static const vector<string> bad = { "", "[", "]", ";", "[;]", "[1;2", "1;2]", "(1;2)", "[1,2]", "[a;b]", "[1;2;3]", "[[1;2]]", "[1;]", "[;2]", "[-inf;inf", "];[", "[1;2]x", "[ 1; 2]", "[1 ;2 ]", "[--1;2]", "[1e;2]", "[.;2]", "[1;2e+]" };
    string t = bad[c.rng.below(bad.size())];
    if (c.rng.chance(0.5))
    {
      // random mutation of a good text
      t = "[-1.5;2.25]";
      size_t n = 1 + c.rng.below(3);
      const string alphabet = "[];-+.e0123inf ";
      for (size_t i = 0; i < n && !t.empty(); ++i)
      {
        size_t p = c.rng.below(t.size());
        int op = static_cast<int>(c.rng.below(3));
        if (op == 0) t.erase(p, 1);
        else if (op == 1) t[p] = alphabet[c.rng.below(alphabet.size())];
        else t.insert(p, 1, alphabet[c.rng.below(alphabet.size())]);
      }
    }
    vrt::describe("description:malformed", "'" + t + "'");
    IntervalConstraint ic;
    string d = t;
    vrt::Outcome o = vrt::capture([&] { ic.readDescription(d); });
    vrt::counted("description.malformed-no-abort");
    vrt::tally(string("malformed:") + (o.returned() ? "returned" : o.type));
    return;
  }
  Num lo = c.rng.chance(0.15) ? Num{ "-inf", -INF } : randomDecimal(c.rng);
  Num up = c.rng.chance(0.15) ? (c.rng.chance(0.5) ? Num{ "inf", INF } : Num{ "+inf", INF }) : randomDecimal(c.rng);
  if (c.rng.chance(0.1) && std::isfinite(lo.v)) up = lo;
  bool il = c.rng.chance(0.5), iu = c.rng.chance(0.5);
  string text = string(il ? "[" : "]") + lo.text + ";" + up.text + (iu ? "]" : "[");
  vrt::describe("description:random", "'" + text + "'");
  MI e = { lo.v, up.v, il, iu };
  string cls = string("lower=") + (std::isinf(lo.v) ? "-inf" : "finite") + ",upper=" + (std::isinf(up.v) ? up.text : "finite") + ",brackets=" + flagsOf(e);
  vrt::cover("description:random:" + cls + (lo.v > up.v ? ":L>U" : lo.v == up.v ? ":L=U" : ""));
  judgeDescription(text, e, cls);
}

// ------------------------------------------------------------------ group: histories against a shadow model
enum Out { Ret, CErr, BppErr, ForeignErr };
struct Res
{
  Out o;
  string text;
};
Res runOp(const function<void()>& f)
{
  try { f(); return Res{ Ret, "returned" }; }
  catch (ConstraintException& e) { return Res{ CErr, string("raised ConstraintException: ") + e.what() }; }
  catch (Exception& e) { return Res{ BppErr, "raised " + vrt::typeName(typeid(e)) + ": " + e.what() }; }
  catch (std::exception& e) { return Res{ ForeignErr, "raised " + vrt::typeName(typeid(e)) + ": " + e.what() }; }
  catch (...) { return Res{ ForeignErr, "raised a non-standard exception" }; }
}

class TestOwner :
  public AbstractParametrizable
{
public:
  size_t fired;
  TestOwner(const string& prefix) : AbstractParametrizable(prefix), fired(0) {}
  TestOwner* clone() const override { return new TestOwner(*this); }
  void add(Parameter* p) { addParameter_(p); }
  void fireParameterChanged(const ParameterList&) override { ++fired; }
};

struct PoolC
{
  shared_ptr<IntervalConstraint> real;
  MI m;
};
struct MP // shadow of one parameter
{
  string name;
  double v;
  int c;       // index into the pool, -1 = none
  double prec;
  bool hasAlt; // after a bulk call that raised: the value may be v or alt (statement leaves it open)
  double alt;
};

double normZero(double v) { return v == 0 ? 0.0 : v; }

struct Hist
{
  vrt::Case& cs;
  vrt::Rng& r;
  vector<PoolC> pool;
  vector<unique_ptr<Parameter>> S;
  vector<MP> Sm;
  ParameterList L;
  vector<MP> Lm;
  unique_ptr<TestOwner> O;
  vector<MP> Om;
  string hist;
  bool ok;
  const string prefix;

  Hist(vrt::Case& c) : cs(c), r(c.rng), ok(true), prefix("ns.") {}

  // ---- generators
  int newConstraint(bool useAnchor, double anchor)
  {
    vector<double> B = { -2, -1, -1e-9, 0, 1e-9, 0.5, 1, 2, normZero(r.real(-5, 5)) };
    if (useAnchor)
    {
      for (int k = 0; k < 3; ++k) B.push_back(anchor);
      B.push_back(nextafter(anchor, -INF));
      B.push_back(nextafter(anchor, INF));
      B.push_back(anchor - 1);
      B.push_back(anchor + 1);
    }
    MI m;
    m.l = r.chance(0.15) ? -INF : r.pick(B);
    m.u = r.chance(0.15) ? INF : r.pick(B);
    if (m.l > m.u && r.chance(0.9)) swap(m.l, m.u);
    if (r.chance(0.08) && std::isfinite(m.l)) m.u = m.l;
    m.l = normZero(m.l);
    m.u = normZero(m.u);
    m.il = r.chance(0.5);
    m.iu = r.chance(0.5);
    PoolC pc;
    pc.m = m;
    if (m.u == INF && !m.iu && std::isfinite(m.l) && r.chance(0.5)) pc.real.reset(new IntervalConstraint(true, m.l, m.il));
    else if (m.l == -INF && !m.il && std::isfinite(m.u) && r.chance(0.5)) pc.real.reset(new IntervalConstraint(false, m.u, m.iu));
    else pc.real.reset(new IntervalConstraint(m.l, m.u, m.il, m.iu));
    pool.push_back(pc);
    return static_cast<int>(pool.size() - 1);
  }
  int pickConstraint(bool useAnchor, double anchor, double pNone = 0.15)
  {
    if (r.chance(pNone)) return -1;
    if (!pool.empty() && r.chance(0.5)) return static_cast<int>(r.below(pool.size()));
    return newConstraint(useAnchor, anchor);
  }
  double pickValue(int c, double cur, bool preferAccepted = false)
  {
    vector<double> cand = { 0.0, 0.0, cur, normZero(r.real(-3, 3)) };
    if (c >= 0)
    {
      const MI& m = pool[static_cast<size_t>(c)].m;
      for (double b : { m.l, m.u })
        if (std::isfinite(b))
        {
          cand.push_back(b);
          cand.push_back(nextafter(b, -INF));
          cand.push_back(nextafter(b, INF));
          cand.push_back(b - 1e-12);
          cand.push_back(b + 1e-12);
          cand.push_back(b - 0.5);
          cand.push_back(b + 0.5);
        }
      if (std::isfinite(m.l) && std::isfinite(m.u)) { cand.push_back(m.l + (m.u - m.l) / 2); cand.push_back(m.l + (m.u - m.l) / 2); }
      if (preferAccepted)
      {
        vector<double> a;
        for (double x : cand) if (macc(m, x)) a.push_back(x);
        if (!a.empty()) cand = a;
      }
    }
    return normZero(r.pick(cand));
  }
  string consText(int c) const { return c < 0 ? "none" : ("#" + str(c) + showMI(pool[static_cast<size_t>(c)].m)); }
  bool rejects(int c, double v) const { return c >= 0 && !macc(pool[static_cast<size_t>(c)].m, v); }
  string valTag(double v, double prec) const { return string(v == 0 ? "zero" : "nonzero") + (prec > 0 ? ",precision>0" : ""); }
  string coverKey(const string& route, int c, double v, bool raised) const
  {
    if (c < 0) return route + ":unconstrained:" + (raised ? "raise" : "ok");
    const MI& m = pool[static_cast<size_t>(c)].m;
    return route + ":" + posOf(m, v) + ":" + flagsOf(m) + (v == 0 ? ":zero" : "") + ":" + (raised ? "raise" : "ok");
  }

  void op(const string& text)
  {
    hist += (hist.empty() ? "" : " ; ") + text;
    vrt::step(text);
  }

  // ---- comparison of one real parameter with its shadow
  bool checkOne(const Parameter& p, MP& m, const string& where, const string& route, const string& tag, bool raised)
  {
    const char* stateClause = raised ? "history.unchanged-on-raise" : "history.state";
    double got = p.getValue();
    bool vOk = got == m.v || (m.hasAlt && got == m.alt);
    bool good = vrt::expect(vOk, stateClause, "route=" + route + ",field=value," + tag,
        [&] { return hist + " => " + where + " holds " + str(got) + " (" + vrt::hexd(got) + ") expected " + str(m.v) + (m.hasAlt ? " or " + str(m.alt) : ""); });
    if (vOk) m.v = got;
    m.hasAlt = false;
    bool cOk;
    string gotC = "none";
    if (!p.hasConstraint()) cOk = m.c < 0;
    else
    {
      auto ic = dynamic_pointer_cast<const IntervalConstraint>(p.getConstraint());
      gotC = ic ? showMI(readMI(*ic)) : "non-interval";
      cOk = m.c >= 0 && ic && sameMI(readMI(*ic), pool[static_cast<size_t>(m.c)].m);
    }
    good &= vrt::expect(cOk, stateClause, "route=" + route + ",field=constraint," + tag,
        [&] { return hist + " => " + where + " carries constraint " + gotC + " expected " + consText(m.c); });
    if (p.hasConstraint())
      good &= vrt::expect(p.getConstraint()->isCorrect(got), "history.invariant", "route=" + route + "," + tag,
          [&] { return hist + " => " + where + " holds " + str(got) + " (" + vrt::hexd(got) + ") which its constraint " + gotC + " rejects"; });
    else
      vrt::counted("history.invariant");
    return good;
  }
  bool verifyAll(const string& route, const string& tag, bool raised)
  {
    bool good = true;
    for (size_t i = 0; i < S.size(); ++i)
      if (S[i]) good &= checkOne(*S[i], Sm[i], "standalone '" + Sm[i].name + "'", route, tag, raised);
    good &= vrt::expect(L.size() == Lm.size(), "history.state", "route=" + route + ",field=list-size", [&] { return hist + " => list size " + str(L.size()) + " expected " + str(Lm.size()); });
    if (L.size() == Lm.size())
      for (size_t i = 0; i < Lm.size(); ++i) good &= checkOne(L[i], Lm[i], "list[" + str(i) + "] '" + Lm[i].name + "'", route, tag, raised);
    const ParameterList& ol = O->getParameters();
    if (ol.size() == Om.size())
      for (size_t i = 0; i < Om.size(); ++i) good &= checkOne(ol[i], Om[i], "owner[" + str(i) + "] '" + Om[i].name + "'", route, tag, raised);
    for (size_t i = 0; i < pool.size(); ++i)
      good &= vrt::expect(sameMI(readMI(*pool[i].real), pool[i].m), "history.state", "route=" + route + ",field=shared-constraint-object", [&] { return hist + " => constraint object #" + str(i) + " changed to " + showMI(readMI(*pool[i].real)); });
    if (!good) ok = false;
    return good;
  }

  // judge the outcome of one call: mustRaise / mustReturn / either
  bool judgeOutcome(const Res& res, bool mustRaise, bool either, const string& route, const string& tag)
  {
    bool good = true;
    if (res.o == BppErr || res.o == ForeignErr)
      good = vrt::expect(false, mustRaise ? "history.rejected-raises" : "history.accepted-returns", "route=" + route + "," + tag + ",outcome=other-exception", [&] { return hist + " => " + res.text; });
    else if (either)
      vrt::counted("history.precision-zone-unjudged");
    else if (mustRaise)
      good = vrt::expect(res.o == CErr, "history.rejected-raises", "route=" + route + "," + tag, [&] { return hist + " => " + res.text + " although the constraint rejects the value"; });
    else
      good = vrt::expect(res.o == Ret, "history.accepted-returns", "route=" + route + "," + tag, [&] { return hist + " => " + res.text + " although the update is acceptable"; });
    if (!good) ok = false;
    return good;
  }

  // model of a single value update on shadow m (value v): fills expectation, returns tag
  // after the call: apply(res) updates the shadow
  struct SetPlan
  {
    bool rej, zone;
  };
  SetPlan planSet(const MP& m, double v) const
  {
    SetPlan p;
    p.rej = rejects(m.c, v);
    p.zone = m.prec > 0 && fabs(v - m.v) <= m.prec / 2 * (1 + 1e-9);
    return p;
  }
  void applySet(MP& m, double v, const SetPlan& p, const Res& res)
  {
    if (res.o != Ret) return;        // raised: unchanged
    if (p.rej) return;               // returned although rejected: only legal inside the precision zone, value unchanged
    if (p.zone) { m.hasAlt = true; m.alt = v; return; } // ignored or applied
    m.v = v;
  }
  void singleSet(const string& route, MP& m, double v, const function<void()>& call)
  {
    SetPlan p = planSet(m, v);
    string tag = "value=" + valTag(v, m.prec);
    Res res = runOp(call);
    vrt::cover(coverKey(route, m.c, v, res.o == CErr));
    if (!judgeOutcome(res, p.rej && !p.zone, p.rej && p.zone, route, tag)) return;
    applySet(m, v, p, res);
    verifyAll(route, tag, res.o != Ret);
  }
  void singleSetConstraint(const string& route, MP& m, int c, const function<void()>& call)
  {
    bool rej = rejects(c, m.v);
    string tag = "value=" + valTag(m.v, 0);
    Res res = runOp(call);
    vrt::cover(coverKey(route, c, m.v, res.o == CErr));
    if (!judgeOutcome(res, rej, false, route, tag)) return;
    if (res.o == Ret) m.c = c;
    verifyAll(route, tag, res.o != Ret);
  }
  shared_ptr<ConstraintInterface> realC(int c) const { return c < 0 ? shared_ptr<ConstraintInterface>() : shared_ptr<ConstraintInterface>(pool[static_cast<size_t>(c)].real); }

  vector<size_t> liveSlots() const
  {
    vector<size_t> v;
    for (size_t i = 0; i < S.size(); ++i) if (S[i]) v.push_back(i);
    return v;
  }

  // ---- standalone routes
  void opCtor()
  {
    size_t i = r.below(S.size());
    int c = pickConstraint(false, 0, 0.2);
    double v = pickValue(c, 0);
    double prec = r.chance(0.12) ? r.pick(vector<double>{ 1e-3, 0.5, 2.0 }) : 0.0;
    if (prec > 0 && r.chance(0.5)) v = normZero(r.real(-1, 1) * prec / 2); // values the precision would swallow if it were applied before the value
    static const char* slotNames[] = { "a", "b", "c", "d" };
    string name = slotNames[i];
    int form = (c < 0 && prec == 0 && r.chance(0.5)) ? 2 : (prec == 0 && r.chance(0.7)) ? 3 : 4;
    op("slot " + name + " = Parameter('" + name + "'," + str(v) + (form >= 3 ? "," + consText(c) : "") + (form == 4 ? "," + str(prec) : "") + ")");
    unique_ptr<Parameter> np;
    Res res = runOp([&] {
          if (form == 2) np.reset(new Parameter(name, v));
          else if (form == 3) np.reset(new Parameter(name, v, realC(c)));
          else np.reset(new Parameter(name, v, realC(c), prec));
        });
    string tag = "value=" + valTag(v, prec);
    vrt::cover(coverKey("value-ctor", c, v, res.o == CErr));
    if (!judgeOutcome(res, rejects(c, v), false, "value-ctor", tag)) return;
    if (res.o == Ret)
    {
      S[i] = move(np);
      Sm[i] = MP{ name, v, c, prec, false, 0 };
    }
    verifyAll("value-ctor", tag, res.o != Ret);
  }
  void opDefaultCtor()
  {
    size_t i = r.below(S.size());
    op("slot " + str(i) + " = Parameter()");
    S[i].reset(new Parameter());
    Sm[i] = MP{ "", 0.0, -1, 0.0, false, 0 };
    vrt::cover("default-ctor");
    verifyAll("default-ctor", "value=zero", false);
  }
  void opCopy()
  {
    vector<size_t> live = liveSlots();
    if (live.empty()) return opCtor();
    size_t i = r.pick(live), j = r.below(S.size());
    if (i == j) j = (j + 1) % S.size();
    bool viaClone = r.chance(0.5);
    op("slot " + str(j) + " = " + (viaClone ? "clone of" : "copy of") + " slot " + str(i));
    if (viaClone) S[j].reset(S[i]->clone());
    else S[j].reset(new Parameter(*S[i]));
    Sm[j] = Sm[i];
    vrt::cover(coverKey(viaClone ? "clone" : "copy-ctor", Sm[j].c, Sm[j].v, false));
    verifyAll(viaClone ? "clone" : "copy-ctor", "value=" + valTag(Sm[j].v, Sm[j].prec), false);
  }
  void opAssign()
  {
    vector<size_t> live = liveSlots();
    if (live.empty()) return opCtor();
    size_t i = r.pick(live), j = r.pick(live);
    op("slot " + str(j) + " = slot " + str(i) + " (operator=)");
    *S[j] = *S[i];
    Sm[j] = Sm[i];
    vrt::cover(coverKey(i == j ? "self-assign" : "assign", Sm[j].c, Sm[j].v, false));
    verifyAll("assign", "value=" + valTag(Sm[j].v, Sm[j].prec), false);
  }
  void opSetValue()
  {
    vector<size_t> live = liveSlots();
    if (live.empty()) return opCtor();
    size_t i = r.pick(live);
    double v = pickValue(Sm[i].c, Sm[i].v);
    op("slot " + str(i) + " (" + str(Sm[i].v) + "," + consText(Sm[i].c) + (Sm[i].prec > 0 ? ",prec " + str(Sm[i].prec) : "") + ").setValue(" + str(v) + ")");
    Parameter* p = S[i].get();
    singleSet("setValue", Sm[i], v, [&] { p->setValue(v); });
  }
  void opSetConstraint()
  {
    vector<size_t> live = liveSlots();
    if (live.empty()) return opCtor();
    size_t i = r.pick(live);
    int c = pickConstraint(true, Sm[i].v, 0.1);
    op("slot " + str(i) + " (" + str(Sm[i].v) + "," + consText(Sm[i].c) + ").setConstraint(" + consText(c) + ")");
    Parameter* p = S[i].get();
    singleSetConstraint("setConstraint", Sm[i], c, [&] { p->setConstraint(realC(c)); });
  }
  void judgeRemoved(const shared_ptr<ConstraintInterface>& got, int old, const string& route)
  {
    auto ic = dynamic_pointer_cast<IntervalConstraint>(got);
    bool good = old < 0 ? !got : (ic && sameMI(readMI(*ic), pool[static_cast<size_t>(old)].m));
    vrt::expect(good, "history.state", "route=" + route + ",field=returned-constraint", [&] { return hist + " => returned " + (ic ? showMI(readMI(*ic)) : string(got ? "non-interval" : "null")) + " expected " + consText(old); });
  }
  void opRemoveConstraint()
  {
    vector<size_t> live = liveSlots();
    if (live.empty()) return opCtor();
    size_t i = r.pick(live);
    op("slot " + str(i) + " (" + str(Sm[i].v) + "," + consText(Sm[i].c) + ").removeConstraint()");
    shared_ptr<ConstraintInterface> got = S[i]->removeConstraint();
    judgeRemoved(got, Sm[i].c, "removeConstraint");
    vrt::cover(string("removeConstraint:") + (Sm[i].c < 0 ? "none" : "some"));
    Sm[i].c = -1;
    verifyAll("removeConstraint", "value=" + valTag(Sm[i].v, 0), false);
  }

  // ---- list / owner single-target routes
  void opContainerSingle(bool owner)
  {
    vector<MP>& M = owner ? Om : Lm;
    if (M.empty()) return;
    size_t i = r.below(M.size());
    MP& m = M[i];
    string shortName = owner ? m.name.substr(prefix.size()) : m.name;
    string who = string(owner ? "owner" : "list") + "['" + m.name + "'] (" + str(m.v) + "," + consText(m.c) + (m.prec > 0 ? ",prec " + str(m.prec) : "") + ")";
    int k = static_cast<int>(r.below(owner ? 4 : 6));
    if (k == 0 || (k >= 4))
    {
      double v = pickValue(m.c, m.v);
      if (owner)
      {
        op(who + " owner.setParameterValue('" + shortName + "'," + str(v) + ")");
        singleSet("owner.setParameterValue", m, v, [&] { O->setParameterValue(shortName, v); });
      }
      else if (k == 0)
      {
        op(who + " list.setParameterValue(" + str(v) + ")");
        singleSet("list.setParameterValue", m, v, [&] { L.setParameterValue(m.name, v); });
      }
      else if (k == 4)
      {
        op(who + " list[i].setValue(" + str(v) + ")");
        singleSet("list.index.setValue", m, v, [&] { L[i].setValue(v); });
      }
      else
      {
        op(who + " list.getParameter(name)->setValue(" + str(v) + ")");
        singleSet("list.getParameter.setValue", m, v, [&] { L.getParameter(m.name)->setValue(v); });
      }
    }
    else if (k == 1)
    {
      int c = pickConstraint(true, m.v, 0.1);
      if (owner)
      {
        op(who + " owner.setConstraint('" + shortName + "'," + consText(c) + ")");
        singleSetConstraint("owner.setConstraint", m, c, [&] { O->setConstraint(shortName, realC(c)); });
      }
      else
      {
        op(who + " list.parameter(name).setConstraint(" + consText(c) + ")");
        singleSetConstraint("list.setConstraint", m, c, [&] { L.parameter(m.name).setConstraint(realC(c)); });
      }
    }
    else if (k == 2)
    {
      string route = owner ? "owner.removeConstraint" : "list.removeConstraint";
      op(who + " " + route + "()");
      if (owner) O->removeConstraint(shortName);
      else judgeRemoved(L[i].removeConstraint(), m.c, route);
      vrt::cover(route + (m.c < 0 ? ":none" : ":some"));
      m.c = -1;
      verifyAll(route, "value=" + valTag(m.v, 0), false);
    }
    else
    {
      // shareParameter / includeParameters with a name that is present = a value update through the list
      double v = pickValue(m.c, m.v);
      if (owner)
      {
        op(who + " owner copy (copy constructor), then owner.setParameterValue('" + shortName + "'," + str(v) + ")");
        unique_ptr<TestOwner> o2(new TestOwner(*O));
        O = move(o2);
        singleSet("owner.copy.setParameterValue", m, v, [&] { O->setParameterValue(shortName, v); });
      }
      else
      {
        op(who + " list.shareParameter(Parameter('" + m.name + "'," + str(v) + "))");
        shared_ptr<Parameter> sp(new Parameter(m.name, v));
        singleSet("list.shareParameter", m, v, [&] { L.shareParameter(sp); });
      }
    }
  }

  // ---- list structure routes
  void opListStructure()
  {
    int k = static_cast<int>(r.below(3));
    vector<size_t> live = liveSlots();
    if (k == 0 && !live.empty() && Lm.size() < 6)
    {
      size_t i = r.pick(live);
      bool present = false;
      for (const MP& m : Lm) present |= m.name == Sm[i].name;
      if (!present && !Sm[i].name.empty())
      {
        bool byPointer = r.chance(0.3);
        op(string("list.addParameter(") + (byPointer ? "new copy of" : "") + " slot " + str(i) + ")");
        if (byPointer) L.addParameter(new Parameter(*S[i]));
        else L.addParameter(*S[i]);
        Lm.push_back(Sm[i]);
        vrt::cover(coverKey("list.addParameter", Sm[i].c, Sm[i].v, false));
        verifyAll("list.addParameter", "value=" + valTag(Sm[i].v, Sm[i].prec), false);
        return;
      }
    }
    if (k == 1 && !live.empty() && !Lm.empty())
    {
      size_t i = r.pick(live), j = r.below(Lm.size());
      op("list.setParameter(" + str(j) + ", copy of slot " + str(i) + " renamed '" + Lm[j].name + "')");
      Parameter tmp(*S[i]);
      tmp.setName(Lm[j].name);
      L.setParameter(j, tmp);
      string nm = Lm[j].name;
      Lm[j] = Sm[i];
      Lm[j].name = nm;
      vrt::cover(coverKey("list.setParameter", Lm[j].c, Lm[j].v, false));
      verifyAll("list.setParameter", "value=" + valTag(Lm[j].v, Lm[j].prec), false);
      return;
    }
    op("list copied (copy constructor) and assigned back (operator=)");
    ParameterList t(L);
    ParameterList u;
    u.addParameter(Parameter("tmp", 1));
    u = t;
    L = u;
    vrt::cover("list.copy:n" + str(min<size_t>(Lm.size(), 3)));
    verifyAll("list.copy", "value=bulk", false);
  }

  // ---- bulk routes
  void opBulk(bool owner)
  {
    vector<MP>& M = owner ? Om : Lm;
    if (M.empty()) return;
    static const char* kindNames[] = { "setParametersValues", "matchParametersValues", "setAllParametersValues", "includeParameters", "setParameters", "matchParameters", "setAllParameters" };
    int kind = static_cast<int>(r.below(owner ? 3 : 7));
    string route = string(owner ? "owner." : "list.") + kindNames[kind];
    vector<size_t> idx;
    for (size_t i = 0; i < M.size(); ++i) idx.push_back(i);
    r.shuffle(idx);
    if (kind != 2 && kind != 6) idx.resize(1 + r.below(idx.size()));
    bool friendly = r.chance(0.6);
    struct Arg { size_t target; double v; int c; };
    vector<Arg> args;
    ParameterList pl;
    string text;
    for (size_t t : idx)
    {
      Arg a;
      a.target = t;
      a.v = pickValue(M[t].c, M[t].v, friendly);
      a.c = -1;
      if (kind >= 4 || r.chance(0.2))
      {
        a.c = pickConstraint(true, a.v, 0.3);
        if (rejects(a.c, a.v)) a.c = -1;
      }
      Parameter p(M[t].name, a.v);
      if (a.c >= 0) p.setConstraint(realC(a.c));
      pl.addParameter(p);
      args.push_back(a);
      text += (text.empty() ? "" : ", ") + M[t].name + "(" + str(M[t].v) + "," + consText(M[t].c) + (M[t].prec > 0 ? ",prec " + str(M[t].prec) : "") + ")<-" + str(a.v) + (a.c >= 0 ? "," + consText(a.c) : "");
    }
    if ((kind == 0 || kind == 1 || kind == 2 || kind == 5 || kind == 6) && r.chance(0.3))
    {
      pl.addParameter(Parameter("unknown.zz", 0.25));
      text += ", unknown.zz<-0.25";
    }
    op(route + "(" + text + ")");
    Res res = runOp([&] {
          switch (kind)
          {
          case 0: if (owner) O->setParametersValues(pl); else L.setParametersValues(pl); break;
          case 1: if (owner) O->matchParametersValues(pl); else L.matchParametersValues(pl); break;
          case 2: if (owner) O->setAllParametersValues(pl); else L.setAllParametersValues(pl); break;
          case 3: L.includeParameters(pl); break;
          case 4: L.setParameters(pl); break;
          case 5: L.matchParameters(pl); break;
          default: L.setAllParameters(pl);
          }
        });
    bool hardRej = false, softRej = false;
    vector<SetPlan> plans;
    if (kind < 4)
      for (const Arg& a : args)
      {
        SetPlan p = planSet(M[a.target], a.v);
        plans.push_back(p);
        if (p.rej && !p.zone) hardRej = true;
        if (p.rej && p.zone) softRej = true;
      }
    vrt::cover(route + (res.o == CErr ? ":raise" : ":ok") + ":n" + str(min<size_t>(args.size(), 3)) + (hardRej ? ":rejected" : ""));
    if (!judgeOutcome(res, hardRej, !hardRej && softRej, route, "value=bulk")) return;
    if (kind < 4)
    {
      for (size_t k = 0; k < args.size(); ++k)
      {
        MP& m = M[args[k].target];
        if (res.o == Ret) applySet(m, args[k].v, plans[k], res);
        else if (!plans[k].rej) { m.hasAlt = true; m.alt = args[k].v; } // the statement fixes only the rejected parameter (whole-list atomicity is C02)
      }
    }
    else if (res.o == Ret)
      for (const Arg& a : args)
      {
        MP& m = M[a.target];
        m.v = a.v;
        m.c = a.c;
        m.prec = 0;
      }
    verifyAll(route, "value=bulk", res.o != Ret);
  }

  void setup()
  {
    static const char* slotNames[] = { "a", "b", "c", "d" };
    for (int i = 0; i < 4; ++i) { S.push_back(unique_ptr<Parameter>()); Sm.push_back(MP{ slotNames[i], 0, -1, 0, false, 0 }); }
    for (int i = 0; i < 3; ++i) newConstraint(false, 0);
    O.reset(new TestOwner(prefix));
    for (int pass = 0; pass < 2; ++pass)
      for (int k = 1; k <= 3; ++k)
      {
        int c = pickConstraint(false, 0, 0.25);
        double v = pickValue(c, 0, true);
        if (rejects(c, v)) c = -1;
        string name = pass == 0 ? "p" + str(k) : prefix + "q" + str(k);
        unique_ptr<Parameter> p(new Parameter(name, v));
        if (c >= 0) p->setConstraint(realC(c));
        MP m{ name, v, c, 0, false, 0 };
        if (pass == 0) { L.addParameter(*p); Lm.push_back(m); }
        else { O->add(p.release()); Om.push_back(m); }
      }
    hist = "setup: list{";
    for (const MP& m : Lm) hist += m.name + "=" + str(m.v) + "," + consText(m.c) + " ";
    hist += "} owner{";
    for (const MP& m : Om) hist += m.name + "=" + str(m.v) + "," + consText(m.c) + " ";
    hist += "}";
    vrt::step(hist);
    verifyAll("setup", "value=bulk", false);
  }

  void run()
  {
    setup();
    size_t len = static_cast<size_t>(r.range(1, 30));
    for (size_t s = 0; s < len && ok; ++s)
    {
      int k = static_cast<int>(r.below(100));
      if (k < 14) opCtor();
      else if (k < 15) opDefaultCtor();
      else if (k < 21) opCopy();
      else if (k < 27) opAssign();
      else if (k < 42) opSetValue();
      else if (k < 52) opSetConstraint();
      else if (k < 55) opRemoveConstraint();
      else if (k < 65) opContainerSingle(false);
      else if (k < 75) opContainerSingle(true);
      else if (k < 81) opListStructure();
      else if (k < 92) opBulk(false);
      else opBulk(true);
    }
  }
};

void caseHistory(vrt::Case& c)
{
  vrt::describe("history", "random history of parameter / list / owner updates");
  Hist h(c);
  h.run();
}

// ------------------------------------------------------------------ group: the auto-correcting parameter
struct AutoModel
{
  MI m;
  double p; // precision of the constraint
};
// expected landing point of a rejected finite request
double autoTarget(const AutoModel& a, double x, bool& lowerSide, bool& openEnd)
{
  lowerSide = x < a.m.l || (x == a.m.l && !a.m.il);
  if (lowerSide) { openEnd = !a.m.il; return a.m.il ? a.m.l : a.m.l + a.p; }
  openEnd = !a.m.iu;
  return a.m.iu ? a.m.u : a.m.u - a.p;
}

void caseAuto(vrt::Case& c)
{
  vrt::Rng& r = c.rng;
  // interval: finite bounds within [-1e3,1e3], at least 1e-9 (and 100 precision steps) wide, or half lines / whole line
  AutoModel a;
  a.p = r.chance(0.7) ? 1e-12 : r.pick(vector<double>{ 1e-10, 1e-6, 1e-3 });
  double minW = max(1e-9, 100 * a.p);
  int shape = static_cast<int>(r.below(10));
  auto bound = [&]() -> double {
      int k = static_cast<int>(r.below(8));
      double b = k == 0 ? 0.0 : k == 1 ? 1.0 : k == 2 ? -1.0 : k == 3 ? 1e3 - 1 : k == 4 ? -1e3 + 1 : k == 5 ? r.real(-1, 1) : k == 6 ? r.real(-999, 999) : 1e-9 * static_cast<double>(r.range(-5, 5));
      return normZero(b);
    };
  a.m.l = bound();
  double w = r.chance(0.3) ? minW * (1 + r.unit()) : r.chance(0.5) ? r.logReal(minW, 1.0) : r.real(1.0, 500.0);
  a.m.u = a.m.l + w;
  if (a.m.u > 1e3) { a.m.u = a.m.l; a.m.l = a.m.u - w; }
  if (!(a.m.u - a.m.l >= minW)) { a.m.l = 0; a.m.u = 1; }
  if (shape == 0) a.m.l = -INF;
  if (shape == 1) a.m.u = INF;
  if (shape == 2) { a.m.l = -INF; a.m.u = INF; }
  a.m.il = r.chance(0.5);
  a.m.iu = r.chance(0.5);
  shared_ptr<IntervalConstraint> ic;
  bool defaultPrec = a.p == 1e-12 && r.chance(0.5);
  if (defaultPrec) ic.reset(new IntervalConstraint(a.m.l, a.m.u, a.m.il, a.m.iu));
  else ic.reset(new IntervalConstraint(a.m.l, a.m.u, a.m.il, a.m.iu, a.p));
  const string cdesc = showMI(a.m) + " precision " + str(a.p);
  vrt::describe("auto:" + shapeOf(a.m), "AutoParameter under " + cdesc);

  auto request = [&]() -> double {
      vector<double> cand = { 0.0, normZero(r.real(-1e3, 1e3)), normZero(r.real(-2, 2)), 1e3, -1e3 };
      for (double b : { a.m.l, a.m.u })
        if (std::isfinite(b))
        {
          for (int k = 0; k < 2; ++k) cand.push_back(b);
          cand.push_back(nextafter(b, -INF));
          cand.push_back(nextafter(b, INF));
          cand.push_back(b - a.p);
          cand.push_back(b + a.p);
          cand.push_back(b - a.p / 2);
          cand.push_back(b + a.p / 2);
          cand.push_back(b - r.logReal(1e-13, 100));
          cand.push_back(b + r.logReal(1e-13, 100));
        }
      if (std::isfinite(a.m.l) && std::isfinite(a.m.u)) cand.push_back(a.m.l + (a.m.u - a.m.l) * r.unit());
      double x = normZero(r.pick(cand));
      if (x > 1e3) x = 1e3;
      if (x < -1e3) x = -1e3;
      return x;
    };
  // an accepted starting value
  double start = 0;
  for (int t = 0; t < 50; ++t)
  {
    start = request();
    if (macc(a.m, start)) break;
  }
  if (!macc(a.m, start)) start = std::isfinite(a.m.l) ? (std::isfinite(a.m.u) ? a.m.l + (a.m.u - a.m.l) / 2 : a.m.l + 1) : (std::isfinite(a.m.u) ? a.m.u - 1 : 0);
  string hist = "AutoParameter('x'," + str(start) + "," + cdesc + ")";
  vrt::step(hist);

  // getLimit / getAcceptedLimit on their own
  for (int t = 0; t < 6; ++t)
  {
    double x = request();
    bool lower, open;
    if (macc(a.m, x))
    {
      vrt::expect(ic->getLimit(x) == x && ic->getAcceptedLimit(x) == x, "auto.limit", "accepted-value", [&] { return cdesc + " getLimit(" + str(x) + ")=" + str(ic->getLimit(x)) + " getAcceptedLimit=" + str(ic->getAcceptedLimit(x)); });
      continue;
    }
    double tgt = autoTarget(a, x, lower, open);
    double nb = lower ? a.m.l : a.m.u;
    string cls = string(lower ? "lower" : "upper") + (open ? ",open" : ",closed");
    vrt::cover("limit:" + cls + ":" + posOf(a.m, x));
    vrt::expect(ic->getLimit(x) == nb, "auto.limit", "getLimit:" + cls, [&] { return cdesc + " getLimit(" + str(x) + ") = " + str(ic->getLimit(x)) + " expected the bound " + str(nb); });
    double al = ic->getAcceptedLimit(x);
    vrt::expect(macc(a.m, al) && vrt::ulpDist(al, tgt) <= 4, "auto.limit", "getAcceptedLimit:" + cls,
        [&] { return cdesc + " getAcceptedLimit(" + str(x) + ") = " + str(al) + " (" + vrt::hexd(al) + ") expected " + str(tgt) + " (accepted, one precision step inside an open end)"; });
  }

  unique_ptr<AutoParameter> ap;
  {
    Res res = runOp([&] { ap.reset(new AutoParameter("x", start, ic)); });
    if (!vrt::expect(res.o == Ret, "auto.never-raises", "route=value-ctor,accepted-value", [&] { return hist + " => " + res.text; })) return;
  }
  ParameterList holder; // a list holding a clone of the auto parameter: the virtual setter is reached through the list
  double cur = start;
  size_t len = static_cast<size_t>(r.range(1, 12));
  for (size_t s = 0; s < len; ++s)
  {
    int route = static_cast<int>(r.below(10));
    double x = request();
    string rn;
    Res res;
    AutoParameter* target = ap.get();
    if (route < 5)
    {
      rn = "setValue";
      hist += " ; setValue(" + str(x) + ")";
      vrt::step("setValue(" + str(x) + ")");
      res = runOp([&] { target->setValue(x); });
    }
    else if (route == 5)
    {
      rn = "copy.setValue";
      hist += " ; copy-construct, copy.setValue(" + str(x) + ")";
      vrt::step("copy.setValue(" + str(x) + ")");
      unique_ptr<AutoParameter> cp(r.chance(0.5) ? new AutoParameter(*ap) : ap->clone());
      ap = move(cp);
      target = ap.get();
      res = runOp([&] { target->setValue(x); });
    }
    else if (route == 6)
    {
      rn = "from-parameter.setValue";
      hist += " ; AutoParameter(Parameter copy of it).setValue(" + str(x) + ")";
      vrt::step("AutoParameter(Parameter).setValue(" + str(x) + ")");
      Parameter plain("x", cur, ic);
      unique_ptr<AutoParameter> cp(new AutoParameter(plain));
      ap = move(cp);
      target = ap.get();
      res = runOp([&] { target->setValue(x); });
    }
    else if (route == 7)
    {
      rn = "assign.setValue";
      hist += " ; other = it (operator=), other.setValue(" + str(x) + ")";
      vrt::step("assigned.setValue(" + str(x) + ")");
      unique_ptr<AutoParameter> other(new AutoParameter("y", 0));
      *other = *ap;
      ap = move(other);
      target = ap.get();
      res = runOp([&] { target->setValue(x); });
    }
    else
    {
      rn = route == 8 ? "list.setParameterValue" : "list.index.setValue";
      hist += " ; list holding a clone: " + rn + "(" + str(x) + ")";
      vrt::step(rn + "(" + str(x) + ")");
      holder.reset();
      holder.addParameter(*ap);
      res = runOp([&] { if (route == 8) holder.setParameterValue("x", x); else holder[0].setValue(x); });
      ap.reset(new AutoParameter(holder[0]));
      target = ap.get();
      // the list must have kept the auto-correcting type (clone), otherwise a rejected request would have raised
    }
    bool acc = macc(a.m, x);
    bool lower = false, open = false;
    double tgt = acc ? x : autoTarget(a, x, lower, open);
    string cls = "route=" + rn + (acc ? ",accepted" : string(lower ? ",below" : ",above") + (open ? ",open-end" : ",closed-end")) + (a.p != 1e-12 ? ",custom-precision" : "");
    vrt::cover("auto:" + rn + ":" + posOf(a.m, x) + ":" + flagsOf(a.m) + (a.p != 1e-12 ? ":custom-precision" : ""));
    if (!vrt::expect(res.o == Ret, "auto.never-raises", cls, [&] { return hist + " => " + res.text; })) return;
    double got = target->getValue();
    bool inv = !target->hasConstraint() || target->getConstraint()->isCorrect(got);
    if (!vrt::expect(inv && macc(a.m, got), "auto.invariant", cls, [&] { return hist + " => holds " + str(got) + " (" + vrt::hexd(got) + ") which " + cdesc + " rejects"; })) return;
    bool near = acc ? got == x : vrt::ulpDist(got, tgt) <= 4;
    if (!vrt::expect(near, "auto.nearest", cls, [&] { return hist + " => holds " + str(got) + " (" + vrt::hexd(got) + ") expected " + str(tgt) + (acc ? " (the accepted request)" : " (nearest accepted value)"); })) return;
    auto gc = dynamic_pointer_cast<const IntervalConstraint>(target->getConstraint());
    if (!vrt::expect(gc && sameMI(readMI(*gc), a.m), "auto.invariant", cls + ",constraint-changed", [&] { return hist + " => constraint is now " + (gc ? showMI(readMI(*gc)) : string("missing")); })) return;
    cur = got;
  }
}

// ------------------------------------------------------------------ group: parameters created inside the library (audit hook)
void reaudit(const ParameterList& pl, const string& cls, const string& hist)
{
  for (size_t i = 0; i < pl.size(); ++i)
  {
    const Parameter& p = pl[i];
    if (!p.hasConstraint()) { vrt::counted("internal.owner-invariant"); continue; }
    double v = p.getValue();
    vrt::expect(p.getConstraint()->isCorrect(v), "internal.owner-invariant", cls,
        [&] { return hist + " => parameter '" + p.getName() + "' holds " + str(v) + " (" + vrt::hexd(v) + ") rejected by its constraint " + p.getConstraint()->getDescription(); });
  }
}

// a value on / next to / beyond the bounds of the parameter's own constraint
double pickFor(const Parameter& p, vrt::Rng& r, double spread)
{
  vector<double> cand = { normZero(r.real(-spread, spread)), 0.0 };
  auto ic = dynamic_pointer_cast<const IntervalConstraint>(p.getConstraint());
  if (ic)
  {
    MI m = readMI(*ic);
    for (double b : { m.l, m.u })
      if (std::isfinite(b))
      {
        cand.push_back(b);
        cand.push_back(nextafter(b, -INF));
        cand.push_back(nextafter(b, INF));
        cand.push_back(b - 1e-3);
        cand.push_back(b + 1e-3);
      }
    double lo = std::isfinite(m.l) ? m.l : (std::isfinite(m.u) ? m.u - spread : -spread);
    double hi = std::isfinite(m.u) ? m.u : lo + spread;
    for (int k = 0; k < 4; ++k) cand.push_back(lo + (hi - lo) * r.unit());
  }
  else
    cand.push_back(p.getValue() + r.real(-1, 1));
  return normZero(r.pick(cand));
}

struct PSpec
{
  string name;
  bool has;
  MI m;
  double init, target, weight;
};

class BoxFunction :
  public virtual SecondOrderDerivable,
  public AbstractParametrizable
{
  vector<PSpec> specs_;
  double f_;

public:
  BoxFunction(const vector<PSpec>& specs) : AbstractParametrizable(""), specs_(specs), f_(0)
  {
    for (const PSpec& s : specs_)
    {
      unique_ptr<Parameter> p(new Parameter(s.name, s.init));
      if (s.has) p->setConstraint(make_shared<IntervalConstraint>(s.m.l, s.m.u, s.m.il, s.m.iu));
      addParameter_(p.release());
    }
    fireParameterChanged(getParameters());
  }
  BoxFunction* clone() const override { return new BoxFunction(*this); }
  void setParameters(const ParameterList& pl) override { matchParametersValues(pl); }
  double getValue() const override { return f_; }
  void fireParameterChanged(const ParameterList&) override
  {
    f_ = 0;
    for (const PSpec& s : specs_)
    {
      double x = getParameterValue(s.name);
      f_ += s.weight * (x - s.target) * (x - s.target);
    }
  }
  void enableFirstOrderDerivatives(bool) override {}
  bool enableFirstOrderDerivatives() const override { return true; }
  void enableSecondOrderDerivatives(bool) override {}
  bool enableSecondOrderDerivatives() const override { return true; }
  const PSpec& spec(const string& n) const
  {
    for (const PSpec& s : specs_) if (s.name == n) return s;
    throw Exception("BoxFunction: unknown variable " + n);
  }
  double getFirstOrderDerivative(const string& v) const override { const PSpec& s = spec(v); return 2 * s.weight * (getParameterValue(v) - s.target); }
  double getSecondOrderDerivative(const string& v) const override { return 2 * spec(v).weight; }
  double getSecondOrderDerivative(const string&, const string&) const override { return 0; }
};

vector<PSpec> randomSpecs(vrt::Rng& r, size_t n, bool initAtBounds)
{
  vector<PSpec> v;
  for (size_t i = 0; i < n; ++i)
  {
    PSpec s;
    s.name = string(1, static_cast<char>('x' + static_cast<char>(i % 3))) + (i >= 3 ? str(i) : "");
    s.has = r.chance(0.85);
    double l = r.chance(0.3) ? 0.0 : normZero(static_cast<double>(r.range(-4, 4)) / 2);
    double u = l + r.pick(vector<double>{ 0.5, 1, 2, 10 });
    int kind = static_cast<int>(r.below(6));
    s.m.l = kind == 4 ? -INF : l;
    s.m.u = kind == 5 ? INF : u;
    s.m.il = kind == 4 ? false : r.chance(0.5);
    s.m.iu = kind == 5 ? false : r.chance(0.5);
    // an accepted initial value, on a closed end when asked
    double lo = std::isfinite(s.m.l) ? s.m.l : s.m.u - 3, hi = std::isfinite(s.m.u) ? s.m.u : s.m.l + 3;
    s.init = lo + (hi - lo) * r.real(0.05, 0.95);
    if (s.has && initAtBounds && r.chance(0.4))
    {
      if (std::isfinite(s.m.l) && s.m.il && r.chance(0.5)) s.init = s.m.l;
      else if (std::isfinite(s.m.u) && s.m.iu) s.init = s.m.u;
    }
    if (!s.has) s.init = normZero(r.real(-2, 2));
    // the unconstrained optimum lies outside the box most of the time
    int t = static_cast<int>(r.below(4));
    s.target = t == 0 ? lo + (hi - lo) * r.unit() : t == 1 ? lo - r.real(0, 3) : t == 2 ? hi + r.real(0, 3) : (r.chance(0.5) ? lo : hi);
    s.weight = r.real(0.5, 3);
    v.push_back(s);
  }
  return v;
}
string specsText(const vector<PSpec>& v)
{
  string s;
  for (const PSpec& p : v) s += p.name + "=" + str(p.init) + (p.has ? " in " + showMI(p.m) : " free") + " optimum " + str(p.target) + "; ";
  return s;
}

class TestAlphabet :
  public virtual HmmStateAlphabet,
  public AbstractParametrizable
{
  size_t n_;
  Parameter state_;

public:
  TestAlphabet(size_t n) : AbstractParametrizable(""), n_(n), state_("state", 0) {}
  TestAlphabet* clone() const override { return new TestAlphabet(*this); }
  const Clonable& getState(size_t) const override { return state_; }
  size_t getNumberOfStates() const override { return n_; }
  bool worksWith(const HmmStateAlphabet& a) const override { return a.getNumberOfStates() == n_; }
};

vector<double> randomProbas(vrt::Rng& r, size_t n, bool allowZeros)
{
  vector<double> p(n);
  double s = 0;
  for (size_t i = 0; i < n; ++i)
  {
    p[i] = (allowZeros && r.chance(0.3)) ? 0.0 : r.real(0.01, 1);
    s += p[i];
  }
  if (s == 0) { p[0] = 1; s = 1; }
  for (double& x : p) x /= s;
  return p;
}

void internalDistribution(vrt::Case& c)
{
  vrt::Rng& r = c.rng;
  int kind = static_cast<int>(r.below(10));
  static const char* names[] = { "Gamma", "Beta", "Exponential", "Gaussian", "TruncExponential", "Uniform", "Constant", "Simple", "InvariantMixed", "Mixture" };
  const string kn = names[kind];
  size_t n = static_cast<size_t>(r.range(1, 5));
  // constructor argument around the lower bound of its constraint; `degenerate`: the bound itself is accepted by the constraint but
  // is a degenerate distribution (rate 0, truncation at 0): those are other properties' business and are not generated here
  auto arg = [&](double bound, double span, bool degenerate = false) -> double {
      int k = static_cast<int>(r.below(8));
      if (degenerate && k < 2) k = 7;
      return normZero(k == 0 ? bound : k == 1 ? 0.0 : k == 2 ? nextafter(bound, -INF) : k == 3 ? bound - 0.01 : bound + r.real(0.01, span));
    };
  // value for an update of parameter p: rejected values anywhere, accepted values at least 1e-3 inside the constraint
  // (exact closed bounds only for the shape parameters of Gamma and Beta, which are regular there)
  auto safeFor = [&](const Parameter& p) -> double {
      double v = pickFor(p, r, 5);
      auto ic = dynamic_pointer_cast<const IntervalConstraint>(p.getConstraint());
      if (!ic || !ic->isCorrect(v)) return v;
      MI m = readMI(*ic);
      bool exactOk = kind <= 1;
      if (std::isfinite(m.l) && v < m.l + 1e-3 && !(exactOk && v == m.l)) v = m.l + 1e-3 + r.unit() * 0.1;
      if (std::isfinite(m.u) && v > m.u - 1e-3 && !(exactOk && v == m.u)) v = m.u - 1e-3 - r.unit() * 0.1;
      if (!ic->isCorrect(v)) v = p.getValue();
      return normZero(v);
    };
  unique_ptr<DiscreteDistributionInterface> d;
  string hist;
  vrt::Outcome o;
  switch (kind)
  {
  case 0:
  {
    double minA = r.pick(vector<double>{ 0.05, 0.5, 1 }), minB = r.pick(vector<double>{ 0.05, 0.5 });
    double a = arg(minA, 6), b = arg(minB, 6);
    bool off = r.chance(0.2);
    hist = "GammaDiscreteDistribution(" + str(n) + "," + str(a) + "," + str(b) + "," + str(minA) + "," + str(minB) + "," + str(off) + ",0.1)";
    vrt::describe("internal:" + kn, hist);
    o = vrt::capture([&] { d.reset(new GammaDiscreteDistribution(n, a, b, minA, minB, off, 0.1)); });
    break;
  }
  case 1:
  {
    double a = arg(0.0001, 5), b = arg(0.0001, 5);
    hist = "BetaDiscreteDistribution(" + str(n) + "," + str(a) + "," + str(b) + ")";
    vrt::describe("internal:" + kn, hist);
    o = vrt::capture([&] { d.reset(new BetaDiscreteDistribution(n, a, b)); });
    break;
  }
  case 2:
  {
    double l = arg(0, 5, true);
    hist = "ExponentialDiscreteDistribution(" + str(n) + "," + str(l) + ")";
    vrt::describe("internal:" + kn, hist);
    o = vrt::capture([&] { d.reset(new ExponentialDiscreteDistribution(n, l)); });
    break;
  }
  case 3:
  {
    double mu = normZero(r.real(-2, 2)), s = arg(0, 3);
    hist = "GaussianDiscreteDistribution(" + str(n) + "," + str(mu) + "," + str(s) + ")";
    vrt::describe("internal:" + kn, hist);
    o = vrt::capture([&] { d.reset(new GaussianDiscreteDistribution(n, mu, s)); });
    break;
  }
  case 4:
  {
    double l = arg(0, 3, true), tp = arg(0, 10, true);
    hist = "TruncatedExponentialDiscreteDistribution(" + str(n) + "," + str(l) + "," + str(tp) + ")";
    vrt::describe("internal:" + kn, hist);
    o = vrt::capture([&] { d.reset(new TruncatedExponentialDiscreteDistribution(n, l, tp)); });
    break;
  }
  case 5:
  {
    double lo = normZero(r.real(-2, 2)), hi = lo + r.real(0.1, 3);
    hist = "UniformDiscreteDistribution(" + str(n) + "," + str(lo) + "," + str(hi) + ")";
    vrt::describe("internal:" + kn, hist);
    o = vrt::capture([&] { d.reset(new UniformDiscreteDistribution(static_cast<unsigned int>(n), lo, hi)); });
    break;
  }
  case 6:
  {
    double v = normZero(r.real(-2, 2));
    hist = "ConstantDistribution(" + str(v) + ")";
    vrt::describe("internal:" + kn, hist);
    o = vrt::capture([&] { d.reset(new ConstantDistribution(v)); });
    break;
  }
  case 7:
  {
    vector<double> vals, pr = randomProbas(r, n, false);
    for (size_t i = 0; i < n; ++i) vals.push_back(static_cast<double>(i) + r.real(0, 0.5));
    bool ranges = r.chance(0.4);
    map<size_t, vector<double>> rg;
    if (ranges)
      for (size_t i = 0; i < n; ++i)
        if (r.chance(0.6)) rg[i + 1] = vector<double>{ r.chance(0.3) ? vals[i] : vals[i] - 0.2, r.chance(0.3) ? vals[i] : vals[i] + 0.2 };
    hist = "SimpleDiscreteDistribution(" + vrt::vecStr(vals) + (ranges ? ",ranges" : "") + "," + vrt::vecStr(pr) + ")";
    vrt::describe("internal:" + kn, hist);
    o = vrt::capture([&] { if (ranges) d.reset(new SimpleDiscreteDistribution(vals, rg, pr)); else d.reset(new SimpleDiscreteDistribution(vals, pr)); });
    break;
  }
  case 8:
  {
    double p = r.pick(vector<double>{ 0.3, nextafter(1.0, 2.0), -0.1, r.real(0.01, 0.99) }), a = arg(0.05, 4);
    hist = "InvariantMixedDiscreteDistribution(Gamma(" + str(n) + "," + str(a) + "," + str(a) + ")," + str(p) + ")";
    vrt::describe("internal:" + kn, hist);
    o = vrt::capture([&] {
          unique_ptr<DiscreteDistributionInterface> g(new GammaDiscreteDistribution(n, a, a));
          d.reset(new InvariantMixedDiscreteDistribution(move(g), p, 0.));
        });
    break;
  }
  default:
  {
    vector<double> pr = randomProbas(r, 2, false);
    double a = arg(0.05, 4), l = arg(0, 3, true);
    hist = "MixtureOfDiscreteDistributions({Gamma(" + str(n) + "," + str(a) + "," + str(a) + "),Exponential(" + str(n) + "," + str(l) + ")}," + vrt::vecStr(pr) + ")";
    vrt::describe("internal:" + kn, hist);
    o = vrt::capture([&] {
          vector<unique_ptr<DiscreteDistributionInterface>> v;
          v.push_back(unique_ptr<DiscreteDistributionInterface>(new GammaDiscreteDistribution(n, a, a)));
          v.push_back(unique_ptr<DiscreteDistributionInterface>(new ExponentialDiscreteDistribution(n, l)));
          d.reset(new MixtureOfDiscreteDistributions(v, pr));
        });
  }
  }
  vrt::step(hist);
  vrt::tally("internal:" + kn + ":ctor:" + (o.returned() ? "returned" : o.type));
  vrt::counted("internal.no-abort");
  if (!d) { vrt::cover("internal:" + kn + ":ctor-raised"); return; }
  vrt::cover("internal:" + kn + ":ctor");
  reaudit(d->getParameters(), kn + ":ctor", hist);
  size_t nops = static_cast<size_t>(r.range(1, 5));
  bool restricted = false;
  for (size_t s = 0; s < nops && vrt::violationsInCase() == 0; ++s)
  {
    const ParameterList& pl = d->getParameters();
    int k = static_cast<int>(r.below(10));
    // once the domain has been restricted, parameter updates can move the parent's mass out of it (C09 matter): only restrict / clone then
    if (restricted && k < 7) k = r.chance(0.7) ? 7 : 9;
    string opn, text;
    vrt::Outcome oo;
    if (k < 4 && pl.size() > 0)
    {
      size_t i = r.below(pl.size());
      double v = safeFor(pl[i]);
      string sn = d->getParameterNameWithoutNamespace(pl[i].getName());
      opn = "setParameterValue";
      text = "setParameterValue('" + sn + "'," + str(v) + ")";
      hist += " ; " + text;
      vrt::step(text);
      oo = vrt::capture([&] { d->setParameterValue(sn, v); });
    }
    else if (k < 7 && pl.size() > 0)
    {
      ParameterList args;
      text = "";
      for (size_t i = 0; i < pl.size(); ++i)
        if (r.chance(0.6))
        {
          double v = safeFor(pl[i]);
          args.addParameter(Parameter(pl[i].getName(), v));
          text += pl[i].getName() + "<-" + str(v) + " ";
        }
      int which = static_cast<int>(r.below(2));
      opn = which == 0 ? "matchParametersValues" : "setParametersValues";
      text = opn + "(" + text + ")";
      hist += " ; " + text;
      vrt::step(text);
      oo = vrt::capture([&] { if (which == 0) d->matchParametersValues(args); else d->setParametersValues(args); });
    }
    else if (k < 9)
    {
      // the restriction keeps every current class value (domains without mass are a C09 matter); the upper end lies either
      // beyond the upper end of the domain or between the last class and that end (then it excludes e.g. the truncation point)
      double cmin = 0, cmax = 1;
      vrt::Outcome oc = vrt::capture([&] {
            Vdouble cat = d->getCategories();
            if (!cat.empty()) { cmin = *min_element(cat.begin(), cat.end()); cmax = *max_element(cat.begin(), cat.end()); }
          });
      if (!oc.returned() || !std::isfinite(cmin) || !std::isfinite(cmax)) continue;
      double ub = cmax;
      vrt::Outcome ou = vrt::capture([&] { double u = d->getUpperBound(); if (std::isfinite(u) && u > ub) ub = u; });
      (void)ou;
      double lo = normZero(cmin - r.real(0.05, 2));
      double hi = r.chance(0.3) ? cmax + (ub - cmax) * r.real(0.05, 0.9) + 1e-3 : ub + r.real(0.05, 2);
      bool il = r.chance(0.5), iu = r.chance(0.5);
      IntervalConstraint rc(lo, hi, il, iu);
      opn = "restrictToConstraint";
      text = "restrictToConstraint(" + showMI(readMI(rc)) + ")";
      hist += " ; " + text;
      vrt::step(text);
      restricted = true;
      oo = vrt::capture([&] { d->restrictToConstraint(rc); });
    }
    else
    {
      opn = "clone";
      text = "replaced by its clone";
      hist += " ; " + text;
      vrt::step(text);
      oo = vrt::capture([&] { unique_ptr<DiscreteDistributionInterface> cl(d->clone()); d = move(cl); });
    }
    vrt::cover("internal:" + kn + ":" + opn + ":" + (oo.returned() ? "returned" : "raised"));
    vrt::tally("internal:" + kn + ":" + opn + ":" + (oo.returned() ? "returned" : oo.type));
    vrt::counted("internal.no-abort");
    reaudit(d->getParameters(), kn + ":" + opn, hist);
  }
}

void internalSimplex(vrt::Case& c)
{
  vrt::Rng& r = c.rng;
  size_t dim = static_cast<size_t>(r.range(1, 6));
  unsigned short method = static_cast<unsigned short>(r.range(1, 3));
  bool allowNull = r.chance(0.5), fromProbas = r.chance(0.6);
  vector<double> pr = randomProbas(r, dim, r.chance(0.4));
  string hist = fromProbas ? "Simplex(" + vrt::vecStr(pr) + "," + str(method) + "," + str(allowNull) + ")" : "Simplex(dim " + str(dim) + "," + str(method) + "," + str(allowNull) + ")";
  const string kn = "Simplex:m" + str(method) + (allowNull ? ":closed" : ":open");
  vrt::describe("internal:" + kn, hist);
  vrt::step(hist);
  unique_ptr<Simplex> sx;
  vrt::Outcome o = vrt::capture([&] { if (fromProbas) sx.reset(new Simplex(pr, method, allowNull)); else sx.reset(new Simplex(dim, method, allowNull)); });
  vrt::counted("internal.no-abort");
  vrt::tally("internal:" + kn + ":ctor:" + (o.returned() ? "returned" : o.type));
  if (!sx) { vrt::cover("internal:" + kn + ":ctor-raised"); return; }
  vrt::cover("internal:" + kn + ":ctor");
  reaudit(sx->getParameters(), kn + ":ctor", hist);
  size_t nops = static_cast<size_t>(r.range(1, 5));
  for (size_t s = 0; s < nops && vrt::violationsInCase() == 0; ++s)
  {
    const ParameterList& pl = sx->getParameters();
    int k = static_cast<int>(r.below(10));
    string opn, text;
    vrt::Outcome oo;
    if (k < 4)
    {
      vector<double> q = randomProbas(r, dim, r.chance(0.4));
      opn = "setFrequencies";
      text = "setFrequencies(" + vrt::vecStr(q) + ")";
      hist += " ; " + text;
      vrt::step(text);
      oo = vrt::capture([&] { sx->setFrequencies(q); });
    }
    else if (k < 7 && pl.size() > 0)
    {
      size_t i = r.below(pl.size());
      double v = pickFor(pl[i], r, 1);
      string sn = sx->getParameterNameWithoutNamespace(pl[i].getName());
      opn = "setParameterValue";
      text = "setParameterValue('" + sn + "'," + str(v) + ")";
      hist += " ; " + text;
      vrt::step(text);
      oo = vrt::capture([&] { sx->setParameterValue(sn, v); });
    }
    else if (k < 9 && pl.size() > 0)
    {
      ParameterList args;
      for (size_t i = 0; i < pl.size(); ++i)
        if (r.chance(0.7))
        {
          double v = pickFor(pl[i], r, 1);
          args.addParameter(Parameter(pl[i].getName(), v));
          text += pl[i].getName() + "<-" + str(v) + " ";
        }
      opn = "matchParametersValues";
      text = opn + "(" + text + ")";
      hist += " ; " + text;
      vrt::step(text);
      oo = vrt::capture([&] { sx->matchParametersValues(args); });
    }
    else
    {
      opn = "clone";
      text = "replaced by its clone";
      hist += " ; " + text;
      vrt::step(text);
      oo = vrt::capture([&] { unique_ptr<Simplex> cl(sx->clone()); sx = move(cl); });
    }
    vrt::cover("internal:" + kn + ":" + opn + ":" + (oo.returned() ? "returned" : "raised"));
    vrt::counted("internal.no-abort");
    reaudit(sx->getParameters(), kn + ":" + opn, hist);
  }
}

void internalHmm(vrt::Case& c)
{
  vrt::Rng& r = c.rng;
  size_t n = static_cast<size_t>(r.range(2, 4));
  string hist = "FullHmmTransitionMatrix(" + str(n) + " states)";
  const string kn = "FullHmmTransitionMatrix";
  vrt::describe("internal:" + kn, hist);
  vrt::step(hist);
  shared_ptr<const HmmStateAlphabet> alpha(new TestAlphabet(n));
  unique_ptr<FullHmmTransitionMatrix> tm;
  vrt::Outcome o = vrt::capture([&] { tm.reset(new FullHmmTransitionMatrix(alpha, r.chance(0.5) ? "" : "hmm.")); });
  vrt::counted("internal.no-abort");
  if (!tm) { vrt::cover("internal:" + kn + ":ctor-raised"); return; }
  vrt::cover("internal:" + kn + ":ctor");
  reaudit(tm->getParameters(), kn + ":ctor", hist);
  size_t nops = static_cast<size_t>(r.range(1, 4));
  for (size_t s = 0; s < nops && vrt::violationsInCase() == 0; ++s)
  {
    const ParameterList& pl = tm->getParameters();
    int k = static_cast<int>(r.below(10));
    string opn, text;
    vrt::Outcome oo;
    if (k < 5)
    {
      RowMatrix<double> m(n, n);
      text = "";
      bool zeros = r.chance(0.3);
      for (size_t i = 0; i < n; ++i)
      {
        vector<double> row = randomProbas(r, n, zeros);
        for (size_t j = 0; j < n; ++j) m(i, j) = row[j];
        text += vrt::vecStr(row) + " ";
      }
      opn = "setTransitionProbabilities";
      text = opn + "(" + text + ")";
      hist += " ; " + text;
      vrt::step(text);
      oo = vrt::capture([&] { tm->setTransitionProbabilities(m); (void)tm->getPij(); });
    }
    else if (k < 8 && pl.size() > 0)
    {
      size_t i = r.below(pl.size());
      double v = pickFor(pl[i], r, 1);
      string sn = tm->getParameterNameWithoutNamespace(pl[i].getName());
      opn = "setParameterValue";
      text = "setParameterValue('" + sn + "'," + str(v) + ")";
      hist += " ; " + text;
      vrt::step(text);
      oo = vrt::capture([&] { tm->setParameterValue(sn, v); (void)tm->getPij(); });
    }
    else
    {
      opn = "copy";
      text = "replaced by its copy";
      hist += " ; " + text;
      vrt::step(text);
      oo = vrt::capture([&] { unique_ptr<FullHmmTransitionMatrix> cl(tm->clone()); tm = move(cl); });
    }
    vrt::cover("internal:" + kn + ":" + opn + ":" + (oo.returned() ? "returned" : "raised"));
    vrt::counted("internal.no-abort");
    reaudit(tm->getParameters(), kn + ":" + opn, hist);
  }
}

void internalWrapper(vrt::Case& c)
{
  vrt::Rng& r = c.rng;
  vector<PSpec> specs = randomSpecs(r, static_cast<size_t>(r.range(1, 4)), true);
  string hist = "ReparametrizationFunctionWrapper over f(" + specsText(specs) + ")";
  const string kn = "ReparametrizationFunctionWrapper";
  vrt::describe("internal:" + kn, hist);
  vrt::step(hist);
  shared_ptr<BoxFunction> f(new BoxFunction(specs));
  shared_ptr<ReparametrizationFunctionWrapper> fw;
  vrt::Outcome o = vrt::capture([&] { fw.reset(new ReparametrizationFunctionWrapper(f, false)); });
  vrt::counted("internal.no-abort");
  vrt::tally("internal:" + kn + ":ctor:" + (o.returned() ? "returned" : o.type));
  if (!fw) { vrt::cover("internal:" + kn + ":ctor-raised"); return; }
  vrt::cover("internal:" + kn + ":ctor");
  reaudit(f->getParameters(), kn + ":ctor", hist);
  size_t nops = static_cast<size_t>(r.range(1, 6));
  for (size_t s = 0; s < nops && vrt::violationsInCase() == 0; ++s)
  {
    const ParameterList& pl = fw->getParameters();
    if (pl.size() == 0) break;
    auto tv = [&]() -> double {
        int k = static_cast<int>(r.below(6));
        return normZero(k == 0 ? r.real(-1, 1) : k == 1 ? r.real(-40, 40) : k == 2 ? 800.0 : k == 3 ? -800.0 : k == 4 ? r.real(-20, -15) : r.real(15, 20));
      };
    int k = static_cast<int>(r.below(3));
    string opn, text;
    vrt::Outcome oo;
    if (k == 0)
    {
      size_t i = r.below(pl.size());
      double v = tv();
      opn = "setParameterValue";
      text = "wrapper.setParameterValue('" + pl[i].getName() + "'," + str(v) + ")";
      hist += " ; " + text;
      vrt::step(text);
      string nm = pl[i].getName();
      oo = vrt::capture([&] { fw->setParameterValue(nm, v); (void)fw->getValue(); });
    }
    else
    {
      ParameterList args;
      for (size_t i = 0; i < pl.size(); ++i)
        if (r.chance(0.7))
        {
          double v = tv();
          args.addParameter(Parameter(pl[i].getName(), v));
          text += pl[i].getName() + "<-" + str(v) + " ";
        }
      opn = k == 1 ? "setParameters" : "f";
      text = "wrapper." + opn + "(" + text + ")";
      hist += " ; " + text;
      vrt::step(text);
      oo = vrt::capture([&] { if (k == 1) fw->setParameters(args); else (void)fw->f(args); });
    }
    vrt::cover("internal:" + kn + ":" + opn + ":" + (oo.returned() ? "returned" : "raised"));
    vrt::counted("internal.no-abort");
    reaudit(f->getParameters(), kn + ":" + opn, hist);
  }
}

void internalOptimizer(vrt::Case& c)
{
  vrt::Rng& r = c.rng;
  int kind = static_cast<int>(r.below(9));
  static const char* names[] = { "Powell", "DownhillSimplex", "SimpleMultiDimensions", "Bfgs", "ConjugateGradient", "SimpleNewtonMultiDimensions", "BrentOneDimension", "GoldenSectionSearch", "NewtonOneDimension" };
  const string kn = string("Optimizer:") + names[kind];
  bool oneD = kind >= 6;
  vector<PSpec> specs = randomSpecs(r, oneD ? 1 : static_cast<size_t>(r.range(1, 3)), false);
  int pol = static_cast<int>(r.below(10));
  string policy = pol < 7 ? AutoParameter::CONSTRAINTS_AUTO : pol < 9 ? AutoParameter::CONSTRAINTS_KEEP : AutoParameter::CONSTRAINTS_IGNORE;
  bool wrap = !oneD && kind <= 2 && r.chance(0.25);
  string hist = kn + " policy " + policy + (wrap ? " over a reparametrized" : " over") + " f(" + specsText(specs) + ")";
  vrt::describe("internal:" + kn + ":" + policy, hist);
  vrt::step(hist);
  shared_ptr<BoxFunction> f(new BoxFunction(specs));
  shared_ptr<FunctionInterface> target = f;
  if (wrap)
  {
    vrt::Outcome w = vrt::capture([&] { target.reset(new ReparametrizationFunctionWrapper(f, false)); });
    if (!w.returned()) { vrt::counted("internal.no-abort"); reaudit(f->getParameters(), kn + ":wrap", hist); return; }
  }
  unique_ptr<OptimizerInterface> opt;
  vrt::Outcome o = vrt::capture([&] {
        switch (kind)
        {
        case 0: opt.reset(new PowellMultiDimensions(target)); break;
        case 1: opt.reset(new DownhillSimplexMethod(target)); break;
        case 2: opt.reset(new SimpleMultiDimensions(target)); break;
        case 3: opt.reset(new BfgsMultiDimensions(f)); break;
        case 4: opt.reset(new ConjugateGradientMultiDimensions(f)); break;
        case 5: opt.reset(new SimpleNewtonMultiDimensions(f)); break;
        case 6:
        {
          BrentOneDimension* b = new BrentOneDimension(target);
          opt.reset(b);
          b->setInitialInterval(specs[0].init - r.real(0.1, 2), specs[0].init + r.real(0.1, 2));
          break;
        }
        case 7:
        {
          GoldenSectionSearch* g = new GoldenSectionSearch(target);
          opt.reset(g);
          g->setInitialInterval(specs[0].init - r.real(0.1, 2), specs[0].init + r.real(0.1, 2));
          break;
        }
        default: opt.reset(new NewtonOneDimension(f));
        }
        opt->setConstraintPolicy(policy);
        opt->setVerbose(0);
        opt->setProfiler(nullptr);
        opt->setMessageHandler(nullptr);
        opt->setMaximumNumberOfEvaluations(static_cast<unsigned int>(r.range(20, 150)));
        opt->init(target->getParameters());
        opt->optimize();
      });
  vrt::counted("internal.no-abort");
  vrt::cover("internal:" + kn + ":" + policy + ":" + (o.returned() ? "returned" : "raised") + (wrap ? ":wrapped" : ""));
  vrt::tally("internal:" + kn + ":" + policy + ":" + (o.returned() ? "returned" : o.type));
  reaudit(f->getParameters(), kn + ":" + policy + ":function-parameters", hist);
  // with the "ignore" policy the optimizer's own working copies carry no constraint; with the others they must respect theirs
  if (opt) { vrt::Outcome g = vrt::capture([&] { reaudit(opt->getParameters(), kn + ":" + policy + ":optimizer-parameters", hist); }); (void)g; }
}

void caseInternal(vrt::Case& c)
{
  vrt::installParameterAudit("audit.parameter");
  switch (c.index % 8)
  {
  case 0: case 1: case 2: internalDistribution(c); break;
  case 3: internalSimplex(c); break;
  case 4: internalHmm(c); break;
  case 5: internalWrapper(c); break;
  default: internalOptimizer(c);
  }
  vrt::tally("parameter-audits-seen", 0);
}
} // namespace

int main(int argc, char** argv)
{
  const size_t nI = nGridIntervals();
  const size_t nDescEnum = lowerTexts().size() * 4;
  vector<vrt::Group> groups = {
    { "interval-membership", nI, nI, caseMembership, 600, true },
    { "interval-intersection", nI, nI, caseIntersection, 900, true },
    { "description", nDescEnum + 2000, nDescEnum + 100000, caseDescription, 600, false },
    { "history", 60000, 1000000, caseHistory, 2400, false },
    { "auto", 40000, 800000, caseAuto, 900, false },
    { "internal", 4000, 100000, caseInternal, 1200, false },
  };
  vrt::Meta meta;
  meta.rule = "interval-membership: every interval with bounds from the grid {-inf,-1e3,-1,-1e-9,0,1e-9,1,1+ulp,2,1e3,+inf} (ordered, reversed, equal) and the four open/closed "
      "combinations, judged on every finite test value (grid, midpoints, both floating-point neighbours of every finite grid value): every order type of {lower, upper, value}; "
      "interval-intersection: all ordered pairs of these intervals, operator& and operator&=; description: every lower text x upper text x bracket combination of the documented "
      "syntax plus random exactly representable decimals, plus malformed texts (no-abort only); history: random histories (1..30 operations) over 4 stand-alone parameters, a "
      "ParameterList and an AbstractParametrizable owner, values drawn on / next to / far from the bounds of the constraint in force, against a shadow (value, constraint) model; "
      "auto: AutoParameter under intervals at least 1e-9 (and 100 precision steps) wide, finite requests |x|<=1e3 through the direct, copied, assigned and list routes; internal: "
      "library objects that create parameters themselves, with the audit hook of Parameter.cpp installed. A class key = (route, order type of the value relative to the bounds, "
      "open/closed flags, zero value, raised or not) resp. (relation of the two lower bounds, relation of the two upper bounds) resp. (library class, operation, outcome); "
      "every key involves a constrained update or an interval operation, none is trivial.";
  meta.assumptions = {
    "test values and requested values are finite doubles (NaN and infinite values are outside the quantifier)",
    "isEmpty is not judged for equal infinite bounds (no real but one double is accepted)",
    "constraint objects are not mutated while parameters point to them (the invariant cannot be kept by Parameter members then)",
    "histories use precision 0 except for 12% of the constructed parameters; an update closer than precision/2 to the current value may be ignored or applied, and may or may not raise when rejected",
    "after a bulk list update that raised, only the rejected parameters are required to be unchanged (whole-list atomicity is property C02)",
    "constraints are compared by content (bounds and flags), not by object identity",
    "AutoParameter: landing point compared within 4 ulp with bound +/- constraint precision; the value constructor may raise for a rejected initial value",
    "internal group: any bpp or std exception is accepted from the library objects; only aborts, hook offences and parameters left outside their constraint are reported",
    "malformed descriptions: any exception or value accepted (crash freedom only)",
  };
  meta.requiredClauses = { "interval.isCorrect", "interval.includes", "interval.isEmpty", "interval.intersection", "interval.intersection-isEmpty", "description.parse",
                           "history.rejected-raises", "history.accepted-returns", "history.unchanged-on-raise", "history.state", "history.invariant",
                           "auto.never-raises", "auto.nearest", "auto.invariant", "auto.limit", "internal.owner-invariant", "internal.no-abort" };
  return vrt::run(argc, argv, "C01", groups, meta);
}
